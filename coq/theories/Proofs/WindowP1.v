(* C27, part 1: the value sem_wextend writes at a row is the window function over that row's OWN partition, read in the
   declared order, at the row's position in that order; and that ordered partition is sorted and is a permutation of the
   partition.  Every statement is for all tables, window specifications and flavours. *)
From Coq Require Import List Bool Arith ZArith QArith String Lia Permutation Sorted.
Import ListNotations.
From DA Require Import Base.PyRT Base.Val Model.Sem Model.WindowSpec Proofs.SemBasicP Proofs.SemOrderP.

(* ---------- cells written by a fold of assignments *)
Lemma index_of_app_r_fresh c cs : mem c cs = false -> index_of c (cs ++ [c]) = Some (List.length cs).
Proof.
  induction cs as [|x t IH]; simpl; intros M.
  - destruct (eq_dec c c); [reflexivity|congruence].
  - destruct (eq_dec c x); [discriminate|]. rewrite (IH M). reflexivity.
Qed.

Lemma set_cell_get_same ccs row k v :
  List.length row = List.length ccs -> get (add_end ccs k) (set_cell ccs row k v) k = v.
Proof.
  intros L. unfold set_cell, add_end, get. destruct (index_of k ccs) as [i|] eqn:E.
  - rewrite (index_of_Some_mem _ _ _ E), E. apply nth_set_nth_same. rewrite L. eapply index_of_lt; eassumption.
  - apply index_of_None in E. rewrite E, (index_of_app_r_fresh _ _ E), <- L.
    rewrite app_nth2, Nat.sub_diag; [reflexivity|lia].
Qed.

Section FoldAssigned.
  Context {X : Type} (F : string * X -> val).
  Let step := (fun (acc : list val * list string) (ke : string * X) =>
                 let '(row, ccs) := acc in (set_cell ccs row (fst ke) (F ke), add_end ccs (fst ke))).

  Lemma fold_cells_get_assigned l : forall row ccs ke,
    List.length row = List.length ccs -> NoDup (map fst l) -> In ke l ->
    get (ext_cols ccs (map fst l)) (fst (fold_left step l (row, ccs))) (fst ke) = F ke.
  Proof.
    induction l as [|ke0 l IH]; intros row ccs ke L N I; [destruct I|].
    simpl in N. inversion N as [|? ? Nk Nl]; subst.
    assert (List.length (set_cell ccs row (fst ke0) (F ke0)) = List.length (add_end ccs (fst ke0))) as L' by (apply set_cell_length; exact L).
    change (get (ext_cols (add_end ccs (fst ke0)) (map fst l))
                (fst (fold_left step l (set_cell ccs row (fst ke0) (F ke0), add_end ccs (fst ke0)))) (fst ke) = F ke).
    destruct I as [->|I].
    - pose proof (fold_cells_get F l (set_cell ccs row (fst ke) (F ke)) (add_end ccs (fst ke)) (fst ke) L') as G.
      etransitivity; [apply G; [apply In_add_end; right; reflexivity|exact Nk]|]. apply set_cell_get_same. exact L.
    - apply IH; assumption.
  Qed.
End FoldAssigned.

(* ---------- tagged rows *)
Lemma tag_from_In_nth n rs m r : In (m, r) (tag_from n rs) -> (n <= m)%nat /\ nth_error rs (m - n) = Some r.
Proof.
  revert n. induction rs as [|x t IH]; intros n H; [destruct H|]. simpl in H. destruct H as [E|H].
  - inversion E; subst. split; [lia|]. rewrite Nat.sub_diag. reflexivity.
  - apply IH in H. destruct H as [H1 H2]. split; [lia|]. replace (m - n)%nat with (S (m - S n)) by lia. exact H2.
Qed.

Lemma tag_from_map_fst n rs : map fst (tag_from n rs) = seq n (List.length rs).
Proof. revert n. induction rs as [|x t IH]; intros n; simpl; [reflexivity|]. rewrite IH. reflexivity. Qed.

Lemma tag_from_map_snd n rs : map snd (tag_from n rs) = rs.
Proof. revert n. induction rs as [|x t IH]; intros n; simpl; [reflexivity|]. rewrite IH. reflexivity. Qed.

Lemma NoDup_map_filter {A B} (g : A -> B) (f : A -> bool) l : NoDup (map g l) -> NoDup (map g (filter f l)).
Proof.
  induction l as [|a t IH]; simpl; intros N; [constructor|]. inversion N as [|? ? Na Nt]; subst.
  destruct (f a); simpl; [constructor|]; auto.
  intros I. apply Na. apply in_map_iff in I. destruct I as [x [E Ix]]. apply in_map_iff. exists x. split; [exact E|].
  apply filter_In in Ix. tauto.
Qed.

(* ---------- keys_eqv is a congruence *)
Lemma keys_eqv_cong_l a b c : keys_eqv a b = true -> keys_eqv a c = keys_eqv b c.
Proof.
  intros E. destruct (keys_eqv a c) eqn:A; destruct (keys_eqv b c) eqn:B; try reflexivity.
  - rewrite SemBasicP.keys_eqv_sym in E. rewrite (SemBasicP.keys_eqv_trans _ _ _ E A) in B. discriminate.
  - rewrite (SemBasicP.keys_eqv_trans _ _ _ E B) in A. discriminate.
Qed.

(* ---------- looking a position up in the concatenated window column *)
Definition tag_is (i : nat) (p : nat * val) : bool := Nat.eqb (fst p) i.

Lemma find_app {A} (f : A -> bool) l1 l2 : find f (l1 ++ l2) = match find f l1 with Some x => Some x | None => find f l2 end.
Proof. induction l1 as [|a t IH]; simpl; [reflexivity|]. destruct (f a); [reflexivity|exact IH]. Qed.

Lemma find_none_notin i (l : list (nat * val)) : ~ In i (map fst l) -> find (tag_is i) l = None.
Proof.
  induction l as [|[n v] t IH]; simpl; intros N; [reflexivity|]. unfold tag_is at 1. simpl.
  destruct (Nat.eqb n i) eqn:E; [apply Nat.eqb_eq in E; exfalso; apply N; left; exact E|]. apply IH. intros H. apply N. right. exact H.
Qed.

Lemma combine_fst_sub {A B} (a : list A) (b : list B) x : In x (map fst (combine a b)) -> In x a.
Proof.
  revert b. induction a as [|y t IH]; intros [|z u]; simpl; try tauto. intros [E|H]; [left; exact E|right; eapply IH; exact H].
Qed.

Lemma find_combine i tags : forall vals j, NoDup tags -> nth_error tags j = Some i ->
  find (tag_is i) (combine tags vals) = match nth_error vals j with Some v => Some (i, v) | None => None end.
Proof.
  induction tags as [|n t IH]; intros vals j N E; [destruct j; discriminate|].
  inversion N as [|? ? Nn Nt]; subst. destruct vals as [|v u].
  - simpl. destruct j; reflexivity.
  - destruct j as [|j]; simpl in E.
    + inversion E; subst. simpl. unfold tag_is at 1. simpl. rewrite Nat.eqb_refl. reflexivity.
    + simpl. unfold tag_is at 1. simpl. destruct (Nat.eqb n i) eqn:En.
      * apply Nat.eqb_eq in En. subst. exfalso. apply Nn. eapply nth_error_In; eassumption.
      * apply IH; assumption.
Qed.

(* ---------- the partition of a row, tagged *)
Lemma part_tagged_In cs pk rs r m r' :
  In (m, r') (part_tagged cs pk rs r) <-> nth_error rs m = Some r' /\ same_part cs pk r r' = true.
Proof.
  unfold part_tagged. rewrite filter_In. simpl. split.
  - intros [H S]. apply tag_from_In_nth in H. rewrite Nat.sub_0_r in H. tauto.
  - intros [H S]. split; [|exact S]. apply (tag_from_nth_error 0) in H. simpl in H. eapply nth_error_In; eassumption.
Qed.

Lemma part_tagged_NoDup cs pk rs r : NoDup (map fst (part_tagged cs pk rs r)).
Proof. unfold part_tagged. apply NoDup_map_filter. rewrite tag_from_map_fst. apply seq_NoDup. Qed.

Lemma same_part_refl cs pk r : same_part cs pk r r = true.
Proof. apply SemBasicP.keys_eqv_refl. Qed.

Lemma tle_total fl cs keys a b : tle fl cs keys a b = true \/ tle fl cs keys b a = true.
Proof. apply row_le_total. Qed.
Lemma tle_trans fl cs keys a b c : tle fl cs keys a b = true -> tle fl cs keys b c = true -> tle fl cs keys a c = true.
Proof. apply row_le_trans. Qed.

Lemma sorted_tagged_perm fl cs w rs r : Permutation (sorted_tagged fl cs w rs r) (part_tagged cs (w_part w) rs r).
Proof. apply stable_sort_perm. Qed.

Lemma sorted_tagged_NoDup fl cs w rs r : NoDup (map fst (sorted_tagged fl cs w rs r)).
Proof.
  eapply Permutation_NoDup; [apply Permutation_sym, Permutation_map, sorted_tagged_perm|]. apply part_tagged_NoDup.
Qed.

Lemma sorted_tagged_In fl cs w rs r m r' :
  In (m, r') (sorted_tagged fl cs w rs r) <-> nth_error rs m = Some r' /\ same_part cs (w_part w) r r' = true.
Proof.
  rewrite <- part_tagged_In. split; intros H.
  - eapply Permutation_in; [apply sorted_tagged_perm|exact H].
  - eapply Permutation_in; [apply Permutation_sym, sorted_tagged_perm|exact H].
Qed.

(* ---------- the window column at the tag of a row *)
Section Column.
  Variables (fl : flavor) (w : window) (t : table).
  Let cs := cols t.
  Let pk := w_part w.

  (* what one group contributes *)
  Definition group_cells (e : expr) (k : list val) : list (nat * val) :=
    let part := filter (fun ir => keys_eqv k (key_of cs pk (snd ir))) (tag_from 0 (rows t)) in
    let sorted := stable_sort (fun a b => row_le fl cs (okeys_of w) (snd a) (snd b)) part in
    match win_parts e with
    | Some (op, arg, extra) =>
        let vs := map (fun ir => match arg with Some a => eval_expr fl cs (snd ir) a | None => VBool true end) sorted in
        combine (map fst sorted) (win_fn fl op extra vs)
    | None => map (fun ir => (fst ir, VNull)) sorted
    end.

  Lemma window_column_groups e :
    window_column fl w t e = flat_map (group_cells e) (distinct_keys (map (fun r => key_of cs pk r) (rows t))).
  Proof. reflexivity. Qed.

  (* a group whose key is not equivalent to the row's key does not mention the row's tag *)
  Lemma group_cells_other e k i r :
    nth_error (rows t) i = Some r -> keys_eqv k (key_of cs pk r) = false -> ~ In i (map fst (group_cells e k)).
  Proof.
    intros Hr Hk I. unfold group_cells in I.
    set (part := filter (fun ir => keys_eqv k (key_of cs pk (snd ir))) (tag_from 0 (rows t))) in *.
    set (sorted := stable_sort (fun a b => row_le fl cs (okeys_of w) (snd a) (snd b)) part) in *.
    assert (In i (map fst sorted)) as Is.
    { destruct (win_parts e) as [[[op arg] extra]|].
      - eapply combine_fst_sub. exact I.
      - rewrite map_map in I. simpl in I. exact I. }
    apply in_map_iff in Is. destruct Is as [[m r'] [E Is]]. simpl in E. subst m.
    apply stable_sort_In in Is. unfold part in Is. apply filter_In in Is. simpl in Is. destruct Is as [It Ik].
    apply tag_from_In_nth in It. rewrite Nat.sub_0_r in It. destruct It as [_ It]. rewrite Hr in It. inversion It; subst.
    congruence.
  Qed.

  Lemma find_flat_other e ks i r :
    nth_error (rows t) i = Some r -> (forall k, In k ks -> keys_eqv k (key_of cs pk r) = false) ->
    find (tag_is i) (flat_map (group_cells e) ks) = None.
  Proof.
    intros Hr H. apply find_none_notin. intros I. apply in_map_iff in I. destruct I as [p [E I]].
    apply in_flat_map in I. destruct I as [k [Ik I]].
    apply (group_cells_other e k i r Hr (H k Ik)). apply in_map_iff. exists p. split; assumption.
  Qed.

  (* the group of the row's own key is the row's partition *)
  Lemma group_cells_own e k r op arg extra :
    keys_eqv k (key_of cs pk r) = true -> win_parts e = Some (op, arg, extra) ->
    group_cells e k = combine (map fst (sorted_tagged fl cs w (rows t) r))
                              (win_fn fl op extra (map (fun ir => arg_val fl cs arg (snd ir)) (sorted_tagged fl cs w (rows t) r))).
  Proof.
    intros Hk Hp. unfold group_cells. rewrite Hp.
    assert (filter (fun ir => keys_eqv k (key_of cs pk (snd ir))) (tag_from 0 (rows t)) = part_tagged cs pk (rows t) r) as E.
    { unfold part_tagged, same_part. apply filter_ext. intros ir. rewrite SemBasicP.keys_eqv_sym in Hk.
      symmetry. apply keys_eqv_cong_l. exact Hk. }
    rewrite E. reflexivity.
  Qed.

  Lemma window_column_at e op arg extra i r j :
    win_parts e = Some (op, arg, extra) ->
    nth_error (rows t) i = Some r ->
    nth_error (map fst (sorted_tagged fl cs w (rows t) r)) j = Some i ->
    lookup_pos (window_column fl w t e) i =
      nth j (win_fn fl op extra (map (fun ir => arg_val fl cs arg (snd ir)) (sorted_tagged fl cs w (rows t) r))) VNull.
  Proof.
    intros Hp Hr Hj. rewrite window_column_groups.
    set (keys := map (fun r0 => key_of cs pk r0) (rows t)).
    destruct (distinct_keys_complete keys (key_of cs pk r)) as [k [Ik Ek]].
    { unfold keys. apply in_map_iff. exists r. split; [reflexivity|]. eapply nth_error_In; eassumption. }
    destruct (in_split _ _ Ik) as [g1 [g2 Eg]].
    pose proof (distinct_keys_pairwise keys) as FP. rewrite Eg in FP.
    assert (forall k', In k' g1 -> keys_eqv k' (key_of cs pk r) = false) as H1.
    { intros k' I'. destruct (keys_eqv k' (key_of cs pk r)) eqn:E'; [|reflexivity]. exfalso.
      clear - FP I' E' Ek. induction g1 as [|a g IH]; [destruct I'|]. simpl in FP. inversion FP as [|? ? Fa Fg]; subst.
      destruct I' as [->|I'].
      - rewrite Forall_forall in Fa. specialize (Fa k). rewrite in_app_iff in Fa. specialize (Fa (or_intror (or_introl eq_refl))).
        rewrite SemBasicP.keys_eqv_sym in Ek. rewrite (SemBasicP.keys_eqv_trans _ _ _ E' Ek) in Fa. discriminate.
      - apply IH; assumption. }
    assert (forall k', In k' g2 -> keys_eqv k' (key_of cs pk r) = false) as H2.
    { intros k' I'. destruct (keys_eqv k' (key_of cs pk r)) eqn:E'; [|reflexivity]. exfalso.
      assert (ForallOrdPairs (fun a b => keys_eqv a b = false) (k :: g2)) as F2.
      { clear - FP. induction g1 as [|a g IH]; [exact FP|]. simpl in FP. inversion FP; subst. apply IH. assumption. }
      inversion F2 as [|? ? Fa Fg]; subst. rewrite Forall_forall in Fa. specialize (Fa k' I').
      rewrite SemBasicP.keys_eqv_sym in E'. rewrite (SemBasicP.keys_eqv_trans _ _ _ Ek E') in Fa. discriminate. }
    unfold lookup_pos. change (fun p : nat * val => Nat.eqb (fst p) i) with (tag_is i).
    rewrite Eg, flat_map_app. cbn [flat_map]. rewrite !find_app.
    rewrite (find_flat_other e g1 i r Hr H1), (group_cells_own e k r op arg extra Ek Hp).
    rewrite (find_combine i _ _ j (sorted_tagged_NoDup fl cs w (rows t) r) Hj).
    set (vals := win_fn fl op extra (map (fun ir => arg_val fl cs arg (snd ir)) (sorted_tagged fl cs w (rows t) r))).
    destruct (nth_error vals j) as [v|] eqn:En.
    - symmetry. apply nth_error_nth. exact En.
    - rewrite (find_flat_other e g2 i r Hr H2). symmetry. apply nth_overflow. apply nth_error_None. exact En.
  Qed.
End Column.

(* ---------- theorem 1: each row's value is the window function over its own ordered partition *)
Theorem window_value_over_own_partition :
  forall (fl : flavor) (ops : list (string * expr)) (w : window) (t : table)
         (k : string) (e : expr) (op : string) (arg : option expr) (extra : list val) (i : nat) (r : list val),
  wf_table t -> NoDup (map fst ops) -> In (k, e) ops -> win_parts e = Some (op, arg, extra) ->
  nth_error (rows t) i = Some r ->
  let srt := sorted_tagged fl (cols t) w (rows t) r in
  let vs := map (fun ir => arg_val fl (cols t) arg (snd ir)) srt in
  exists j r',
    nth_error srt j = Some (i, r)
    /\ (forall j', nth_error (map fst srt) j' = Some i -> j' = j)
    /\ nth_error (rows (sem_wextend fl ops w t)) i = Some r'
    /\ get (ext_cols (cols t) (map fst ops)) r' k = nth j (win_fn fl op extra vs) VNull.
Proof.
  intros fl ops w t k e op arg extra i r [_ W] N I Hp Hr srt vs.
  assert (In (i, r) srt) as Ii by (apply sorted_tagged_In; split; [exact Hr|apply same_part_refl]).
  destruct (In_nth_error _ _ Ii) as [j Hj].
  assert (nth_error (map fst srt) j = Some i) as Hj' by (rewrite nth_error_map, Hj; reflexivity).
  set (wcols := map (fun ke : string * expr => (fst ke, window_column fl w t (snd ke))) ops).
  exists j, (fst (fold_left (fun (acc : list val * list string) (kc : string * list (nat * val)) =>
                               let '(row, ccs) := acc in (set_cell ccs row (fst kc) (lookup_pos (snd kc) i), add_end ccs (fst kc)))
                            wcols (r, cols t))).
  split; [exact Hj|]. split.
  - intros j' H'. pose proof (sorted_tagged_NoDup fl (cols t) w (rows t) r) as ND. fold srt in ND.
    rewrite NoDup_nth_error in ND. apply ND; [|congruence]. apply nth_error_Some. congruence.
  - split.
    + unfold sem_wextend. cbn [rows]. rewrite nth_error_map, (tag_from_nth_error 0 _ _ _ Hr). reflexivity.
    + rewrite Forall_forall in W. assert (List.length r = List.length (cols t)) as L by (apply W; eapply nth_error_In; eassumption).
      assert (In (k, window_column fl w t e) wcols) as Iw.
      { unfold wcols. apply in_map_iff. exists (k, e). split; [reflexivity|exact I]. }
      assert (map fst wcols = map fst ops) as Em by (unfold wcols; apply (map_fst_tagged (fun ke => window_column fl w t (snd ke)))).
      pose proof (fold_cells_get_assigned (fun kc : string * list (nat * val) => lookup_pos (snd kc) i) wcols r (cols t)
                    (k, window_column fl w t e) L) as G.
      rewrite Em in G. specialize (G N Iw). cbn [fst snd] in G.
      etransitivity; [exact G|].
      apply (window_column_at fl w t e op arg extra i r j Hp Hr Hj').
Qed.

(* ---------- theorem 2: the ordered partition is the partition, in the declared order *)
Theorem partition_sorted_in_declared_order :
  forall (fl : flavor) (w : window) (t : table) (r : list val),
  let srt := sorted_tagged fl (cols t) w (rows t) r in
  StronglySorted (fun a b => row_le fl (cols t) (okeys_of w) (snd a) (snd b) = true) srt
  /\ Permutation srt (part_tagged (cols t) (w_part w) (rows t) r)
  /\ (forall m r', In (m, r') srt <-> nth_error (rows t) m = Some r' /\ keys_eqv (key_of (cols t) (w_part w) r) (key_of (cols t) (w_part w) r') = true).
Proof.
  intros fl w t r srt. split; [|split].
  - apply (stable_sort_sorted (tle fl (cols t) (okeys_of w))); [intros; apply tle_total|intros; eapply tle_trans; eassumption].
  - apply sorted_tagged_perm.
  - intros m r'. apply sorted_tagged_In.
Qed.

(* the declared direction, made explicit on the FIRST order column: for two rows of the sorted partition whose values in that
   column are non-null and different, the earlier row has the smaller value -- the LARGER one when the column is reversed *)
Lemma first_key_direction fl cs c d keys r1 r2 :
  row_le fl cs ((c, d) :: keys) r1 r2 = true ->
  get cs r1 c <> VNull -> get cs r2 c <> VNull -> v_eqv (get cs r1 c) (get cs r2 c) = false ->
  (if d then v_le (get cs r2 c) (get cs r1 c) else v_le (get cs r1 c) (get cs r2 c)) = true.
Proof.
  cbn [row_le]. intros H N1 N2 E. rewrite E in H. unfold v_le_dir in H.
  destruct (get cs r1 c) eqn:A; [congruence|..]; destruct (get cs r2 c) eqn:B; try congruence; exact H.
Qed.

Theorem reversed_column_sorted_descending :
  forall (fl : flavor) (w : window) (t : table) (r : list val) (c : string) (rest : list string) (p q : nat) (a b : nat * list val),
  w_order w = c :: rest ->
  let srt := sorted_tagged fl (cols t) w (rows t) r in
  nth_error srt p = Some a -> nth_error srt q = Some b -> (p < q)%nat ->
  get (cols t) (snd a) c <> VNull -> get (cols t) (snd b) c <> VNull -> v_eqv (get (cols t) (snd a) c) (get (cols t) (snd b) c) = false ->
  (if mem c (w_rev w) then v_le (get (cols t) (snd b) c) (get (cols t) (snd a) c)
   else v_le (get (cols t) (snd a) c) (get (cols t) (snd b) c)) = true.
Proof.
  intros fl w t r c rest p q a b Ho srt Hp Hq Lt Na Nb E.
  destruct (partition_sorted_in_declared_order fl w t r) as [S _]. fold srt in S.
  assert (row_le fl (cols t) (okeys_of w) (snd a) (snd b) = true) as Le.
  { clear - S Hp Hq Lt. revert p q Hp Hq Lt. induction S as [|x l Sl IH Fx]; intros p q Hp Hq Lt; [destruct p; discriminate|].
    destruct q as [|q]; [lia|]. destruct p as [|p]; simpl in Hp, Hq.
    - inversion Hp; subst. rewrite Forall_forall in Fx. apply Fx. eapply nth_error_In; eassumption.
    - apply (IH p q Hp Hq). lia. }
  unfold okeys_of in Le. rewrite Ho in Le. cbn [map] in Le.
  eapply first_key_direction; eassumption.
Qed.
