(* C10, part 1: list / Forall2 facts, reading cells by name, locality of expression evaluation. *)
From Coq Require Import List Bool Arith ZArith QArith String Lia.
Import ListNotations.
From DA Require Import Base.PyRT Base.Val Model.Sem Proofs.SemBasicP Model.ColumnsUsed.
Local Open Scope list_scope.

(* ------------------------------------------------------------------ Forall2 transport *)
Lemma F2_map_eq {A B C} (R : A -> B -> Prop) (f : A -> C) (g : B -> C) l l' :
  Forall2 R l l' -> (forall x y, R x y -> f x = g y) -> map f l = map g l'.
Proof. induction 1 as [|x y l l' Rxy _ IH]; intros E; simpl; [reflexivity|]. rewrite (E _ _ Rxy), IH by exact E. reflexivity. Qed.

Lemma F2_map {A B C D} (R : A -> B -> Prop) (S : C -> D -> Prop) (f : A -> C) (g : B -> D) l l' :
  Forall2 R l l' -> (forall x y, R x y -> S (f x) (g y)) -> Forall2 S (map f l) (map g l').
Proof. induction 1 as [|x y l l' Rxy _ IH]; intros E; simpl; constructor; auto. Qed.

Lemma F2_filter {A B} (R : A -> B -> Prop) (f : A -> bool) (g : B -> bool) l l' :
  Forall2 R l l' -> (forall x y, R x y -> f x = g y) -> Forall2 R (filter f l) (filter g l').
Proof. induction 1 as [|x y l l' Rxy _ IH]; intros E; simpl; [constructor|].
  rewrite (E _ _ Rxy). destruct (g y); [constructor|]; auto. Qed.

Lemma F2_existsb {A B} (R : A -> B -> Prop) (f : A -> bool) (g : B -> bool) l l' :
  Forall2 R l l' -> (forall x y, R x y -> f x = g y) -> existsb f l = existsb g l'.
Proof. induction 1 as [|x y l l' Rxy _ IH]; intros E; simpl; [reflexivity|]. rewrite (E _ _ Rxy), IH by exact E. reflexivity. Qed.

Lemma F2_flat_map {A B C D} (R : A -> B -> Prop) (S : C -> D -> Prop) (f : A -> list C) (g : B -> list D) l l' :
  Forall2 R l l' -> (forall x y, R x y -> Forall2 S (f x) (g y)) -> Forall2 S (flat_map f l) (flat_map g l').
Proof. induction 1 as [|x y l l' Rxy _ IH]; intros E; simpl; [constructor|]. apply Forall2_app; auto. Qed.

Lemma F2_firstn {A B} (R : A -> B -> Prop) n : forall l l', Forall2 R l l' -> Forall2 R (firstn n l) (firstn n l').
Proof. induction n as [|n IH]; intros l l' H; simpl; [constructor|]. destruct H; constructor; auto. Qed.

Lemma F2_weaken {A B} (R S : A -> B -> Prop) l l' : Forall2 R l l' -> (forall x y, R x y -> S x y) -> Forall2 S l l'.
Proof. induction 1; intros E; constructor; auto. Qed.

Lemma F2_length {A B} (R : A -> B -> Prop) l l' : Forall2 R l l' -> List.length l = List.length l'.
Proof. induction 1; simpl; congruence. Qed.

Lemma F2_insert_sorted {A B} (R : A -> B -> Prop) (le : A -> A -> bool) (le' : B -> B -> bool) x y l l' :
  (forall a b c d, R a b -> R c d -> le a c = le' b d) ->
  R x y -> Forall2 R l l' -> Forall2 R (insert_sorted le x l) (insert_sorted le' y l').
Proof. intros E Rxy H. induction H as [|a b l l' Rab H0 IH]; simpl; [repeat constructor; exact Rxy|].
  rewrite (E _ _ _ _ Rxy Rab). destruct (le' y b).
  - constructor; [exact Rxy|]. constructor; assumption.
  - constructor; [exact Rab|exact IH]. Qed.

Lemma F2_stable_sort {A B} (R : A -> B -> Prop) (le : A -> A -> bool) (le' : B -> B -> bool) l l' :
  (forall a b c d, R a b -> R c d -> le a c = le' b d) ->
  Forall2 R l l' -> Forall2 R (stable_sort le l) (stable_sort le' l').
Proof. intros E H. induction H as [|a b l l' Rab _ IH]; simpl; [constructor|]. apply F2_insert_sorted; assumption. Qed.

Lemma F2_tag_from {R : list val -> list val -> Prop} n l l' :
  Forall2 R l l' -> Forall2 (fun a b => fst a = fst b /\ R (snd a) (snd b)) (tag_from n l) (tag_from n l').
Proof. intros H. revert n. induction H as [|x y l l' Rxy _ IH]; intros n; simpl; constructor; auto. Qed.

Lemma F2_refl_map {A B} (S : B -> B -> Prop) (f g : A -> B) l : (forall x, In x l -> S (f x) (g x)) -> Forall2 S (map f l) (map g l).
Proof. induction l as [|a t IH]; intros E; simpl; constructor; [apply E; left; reflexivity|]. apply IH. intros x I. apply E. right. exact I. Qed.

(* ------------------------------------------------------------------ reading cells by name *)
Lemma get_absent cs r c : mem c cs = false -> get cs r c = VNull.
Proof. intros M. unfold get. apply index_of_None in M. rewrite M. reflexivity. Qed.

Lemma get_not_In cs r c : ~ In c cs -> get cs r c = VNull.
Proof. intros N. apply get_absent. apply mem_false. exact N. Qed.

(* a row built cell by cell from its column list *)
Lemma get_map_cols (f : string -> val) cs c : get cs (map f cs) c = if mem c cs then f c else VNull.
Proof.
  unfold get. induction cs as [|x t IH]; simpl; [reflexivity|].
  destruct (eq_dec c x) as [->|n]; [reflexivity|].
  destruct (index_of c t) as [i|]; simpl in *; exact IH.
Qed.

Lemma get_app_l cs ds r s c : List.length r = List.length cs -> In c cs -> get (cs ++ ds) (r ++ s) c = get cs r c.
Proof.
  intros L I. unfold get. destruct (index_of_In c cs I) as [i E]. rewrite (index_of_app_l _ _ _ _ E), E.
  apply app_nth1. rewrite L. eapply index_of_lt; eassumption.
Qed.

Lemma index_of_app_r c cs ds : ~ In c cs -> index_of c (cs ++ ds) = option_map (fun i => (List.length cs + i)%nat) (index_of c ds).
Proof.
  intros N. induction cs as [|x t IH]; simpl.
  - destruct (index_of c ds); reflexivity.
  - destruct (eq_dec c x) as [->|n]; [exfalso; apply N; left; reflexivity|].
    rewrite IH by (intros I; apply N; right; exact I). destruct (index_of c ds); reflexivity.
Qed.

Lemma get_app_r cs ds r s c : List.length r = List.length cs -> ~ In c cs -> get (cs ++ ds) (r ++ s) c = get ds s c.
Proof.
  intros L N. unfold get. rewrite (index_of_app_r _ _ _ N). destruct (index_of c ds) as [i|]; simpl; [|reflexivity].
  rewrite app_nth2 by lia. f_equal. lia.
Qed.

(* renamed column lists: position of a name under a map that is injective where it matters *)
Lemma index_of_map_inj (f : string -> string) cs x0 :
  (forall x, In x cs -> f x = f x0 -> x = x0) -> index_of (f x0) (map f cs) = index_of x0 cs.
Proof.
  induction cs as [|x t IH]; intros Inj; simpl; [reflexivity|].
  destruct (eq_dec (f x0) (f x)) as [e|n].
  - rewrite (Inj x (or_introl eq_refl) (eq_sym e)). destruct (eq_dec x0 x0); [reflexivity|congruence].
  - destruct (eq_dec x0 x) as [->|n2]; [congruence|]. rewrite IH; [reflexivity|]. intros y I. apply Inj. right. exact I.
Qed.

(* ------------------------------------------------------------------ set_cell / cell-by-cell folds (general form) *)
Lemma set_cell_get ccs row k v c :
  List.length row = List.length ccs ->
  get (add_end ccs k) (set_cell ccs row k v) c = if eq_dec c k then v else get ccs row c.
Proof.
  intros L. destruct (eq_dec c k) as [->|n].
  - unfold set_cell, add_end, get. destruct (index_of k ccs) as [i|] eqn:Ek.
    + rewrite (index_of_Some_mem _ _ _ Ek), Ek. apply nth_set_nth_same. rewrite L. eapply index_of_lt; eassumption.
    + pose proof Ek as Ek'. apply index_of_None in Ek'. rewrite Ek'.
      rewrite index_of_app_r by (apply mem_false; exact Ek'). simpl. destruct (eq_dec k k); [|congruence]. simpl.
      rewrite app_nth2 by lia. rewrite L, Nat.add_0_r, Nat.sub_diag. reflexivity.
  - destruct (mem c ccs) eqn:M.
    + apply set_cell_get_other; [exact L|apply mem_In; exact M|exact n].
    + rewrite (get_absent ccs row c M). apply get_not_In. intros I. apply In_add_end in I. apply mem_false in M. destruct I; [tauto|congruence].
Qed.

(* the last assignment to column c in a list of (column, _) pairs *)
Fixpoint last_for {X} (c : string) (l : list (string * X)) : option (string * X) :=
  match l with
  | [] => None
  | ke :: t => match last_for c t with Some x => Some x | None => if eq_dec c (fst ke) then Some ke else None end
  end.
Lemma last_for_In {X} c (l : list (string * X)) ke : last_for c l = Some ke -> In ke l /\ fst ke = c.
Proof.
  induction l as [|a t IH]; simpl; [discriminate|]. destruct (last_for c t) as [x|].
  - intros [= <-]. destruct (IH eq_refl). split; [right|]; assumption.
  - destruct (eq_dec c (fst a)) as [e|n]; [|discriminate]. intros [= <-]. split; [left; reflexivity|symmetry; exact e].
Qed.
Lemma last_for_None {X} c (l : list (string * X)) : last_for c l = None -> ~ In c (map fst l).
Proof.
  induction l as [|a t IH]; simpl; [tauto|]. destruct (last_for c t) as [x|]; [discriminate|].
  destruct (eq_dec c (fst a)) as [e|n]; [discriminate|]. intros _ [H|H]; [congruence|]. apply IH; [reflexivity|exact H].
Qed.
Lemma last_for_map {X Y} c (g : string * X -> Y) (l : list (string * X)) :
  last_for c (map (fun ke => (fst ke, g ke)) l) = option_map (fun ke => (fst ke, g ke)) (last_for c l).
Proof.
  induction l as [|a t IH]; simpl; [reflexivity|]. rewrite IH. destruct (last_for c t); simpl; [reflexivity|].
  destruct (eq_dec c (fst a)); reflexivity.
Qed.

Lemma fold_cells_get_full {X} (F : string * X -> val) l : forall row ccs c,
  List.length row = List.length ccs ->
  get (ext_cols ccs (map fst l))
      (fst (fold_left (fun (acc : list val * list string) (ke : string * X) =>
                         let '(row, ccs) := acc in (set_cell ccs row (fst ke) (F ke), add_end ccs (fst ke))) l (row, ccs))) c
  = match last_for c l with Some ke => F ke | None => get ccs row c end.
Proof.
  induction l as [|ke l IH]; intros row ccs c L; simpl; [reflexivity|].
  unfold ext_cols in *. simpl. rewrite IH by (apply set_cell_length; exact L).
  destruct (last_for c l); [reflexivity|]. rewrite set_cell_get by exact L.
  destruct (eq_dec c (fst ke)); reflexivity.
Qed.

(* ------------------------------------------------------------------ expressions only read the columns they mention *)
Lemma eval_expr_local fl cs cs' r r' e :
  (forall x, In x (cols_used e) -> get cs r x = get cs' r' x) -> eval_expr fl cs r e = eval_expr fl cs' r' e.
Proof.
  revert e. fix IH 1. intros [c|v|o args] H.
  - simpl. apply H. left. reflexivity.
  - reflexivity.
  - simpl. f_equal. simpl in H. induction args as [|a t IHt]; [reflexivity|].
    f_equal.
    + apply IH. intros x I. apply H. apply in_app_iff. left. exact I.
    + apply IHt. intros x I. apply H. apply in_app_iff. right. exact I.
Qed.

Lemma cols_used_in_ops (ops : list (string * expr)) ke x : In ke ops -> In x (cols_used (snd ke)) -> In x (ops_cols ops).
Proof. intros I H. unfold ops_cols. apply in_flat_map. exists ke. split; assumption. Qed.

(* ------------------------------------------------------------------ boolean checks *)
Lemma nodupb_NoDup l : nodupb l = true -> NoDup l.
Proof. induction l as [|x t IH]; simpl; intros H; constructor.
  - apply andb_true_iff in H. destruct H as [H _]. apply negb_true_iff in H. apply mem_false in H. exact H.
  - apply IH. apply andb_true_iff in H. tauto. Qed.

Lemma NoDup_map_inj (f : string -> string) cs x y : NoDup (map f cs) -> In x cs -> In y cs -> f x = f y -> x = y.
Proof.
  induction cs as [|a t IH]; simpl; intros N Ix Iy E; [contradiction|].
  inversion N as [|? ? Na Nt]; subst. destruct Ix as [<-|Ix], Iy as [<-|Iy]; auto.
  - exfalso. apply Na. rewrite E. apply in_map. exact Iy.
  - exfalso. apply Na. rewrite <- E. apply in_map. exact Ix.
Qed.
