(* C26 -- the verdict on a step does not depend on how the prefix was simplified:
   apply_step on the prefix as the builder sees it (skipping order_rows without limit, collapsing select_columns after
   select/drop, merging extends through the REGENERATED try_to_merge_ops) = build_step on the prefix's declared columns. *)
From Coq Require Import List Bool Arith String Lia.
Import ListNotations.
From DA Require Import Base.PyRT Model.Extend Gen.G_MergeOps Model.Builder Model.BuilderSpec Proofs.MergeOpsP Proofs.BuilderP.

Lemma wf_prefix_valid T p : wf_prefix T p -> NoDup (declared p) /\ declared p <> [].
Proof.
  induction p as [cols|src IH l|src IH cs|src IH cs|src IH ops np nw no nr]; simpl.
  - tauto.
  - exact IH.
  - tauto.
  - intros [W NE]. split; [apply NoDup_filter; apply IH; exact W|exact NE].
  - intros [W [Nk _]]. destruct (IH W) as [N NE]. split; [apply NoDup_app_new; assumption|apply app_not_nil_l, NE].
Qed.

(* ------------------------------------------------------------------ steps that only skip a trivial node *)
Lemma project_parsed_indep T p ops group : project_parsed T p ops group = project_parsed T (PNode (declared p)) ops group.
Proof.
  induction p as [cols|src IH l|src IH cs|src IH cs|src IH o np nw no nr]; try reflexivity.
  destruct l as [n|]; [reflexivity|]. cbn [project_parsed declared]. rewrite IH. cbn [project_parsed declared].
  destruct (negb (wcg (declared src) group)); [reflexivity|].
  destruct (negb (nonempty ops) && negb (nonempty group)); [reflexivity|].
  destruct (negb (disjointb (keys ops) group)); reflexivity.
Qed.

Lemma select_rows_indep p e : do_select_rows p e = do_select_rows (PNode (declared p)) e.
Proof.
  induction p as [cols|src IH l|src IH cs|src IH cs|src IH o np nw no nr]; try reflexivity.
  destruct l as [n|]; [reflexivity|]. cbn [do_select_rows declared]. rewrite IH. reflexivity.
Qed.

Lemma drop_cols_indep p cs : do_drop_cols p cs = do_drop_cols (PNode (declared p)) cs.
Proof.
  induction p as [cols|src IH l|src IH cs0|src IH cs0|src IH o np nw no nr]; try reflexivity.
  destruct l as [n|]; [reflexivity|]. cbn [do_drop_cols declared]. rewrite IH. cbn [do_drop_cols declared].
  destruct (negb (nonempty cs)); reflexivity.
Qed.

Lemma rename_indep p m : do_rename p m = do_rename (PNode (declared p)) m.
Proof.
  induction p as [cols|src IH l|src IH cs0|src IH cs0|src IH o np nw no nr]; try reflexivity.
  destruct l as [n|]; [reflexivity|]. cbn [do_rename declared]. rewrite IH. cbn [do_rename declared].
  destruct (negb (nonempty m)); reflexivity.
Qed.

Lemma map_indep p m : do_map p m = do_map (PNode (declared p)) m.
Proof.
  induction p as [cols|src IH l|src IH cs0|src IH cs0|src IH o np nw no nr]; try reflexivity.
  destruct l as [n|]; [reflexivity|]. cbn [do_map declared]. rewrite IH. cbn [do_map declared].
  destruct (negb (nonempty m)); reflexivity.
Qed.

Lemma order_indep p cs rev limit : do_order p cs rev limit = do_order (PNode (declared p)) cs rev limit.
Proof.
  induction p as [cols|src IH l|src IH cs0|src IH cs0|src IH o np nw no nr]; try reflexivity.
  destruct l as [n|]; [reflexivity|]. cbn [do_order declared]. rewrite IH. cbn [do_order declared].
  destruct (negb (nonempty cs) && match limit with None => true | Some _ => false end); reflexivity.
Qed.

Lemma join_indep p b on jt check : do_join p b on jt check = do_join (PNode (declared p)) b on jt check.
Proof.
  induction p as [cols|src IH l|src IH cs0|src IH cs0|src IH o np nw no nr]; try reflexivity.
  destruct l as [n|]; [reflexivity|]. cbn [do_join declared]. rewrite IH. reflexivity.
Qed.

Lemma concat_indep p b idc : do_concat p b idc = do_concat (PNode (declared p)) b idc.
Proof.
  induction p as [cols|src IH l|src IH cs0|src IH cs0|src IH o np nw no nr]; try reflexivity.
  destruct l as [n|]; [reflexivity|]. cbn [do_concat declared]. rewrite IH. reflexivity.
Qed.

(* ------------------------------------------------------------------ select_columns after select / drop *)
Lemma select_cols_indep T p cs : wf_prefix T p -> do_select_cols p cs = do_select_cols (PNode (declared p)) cs.
Proof.
  induction p as [cols|src IH l|src IH cs0|src IH cs0|src IH o np nw no nr]; intros W; try reflexivity.
  - destruct l as [n|]; [reflexivity|]. cbn [do_select_cols declared]. simpl in W. rewrite (IH W). cbn [do_select_cols declared].
    destruct (negb (nonempty cs)); [reflexivity|]. destruct (negb (subset cs (declared src))); reflexivity.
  - simpl in W. destruct W as [W [N0 [NE0 S0]]]. cbn [do_select_cols declared]. rewrite (IH W). cbn [do_select_cols declared].
    destruct (nonempty cs) eqn:NE; cbn [negb]; [|reflexivity].
    destruct (subset cs cs0) eqn:S; cbn [negb]; [|reflexivity].
    assert (subset cs (declared src) = true) as S'.
    { apply subset_true. intros c I. apply S0. rewrite subset_true in S. auto. }
    rewrite S'. cbn [negb]. unfold select_node. rewrite NE, S, S'. reflexivity.
  - simpl in W. destruct W as [W NE0]. cbn [do_select_cols declared]. rewrite (IH W). cbn [do_select_cols declared].
    destruct (nonempty cs) eqn:NE; cbn [negb]; [|reflexivity].
    destruct (subset cs (filter (notin cs0) (declared src))) eqn:S; cbn [negb]; [|reflexivity].
    assert (subset cs (declared src) = true) as S'.
    { apply subset_true. intros c I. rewrite subset_true in S. specialize (S c I). apply filter_In in S. tauto. }
    rewrite S'. cbn [negb]. unfold select_node. rewrite NE, S, S'. reflexivity.
Qed.

(* ------------------------------------------------------------------ extend: skipping and merging *)
Definition node_conform (T : tables) (src : list string) (ops : assignments) (part : pspec) (order rev : list string) : bool :=
  subset (ops_used ops) src
  && (nodupb (plist part) && nodupb order && nodupb rev)
  && (subset (plist part) src && subset order src)
  && subset rev order
  && disjointb (keys ops) (plist part ++ order ++ rev)
  && negb (windowed T ops part order && negb (forallb (fun ke => win_op_ok T src (nonempty order) (snd ke)) ops)).

Lemma extend_node_flat T src ops part order rev :
  extend_node T src ops part order rev =
  if node_conform T src ops part order rev then finish (src ++ filter (notin src) (keys ops)) else Reject.
Proof. unfold extend_node, node_conform. chain. Qed.

Lemma same_outcome_refl r : same_outcome r r.
Proof. destruct r; simpl; tauto. Qed.

Lemma In_gcu (ops : assignments) x : In x (get_columns_used cols_used ops) <-> In x (ops_used ops).
Proof.
  unfold get_columns_used, ops_used. rewrite In_py_set, !in_flat_map. split.
  - intros [e [I C]]. unfold dict_values in I. apply in_map_iff in I. destruct I as [[k e'] [<- I]]. exists (k, e'). tauto.
  - intros [[k e] [I C]]. exists e. split; [|exact C]. unfold dict_values. apply in_map_iff. exists (k, e). tauto.
Qed.

Lemma win_op_ok_src T S D ordered e :
  (forall c, In c (cols_used e) -> (In c S <-> In c D)) -> win_op_ok T S ordered e = win_op_ok T D ordered e.
Proof.
  destruct e as [c| | |op args]; try reflexivity. intros H. simpl.
  destruct args as [|a t]; [reflexivity|]. destruct a as [c| | |o l]; try reflexivity.
  assert (mem c S = mem c D) as E.
  { specialize (H c). simpl in H. specialize (H (or_introl eq_refl)).
    destruct (mem c S) eqn:A, (mem c D) eqn:B; try reflexivity.
    - apply mem_In in A. apply mem_false in B. tauto.
    - apply mem_false in A. apply mem_In in B. tauto. }
  rewrite E. reflexivity.
Qed.

Lemma implies_windowed_iff T ops : implies_windowed T ops = true <-> exists k op args, In (k, EOp op args) ops /\ In op (t_w T).
Proof.
  unfold implies_windowed. rewrite existsb_exists. split.
  - intros [[k e] [I M]]. simpl in M. destruct e as [c| | |op args]; try discriminate. exists k, op, args. split; [exact I|apply mem_In, M].
  - intros [k [op [args [I M]]]]. exists (k, EOp op args). split; [exact I|]. simpl. apply mem_In, M.
Qed.

Lemma windowed_alt T ops part order :
  windowed T ops part order = implies_windowed T ops || (is_one part || nonempty (plist part) || nonempty order).
Proof. unfold windowed. rewrite !orb_assoc. reflexivity. Qed.

Section Merge.
Variable T : tables.
Variables S : list string.
Variables o1 o2 m : assignments.
Variables part1 part : pspec.
Variables order rev : list string.
Hypothesis NS : NoDup S.
Hypothesis NES : S <> [].
Hypothesis N1 : NoDup (keys o1).
Hypothesis N2 : NoDup (keys o2).
Hypothesis Node1 : node_conform T S o1 part1 order rev = true.
Hypothesis SamePart : plist part = plist part1.
Hypothesis SameWind : windowed T o2 part order = windowed T o1 part1 order.
Hypothesis Merged : merge_ops o1 o2 = Some m.

Let D := S ++ filter (notin S) (keys o1).

Lemma merge_facts :
  (forall k e, In (k, e) m <-> In (k, e) o2 \/ (~ In k (keys o2) /\ In (k, e) o1))
  /\ (forall x, In x (ops_used o2) -> ~ In x (keys o1))
  /\ NoDup (keys m)
  /\ (forall k, In k (keys m) <-> In k (keys o1) \/ In k (keys o2)).
Proof.
  destruct (merge_spec_holds cols_used o1 o2 m N1 N2 Merged) as (G & Dj & Nm & Km).
  split; [|split; [|split]].
  - intros k e. rewrite <- (dict_get_NoDup_iff m k e Nm). rewrite G.
    destruct (dict_get o2 k) as [v|] eqn:E2.
    + split.
      * intros [= <-]. left. apply dict_get_In, E2.
      * intros [I|[NI _]].
        -- apply (dict_get_NoDup_In o2 k e N2) in I. congruence.
        -- exfalso. apply NI. apply dict_get_Some_keys in E2. exact E2.
    + apply dict_get_None in E2. rewrite (dict_get_NoDup_iff o1 k e N1). split.
      * intros I. right. split; [exact E2|exact I].
      * intros [I|[_ I]]; [|exact I]. exfalso. apply E2. apply (key_in_keys o2 k e I).
  - intros x I. apply Dj. apply In_gcu. exact I.
  - exact Nm.
  - exact Km.
Qed.

Lemma In_D x : In x D <-> In x S \/ In x (keys o1).
Proof.
  unfold D. rewrite in_app_iff, filter_In, notin_true. destruct (in_dec string_dec x S); tauto.
Qed.

Lemma merged_node_conform : extend_pre D (keys o2) part order rev = true ->
  node_conform T S m part order rev = node_conform T D o2 part order rev.
Proof.
  intros Pre. destruct merge_facts as (Em & Dj & Nm & Km).
  unfold node_conform in Node1. split_true.
  (* facts about the node merged into *)
  repeat match goal with X : subset ?l ?c = true |- _ => let Y := fresh "Sb" in pose proof (proj1 (subset_true c l) X) as Y; clear X end.
  match goal with X : disjointb (keys o1) _ = true |- _ => pose proof (proj1 (disjointb_spec _ _) X) as Dis1; clear X end.
  match goal with X : negb (windowed T o1 part1 order && _) = true |- _ => apply negb_true_iff in X; rename X into W1 end.
  assert (forall c, In c S -> In c D) as SD by (intros c I; apply In_D; tauto).
  assert (forall c, In c (ops_used o2) -> (In c S <-> In c D)) as SDiff.
  { intros c I. rewrite In_D. specialize (Dj c I). tauto. }
  (* the window of the merged node = the window of the new step *)
  assert (windowed T m part order = windowed T o2 part order) as Wm.
  { rewrite !windowed_alt. destruct (is_one part || nonempty (plist part) || nonempty order) eqn:Fl.
    - rewrite !orb_true_r. reflexivity.
    - rewrite !orb_false_r.
      destruct (implies_windowed T o2) eqn:I2.
      + apply implies_windowed_iff. apply implies_windowed_iff in I2. destruct I2 as [k [op [args [I M]]]].
        exists k, op, args. split; [apply Em; left; exact I|exact M].
      + destruct (implies_windowed T m) eqn:Im; [|reflexivity]. exfalso.
        apply implies_windowed_iff in Im. destruct Im as [k [op [args [I M]]]]. apply Em in I. destruct I as [I|[_ I]].
        * assert (implies_windowed T o2 = true) as X by (apply implies_windowed_iff; exists k, op, args; tauto). congruence.
        * assert (implies_windowed T o1 = true) as X by (apply implies_windowed_iff; exists k, op, args; tauto).
          rewrite !windowed_alt in SameWind. rewrite I2, Fl, X in SameWind. discriminate SameWind. }
  unfold node_conform. rewrite Wm, SamePart.
  apply Bool.eq_iff_eq_true. rewrite !andb_true_iff. rewrite !subset_true.
  assert ((forall c, In c (ops_used m) -> In c S) <-> (forall c, In c (ops_used o2) -> In c D)) as U.
  { split.
    - intros H c I. apply SD, H. unfold ops_used in *. apply in_flat_map in I. destruct I as [[k e] [I C]].
      apply in_flat_map. exists (k, e). split; [apply Em; left; exact I|exact C].
    - intros H c I. unfold ops_used in I. apply in_flat_map in I. destruct I as [[k e] [I C]]. simpl in C. apply Em in I. destruct I as [I|[_ I]].
      + assert (In c (ops_used o2)) as Iu by (eapply cols_used_in_ops; eassumption). apply SDiff; [exact Iu|]. apply H, Iu.
      + match goal with X : forall c, In c (ops_used o1) -> In c S |- _ => apply X end. eapply cols_used_in_ops; eassumption. }
  assert (disjointb (keys m) (plist part1 ++ order ++ rev) = true <-> disjointb (keys o2) (plist part1 ++ order ++ rev) = true) as Dm.
  { rewrite !disjointb_spec. split.
    - intros H x I. apply H, Km. tauto.
    - intros H x I. apply Km in I. destruct I as [I|I]; [apply Dis1, I|apply H, I]. }
  assert ((forall c, In c (ops_used o2) -> In c D) ->
          (forallb (fun ke => win_op_ok T S (nonempty order) (snd ke)) m = true <->
           forallb (fun ke => win_op_ok T D (nonempty order) (snd ke)) o2 = true) \/ windowed T o2 part order = false) as Fm.
  { intros Hu. destruct (windowed T o2 part order) eqn:W2; [left|right; reflexivity].
    rewrite <- SameWind in W1. simpl in W1. apply negb_false_iff in W1. rewrite forallb_forall in W1.
    rewrite !forallb_forall. split.
    - intros H [k e] I. simpl. rewrite <- (win_op_ok_src T S D).
      + apply (H (k, e)). apply Em. left. exact I.
      + intros c C. apply SDiff. eapply cols_used_in_ops; eassumption.
    - intros H [k e] I. simpl. apply Em in I. destruct I as [I|[_ I]].
      + rewrite (win_op_ok_src T S D); [apply (H (k, e) I)|]. intros c C. apply SDiff. eapply cols_used_in_ops; eassumption.
      + apply (W1 (k, e) I). }
  split.
  - intros [[[[[A B] C] E] F] G]. pose proof (proj1 U A) as A2. destruct C as [C1 C2].
    split; [split; [split; [split; [split|]|]|]|]; auto.
    + apply Dm, F.
    + destruct (Fm A2) as [X|X]; [|rewrite X; reflexivity].
      destruct (windowed T o2 part order); [|reflexivity]. simpl in *. apply negb_true_iff, negb_false_iff in G. apply negb_true_iff, negb_false_iff. apply X, G.
  - intros [[[[[A B] C] E] F] G]. pose proof (proj2 U A) as A2.
    split; [split; [split; [split; [split|]|]|]|]; auto.
    + apply Dm, F.
    + destruct (Fm A) as [X|X]; [|rewrite X; reflexivity].
      destruct (windowed T o2 part order); [|reflexivity]. simpl in *. apply negb_true_iff, negb_false_iff in G. apply negb_true_iff, negb_false_iff. apply X, G.
Qed.

Lemma merged_same_outcome : extend_pre D (keys o2) part order rev = true ->
  same_outcome (extend_node T S m part order rev) (extend_node T D o2 part order rev).
Proof.
  intros Pre. destruct merge_facts as (Em & Dj & Nm & Km).
  rewrite !extend_node_flat, (merged_node_conform Pre).
  destruct (node_conform T D o2 part order rev); [|exact I].
  assert (NoDup D) as ND by (apply NoDup_app_new; assumption).
  rewrite !finish_ok; try (apply app_not_nil_l; try exact NES; apply app_not_nil_l, NES); try (apply NoDup_app_new; assumption).
  simpl. intros c. rewrite !in_app_iff, !filter_In, !notin_true, Km, In_D.
  destruct (in_dec string_dec c S); destruct (in_dec string_dec c (keys o1)); tauto.
Qed.
End Merge.

Lemma merge_guard_facts T ops part order rev npart nwind norder nrev part1 :
  merge_guard T ops part order rev npart nwind norder nrev = true -> npart = plist part1 ->
  plist part = plist part1 /\ windowed T ops part order = nwind /\ order = norder /\ rev = nrev.
Proof.
  unfold merge_guard. intros G E.
  apply andb_true_iff in G. destruct G as [G Gr]. apply andb_true_iff in G. destruct G as [G Go].
  apply andb_true_iff in G. destruct G as [Gc Gw].
  apply strs_eqb_eq in Gr. apply strs_eqb_eq in Go. apply eqb_prop in Gw.
  split; [|tauto].
  apply orb_true_iff in Gc. destruct Gc as [Gc|Gc]; apply andb_true_iff in Gc; destruct Gc as [G1 G2].
  - apply strs_eqb_eq in G2. congruence.
  - apply negb_true_iff, nonempty_false in G2. rewrite <- E, G2.
    apply orb_true_iff in G1. destruct G1 as [G1|G1].
    + destruct part; [reflexivity|discriminate].
    + apply negb_true_iff, nonempty_false in G1. exact G1.
Qed.

Lemma extend_parsed_indep T p ops part order rev : wf_prefix T p -> NoDup (keys ops) ->
  same_outcome (extend_parsed T p ops part order rev) (extend_parsed T (PNode (declared p)) ops part order rev).
Proof.
  intros W Nk. induction p as [cols|src IH l|src IH cs0|src IH cs0|src IH o1 np nw no nr]; try apply same_outcome_refl.
  - destruct l as [n|]; [apply same_outcome_refl|]. simpl in W. specialize (IH W).
    cbn [extend_parsed declared] in *. destruct (negb (nonempty ops)); [apply same_outcome_refl|].
    destruct (negb (extend_pre (declared src) (keys ops) part order rev)); [exact I|]. exact IH.
  - clear IH. simpl in W. destruct W as [W [N1 [part1 [Enp [Enw Node]]]]].
    destruct (wf_prefix_valid T src W) as [NS NES].
    cbn [extend_parsed declared]. destruct (negb (nonempty ops)); [apply same_outcome_refl|].
    destruct (extend_pre (declared src ++ filter (notin (declared src)) (keys o1)) (keys ops) part order rev) eqn:Pre; cbn [negb]; [|exact I].
    destruct (merge_guard T ops part order rev np nw no nr) eqn:G; [|apply same_outcome_refl].
    destruct (merge_ops o1 ops) as [m|] eqn:M; [|apply same_outcome_refl].
    destruct (merge_guard_facts _ _ _ _ _ _ _ _ _ part1 G Enp) as [SP [SW [-> ->]]].
    rewrite extend_node_flat in Node. destruct (node_conform T (declared src) o1 part1 no nr) eqn:NC; [|congruence].
    apply (merged_same_outcome T (declared src) o1 ops m part1 part no nr NS NES N1 Nk NC SP); [congruence|exact M|exact Pre].
Qed.

(* ------------------------------------------------------------------ all steps *)
Theorem simplification_independent T p s : wf_prefix T p ->
  same_outcome (apply_step T p s) (build_step T (declared p) s).
Proof.
  intros W. unfold build_step. destruct s as [ops part order rev|ops group|e|cs|cs|m|m|cs rev limit|b on jt check|b idc]; cbn [apply_step].
  - unfold do_extend. destruct (parse_ok ops) eqn:P; cbn [negb]; [|exact I].
    apply extend_parsed_indep; [exact W|]. unfold parse_ok in P. apply andb_true_iff in P. destruct P as [P _]. apply nodupb_spec, P.
  - unfold do_project. destruct (negb (parse_ok ops)); [exact I|]. rewrite project_parsed_indep. apply same_outcome_refl.
  - rewrite select_rows_indep. apply same_outcome_refl.
  - rewrite (select_cols_indep T) by exact W. apply same_outcome_refl.
  - rewrite drop_cols_indep. apply same_outcome_refl.
  - rewrite rename_indep. apply same_outcome_refl.
  - rewrite map_indep. apply same_outcome_refl.
  - rewrite order_indep. apply same_outcome_refl.
  - rewrite join_indep. apply same_outcome_refl.
  - rewrite concat_indep. apply same_outcome_refl.
Qed.

(* except when two extends are merged, even the ORDER of the declared columns is the same *)
Definition no_extend_on_top (p : prefix) : Prop :=
  (fix go (p : prefix) : Prop :=
     match p with
     | PExtend _ _ _ _ _ _ => False
     | POrder src None => go src
     | _ => True
     end) p.

Lemma extend_parsed_indep_eq T p ops part order rev : no_extend_on_top p ->
  extend_parsed T p ops part order rev = extend_parsed T (PNode (declared p)) ops part order rev.
Proof.
  induction p as [cols|src IH l|src IH cs0|src IH cs0|src IH o1 np nw no nr]; intros NX; try reflexivity.
  - destruct l as [n|]; [reflexivity|]. simpl in NX. specialize (IH NX). cbn [extend_parsed declared] in *.
    destruct (negb (nonempty ops)); [reflexivity|].
    destruct (negb (extend_pre (declared src) (keys ops) part order rev)); [reflexivity|]. exact IH.
  - destruct NX.
Qed.

Theorem simplification_independent_eq T p s : wf_prefix T p ->
  (match s with SExtend _ _ _ _ => no_extend_on_top p | _ => True end) ->
  apply_step T p s = build_step T (declared p) s.
Proof.
  intros W NX. unfold build_step. destruct s as [ops part order rev|ops group|e|cs|cs|m|m|cs rev limit|b on jt check|b idc]; cbn [apply_step].
  - unfold do_extend. destruct (negb (parse_ok ops)); [reflexivity|]. apply extend_parsed_indep_eq, NX.
  - unfold do_project. destruct (negb (parse_ok ops)); [reflexivity|]. apply project_parsed_indep.
  - apply select_rows_indep.
  - apply (select_cols_indep T), W.
  - apply drop_cols_indep.
  - apply rename_indep.
  - apply map_indep.
  - apply order_indep.
  - apply join_indep.
  - apply concat_indep.
Qed.

(* ------------------------------------------------------------------ on every prefix *)
Theorem rejects_iff_rule_violated_on_prefix T p s : wf_prefix T p -> step_wf s -> catalogued T s ->
  (apply_step T p s = Reject <-> violates_rule T (declared p) s).
Proof.
  intros W Ws G. destruct (wf_prefix_valid T p W) as [N NE].
  rewrite <- (rejects_iff_rule_violated T (declared p) N NE s Ws G).
  pose proof (simplification_independent T p s W) as SO.
  destruct (apply_step T p s), (build_step T (declared p) s); simpl in SO; try contradiction; split; congruence.
Qed.

(* a small instance of the tables, for the non-vacuity examples of Props/C26.v (the real tables are read from /repo) *)
Definition T_example : tables :=
  mkT ["sum"; "mean"; "max"; "cumsum"; "shift"]%string ["cumsum"; "shift"; "_row_number"]%string ["_ngroup"; "cumsum"; "shift"; "_row_number"]%string
      [] ["sum"; "max"]%string ["sum"; "mean"; "max"; "cumsum"; "shift"; "_row_number"; "_size"]%string ["sum"; "mean"; "max"; "_size"]%string.

Theorem accept_gives_declared_columns (T : tables) (cols : list string) : NoDup cols -> cols <> [] ->
  forall (s : step) (c : list string), step_wf s -> build_step T cols s = Accept c ->
  (NoDup c /\ c <> []) /\ (order_fixed s = true -> c = spec_cols cols s) /\ (forall x, In x c <-> In x (spec_cols cols s)).
Proof.
  intros N NE s c W A. split.
  - eapply accept_valid; eauto.
  - eapply accept_is_finish_or_flat; eauto.
Qed.

(* the witnesses of the known finding C26-nonaggregating-operator *)
Lemma refuted_project :
  exists (T : tables) (cols : list string) (s : step), NoDup cols /\ cols <> [] /\ step_wf s /\
    violates T cols s R_not_aggregating /\ build_step T cols s <> Reject.
Proof.
  exists T_example, ["a"; "g"]%string, (SProject [("x", EOp "abs" [ECol "a"])]%string ["g"]%string).
  split; [repeat constructor; simpl; intuition congruence|]. split; [discriminate|]. split; [exact I|]. split.
  - simpl. exists "x"%string, (EOp "abs" [ECol "a"])%string. split; [left; reflexivity|].
    intros [op [args [E M]]]. injection E as <- <-. simpl in M. intuition congruence.
  - vm_compute. discriminate.
Qed.

Lemma refuted_window :
  exists (T : tables) (cols : list string) (s : step), NoDup cols /\ cols <> [] /\ step_wf s /\
    violates T cols s R_not_aggregating /\ build_step T cols s <> Reject.
Proof.
  exists T_example, ["a"; "g"]%string, (SExtend [("x", EOp "abs" [ECol "a"])]%string (PList ["g"]%string) [] []).
  split; [repeat constructor; simpl; intuition congruence|]. split; [discriminate|]. split; [discriminate|]. split.
  - simpl. split; [right; left; discriminate|]. exists "x"%string, (EOp "abs" [ECol "a"])%string. split; [left; reflexivity|].
    intros [op [args [E M]]]. injection E as <- <-. simpl in M. intuition congruence.
  - vm_compute. discriminate.
Qed.
