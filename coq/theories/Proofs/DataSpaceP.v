(* Proofs about Model/DataSpace.v -- statements to prove (each currently ends in Abort). *)
From Coq Require Import List Bool Arith String Lia.
Import ListNotations.
From DA Require Import Base.PyRT Model.DataSpace.

Section P.
Context {T P : Type} (evalp : pydict string T -> P -> option T) (name_of : nat -> string).
Hypothesis name_of_inj : forall a b, name_of a = name_of b -> a = b.
Notation m_step := (m_step evalp name_of).
Notation d_step := (d_step evalp name_of).

(* the map after a successful write of k := v *)
Definition written (d d' : pydict string T) (k : string) (v : T) : Prop :=
  forall k2, dict_get d' k2 = if eq_dec k2 k then Some v else dict_get d k2.

Definition is_write (o : @dop T P) : option (option string * bool) :=
  match o with DInsert key _ ow => Some (key, ow) | DExecute _ key ow => Some (key, ow) | _ => None end.

(* ---------- the automatic key is never in use *)
Lemma fresh_aux (used : list string) : forall fuel n seen, NoDup seen -> incl seen used ->
  (forall x, In x seen -> exists j, j < n /\ x = name_of j) ->
  List.length seen + fuel >= List.length used -> ~ In (name_of (fresh name_of fuel used n)) used.
Proof.
  assert (Hcons: forall n seen, NoDup seen -> incl seen used ->
     (forall x, In x seen -> exists j, j < n /\ x = name_of j) -> In (name_of n) used ->
     NoDup (name_of n :: seen) /\ incl (name_of n :: seen) used /\
     (forall x, In x (name_of n :: seen) -> exists j, j < S n /\ x = name_of j)).
  { intros n seen N I B U. split; [|split].
    - constructor; [|exact N]. intros Hin. destruct (B _ Hin) as [j [Hj E]]. apply name_of_inj in E. lia.
    - intros x [<-|Hx]; [exact U|apply I, Hx].
    - intros x [<-|Hx]; [exists n; split; [lia|reflexivity]|].
      destruct (B _ Hx) as [j [Hj E]]. exists j. split; [lia|exact E]. }
  induction fuel as [|f IH]; intros n seen N I B L; simpl.
  - intros U. destruct (Hcons n seen N I B U) as [N' [I' _]].
    pose proof (NoDup_incl_length N' I') as Q. simpl in Q. lia.
  - destruct (mem (name_of n) used) eqn:E.
    + apply mem_In in E. destruct (Hcons n seen N I B E) as [N' [I' B']].
      apply (IH (S n) (name_of n :: seen)); auto. simpl. lia.
    + apply mem_false in E. exact E.
Qed.

Lemma auto_key_fresh (used : list string) (n : nat) : ~ In (fst (auto_key name_of used n)) used.
Proof.
  unfold auto_key. simpl. apply (fresh_aux used (List.length used) (S n) []).
  - constructor.
  - intros x [].
  - intros x [].
  - simpl. lia.
Qed.

(* ---------- DataModelSpace *)
Lemma pick_spec (used : list string) (key : option string) n k n' :
  (match key with Some k => (k, n) | None => auto_key name_of used n end) = (k, n') ->
  key = Some k \/ (key = None /\ ~ In k used).
Proof.
  destruct key as [k1|]; intros E.
  - left. congruence.
  - right. split; [reflexivity|]. pose proof (auto_key_fresh used n) as F. rewrite E in F. exact F.
Qed.

Lemma written_set (d : pydict string T) k v : written d (dict_set d k v) k v.
Proof. intros k2. destruct (eq_dec k2 k) as [->|n]; [apply dict_get_set_same|apply dict_get_set_other, n]. Qed.

Lemma written_pop_set (d : pydict string T) k v : written d (dict_set (dict_pop d k) k v) k v.
Proof. intros k2. destruct (eq_dec k2 k) as [->|n]; [apply dict_get_set_same|].
  rewrite dict_get_set_other by exact n. rewrite dict_get_pop. destruct (eq_dec k2 k); [contradiction|reflexivity]. Qed.

Ltac pickm s key k0 n0 EK :=
  destruct (match key with Some k => (k, ntmp s) | None => auto_key name_of (dict_keys (dmap s)) (ntmp s) end)
    as [k0 n0] eqn:EK.
Ltac pickd s key k0 n0 EK :=
  destruct (match key with Some k => (k, dn s) | None => auto_key name_of (ddesc s) (dn s) end)
    as [k0 n0] eqn:EK.

Lemma m_fail_unchanged s o s' : m_step s o = (s', OFail) -> dmap s' = dmap s.
Proof.
  destruct o; unfold DataSpace.m_step.
  - pickm s key k0 n0 EK. destruct (negb ow && dict_has (dmap s) k0); intros Q; inversion Q; reflexivity.
  - destruct (dict_has (dmap s) k); intros Q; inversion Q; reflexivity.
  - pickm s key k0 n0 EK. destruct (negb ow && dict_has (dmap s) k0); [intros Q; inversion Q; reflexivity|].
    destruct (evalp (dmap s) p); intros Q; inversion Q; reflexivity.
  - destruct (dict_get (dmap s) k); intros Q; inversion Q; subst; reflexivity.
  - destruct (dict_has (dmap s) k); intros Q; inversion Q; subst; reflexivity.
  - intros Q; inversion Q.
Qed.

Lemma m_insert_ok s key v ow s' k : m_step s (DInsert key v ow) = (s', OKey k) ->
  written (dmap s) (dmap s') k v /\ (key = Some k \/ (key = None /\ ~ In k (dict_keys (dmap s)))) /\
  (ow = false -> ~ In k (dict_keys (dmap s))).
Proof.
  unfold DataSpace.m_step. pickm s key k0 n0 EK.
  destruct (negb ow && dict_has (dmap s) k0) eqn:E; intros Q; inversion Q; subst; clear Q. simpl.
  split; [apply written_set|]. split; [eapply pick_spec; exact EK|].
  intros ->. simpl in E. apply dict_has_false in E. exact E.
Qed.

Lemma m_execute_ok s p key ow s' k : m_step s (DExecute p key ow) = (s', OKey k) ->
  exists v, evalp (dmap s) p = Some v /\ written (dmap s) (dmap s') k v /\
            (key = Some k \/ (key = None /\ ~ In k (dict_keys (dmap s)))) /\ (ow = false -> ~ In k (dict_keys (dmap s))).
Proof.
  unfold DataSpace.m_step. pickm s key k0 n0 EK.
  destruct (negb ow && dict_has (dmap s) k0) eqn:E; [intros Q; inversion Q|].
  destruct (evalp (dmap s) p) as [v|] eqn:EV; intros Q; inversion Q; subst; clear Q. simpl.
  exists v. split; [reflexivity|]. split; [apply written_set|]. split; [eapply pick_spec; exact EK|].
  intros ->. simpl in E. apply dict_has_false in E. exact E.
Qed.

Lemma m_no_overwrite_when_forbidden s o k : is_write o = Some (Some k, false) -> In k (dict_keys (dmap s)) ->
  snd (m_step s o) = OFail /\ dmap (fst (m_step s o)) = dmap s.
Proof.
  intros W I. apply dict_has_true in I.
  destruct o; simpl in W; inversion W; subst; unfold DataSpace.m_step; simpl; rewrite I; simpl; split; reflexivity.
Qed.

Lemma m_auto_key_never_replaces s o ow : is_write o = Some (None, ow) ->
  forall k0 v0, dict_get (dmap s) k0 = Some v0 -> dict_get (dmap (fst (m_step s o))) k0 = Some v0.
Proof.
  intros W k0 v0 G.
  assert (forall k1, ~ In k1 (dict_keys (dmap s)) -> k0 <> k1) as NE.
  { intros k1 N ->. apply N. eapply dict_get_Some_keys, G. }
  destruct o; simpl in W; inversion W; subst; unfold DataSpace.m_step.
  - pickm s (@None string) k1 n1 EK. destruct (pick_spec _ None _ _ _ EK) as [Q|[_ F]]; [discriminate|].
    destruct (negb ow && dict_has (dmap s) k1); simpl; [exact G|].
    rewrite dict_get_set_other; [exact G|apply NE, F].
  - pickm s (@None string) k1 n1 EK. destruct (pick_spec _ None _ _ _ EK) as [Q|[_ F]]; [discriminate|].
    destruct (negb ow && dict_has (dmap s) k1); simpl; [exact G|].
    destruct (evalp (dmap s) p); simpl; [|exact G].
    rewrite dict_get_set_other; [exact G|apply NE, F].
Qed.

Lemma m_remove_ok s k s' : m_step s (DRemove k) = (s', OUnit) ->
  In k (dict_keys (dmap s)) /\ forall k2, dict_get (dmap s') k2 = if eq_dec k2 k then None else dict_get (dmap s) k2.
Proof.
  unfold DataSpace.m_step. destruct (dict_has (dmap s) k) eqn:E; intros Q; inversion Q; subst; clear Q.
  split; [apply dict_has_true, E|]. intros k2. simpl. apply dict_get_pop.
Qed.

Lemma m_queries s : (forall k, m_step s (DRetrieve k) = (s, match dict_get (dmap s) k with Some v => OVal v | None => OFail end)) /\
                    m_step s DKeys = (s, OKeys (dict_keys (dmap s))).
Proof.
  split; [|reflexivity]. intros k. unfold DataSpace.m_step. destruct (dict_get (dmap s) k); reflexivity.
Qed.

Lemma m_step_nodup s o : NoDup (dict_keys (dmap s)) -> NoDup (dict_keys (dmap (fst (m_step s o)))).
Proof.
  intros N. destruct o; unfold DataSpace.m_step.
  - pickm s key k0 n0 EK. destruct (negb ow && dict_has (dmap s) k0); simpl; [exact N|apply NoDup_dict_keys_set, N].
  - destruct (dict_has (dmap s) k); simpl; [apply NoDup_dict_keys_pop, N|exact N].
  - pickm s key k0 n0 EK. destruct (negb ow && dict_has (dmap s) k0); simpl; [exact N|].
    destruct (evalp (dmap s) p); simpl; [apply NoDup_dict_keys_set, N|exact N].
  - destruct (dict_get (dmap s) k); exact N.
  - destruct (dict_has (dmap s) k); exact N.
  - exact N.
Qed.

Lemma m_keys_nodup ops : NoDup (dict_keys (dmap (m_run evalp name_of ops))).
Proof.
  unfold m_run.
  assert (forall s : @mstate T, NoDup (dict_keys (dmap s)) ->
            NoDup (dict_keys (dmap (fold_left (fun s o => fst (m_step s o)) ops s)))) as G.
  { induction ops as [|o t IH]; intros s N; simpl; [exact N|]. apply IH, m_step_nodup, N. }
  apply G. simpl. constructor.
Qed.

(* ---------- DBSpace *)
Definition Dinv (s : @dstate T) : Prop :=
  NoDup (ddesc s) /\ NoDup (dict_keys (ddb s)) /\ forall k, In k (ddesc s) <-> In k (dict_keys (ddb s)).

Lemma d_inv_init : Dinv d_init.
Proof.
  unfold Dinv, d_init. simpl. split; [constructor|]. split; [constructor|]. tauto.
Qed.
Lemma Dinv_n desc (db : pydict string T) n n' : Dinv (mkd desc db n) -> Dinv (mkd desc db n').
Proof. unfold Dinv. simpl. tauto. Qed.

Lemma Dinv_eta (s : @dstate T) n' : Dinv s -> Dinv (mkd (ddesc s) (ddb s) n').
Proof. unfold Dinv. simpl. tauto. Qed.

Lemma Dinv_write desc (db : pydict string T) k v n n' :
  Dinv (mkd desc db n) -> Dinv (mkd (add_end desc k) (dict_set db k v) n').
Proof.
  unfold Dinv. simpl. intros [N1 [N2 I]]. split; [apply NoDup_add_end, N1|].
  split; [apply NoDup_dict_keys_set, N2|]. intros x. rewrite dict_keys_set, !In_add_end, I. tauto.
Qed.

Lemma Dinv_remove desc (db : pydict string T) k n n' :
  Dinv (mkd desc db n) -> Dinv (mkd (remove_elem k desc) (dict_pop db k) n').
Proof.
  unfold Dinv. simpl. intros [N1 [N2 I]]. split; [apply NoDup_filter, N1|].
  split; [apply NoDup_dict_keys_pop, N2|]. intros x. rewrite In_dict_keys_pop, In_remove_elem, I. tauto.
Qed.

Lemma Dinv_insert desc (db : pydict string T) k v n n' :
  Dinv (mkd desc db n) -> Dinv (mkd (add_end desc k) (dict_set (dict_pop db k) k v) n').
Proof.
  unfold Dinv. simpl. intros [N1 [N2 I]]. split; [apply NoDup_add_end, N1|].
  split; [apply NoDup_dict_keys_set, NoDup_dict_keys_pop, N2|].
  intros x. rewrite dict_keys_set, !In_add_end, In_dict_keys_pop, I.
  destruct (eq_dec x k); tauto.
Qed.

Lemma d_inv_step s o : Dinv s -> Dinv (fst (d_step s o)).
Proof.
  intros D. pose proof (Dinv_eta s (dn s) D) as D0. destruct o; unfold DataSpace.d_step.
  - pickd s key k0 n0 EK.
    destruct (negb ow && mem k0 (ddesc s)); simpl; [eapply Dinv_n, D0|].
    destruct (negb ow && dict_has (ddb s) k0); simpl; [eapply Dinv_n, D0|].
    eapply Dinv_insert, D0.
  - destruct (mem k (ddesc s)); simpl; [eapply Dinv_remove, D0|exact D].
  - pickd s key k0 n0 EK.
    destruct (mem k0 (ddesc s) && negb ow); simpl; [eapply Dinv_n, D0|].
    assert (Dinv (mkd (if mem k0 (ddesc s) then remove_elem k0 (ddesc s) else ddesc s)
                      (if mem k0 (ddesc s) then dict_pop (ddb s) k0 else ddb s) n0)) as D1.
    { destruct (mem k0 (ddesc s)); [eapply Dinv_remove, D0|eapply Dinv_n, D0]. }
    destruct (dict_has (if mem k0 (ddesc s) then dict_pop (ddb s) k0 else ddb s) k0); simpl; [exact D1|].
    destruct (evalp (if mem k0 (ddesc s) then dict_pop (ddb s) k0 else ddb s) p); simpl; [|exact D1].
    eapply Dinv_write, D1.
  - destruct (mem k (ddesc s)); [destruct (dict_get (ddb s) k)|]; exact D.
  - destruct (mem k (ddesc s)); exact D.
  - exact D.
Qed.
Lemma d_inv_run ops : Dinv (d_run evalp name_of ops).
Proof.
  unfold d_run.
  assert (forall s : @dstate T, Dinv s -> Dinv (fold_left (fun s o => fst (d_step s o)) ops s)) as G.
  { induction ops as [|o t IH]; intros s D; simpl; [exact D|]. apply IH, d_inv_step, D. }
  apply G, d_inv_init.
Qed.

Lemma d_insert_ok s key v ow s' k : Dinv s -> d_step s (DInsert key v ow) = (s', OKey k) ->
  written (ddb s) (ddb s') k v /\ (forall k2, In k2 (ddesc s') <-> In k2 (ddesc s) \/ k2 = k) /\
  (key = Some k \/ (key = None /\ ~ In k (ddesc s))) /\ (ow = false -> ~ In k (ddesc s)).
Proof.
  intros D. unfold DataSpace.d_step. pickd s key k0 n0 EK.
  destruct (negb ow && mem k0 (ddesc s)) eqn:E1; [intros Q; inversion Q|].
  destruct (negb ow && dict_has (ddb s) k0) eqn:E2; intros Q; inversion Q; subst; clear Q. simpl.
  split; [apply written_pop_set|]. split; [intros k2; apply In_add_end|].
  split; [eapply pick_spec; exact EK|]. intros ->. simpl in E1. apply mem_false in E1. exact E1.
Qed.

(* execute: the pipeline is evaluated on the contents AFTER the old entry of k was removed *)
Lemma d_execute_ok s p key ow s' k : Dinv s -> d_step s (DExecute p key ow) = (s', OKey k) ->
  exists v, evalp (dict_pop (ddb s) k) p = Some v /\ written (ddb s) (ddb s') k v /\
            (forall k2, In k2 (ddesc s') <-> In k2 (ddesc s) \/ k2 = k) /\
            (key = Some k \/ (key = None /\ ~ In k (ddesc s))) /\ (ow = false -> ~ In k (ddesc s)).
Proof.
  intros D. unfold DataSpace.d_step. pickd s key k0 n0 EK.
  destruct (mem k0 (ddesc s)) eqn:M.
  - destruct ow; simpl; [|intros Q; inversion Q].
    destruct (dict_has (dict_pop (ddb s) k0) k0); [intros Q; inversion Q|].
    destruct (evalp (dict_pop (ddb s) k0) p) as [v|] eqn:EV; intros Q; inversion Q; subst; clear Q. simpl.
    exists v. split; [exact EV|]. split; [apply written_pop_set|].
    split; [|split; [eapply pick_spec; exact EK|discriminate]].
    intros k2. rewrite In_add_end, In_remove_elem. apply mem_In in M.
    destruct (eq_dec k2 k) as [->|n]; tauto.
  - simpl. destruct (dict_has (ddb s) k0) eqn:Hh; [intros Q; inversion Q|].
    destruct (evalp (ddb s) p) as [v|] eqn:EV; intros Q; inversion Q; subst; clear Q. simpl.
    apply dict_has_false in Hh. rewrite (dict_pop_absent _ _ Hh).
    exists v. split; [exact EV|]. split; [apply written_set|]. split; [intros k2; apply In_add_end|].
    split; [eapply pick_spec; exact EK|]. intros _. apply mem_false, M.
Qed.

Lemma d_no_overwrite_when_forbidden s o k : is_write o = Some (Some k, false) -> In k (ddesc s) ->
  snd (d_step s o) = OFail /\ ddesc (fst (d_step s o)) = ddesc s /\ ddb (fst (d_step s o)) = ddb s.
Proof.
  intros W I. apply mem_In in I.
  destruct o; simpl in W; inversion W; subst; unfold DataSpace.d_step; simpl; rewrite I; simpl; repeat split; reflexivity.
Qed.

Lemma d_auto_key_never_replaces s o ow : Dinv s -> is_write o = Some (None, ow) ->
  forall k0 v0, In k0 (ddesc s) -> dict_get (ddb s) k0 = Some v0 ->
    In k0 (ddesc (fst (d_step s o))) /\ dict_get (ddb (fst (d_step s o))) k0 = Some v0.
Proof.
  intros D W k0 v0 I G.
  destruct o; simpl in W; inversion W; subst; unfold DataSpace.d_step.
  - pickd s (@None string) k1 n1 EK. destruct (pick_spec _ None _ _ _ EK) as [Q|[_ F]]; [discriminate|].
    assert (k0 <> k1) as NE by (intros ->; exact (F I)).
    destruct (negb ow && mem k1 (ddesc s)); simpl; [tauto|].
    destruct (negb ow && dict_has (ddb s) k1); simpl; [tauto|].
    split; [apply In_add_end; tauto|]. rewrite dict_get_set_other by exact NE.
    rewrite dict_get_pop. destruct (eq_dec k0 k1); [contradiction|exact G].
  - pickd s (@None string) k1 n1 EK. destruct (pick_spec _ None _ _ _ EK) as [Q|[_ F]]; [discriminate|].
    assert (k0 <> k1) as NE by (intros ->; exact (F I)).
    apply mem_false in F. rewrite F. simpl.
    destruct (dict_has (ddb s) k1); simpl; [tauto|].
    destruct (evalp (ddb s) p); simpl; [|tauto].
    split; [apply In_add_end; tauto|]. rewrite dict_get_set_other by exact NE. exact G.
Qed.

(* failed operations leave the contents unchanged, EXCEPT execute(key=k, allow_overwrite=True) on an existing k *)
Lemma d_fail_unchanged s o s' : Dinv s ->
  (forall p k, o = DExecute p (Some k) true -> ~ In k (ddesc s)) ->
  d_step s o = (s', OFail) -> ddesc s' = ddesc s /\ ddb s' = ddb s.
Proof.
  intros D Hex. destruct o; unfold DataSpace.d_step.
  - pickd s key k0 n0 EK.
    destruct (negb ow && mem k0 (ddesc s)); [intros Q; inversion Q; simpl; tauto|].
    destruct (negb ow && dict_has (ddb s) k0); intros Q; inversion Q; simpl; tauto.
  - destruct (mem k (ddesc s)); intros Q; inversion Q; subst; tauto.
  - pickd s key k0 n0 EK. destruct (mem k0 (ddesc s)) eqn:M.
    + destruct ow; simpl; [|intros Q; inversion Q; simpl; tauto].
      exfalso. apply mem_In in M. destruct (pick_spec _ _ _ _ _ EK) as [->|[_ F]]; [|exact (F M)].
      exact (Hex p k0 eq_refl M).
    + simpl. destruct (dict_has (ddb s) k0); [intros Q; inversion Q; simpl; tauto|].
      destruct (evalp (ddb s) p); intros Q; inversion Q; simpl; tauto.
  - destruct (mem k (ddesc s)); [destruct (dict_get (ddb s) k)|]; intros Q; inversion Q; subst; tauto.
  - destruct (mem k (ddesc s)); intros Q; inversion Q; subst; tauto.
  - intros Q; inversion Q.
Qed.
End P.

(* the exception is real: a failing self-overwriting execute loses the entry (pipelines = "read table p") *)
Lemma d_execute_overwrite_loses_entry_refuted :
  exists (s s' : @dstate nat) (k : string),
    Dinv s /\ In k (ddesc s) /\
    d_step (fun db (p : string) => dict_get db p) (fun n => String (Ascii.ascii_of_nat n) EmptyString) s (DExecute k (Some k) true) = (s', OFail) /\
    ~ In k (ddesc s').
Proof.
  exists (mkd ["a"%string] [("a"%string, 1)] 0), (mkd [] [] 0), "a"%string.
  split; [|split; [simpl; tauto|split; [vm_compute; reflexivity|simpl; tauto]]].
  unfold Dinv. simpl. split; [repeat constructor; simpl; tauto|]. split; [repeat constructor; simpl; tauto|]. tauto.
Qed.

