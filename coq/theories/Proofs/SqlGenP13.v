(* SQLGEN, part 13 (stage iii): extend_to_near_sql returning the merged sub-query: it delivers the outer extend's table, and
   stays a step later extends may merge into. *)
From Coq Require Import List Bool Arith ZArith QArith String Lia.
Import ListNotations.
From DA Require Import Base.PyRT Base.Val Model.Sem Proofs.SemBasicP Model.ColumnsUsed Proofs.ColumnsUsedP1 Proofs.ColumnsUsedP2
  Proofs.ColumnsUsedP4 Model.SqlGen Model.SqlSem Proofs.SqlGenP1 Proofs.SqlGenP2 Proofs.SqlGenP3 Proofs.SqlGenP4 Proofs.SqlGenP5
  Proofs.SqlGenP11 Proofs.SqlGenP12.
Local Open Scope list_scope.

(* ------------------------------------------------------------------ the merged dicts *)
Section MergedDict.
Context {V : Type}.
Variables (W nt : list string) (f : string -> V) (d0 : pydict string V).
Let md := filter (fun kv : string * V => mem (fst kv) W) (fold_left (fun acc k => dict_set acc k (f k)) nt d0).

Lemma dict_get_filter_out (p : string -> bool) (d : pydict string V) k : p k = false -> dict_get (filter (fun kv => p (fst kv)) d) k = None.
Proof.
  intros P. induction d as [|[a v] t IH]; [reflexivity|]. simpl. destruct (p a) eqn:Pa; simpl; [|exact IH].
  destruct (eq_dec k a) as [->|n]; [congruence|exact IH].
Qed.

Lemma dict_get_md k : NoDup nt ->
  dict_get md k = if mem k W then (if mem k nt then Some (f k) else dict_get d0 k) else None.
Proof.
  intros N. unfold md. destruct (mem k W) eqn:MW.
  - rewrite (dict_get_filter_key (fun c => mem c W)) by exact MW. destruct (mem k nt) eqn:M.
    + apply mem_In in M. pose proof (dict_get_fold_set_in (fun c : string => c) f nt d0 k) as G. rewrite map_id in G. exact (G N M).
    + apply mem_false in M. apply (dict_get_fold_set_notin (fun c : string => c) f nt d0 k). rewrite map_id. exact M.
  - apply (dict_get_filter_out (fun c => mem c W)). exact MW.
Qed.

Lemma nodup_keys_md : NoDup (map fst d0) -> NoDup (map fst md).
Proof.
  intros N. unfold md. apply NoDup_map_fst_filter. change (map fst ?d) with (dict_keys d).
  rewrite (keys_fold_set (fun c : string => c) f). apply NoDup_fold_add_end. exact N.
Qed.

Lemma in_keys_md k : NoDup nt -> (In k (map fst md) <-> In k W /\ (In k nt \/ In k (map fst d0))).
Proof.
  intros N. change (map fst md) with (dict_keys md). split.
  - intros I. destruct (dict_get md k) as [v|] eqn:G; [|apply dict_get_None in G; contradiction].
    rewrite (dict_get_md k N) in G. destruct (mem k W) eqn:MW; [|discriminate]. apply mem_In in MW. split; [exact MW|].
    destruct (mem k nt) eqn:M; [left; apply mem_In, M|right]. apply dict_get_Some_keys in G. exact G.
  - intros [IW Ik]. destruct (dict_get md k) as [v|] eqn:G; [apply dict_get_Some_keys in G; exact G|]. exfalso.
    rewrite (dict_get_md k N) in G. apply mem_In in IW. rewrite IW in G. destruct (mem k nt) eqn:M; [discriminate|].
    apply mem_false in M. destruct Ik as [Ik|Ik]; [contradiction|]. apply dict_get_None in G. contradiction.
Qed.
End MergedDict.

Lemma is_nil_true {A} (l : list A) : is_nil l = true -> l = [].
Proof. destruct l; [reflexivity|discriminate]. Qed.

Section Merged.
Variable fl : flavor.
Variable e : env.

Lemma merged_delivers s ops n ts s0 ci ds u S :
  let p := OExtend s ops false no_window in
  let su := cfs1 p u in
  let subops := sub_ops u ops in
  let origcols := filter (fun k => negb (mem k (map fst subops))) u in
  let tms : terms := pass_terms origcols ++ map (fun ke => (fst ke, TmExpr (snd ke))) subops in
  let deps : depmap := map (fun k => (k, [k])) origcols ++ map (fun ke => (fst ke, set_union (py_set (cols_used (snd ke))) [])) subops in
  let our_nt := non_trivial_terms deps tms in
  let sub := TUnary n (Some ts) s0 ci SfxNone true (Some ds) in
  builder_ok p = true -> sem_gen fl s e = Some S -> NoDup u -> incl u (column_names p) -> subops <> [] ->
  Delivers fl e sub su S -> merge_ok ts ds ->
  contention our_nt (needs deps our_nt) (non_trivial_terms ds ts) (needs ds (non_trivial_terms ds ts)) = [] ->
  Delivers fl e (TUnary n (Some (merged_terms our_nt tms deps ts)) s0 ci SfxNone true (Some (merged_deps our_nt tms deps ds))) u (sem_extend fl ops S)
  /\ merge_ok (merged_terms our_nt tms deps ts) (merged_deps our_nt tms deps ds).
Proof.
  intros p su subops origcols tms deps our_nt sub BO ES Nu Iu NSub D [NLs [SCs [NDs [IKs [NDds DDs]]]]] Hcont.
  destruct (bok_extend_full _ _ _ _ BO) as [BOs [Ic Nk]].
  pose proof (builder_ok_nodup s BOs) as Ns. pose proof (sem_cols fl s e S ES) as EC.
  assert (NoDup su) as Nsu. { unfold su, cfs1, p. simpl. destruct (sub_ops u ops); [exact Ns|apply NoDup_filter, Ns]. }
  (* the step extend_to_near_sql would have built had it not merged *)
  pose proof (node_extend fl e s ops sub u S (mkvn "extend" 0) (Some deps) BO ES Nu Iu NSub D) as DF.
  fold p in DF. fold su in DF. fold subops in DF. fold origcols in DF. fold tms in DF.
  assert (NoDup origcols) as Norig by (apply NoDup_filter, Nu).
  assert (NoDup (map fst subops)) as Nsub by (apply NoDup_map_fst_filter, Nk).
  assert (forall k, In k origcols -> ~ In k (map fst subops)) as Dj.
  { intros k Hk. unfold origcols in Hk. apply filter_In in Hk. destruct Hk as [_ Hk]. apply negb_true_iff, mem_false in Hk. exact Hk. }
  destruct (extend_deps_ok origcols subops Norig Nsub Dj NSub) as [NLo [SCo [NDo [IKo [NDdo DDo]]]]]. fold tms in NLo, SCo, NDo, IKo, DDo. fold deps in IKo, NDdo, DDo.
  assert (map fst tms = map fst deps) as Ekeys.
  { unfold tms, deps. rewrite !map_app, keys_pass, !map_map. simpl. rewrite map_id. reflexivity. }
  assert (norm tms = Some tms) as ENorm by (destruct tms; [congruence|reflexivity]). rewrite ENorm in DF.
  assert (NoDup our_nt) as Nour by (apply NoDup_non_trivial, NDdo).
  (* what the requested items read *)
  pose proof (wneeds_needs _ _ _ _ _ (extend_request s ops false no_window u (fun k _ H => H))) as Need. fold p in Need. fold su in Need.
  assert (incl u (map fst tms)) as IuK by (exact (dv_incl _ _ _ _ _ DF)).
  assert (forall k, In k u -> incl (item_cols (k, term_of tms k)) su) as Hloc.
  { intros k Ik c Hc. specialize (Need k Ik). unfold term_of in Hc. destruct (dict_get tms k) as [t|] eqn:G.
    2:{ apply dict_get_None in G. destruct (G (IuK k Ik)). }
    apply dict_get_In in G. unfold tms in G. apply in_app_iff in G. destruct G as [G|G].
    - unfold pass_terms in G. apply in_map_iff in G. destruct G as [x [[= <- <-] Ix]]. simpl in Hc. destruct Hc as [<-|[]].
      assert (~ In x (map fst ops)) as Nx.
      { intros I. apply (Dj x Ix). apply in_map_iff in I. destruct I as [ke [E1 I1]]. apply in_map_iff. exists ke. split; [exact E1|]. apply in_sub_ops; [exact I1|rewrite E1; exact Ik]. }
      rewrite (last_for_not_key x ops Nx) in Need. apply Need. specialize (Iu x Ik). simpl in Iu. apply in_ext_cols in Iu. destruct Iu; [assumption|contradiction].
    - apply in_map_iff in G. destruct G as [ke [[= <- <-] Ike]]. simpl in Hc.
      assert (In ke ops) as Io by (apply filter_In in Ike; tauto).
      assert (last_for (fst ke) ops = Some ke) as L.
      { destruct (last_for (fst ke) ops) as [ke'|] eqn:L; [|exfalso; apply (last_for_None _ _ L); apply in_map, Io].
        destruct (last_for_In _ _ _ L) as [I' E']. f_equal.
        destruct ke as [k1 e1], ke' as [k2 e2]. simpl in E'. subst k2.
        assert (dict_get ops k1 = Some e1) as G1 by (apply dict_get_NoDup_In; assumption).
        assert (dict_get ops k1 = Some e2) as G2 by (apply dict_get_NoDup_In; assumption). congruence. }
      rewrite L in Need. apply Need; [exact Hc|]. apply Ic. eapply cols_used_in_ops; eassumption. }
  (* the input of both steps *)
  destruct (dv_nil _ _ _ _ _ D) as [R0 [ER0 _]]. unfold sub in ER0. rewrite qsem_unary in ER0.
  destruct (csem fl e s0 ci) as [X|] eqn:EX; [|discriminate]. clear R0 ER0.
  clearbody su.
  set (su' := if is_nil su then map fst ts else su).
  assert (su' <> []) as NEs'. { unfold su'. destruct (is_nil su) eqn:E0; [|intros X0; rewrite X0 in E0; discriminate]. intros X0. apply NLs. destruct ts; [reflexivity|discriminate]. }
  assert (incl su su') as Isu' by (unfold su'; destruct (is_nil su) eqn:E0; [rewrite (is_nil_true su E0); intros x []|apply incl_refl]).
  assert (incl su' (map fst ts)) as Isuts. { unfold su'. destruct (is_nil su); [apply incl_refl|]. exact (dv_incl _ _ _ _ _ D). }
  assert (qsem fl e sub (Some su) = sql_select fl true (Some ts) (Some su') SfxNone X) as EY.
  { unfold sub. rewrite qsem_unary, EX. unfold su'. destruct (is_nil su) eqn:E0; [rewrite (is_nil_true su E0); apply sql_select_keys_eq, select_keys_own_nil, NLs|reflexivity]. }
  assert (NoDup su') as Nsu' by (unfold su'; destruct (is_nil su); [exact NDs|exact Nsu]).
  destruct (sql_select fl true (Some ts) (Some su') SfxNone X) as [Y|] eqn:ESel.
  2:{ exfalso. pose proof (sql_select_scalar fl true ts su' SfxNone X NEs' eq_refl) as Q. rewrite ESel in Q.
      assert (forall k, In k su' -> scalar_term (term_of ts k) = true) as H1.
      { intros k _. unfold term_of. destruct (dict_get ts k) as [t|] eqn:G; [|reflexivity]. apply dict_get_In in G. apply (SCs _ G). }
      specialize (Q H1). discriminate. }
  (* row counts *)
  assert (List.length (rows X) = List.length (rows S)) as LX.
  { destruct (dv_sel _ _ _ _ _ D su' NEs' Nsu' Isuts) as [R [Q1 [Q2 _]]]. unfold sub in Q1. rewrite qsem_unary, EX, ESel in Q1. injection Q1 as <-.
    pose proof (sql_select_scalar fl true ts su' SfxNone X NEs' eq_refl) as Q.
    assert (forall k, In k su' -> scalar_term (term_of ts k) = true) as H1.
    { intros k _. unfold term_of. destruct (dict_get ts k) as [t|] eqn:G; [|reflexivity]. apply dict_get_In in G. apply (SCs _ G). }
    specialize (Q H1). rewrite ESel in Q. injection Q as ->.
    apply (f_equal (fun t => List.length (rows t))) in Q2. simpl in Q2. rewrite !map_length in Q2. exact Q2. }
  (* exactness through the composition *)
  assert (forall K, K <> [] -> NoDup K -> incl K u ->
            sql_select fl true (Some (merged_terms our_nt tms deps ts)) (Some K) SfxNone X = Some (sel K (sem_extend fl ops S))) as Exact.
  { intros K NK NDK IK.
    refine (eq_trans (merge_compose fl ts tms ds deps su' K X SCs SCo NDds NDdo NDo NDs IKs Ekeys DDo Hcont NEs' Isuts NK
               (fun k Ik => IuK k (IK k Ik)) (fun k Ik c Hc => Isu' c (Hloc k (IK k Ik) c Hc)) Y ESel) _).
    destruct (dv_sel _ _ _ _ _ DF K NK NDK (fun k Ik => IuK k (IK k Ik))) as [R [Q1 [_ [Q3 _]]]].
    rewrite qsem_unary in Q1. unfold csem in Q1. cbn [by_name sub tc_cols] in Q1. change (TUnary n (Some ts) s0 ci SfxNone true (Some ds)) with sub in Q1.
    rewrite EY in Q1. rewrite Q1. f_equal. apply Q3, IK. }
  set (tm := merged_terms our_nt tms deps ts). set (dm := merged_deps our_nt tms deps ds).
  assert (forall k, dict_get tm k = if mem k (map fst tms ++ map fst deps) then (if mem k our_nt then Some (term_of tms k) else dict_get ts k) else None) as Gtm
      by (intros k; apply (dict_get_md (map fst tms ++ map fst deps) our_nt (fun c => term_of tms c) ts k Nour)).
  assert (forall k, dict_get dm k = if mem k (map fst tms ++ map fst deps) then (if mem k our_nt then Some (deps_of deps k) else dict_get ds k) else None) as Gdm
      by (intros k; apply (dict_get_md (map fst tms ++ map fst deps) our_nt (fun c => deps_of deps c) ds k Nour)).
  assert (NoDup (map fst tm)) as NDtm by (apply (nodup_keys_md (map fst tms ++ map fst deps) our_nt (fun c => term_of tms c) ts NDs)).
  assert (NoDup (map fst dm)) as NDdm by (apply (nodup_keys_md (map fst tms ++ map fst deps) our_nt (fun c => deps_of deps c) ds NDds)).
  assert (forall k, In k our_nt -> In k (map fst tms)) as Iour.
  { intros k Ik. destruct (non_trivial_in deps tms k Ik) as [vi [t [_ [G _]]]]. apply dict_get_Some_keys in G. exact G. }
  assert (forall kt, In kt tm -> scalar_term (snd kt) = true) as SCtm.
  { intros [k t] I. apply (dict_get_NoDup_In tm k t NDtm) in I. rewrite Gtm in I. destruct (mem k _); [|discriminate]. destruct (mem k our_nt).
    - injection I as <-. cbn [snd]. unfold term_of. destruct (dict_get tms k) as [t0|] eqn:G; [|reflexivity]. apply dict_get_In in G. exact (SCo _ G).
    - apply dict_get_In in I. exact (SCs _ I). }
  assert (incl u (map fst tm)) as IuKm.
  { intros k Ik. apply (in_keys_md (map fst tms ++ map fst deps) our_nt (fun c => term_of tms c) ts k Nour). split; [apply in_app_iff; left; apply IuK, Ik|].
    destruct (in_dec string_dec k our_nt) as [i|ni]; [left; exact i|right].
    (* trivial in the outer step: a passed column, which the inner step supplies *)
    pose proof (IuK k Ik) as Ikt. rewrite Ekeys in Ikt. apply in_map_iff in Ikt. destruct Ikt as [[k' vi] [Ek Id]]. cbn [fst] in Ek. subst k'.
    destruct (dict_get tms k) as [t|] eqn:G; [|apply dict_get_None in G; destruct (G (IuK k Ik))].
    destruct (non_trivial_not deps tms k vi t Id G ni) as [_ [_ T]].
    assert (term_of tms k = t) as ET by (unfold term_of; rewrite G; reflexivity).
    pose proof (Hloc k Ik) as HL. rewrite ET in HL. apply Isuts, Isu'. destruct t; try discriminate; apply HL; left; reflexivity. }
  assert (tm <> []) as NLtm.
  { intros X0. destruct subops as [|so0 sor] eqn:Es; [congruence|]. assert (In (fst so0) u) as I0.
    { assert (In so0 (sub_ops u ops)) as I1 by (fold subops; rewrite Es; left; reflexivity). apply filter_In in I1. destruct I1 as [_ I1]. apply mem_In in I1. exact I1. }
    specialize (IuKm _ I0). rewrite X0 in IuKm. destruct IuKm. }
  split.
  - apply (unary_scalar_delivers fl e n tm s0 ci true (Some dm) X u (sem_extend fl ops S) EX NLtm NDtm SCtm IuKm); [| |exact Exact].
    + intros k Ik. simpl. apply in_ext_cols. rewrite EC. specialize (Iu k Ik). simpl in Iu. apply in_ext_cols in Iu. exact Iu.
    + rewrite LX. symmetry. apply extend_row_count.
  - split; [exact NLtm|]. split; [exact SCtm|]. split; [exact NDtm|]. split; [|split; [exact NDdm|]].
    + intros k Ik. apply (in_keys_md (map fst tms ++ map fst deps) our_nt (fun c => term_of tms c) ts k Nour) in Ik. destruct Ik as [IW Ik].
      apply (in_keys_md (map fst tms ++ map fst deps) our_nt (fun c => deps_of deps c) ds k Nour). split; [exact IW|]. destruct Ik as [Ik|Ik]; [left; exact Ik|right; apply IKs, Ik].
    + intros k t I. apply (dict_get_NoDup_In tm k t NDtm) in I. rewrite Gtm in I. unfold deps_of. rewrite Gdm.
      destruct (mem k (map fst tms ++ map fst deps)); [|discriminate]. destruct (mem k our_nt) eqn:M.
      * injection I as <-. apply mem_In in M. pose proof (Iour k M) as Ikt. unfold term_of.
        destruct (dict_get tms k) as [t0|] eqn:G; [|apply dict_get_None in G; contradiction]. apply dict_get_In in G. exact (DDo k t0 G).
      * apply dict_get_In in I. exact (DDs k t I).
Qed.

End Merged.
