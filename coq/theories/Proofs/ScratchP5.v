(* C15, part B: the plain steps (scratch values in locals) have no names of their own, so they commute with every injective
   renaming of the user's column names; with Proofs/ScratchP4.v: so does the executor step whenever its scratch names are
   chosen away from the frame. *)
From Coq Require Import List Bool Arith String Lia.
Import ListNotations.
From DA Require Import Base.PyRT Model.Rename Model.ScratchNames Model.ScratchRename.
From DA Require Import Proofs.RenameP1 Proofs.ScratchP1 Proofs.ScratchP2 Proofs.ScratchP3 Proofs.ScratchP4.
Local Open Scope list_scope.

Section Equivariance.
  Context {A : Type} (P : prims A) (rho : string -> string) (Hinj : injective rho).
  Let rf := @rename_frame A rho.
  Let one : A := p_const P "1".

  (* ---------------- frames *)
  Lemma rf_cols f : fcols (rf f) = map rho (fcols f).
  Proof. unfold rf, rename_frame, fcols. rewrite !map_map. reflexivity. Qed.

  Lemma rf_app f g : rf (f ++ g) = rf f ++ rf g.
  Proof. apply map_app. Qed.

  Lemma rf_get f c : fget (rf f) (rho c) = fget f c.
  Proof. unfold rf, rename_frame, fget. induction f as [|[k a] t IH]; simpl; [reflexivity|]. rewrite (RenameP1.dec_inj rho Hinj), IH. reflexivity. Qed.

  Lemma rf_set f c a : fset (rf f) (rho c) a = rf (fset f c a).
  Proof.
    unfold rf, rename_frame, fset. induction f as [|[k b] t IH]; simpl; [reflexivity|].
    rewrite (RenameP1.dec_inj rho Hinj). destruct (eq_dec c k); simpl; [reflexivity|]. rewrite IH. reflexivity.
  Qed.

  Lemma rf_select f cs : fselect (rf f) (map rho cs) = option_map rf (fselect f cs).
  Proof.
    induction cs as [|c t IH]; simpl; [reflexivity|]. rewrite rf_get, IH.
    destruct (fget f c); [|reflexivity]. destruct (fselect f t); reflexivity.
  Qed.

  Lemma rf_reads f cs : freads (rf f) (map rho cs) = freads f cs.
  Proof. unfold freads. rewrite map_map. f_equal. apply map_ext. intros c. apply rf_get. Qed.

  Lemma rf_fmapc g f : fmapc g (rf f) = rf (fmapc g f).
  Proof. unfold rf, rename_frame, fmapc. rewrite !map_map. reflexivity. Qed.

  Lemma rf_fold_set l f : fold_left (fun r ka => fset r (fst ka) (snd ka)) (rf l) (rf f) = rf (fold_left (fun r ka => fset r (fst ka) (snd ka)) l f).
  Proof. revert f. induction l as [|[k a] t IH]; intros f; simpl; [reflexivity|]. rewrite rf_set. apply IH. Qed.

  Lemma nil_map {X Y} (g : X -> Y) l : match map g l with [] => true | _ => false end = match l with [] => true | _ => false end.
  Proof. destruct l; reflexivity. Qed.

  (* ---------------- project *)
  Lemma so_key_rename ops : map so_key (map (rename_sop rho) ops) = map rho (map so_key ops).
  Proof. rewrite !map_map. reflexivity. Qed.

  Lemma plain_proj_cols_rf f keys ops cols :
    plain_proj_cols P (rf f) keys (map (rename_sop rho) ops) (rf cols) = option_map rf (plain_proj_cols P f keys ops cols).
  Proof.
    revert cols. induction ops as [|o t IH]; intros cols; simpl; [reflexivity|].
    destruct (so_arg o) as [|c|v]; simpl.
    - rewrite rf_set. apply IH.
    - rewrite rf_get. destruct (fget f c); simpl; [|reflexivity]. rewrite rf_set. apply IH.
    - rewrite rf_set. apply IH.
  Qed.

  Lemma keycols_rf gb keys : keycols P (map rho gb) keys = rf (keycols P gb keys).
  Proof.
    unfold keycols. rewrite map_length. generalize (map (p_groupkey P keys) (seq 0 (List.length gb))). clear.
    induction gb as [|g t IH]; intros [|x l]; simpl; try reflexivity. rewrite IH. reflexivity.
  Qed.

  Theorem plain_project_equivariant ops gb f :
    plain_project P (map (rename_sop rho) ops) (map rho gb) (rf f) = option_map rf (plain_project P ops gb f).
  Proof.
    unfold plain_project. rewrite rf_reads. destruct (freads f gb) as [keys|]; simpl; [|reflexivity].
    change (@nil (string * A)) with (rf []) at 1. rewrite plain_proj_cols_rf.
    destruct (plain_proj_cols P f keys ops []) as [cols|]; simpl; [|reflexivity].
    assert (E : existsb (fun g => mem g (fcols (rf cols))) (map rho gb) = existsb (fun g => mem g (fcols cols)) gb).
    { rewrite rf_cols. induction gb as [|g t IH]; simpl; [reflexivity|]. rewrite (mem_inj rho Hinj), IH. reflexivity. }
    rewrite E. destruct (existsb (fun g => mem g (fcols cols)) gb); [reflexivity|]. simpl. rewrite keycols_rf, rf_app. reflexivity.
  Qed.

  (* ---------------- windowed extend *)
  Lemma add_new_rf l cs : add_new (map rho l) (map rho cs) = map rho (add_new l cs).
  Proof.
    revert l. induction cs as [|c t IH]; intros l; simpl; [reflexivity|]. rewrite (mem_inj rho Hinj).
    destruct (mem c l); [apply IH|]. rewrite <- IH, map_app. reflexivity.
  Qed.

  Lemma base_cols_rf part order : base_cols (map rho part) (map rho order) = map rho (base_cols part order).
  Proof.
    unfold base_cols. assert (E : py_set (map rho part) = map rho (py_set part)) by (unfold py_set; apply (ext_cols_inj rho Hinj [] part)).
    rewrite E. apply add_new_rf.
  Qed.

  Lemma plain_scan_rf rev f ops ucols keys seen :
    plain_scan P (map rho rev) (rf f) (map (rename_sop rho) ops) (map rho ucols) keys seen
    = (let '(u, k, s) := plain_scan P rev f ops ucols keys seen in (map rho u, k, s)).
  Proof.
    revert ucols keys seen. induction ops as [|o t IH]; intros ucols keys seen; simpl; [reflexivity|].
    destruct (so_arg o) as [|c|v]; simpl.
    - apply IH.
    - rewrite (mem_inj rho Hinj). destruct (mem c ucols); [apply IH|].
      rewrite rf_get, (mem_inj rho Hinj). rewrite <- IH, map_app. reflexivity.
    - destruct (mem v seen); apply IH.
  Qed.

  Lemma plain_ext_ops_rf tmps gkeys ops sub :
    plain_ext_ops P tmps gkeys (map (rename_sop rho) ops) (rf sub) = option_map rf (plain_ext_ops P tmps gkeys ops sub).
  Proof.
    revert sub. induction ops as [|o t IH]; intros sub; simpl; [reflexivity|].
    destruct (so_arg o) as [|c|v]; simpl.
    - destruct (String.eqb (so_fn o) "_row_number" || String.eqb (so_fn o) "_count")%bool; simpl; [rewrite rf_set; apply IH|].
      destruct (String.eqb (so_fn o) "_ngroup"); simpl; [rewrite rf_set; apply IH|].
      destruct (String.eqb (so_fn o) "_size"); simpl; [rewrite rf_set; apply IH|reflexivity].
    - rewrite rf_get. destruct (fget sub c); simpl; [rewrite rf_set; apply IH|reflexivity].
    - destruct (dict_get tmps v); simpl; [rewrite rf_set; apply IH|reflexivity].
  Qed.

  Theorem plain_wextend_equivariant ops part order rev f :
    plain_wextend P (map (rename_sop rho) ops) (map rho part) (map rho order) (map rho rev) (rf f)
    = option_map rf (plain_wextend P ops part order rev f).
  Proof.
    unfold plain_wextend. cbv zeta. rewrite base_cols_rf.
    assert (K0 : map (fun c => (fget (rf f) c, negb (mem c (map rho rev)))) (map rho (base_cols part order))
                 = map (fun c => (fget f c, negb (mem c rev))) (base_cols part order)).
    { rewrite map_map. apply map_ext. intros c. rewrite rf_get, (mem_inj rho Hinj). reflexivity. }
    rewrite K0, plain_scan_rf.
    destruct (plain_scan P rev f ops (base_cols part order) (map (fun c => (fget f c, negb (mem c rev))) (base_cols part order)) []) as [[ucols keys] seen].
    rewrite rf_select. destruct (fselect f ucols) as [sub0|]; simpl; [|reflexivity].
    assert (S0 : match map rho (base_cols part order) with
                 | [] => Some (fun a : A => a)
                 | _ :: _ => ks <- all_some (map fst keys) ;; Some (p_sort P (combine ks (map snd keys)))
                 end
                 = match base_cols part order with
                   | [] => Some (fun a : A => a)
                   | _ :: _ => ks <- all_some (map fst keys) ;; Some (p_sort P (combine ks (map snd keys)))
                   end) by (destruct (base_cols part order); reflexivity).
    rewrite S0. clear S0.
    destruct (match base_cols part order with
              | [] => Some (fun a : A => a)
              | _ :: _ => ks <- all_some (map fst keys) ;; Some (p_sort P (combine ks (map snd keys)))
              end) as [s|]; simpl; [|reflexivity].
    rewrite rf_fmapc.
    assert (G0 : match map rho part with [] => Some [one] | _ :: _ => freads (rf (fmapc s sub0)) (map rho part) end
                 = match part with [] => Some [one] | _ :: _ => freads (fmapc s sub0) part end).
    { destruct part as [|p0 pt]; [reflexivity|]. apply (rf_reads (fmapc s sub0) (p0 :: pt)). }
    fold one. rewrite G0. clear G0.
    destruct (match part with [] => Some [one] | _ :: _ => freads (fmapc s sub0) part end) as [gkeys|]; simpl; [|reflexivity].
    rewrite plain_ext_ops_rf.
    destruct (plain_ext_ops P (map (fun v => (v, s (p_const P v))) seen) gkeys ops (fmapc s sub0)) as [sub4|]; simpl; [|reflexivity].
    unfold sort_frame. rewrite rf_fmapc, so_key_rename, rf_select.
    destruct (fselect (fmapc (p_sort P [(s (p_index P), true)]) sub4) (map so_key ops)) as [sub6|]; simpl; [|reflexivity].
    rewrite rf_fold_set. reflexivity.
  Qed.

  (* ---------------- natural join *)
  Lemma map_rf_commute (h' h : string * A -> A) F :
    (forall k a, h' (rho k, a) = h (k, a)) -> map (fun na => (fst na, h' na)) (rf F) = rf (map (fun na => (fst na, h na)) F).
  Proof. intros H. unfold rf, rename_frame. rewrite !map_map. apply map_ext. intros [k a]. simpl. rewrite H. reflexivity. Qed.

  Theorem plain_join_equivariant how on nullkeys lf rg :
    plain_join P how (map rho on) nullkeys (rf lf) (rf rg) = option_map rf (plain_join P how on nullkeys lf rg).
  Proof.
    unfold plain_join. fold one.
    assert (Ka : forall F, match map rho on with [] => Some [one] | _ :: _ => freads (rf F) (map rho on) end
                           = match on with [] => Some [one] | _ :: _ => freads F on end).
    { intros F. destruct on as [|o1 os]; [reflexivity|]. apply (rf_reads F (o1 :: os)). }
    rewrite (Ka lf), (Ka rg).
    destruct (match on with [] => Some [one] | _ :: _ => freads lf on end) as [ka1|]; simpl; [|reflexivity].
    destruct (match on with [] => Some [one] | _ :: _ => freads rg on end) as [kb1|]; simpl; [|reflexivity].
    set (ka := if nullkeys then ka1 ++ [p_nullmark_left P ka1] else ka1).
    set (kb := if nullkeys then kb1 ++ [p_nullmark_right P kb1] else kb1).
    f_equal. rewrite rf_app. f_equal.
    - apply map_rf_commute. intros k a. simpl. rewrite (mem_inj rho Hinj), rf_get. reflexivity.
    - assert (Ef : filter (fun nb : string * A => negb (mem (fst nb) (fcols (rf lf)))) (rf rg) = rf (filter (fun nb => negb (mem (fst nb) (fcols lf))) rg)).
      { unfold rf at 2 3, rename_frame. apply filter_map_comm. intros [k a]. simpl. rewrite rf_cols, (mem_inj rho Hinj). reflexivity. }
      rewrite Ef. apply (map_rf_commute (fun nb => p_merge_right P how ka kb (snd nb)) (fun nb => p_merge_right P how ka kb (snd nb))). reflexivity.
  Qed.

  (* ---------------- all steps *)
  Theorem plain_equivariant s f g :
    plain P (rename_step rho s) (rf f) (rf g) = option_map rf (plain P s f g).
  Proof.
    destruct s as [ops gb|ops part order rev|how on nk]; simpl;
      [apply plain_project_equivariant|apply plain_wextend_equivariant|apply plain_join_equivariant].
  Qed.

  Lemma rf_nodup f : NoDup (fcols f) -> NoDup (fcols (rf f)).
  Proof. intros N. rewrite rf_cols. apply NoDup_map_inj_on; [exact N|]. intros a b _ _ E. apply Hinj, E. Qed.

  (* the executor step with scratch names chosen away from the frame: renaming the user's names renames its result *)
  Theorem repaired_step_equivariant s f g :
    NoDup (fcols f) -> NoDup (fcols g) ->
    pexec P (fresh (user_names (rename_step rho s) (rf f) (rf g))) (rename_step rho s) (rf f) (rf g)
    = option_map rf (pexec P (fresh (user_names s f g)) s f g).
  Proof.
    intros Nf Ng. rewrite (fresh_never_captures P (rename_step rho s) (rf f) (rf g) (rf_nodup f Nf) (rf_nodup g Ng)).
    rewrite (fresh_never_captures P s f g Nf Ng). apply plain_equivariant.
  Qed.
End Equivariance.
