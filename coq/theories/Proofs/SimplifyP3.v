(* C06, part 3: extend merging in the reference semantics Model/Sem.v.
   Whenever the REGENERATED try_to_merge_ops (Gen/G_MergeOps.v) merges the assignments of two extend steps that have the same
   window, the merged extend denotes the same table as the two extends applied one after the other, up to the order of the new
   columns (merging lists a re-assigned column later): the same column set, the same rows in the same order, every row the same
   function from column names to values (tab_eqv) -- for row-wise extends and for windowed extends of every flavour.
   Uses the characterisation merge_spec_holds of Proofs/MergeOpsP.v (the only fact about the generated text that is needed). *)
From Coq Require Import List Bool Arith String Lia Permutation.
Import ListNotations.
From DA Require Import Base.PyRT Base.Val Model.Sem Model.Extend Model.MergeGuard Model.Simplify Gen.G_MergeOps
  Proofs.MergeOpsP Proofs.SemBasicP Proofs.ComposeP5 Proofs.SimplifyP1.
Local Open Scope list_scope.

(* ------------------------------------------------------------------ values depend only on the columns an expression names *)
Definition agree (D : list string) (c1 c2 : list string) (r1 r2 : list val) : Prop := forall c, In c D -> get c1 r1 c = get c2 r2 c.

Lemma cols_used_arg o a args c : In a args -> In c (cols_used a) -> In c (cols_used (EOp o args)).
Proof.
  cbn [cols_used]. induction args as [|x t IH]; intros I J; [destruct I|].
  apply in_app_iff. destruct I as [->|I]; [left; exact J|right; apply IH; assumption].
Qed.

Lemma eval_expr_agree fl c1 c2 r1 r2 e : agree (cols_used e) c1 c2 r1 r2 -> eval_expr fl c1 r1 e = eval_expr fl c2 r2 e.
Proof.
  induction e as [c|v|o args IH] using ComposeP5.expr_ind2; intros A; cbn [eval_expr].
  - apply A. left. reflexivity.
  - reflexivity.
  - f_equal.
    assert (forall a, In a args -> eval_expr fl c1 r1 a = eval_expr fl c2 r2 a) as H.
    { intros a Ia. rewrite Forall_forall in IH. apply (IH a Ia). intros c Ic. apply A. eapply cols_used_arg; eassumption. }
    clear IH A. induction args as [|a t IHt]; [reflexivity|]. rewrite (H a) by (left; reflexivity). rewrite IHt; [reflexivity|].
    intros x Ix. apply H. right. exact Ix.
Qed.

Lemma key_of_agree c1 c2 r1 r2 ks : agree ks c1 c2 r1 r2 -> key_of c1 ks r1 = key_of c2 ks r2.
Proof. intros A. unfold key_of. apply map_ext_in. intros c I. apply A, I. Qed.

Lemma row_le_agree fl c1 c2 keys r1 r2 r1' r2' :
  agree (map fst keys) c1 c2 r1 r2 -> agree (map fst keys) c1 c2 r1' r2' -> row_le fl c1 keys r1 r1' = row_le fl c2 keys r2 r2'.
Proof.
  induction keys as [|[c d] t IH]; intros A A'; cbn [row_le]; [reflexivity|].
  rewrite (A c), (A' c) by (left; reflexivity). rewrite IH; [reflexivity| |]; intros x I; [apply A|apply A']; right; exact I.
Qed.

Lemma win_parts_arg e o a extra c : win_parts e = Some (o, Some a, extra) -> In c (cols_used a) -> In c (cols_used e).
Proof.
  destruct e as [|?|o' [|x rest]]; cbn [win_parts]; intros H; inversion H; subst.
  intros I. eapply cols_used_arg; [left; reflexivity|exact I].
Qed.

(* the column a window expression denotes depends on the table only through the expression's columns and the window's columns *)
Lemma window_column_agree fl w t1 t2 e :
  Forall2 (agree (cols_used e ++ w_part w ++ w_order w) (cols t1) (cols t2)) (rows t1) (rows t2) ->
  window_column fl w t1 e = window_column fl w t2 e.
Proof.
  intros F. unfold window_column.
  set (D := cols_used e ++ w_part w ++ w_order w) in *.
  assert (forall a b, agree D (cols t1) (cols t2) a b -> key_of (cols t1) (w_part w) a = key_of (cols t2) (w_part w) b) as KA.
  { intros a b R. apply key_of_agree. intros c I. apply R. unfold D. rewrite !in_app_iff. tauto. }
  assert (map (fun r => key_of (cols t1) (w_part w) r) (rows t1) = map (fun r => key_of (cols t2) (w_part w) r) (rows t2)) as K.
  { eapply Forall2_map_eq; [exact F|]. exact KA. }
  rewrite K. apply flat_map_ext. intros k.
  pose proof (tag_from_Forall2 _ 0 _ _ F) as T.
  set (okeys := map (fun c => (c, mem c (w_rev w))) (w_order w)).
  set (Rt := fun a b : nat * list val => fst a = fst b /\ agree D (cols t1) (cols t2) (snd a) (snd b)) in *.
  assert (map fst okeys = w_order w) as Ok. { unfold okeys. rewrite map_map. apply map_id. }
  assert (Forall2 Rt
            (stable_sort (fun a b => row_le fl (cols t1) okeys (snd a) (snd b))
               (filter (fun ir => keys_eqv k (key_of (cols t1) (w_part w) (snd ir))) (tag_from 0 (rows t1))))
            (stable_sort (fun a b => row_le fl (cols t2) okeys (snd a) (snd b))
               (filter (fun ir => keys_eqv k (key_of (cols t2) (w_part w) (snd ir))) (tag_from 0 (rows t2))))) as S.
  { apply Forall2_stable_sort.
    - intros a b a' b' [_ R] [_ R']. apply row_le_agree; rewrite Ok; intros c I; [apply R|apply R']; unfold D; rewrite !in_app_iff; tauto.
    - eapply Forall2_filter; [exact T|]. intros a b [_ R]. rewrite (KA _ _ R). reflexivity. }
  assert (forall l1 l2, Forall2 Rt l1 l2 -> map fst l1 = map fst l2) as Mf.
  { intros l1 l2 FF. eapply Forall2_map_eq; [exact FF|]. intros a b [E _]. exact E. }
  destruct (win_parts e) as [[[o arg] extra]|] eqn:WP.
  - rewrite (Mf _ _ S). f_equal. f_equal. eapply Forall2_map_eq; [exact S|].
    intros a b [_ R]. destruct arg as [x|]; [|reflexivity]. apply eval_expr_agree. intros c I. apply R.
    unfold D. apply in_app_iff. left. eapply win_parts_arg; eassumption.
  - eapply Forall2_map_eq; [exact S|]. intros a b [E _]. rewrite E. reflexivity.
Qed.

(* ------------------------------------------------------------------ reading cells of an extended row *)
Lemma last_assign_nodup {X} (F : string * X -> val) (l : list (string * X)) c :
  NoDup (map fst l) -> last_assign F l c = match dict_get l c with Some x => Some (F (c, x)) | None => None end.
Proof.
  induction l as [|[k x] t IH]; intros N; cbn [last_assign dict_get]; [reflexivity|].
  inversion N as [|? ? Hk Nt]; subst. rewrite IH by exact Nt. cbn [fst].
  destruct (eq_dec c k) as [->|Ne].
  - destruct (dict_get t k) eqn:E; [|reflexivity]. exfalso. apply Hk. apply (dict_get_Some_keys t k x0 E).
  - destruct (dict_get t c); reflexivity.
Qed.

Lemma extend_row_cell fl cs ops r c : List.length r = List.length cs -> NoDup (map fst ops) ->
  get (ext_cols cs (map fst ops)) (extend_row fl cs ops r) c
  = match dict_get ops c with Some x => eval_expr fl cs r x | None => get cs r c end.
Proof.
  intros L N. rewrite extend_row_get by exact L. rewrite last_assign_nodup by exact N. cbn [snd].
  destruct (dict_get ops c); reflexivity.
Qed.

(* the row a windowed extend builds for input row number i *)
Definition wrow (fl : flavor) (ops : list (string * expr)) (w : window) (t : table) (ir : nat * list val) : list val :=
  fst (fold_left (fun acc kc => let '(row, ccs) := acc in
                                (set_cell ccs row (fst kc) (lookup_pos (snd kc) (fst ir)), add_end ccs (fst kc)))
                 (map (fun ke => (fst ke, window_column fl w t (snd ke))) ops) (snd ir, cols t)).

Lemma sem_wextend_rows fl ops w t : rows (sem_wextend fl ops w t) = map (wrow fl ops w t) (tag_from 0 (rows t)).
Proof. reflexivity. Qed.

Lemma wrow_cell fl ops w t i r c : List.length r = List.length (cols t) -> NoDup (map fst ops) ->
  get (ext_cols (cols t) (map fst ops)) (wrow fl ops w t (i, r)) c
  = match dict_get ops c with Some x => lookup_pos (window_column fl w t x) i | None => get (cols t) r c end.
Proof.
  intros L N. unfold wrow. cbn [fst snd].
  set (wc := map (fun ke => (fst ke, window_column fl w t (snd ke))) ops).
  assert (map fst wc = map fst ops) as Mw. { unfold wc. apply (map_fst_tagged (fun ke => window_column fl w t (snd ke))). }
  destruct (fold_cells_inv (fun kc : string * list (nat * val) => lookup_pos (snd kc) i) wc r (cols t) L) as [_ H2].
  rewrite Mw in H2. rewrite <- H2.
  rewrite (fold_get (fun kc : string * list (nat * val) => lookup_pos (snd kc) i) wc r (cols t) c L).
  rewrite last_assign_nodup by (rewrite Mw; exact N). cbn [snd].
  unfold wc. rewrite (dict_get_map_val (fun x => window_column fl w t x) ops c).
  destruct (dict_get ops c); reflexivity.
Qed.

Lemma wrow_length fl ops w t ir : List.length (snd ir) = List.length (cols t) ->
  List.length (wrow fl ops w t ir) = List.length (ext_cols (cols t) (map fst ops)).
Proof.
  intros L. unfold wrow.
  destruct (fold_cells_inv (fun kc : string * list (nat * val) => lookup_pos (snd kc) (fst ir))
              (map (fun ke => (fst ke, window_column fl w t (snd ke))) ops) (snd ir) (cols t) L) as [H1 H2].
  rewrite (map_fst_tagged (fun ke => window_column fl w t (snd ke))) in H2. rewrite <- H2. exact H1.
Qed.

Lemma tag_from_map_tag (f : nat * list val -> list val) (l : list (list val)) : forall n,
  tag_from n (map f (tag_from n l)) = map (fun ir => (fst ir, f ir)) (tag_from n l).
Proof.
  assert (forall (g : nat * list val -> list val) m n, tag_from n (map g (tag_from m l)) = map (fun jr => (n + (fst jr - m), g jr)%nat) (tag_from m l)) as G.
  { induction l as [|r t IH]; intros g m n; simpl; [reflexivity|]. f_equal.
    - rewrite Nat.sub_diag, Nat.add_0_r. reflexivity.
    - rewrite IH. apply map_ext_in. intros [j x] I. cbn [fst].
      assert (S m <= j)%nat as Lj.
      { clear -I. revert I. generalize (S m). induction t as [|y t IH]; intros k I; simpl in I; [destruct I|].
        destruct I as [E|I]; [inversion E; lia|]. specialize (IH _ I). lia. }
      f_equal. lia. }
  intros n. rewrite G. apply map_ext_in. intros [j x] I. cbn [fst]. f_equal.
  assert (n <= j)%nat as Lj.
  { clear -I. revert n I. induction l as [|y t IH]; intros k I; simpl in I; [destruct I|].
    destruct I as [E|I]; [inversion E; lia|]. specialize (IH _ I). lia. }
  lia.
Qed.

Lemma Forall2_map_same {A B C} (R : B -> C -> Prop) (f : A -> B) (g : A -> C) l :
  (forall x, In x l -> R (f x) (g x)) -> Forall2 R (map f l) (map g l).
Proof. induction l as [|a t IH]; intros H; simpl; constructor; [apply H; left; reflexivity|apply IH; intros x I; apply H; right; exact I]. Qed.

Lemma tag_from_width n rs L ir : Forall (fun r => List.length r = L) rs -> In ir (tag_from n rs) -> List.length (snd ir) = L.
Proof. intros W I. apply tag_from_In in I. rewrite Forall_forall in W. apply W, I. Qed.

(* ------------------------------------------------------------------ merged extend = the two extends in turn *)
Section Merge.
  Variables (o1 o2 m : list (string * expr)).
  Hypothesis N1 : NoDup (map fst o1).
  Hypothesis N2 : NoDup (map fst o2).
  Hypothesis Hm : try_to_merge_ops gcu o1 o2 = Some m.

  Let spec := merge_spec_holds cols_used o1 o2 m N1 N2 Hm.

  Lemma merged_get k : dict_get m k = match dict_get o2 k with Some v => Some v | None => dict_get o1 k end.
  Proof. destruct spec as (G & _). apply G. Qed.
  Lemma merged_disjoint k x e : dict_get o2 k = Some e -> In x (cols_used e) -> ~ In x (map fst o1).
  Proof. destruct spec as (_ & D & _). intros E I. apply D. eapply deps_in_gcu; eassumption. Qed.
  Lemma merged_nodup : NoDup (map fst m).
  Proof. destruct spec as (_ & _ & Nm & _). exact Nm. Qed.
  Lemma merged_keys k : In k (map fst m) <-> In k (map fst o1) \/ In k (map fst o2).
  Proof. destruct spec as (_ & _ & _ & Km). apply Km. Qed.

  Lemma merged_cols cs : same_set (ext_cols cs (map fst m)) (ext_cols (ext_cols cs (map fst o1)) (map fst o2)).
  Proof. intros c. unfold ext_cols. rewrite !In_fold_add_end, merged_keys. tauto. Qed.

  Lemma merge_sem_extend fl t : width_ok t -> tab_eqv (sem_extend fl m t) (sem_extend fl o2 (sem_extend fl o1 t)).
  Proof.
    intros W. split; cbn [cols rows sem_extend]; [apply merged_cols|]. rewrite map_map.
    apply Forall2_map_same. intros r I. unfold width_ok in W. rewrite Forall_forall in W. specialize (W r I).
    intros c. rewrite extend_row_cell by (exact W || exact merged_nodup).
    rewrite extend_row_cell by (apply extend_row_width, W || exact N2).
    rewrite merged_get. destruct (dict_get o2 c) as [x2|] eqn:E2.
    - symmetry. apply eval_expr_agree. intros y Iy. rewrite extend_row_cell by (exact W || exact N1).
      pose proof (merged_disjoint c y x2 E2 Iy) as Ny. apply (dict_get_None o1 y) in Ny. rewrite Ny. reflexivity.
    - rewrite extend_row_cell by (exact W || exact N1). reflexivity.
  Qed.

  Lemma merge_sem_wextend fl w t : width_ok t ->
    (forall k, In k (map fst o1) -> ~ In k (w_part w ++ w_order w)) ->
    tab_eqv (sem_wextend fl m w t) (sem_wextend fl o2 w (sem_wextend fl o1 w t)).
  Proof.
    intros W HW. split; [cbn [cols sem_wextend]; apply merged_cols|].
    rewrite !sem_wextend_rows. rewrite tag_from_map_tag. rewrite map_map.
    apply Forall2_map_same. intros [i r] I. cbn [fst].
    assert (List.length r = List.length (cols t)) as L by (apply (tag_from_width 0 (rows t) _ (i, r) W I)).
    set (t1 := sem_wextend fl o1 w t).
    assert (cols t1 = ext_cols (cols t) (map fst o1)) as C1 by reflexivity.
    intros c.
    change (cols (sem_wextend fl m w t)) with (ext_cols (cols t) (map fst m)).
    change (cols (sem_wextend fl o2 w t1)) with (ext_cols (cols t1) (map fst o2)).
    rewrite wrow_cell by (exact L || exact merged_nodup).
    rewrite wrow_cell by ((rewrite C1; apply (wrow_length fl o1 w t (i, r)); exact L) || exact N2).
    rewrite merged_get. destruct (dict_get o2 c) as [x2|] eqn:E2.
    - f_equal. symmetry. apply window_column_agree.
      unfold t1. rewrite sem_wextend_rows.
      assert (forall l (f : nat * list val -> list val) (R : list val -> list val -> Prop) n,
                (forall ir, In ir (tag_from n l) -> R (f ir) (snd ir)) -> Forall2 R (map f (tag_from n l)) l) as G.
      { induction l as [|y l0 IH]; intros f R n H; simpl; constructor; [apply (H (n, y)); left; reflexivity|].
        apply IH. intros ir Iir. apply H. right. exact Iir. }
      apply G. intros [j rj] Ij y Iy. cbn [snd].
      assert (List.length rj = List.length (cols t)) as Lj by (apply (tag_from_width 0 (rows t) _ (j, rj) W Ij)).
      change (cols (sem_wextend fl o1 w t)) with (ext_cols (cols t) (map fst o1)).
      rewrite wrow_cell by (exact Lj || exact N1).
      assert (~ In y (map fst o1)) as Ny.
      { apply in_app_iff in Iy. destruct Iy as [Iy|Iy]; [eapply merged_disjoint; eassumption|]. intros K. exact (HW y K Iy). }
      apply (dict_get_None o1 y) in Ny. rewrite Ny. reflexivity.
    - rewrite C1. rewrite wrow_cell by (exact L || exact N1). reflexivity.
  Qed.
End Merge.
