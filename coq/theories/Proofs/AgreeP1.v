(* C01 / C02, part 1: scalar functions, expressions, aggregates and window functions give the same value under every
   flavour whenever Model/SemStrict.v lists no cause. *)
From Coq Require Import List Bool Arith ZArith QArith String Lia.
Import ListNotations.
From DA Require Import Base.PyRT Base.Val Model.Sem Model.SemStrict.
Local Open Scope string_scope.
Local Open Scope list_scope.

(* ---------- lists *)
Lemma flat_map_nil {A B} (f : A -> list B) l : flat_map f l = [] -> forall x, In x l -> f x = [].
Proof.
  induction l as [|a t IH]; simpl; intros E x I; [destruct I|].
  apply app_eq_nil in E. destruct E as [E1 E2]. destruct I as [<-|I]; [exact E1|apply IH; assumption].
Qed.
Lemma nil_flat_map {A B} (f : A -> list B) l : (forall x, In x l -> f x = []) -> flat_map f l = [].
Proof.
  induction l as [|a t IH]; simpl; intros H; [reflexivity|].
  rewrite (H a (or_introl eq_refl)), IH; [reflexivity|]. intros x I. apply H. right. exact I.
Qed.
Lemma if_nil {A} (b : bool) (x : A) : (if b then [x] else []) = [] -> b = false.
Proof. destruct b; [discriminate|reflexivity]. Qed.
Lemma smem_app s a b : smem s (a ++ b) = smem s a || smem s b.
Proof. unfold smem. apply existsb_app. Qed.
Lemma is_nil_true {A} (l : list A) : is_nil l = true -> l = [].
Proof. destruct l; [reflexivity|discriminate]. Qed.

(* ---------- induction over expressions (arguments are a nested list) *)
Lemma expr_ind2 (P : expr -> Prop) :
  (forall c, P (ECol c)) -> (forall v, P (EConst v)) -> (forall op args, Forall P args -> P (EOp op args)) -> forall e, P e.
Proof.
  intros Hc Hv Ho. fix IH 1. intros [c|v|op args]; [apply Hc|apply Hv|]. apply Ho.
  induction args as [|a t IHt]; [constructor|constructor; [apply IH|exact IHt]].
Qed.

Lemma eval_expr_EOp fl cs r op args : eval_expr fl cs r (EOp op args) = scalar_op fl op (map (eval_expr fl cs r) args).
Proof. reflexivity. Qed.
Lemma expr_causes_EOp fl cs r op args :
  expr_causes fl cs r (EOp op args) = flat_map (expr_causes fl cs r) args ++ scalar_causes op (map (eval_expr fl cs r) args).
Proof. reflexivity. Qed.

(* ---------- one application of a scalar function *)
(* a function that is not among the twelve convention-dependent ones never looks at the flavour *)
Lemma scalar_op_indep fl fl' op args : smem op sens_ops = false -> scalar_op fl op args = scalar_op fl' op args.
Proof.
  unfold scalar_op.
  repeat match goal with
  | |- context [match ?x with _ => _ end] => is_var x; destruct x
  end; try reflexivity.
  all: intros H; discriminate H.
Qed.

Lemma compare_vals_nonnull fl fl' c a b : is_null a = false -> is_null b = false -> compare_vals fl c a b = compare_vals fl' c a b.
Proof. destruct a, b; simpl; intros; try discriminate; reflexivity. Qed.
Lemma null_truth a : is_null a = true -> truth a = false.
Proof. destruct a; simpl; intros; try discriminate; reflexivity. Qed.
Lemma and3_nonnull a b : is_null a = false -> is_null b = false -> and3 a b = VBool (truth a && truth b).
Proof. intros Ha Hb. unfold and3. rewrite Ha, Hb. simpl. destruct (truth a), (truth b); reflexivity. Qed.
Lemma or3_nonnull a b : is_null a = false -> is_null b = false -> or3 a b = VBool (truth a || truth b).
Proof. intros Ha Hb. unfold or3. rewrite Ha, Hb. simpl. destruct (truth a), (truth b); reflexivity. Qed.
Lemma ignore_null2_nonnull f a b : is_null a = false -> is_null b = false -> ignore_null2 f a b = num2 f a b.
Proof. intros Ha Hb. unfold ignore_null2. rewrite Ha, Hb. reflexivity. Qed.

Lemma smem_cases op l : smem op l = true -> In op l.
Proof. unfold smem. intros H. apply existsb_exists in H. destruct H as [x [I E]]. apply String.eqb_eq in E. subst. exact I. Qed.

Ltac args2 args := destruct args as [|?a [|?b [|?c ?l]]]; try reflexivity.

(* without a null argument every one of the twelve gives the same value under every flavour *)
Lemma scalar_op_nonnull fl fl' op args : existsb is_null args = false -> scalar_op fl op args = scalar_op fl' op args.
Proof.
  intros N. destruct (smem op sens_ops) eqn:HS; [|apply scalar_op_indep; exact HS].
  apply smem_cases in HS. unfold sens_ops, cmp_ops, logic_ops, minmax_ops, fminmax_ops in HS. simpl in HS.
  repeat (destruct HS as [<-|HS]); [..|destruct HS]; args2 args; simpl in N; apply orb_false_iff in N; destruct N as [Na N];
    apply orb_false_iff in N; destruct N as [Nb _]; cbn [scalar_op];
    try (apply compare_vals_nonnull; assumption).
  - rewrite (and3_nonnull _ _ Na Nb). destruct (f_logic3 fl), (f_logic3 fl'); reflexivity.
  - rewrite (or3_nonnull _ _ Na Nb). destruct (f_logic3 fl), (f_logic3 fl'); reflexivity.
  - rewrite (ignore_null2_nonnull _ _ _ Na Nb). destruct (f_minmax_ignore_null fl), (f_minmax_ignore_null fl'); reflexivity.
  - rewrite (ignore_null2_nonnull _ _ _ Na Nb). destruct (f_minmax_ignore_null fl), (f_minmax_ignore_null fl'); reflexivity.
  - rewrite (ignore_null2_nonnull _ _ _ Na Nb). destruct (f_fminmax_propagate fl), (f_fminmax_propagate fl'); reflexivity.
  - rewrite (ignore_null2_nonnull _ _ _ Na Nb). destruct (f_fminmax_propagate fl), (f_fminmax_propagate fl'); reflexivity.
Qed.

Lemma scalar_stable fl fl' op args : scalar_causes op args = [] -> scalar_op fl op args = scalar_op fl' op args.
Proof.
  unfold scalar_causes. destruct (existsb is_null args) eqn:N; [|intros _; apply scalar_op_nonnull; exact N].
  intros H. apply scalar_op_indep. unfold sens_ops. rewrite !smem_app.
  destruct (smem op cmp_ops); [discriminate|]. destruct (smem op logic_ops); [discriminate|].
  destruct (smem op minmax_ops); [discriminate|]. destruct (smem op fminmax_ops); [discriminate|]. reflexivity.
Qed.

(* ---------- the VALUE of an expression *)
Lemma expr_stable fl0 cs r e : expr_causes fl0 cs r e = [] -> forall fl, eval_expr fl cs r e = eval_expr fl0 cs r e.
Proof.
  induction e as [c|v|op args IH] using expr_ind2; intros H fl; try reflexivity.
  rewrite expr_causes_EOp in H. apply app_eq_nil in H. destruct H as [H1 H2].
  rewrite !eval_expr_EOp.
  assert (map (eval_expr fl cs r) args = map (eval_expr fl0 cs r) args) as E.
  { apply map_ext_in. intros a I. rewrite Forall_forall in IH. apply IH; [exact I|]. eapply flat_map_nil; eassumption. }
  rewrite E. apply scalar_stable. exact H2.
Qed.

(* ---------- the TRUTH of an expression (row filters) *)
Lemma truth_and fl a b : truth (scalar_op fl "and" [a; b]) = truth a && truth b.
Proof.
  cbn [scalar_op]. destruct (f_logic3 fl); [|reflexivity]. unfold and3.
  destruct (is_null a) eqn:Na; destruct (is_null b) eqn:Nb; simpl;
    try rewrite (null_truth a Na); try rewrite (null_truth b Nb); simpl;
    destruct (truth a); destruct (truth b); reflexivity.
Qed.
Lemma truth_or fl a b : truth (scalar_op fl "or" [a; b]) = truth a || truth b.
Proof.
  cbn [scalar_op]. destruct (f_logic3 fl); [|reflexivity]. unfold or3.
  destruct (is_null a) eqn:Na; destruct (is_null b) eqn:Nb; simpl;
    try rewrite (null_truth a Na); try rewrite (null_truth b Nb); simpl;
    destruct (truth a); destruct (truth b); reflexivity.
Qed.
(* a comparison other than != with a null operand is False or null: not true, under every flavour *)
Lemma truth_compare_null fl fl' c a b : c <> CNe -> truth (compare_vals fl c a b) = truth (compare_vals fl' c a b).
Proof.
  intros N. destruct (is_null a) eqn:Na; [|destruct (is_null b) eqn:Nb].
  - destruct a; try discriminate. simpl. destruct (f_cmp3 fl), (f_cmp3 fl'), c; simpl; congruence.
  - destruct b; try discriminate. destruct a; simpl; destruct (f_cmp3 fl), (f_cmp3 fl'), c; simpl; congruence.
  - rewrite (compare_vals_nonnull fl fl' c a b Na Nb). reflexivity.
Qed.

Lemma truth_stable fl0 cs r e : truth_causes fl0 cs r e = [] ->
  forall fl, truth (eval_expr fl cs r e) = truth (eval_expr fl0 cs r e).
Proof.
  induction e as [c|v|op args IH] using expr_ind2; intros H fl; try reflexivity.
  destruct args as [|a [|b [|c l]]];
    try (rewrite (expr_stable fl0 cs r _ H fl); reflexivity).
  cbn [truth_causes] in H. rewrite Forall_forall in IH.
  destruct (smem op logic_ops) eqn:L.
  - apply app_eq_nil in H. destruct H as [Ha Hb].
    assert (truth (eval_expr fl cs r a) = truth (eval_expr fl0 cs r a)) as Ea by (apply IH; [left; reflexivity|exact Ha]).
    assert (truth (eval_expr fl cs r b) = truth (eval_expr fl0 cs r b)) as Eb by (apply IH; [right; left; reflexivity|exact Hb]).
    apply smem_cases in L. rewrite !eval_expr_EOp. simpl map.
    destruct L as [<-|[<-|[]]]; rewrite ?truth_and, ?truth_or, Ea, Eb; reflexivity.
  - destruct (smem op cmp_ops) eqn:C; [|rewrite (expr_stable fl0 cs r _ H fl); reflexivity].
    apply app_eq_nil in H. destruct H as [Ha H]. apply app_eq_nil in H. destruct H as [Hb Hn].
    rewrite !eval_expr_EOp. simpl map.
    rewrite (expr_stable fl0 cs r a Ha fl), (expr_stable fl0 cs r b Hb fl).
    apply if_nil in Hn. apply smem_cases in C.
    destruct C as [<-|[<-|[<-|[<-|[<-|[<-|[]]]]]]]; cbn [scalar_op];
      try (apply truth_compare_null; discriminate).
    simpl in Hn. apply orb_false_iff in Hn. destruct Hn as [Na Nb].
    rewrite (compare_vals_nonnull fl fl0 CNe _ _ Na Nb). reflexivity.
Qed.

(* ---------- aggregates *)
Lemma agg_fn_indep fl fl' op vs : String.eqb op "sum" = false -> smem op ["count"; "size"; "_size"] = false ->
  agg_fn fl op vs = agg_fn fl' op vs.
Proof.
  unfold agg_fn.
  repeat match goal with
  | |- context [match ?x with _ => _ end] => is_var x; destruct x
  end; try reflexivity.
  all: intros H1 H2; try discriminate H1; try discriminate H2.
Qed.
Lemma agg_stable fl fl' op vs : agg_causes op vs = [] -> agg_fn fl op vs = agg_fn fl' op vs.
Proof.
  unfold agg_causes. destruct (String.eqb op "sum") eqn:Hs.
  - apply String.eqb_eq in Hs. subst. cbn [agg_fn]. destruct (nums vs); [discriminate|reflexivity].
  - destruct (smem op ["count"; "size"; "_size"]) eqn:C; [|intros _; apply agg_fn_indep; assumption].
    apply smem_cases in C. destruct C as [<-|[<-|[<-|[]]]]; cbn [agg_fn]; destruct vs; try discriminate; reflexivity.
Qed.

(* ---------- window functions *)
Lemma running_no_null c c' f acc vs : existsb no_num vs = false -> running c f acc vs = running c' f acc vs.
Proof.
  revert acc. induction vs as [|v t IH]; intros acc H; simpl; [reflexivity|].
  simpl in H. apply orb_false_iff in H. destruct H as [Hv Ht]. unfold no_num in Hv.
  destruct (num_of v); [|discriminate]. rewrite (IH _ Ht). reflexivity.
Qed.
(* every window function other than the three running ones looks at the flavour only through the group aggregates
   (brute force over the names of Model/Sem.v, so that flavour-independent additions to win_fn do not disturb the proof) *)
Lemma win_fn_indep fl fl' op extra vs : smem op running_ops = false -> agg_causes op vs = [] ->
  win_fn fl op extra vs = win_fn fl' op extra vs.
Proof.
  unfold win_fn.
  repeat match goal with
  | |- context [match ?x with _ => _ end] => is_var x; destruct x
  end; try reflexivity.
  all: intros H1 H2; try discriminate H1; rewrite (agg_stable fl fl' _ vs H2); reflexivity.
Qed.
Lemma win_stable fl fl' op extra vs : win_causes op vs = [] -> win_fn fl op extra vs = win_fn fl' op extra vs.
Proof.
  unfold win_causes. destruct (smem op running_ops) eqn:R.
  - intros H. apply if_nil in H. apply smem_cases in R.
    destruct R as [<-|[<-|[<-|[]]]]; cbn [win_fn]; apply running_no_null; exact H.
  - destruct (smem op positional_ops) eqn:P.
    + intros _. apply smem_cases in P. destruct P as [<-|[<-|[<-|[]]]]; reflexivity.
    + intros H. apply win_fn_indep; assumption.
Qed.
