(* C21, part 1: list / row lemmas shared by the helper proofs, and replicate_rows_query. *)
From Coq Require Import List Bool Arith ZArith QArith Qcanon String Lia Permutation Decimal DecimalString DecimalNat.
Import ListNotations.
From DA Require Import Base.PyRT Base.Val Model.Sem Model.Solutions Proofs.SemBasicP.
Local Open Scope string_scope.
Local Open Scope list_scope.

(* ------------------------------------------------------------------ boolean predicates *)
Lemma nodupb_NoDup l : nodupb l = true -> NoDup l.
Proof. induction l as [|x t IH]; simpl; intros H; [constructor|]. apply andb_true_iff in H as [H1 H2].
  constructor; [|apply IH, H2]. apply negb_true_iff in H1. apply mem_false in H1. exact H1. Qed.
Lemma widthb_ok t : widthb t = true -> Forall (fun r => List.length r = List.length (cols t)) (rows t).
Proof. unfold widthb. rewrite forallb_forall, Forall_forall. intros H r I. apply Nat.eqb_eq, H, I. Qed.
Lemma negb_mem_notin (c : string) l : negb (mem c l) = true -> ~ In c l.
Proof. intros H. apply negb_true_iff in H. apply mem_false in H. exact H. Qed.
Lemma seqb_neq (a b : string) : negb (String.eqb a b) = true -> a <> b.
Proof. intros H E. apply negb_true_iff in H. apply String.eqb_neq in H. contradiction. Qed.

(* ------------------------------------------------------------------ get on concatenated rows *)
Lemma index_of_notin c cs : ~ In c cs -> index_of c cs = None.
Proof. intros N. apply index_of_None. apply mem_false. exact N. Qed.
Lemma index_of_app_r c cs ds : ~ In c cs -> index_of c (cs ++ ds) = option_map (fun i => (List.length cs + i)%nat) (index_of c ds).
Proof. induction cs as [|x t IH]; simpl; intros N.
  - destruct (index_of c ds); reflexivity.
  - destruct (eq_dec c x) as [->|n]; [exfalso; apply N; left; reflexivity|].
    rewrite IH by (intros I; apply N; right; exact I). destruct (index_of c ds); reflexivity. Qed.
Lemma get_app_l cs ds r s c : In c cs -> List.length r = List.length cs -> get (cs ++ ds) (r ++ s) c = get cs r c.
Proof. intros I L. unfold get. destruct (index_of_In c cs I) as [i E]. rewrite (index_of_app_l _ _ _ _ E), E.
  apply app_nth1. rewrite L. eapply index_of_lt, E. Qed.
Lemma get_app_r cs ds r s c : ~ In c cs -> List.length r = List.length cs -> get (cs ++ ds) (r ++ s) c = get ds s c.
Proof. intros N L. unfold get. rewrite (index_of_app_r _ _ _ N). destruct (index_of c ds) as [i|]; simpl; [|reflexivity].
  rewrite app_nth2 by lia. f_equal. lia. Qed.
Lemma get_notin cs r c : ~ In c cs -> get cs r c = VNull.
Proof. intros N. unfold get. rewrite (index_of_notin _ _ N). reflexivity. Qed.
Lemma get_head c cs v r : get (c :: cs) (v :: r) c = v.
Proof. unfold get. simpl. destruct (eq_dec c c); [reflexivity|congruence]. Qed.
Lemma get_tail c x cs v r : c <> x -> get (x :: cs) (v :: r) c = get cs r c.
Proof. intros N. unfold get. simpl. destruct (eq_dec c x); [congruence|]. destruct (index_of c cs); reflexivity. Qed.
Lemma map_get_ext cs r cs' r' l : (forall c, In c l -> get cs r c = get cs' r' c) -> map (get cs r) l = map (get cs' r') l.
Proof. intros H. apply map_ext_in. exact H. Qed.
Lemma map_get_id cs : forall r, NoDup cs -> List.length r = List.length cs -> map (get cs r) cs = r.
Proof. induction cs as [|c t IH]; intros [|v r] ND L; simpl in *; try discriminate; [reflexivity|].
  inversion ND as [|? ? Nc NDt]; subst. rewrite get_head. f_equal.
  rewrite <- (IH r NDt) at 2 by lia. apply map_ext_in. intros a Ia. apply get_tail. intros ->. contradiction. Qed.
Lemma map_get_app_l cs ds r s : NoDup cs -> List.length r = List.length cs -> map (get (cs ++ ds) (r ++ s)) cs = r.
Proof. intros ND L. rewrite <- (map_get_id cs r ND L) at 2. apply map_ext_in. intros c I. apply get_app_l; assumption. Qed.
Lemma set_cell_new cs r k v : ~ In k cs -> set_cell cs r k v = r ++ [v].
Proof. intros N. unfold set_cell. rewrite (index_of_notin _ _ N). reflexivity. Qed.
Lemma add_end_new (cs : list string) k : ~ In k cs -> add_end cs k = cs ++ [k].
Proof. intros N. unfold add_end. apply mem_false in N. rewrite N. reflexivity. Qed.
Lemma add_end_old (cs : list string) k : In k cs -> add_end cs k = cs.
Proof. intros I. unfold add_end. apply mem_In in I. rewrite I. reflexivity. Qed.
Lemma unnull v : (if is_null v then VNull else v) = v.
Proof. destruct v; reflexivity. Qed.
Lemma filter_all {A} (f : A -> bool) l : (forall x, In x l -> f x = true) -> filter f l = l.
Proof. induction l as [|x t IH]; simpl; intros H; [reflexivity|]. rewrite (H x (or_introl eq_refl)). f_equal. apply IH. intros y I. apply H. right. exact I. Qed.
Lemma filter_none {A} (f : A -> bool) l : (forall x, In x l -> f x = false) -> filter f l = [].
Proof. induction l as [|x t IH]; simpl; intros H; [reflexivity|]. rewrite (H x (or_introl eq_refl)). apply IH. intros y I. apply H. right. exact I. Qed.
Lemma flat_map_nil {A B} (f : A -> list B) l : (forall x, In x l -> f x = []) -> flat_map f l = [].
Proof. induction l as [|x t IH]; simpl; intros H; [reflexivity|]. rewrite (H x (or_introl eq_refl)). apply IH. intros y I. apply H. right. exact I. Qed.
Lemma flat_map_single {A B} (f : A -> list B) k l : NoDup l -> In k l -> (forall x, In x l -> x <> k -> f x = []) -> flat_map f l = f k.
Proof. induction l as [|x t IH]; simpl; intros ND I H; [destruct I|]. inversion ND as [|? ? Nx NDt]; subst.
  destruct I as [->|I].
  - rewrite flat_map_nil, app_nil_r; [reflexivity|]. intros y Iy. apply H; [right; exact Iy|]. intros ->. contradiction.
  - rewrite (H x (or_introl eq_refl)) by (intros ->; contradiction). simpl. apply IH; auto. Qed.
Lemma flat_map_map {A B C} (f : B -> list C) (g : A -> B) l : flat_map f (map g l) = flat_map (fun x => f (g x)) l.
Proof. induction l as [|x t IH]; simpl; [reflexivity|]. rewrite IH. reflexivity. Qed.
Lemma flat_map_ext_in {A B} (f g : A -> list B) l : (forall x, In x l -> f x = g x) -> flat_map f l = flat_map g l.
Proof. induction l as [|x t IH]; simpl; intros H; [reflexivity|]. rewrite (H x (or_introl eq_refl)), IH; [reflexivity|]. intros y I. apply H. right. exact I. Qed.
Lemma filter_flat_map {A B} (p : B -> bool) (f : A -> list B) l : filter p (flat_map f l) = flat_map (fun x => filter p (f x)) l.
Proof. induction l as [|x t IH]; simpl; [reflexivity|]. rewrite filter_app, IH. reflexivity. Qed.
Lemma filter_map_comm {A B} (p : B -> bool) (g : A -> B) l : filter p (map g l) = map g (filter (fun x => p (g x)) l).
Proof. induction l as [|x t IH]; simpl; [reflexivity|]. destruct (p (g x)); simpl; rewrite IH; reflexivity. Qed.
Lemma map_flat_map {A B C} (g : B -> C) (f : A -> list B) l : map g (flat_map f l) = flat_map (fun x => map g (f x)) l.
Proof. induction l as [|x t IH]; simpl; [reflexivity|]. rewrite map_app, IH. reflexivity. Qed.
Lemma filter_ltb_seq c n : (c <= n)%nat -> filter (fun i => Nat.ltb i c) (seq 0 n) = seq 0 c.
Proof. intros L. replace n with (c + (n - c))%nat by lia. rewrite seq_app, filter_app. simpl.
  rewrite filter_all, filter_none, app_nil_r; [reflexivity| |].
  - intros x I. apply in_seq in I. apply Nat.ltb_ge. lia.
  - intros x I. apply in_seq in I. apply Nat.ltb_lt. lia. Qed.

(* ------------------------------------------------------------------ numerals *)
Lemma Qred_int z : Qred (z # 1) = z # 1.
Proof. apply Qred_identity. simpl. apply Z.gcd_1_r. Qed.
Lemma vnat_eq n : vnat n = VNum (Z.of_nat n # 1).
Proof. unfold vnat, qn, inject_Z. rewrite Qred_int. reflexivity. Qed.
Lemma nat_of_val_vnat n : nat_of_val (vnat n) = Some n.
Proof. rewrite vnat_eq. unfold nat_of_val, num_of. rewrite Qred_int. simpl.
  destruct (Z.leb_spec 0 (Z.of_nat n)); [|lia]. rewrite Nat2Z.id. reflexivity. Qed.
(* a value that denotes the natural number c is a non-null number equal to c *)
Lemma nat_of_val_num v c : nat_of_val v = Some c -> exists q, num_of v = Some q /\ q == inject_Z (Z.of_nat c).
Proof. unfold nat_of_val. destruct (num_of v) as [q|]; [|discriminate]. intros H. exists q. split; [reflexivity|].
  destruct (Pos.eqb (Qden (Qred q)) 1) eqn:D; [|discriminate]. destruct (Z.leb 0 (Qnum (Qred q))) eqn:Z0; [|discriminate].
  simpl in H. inversion H as [E]. apply Pos.eqb_eq in D. apply Z.leb_le in Z0. rewrite Z2Nat.id by exact Z0.
  pose proof (Qred_correct q) as RC. destruct (Qred q) as [a b]. simpl in *. subst b. rewrite <- RC. reflexivity. Qed.
Lemma dec_of_nat_inj a b : dec_of_nat a = dec_of_nat b -> a = b.
Proof. unfold dec_of_nat. intros H. apply Unsigned.to_uint_inj.
  assert (Some (Nat.to_uint a) = Some (Nat.to_uint b)) as E by (rewrite <- !NilEmpty.usu, H; reflexivity).
  inversion E. reflexivity. Qed.
Lemma append_inj_l p a b : String.append p a = String.append p b -> a = b.
Proof. induction p as [|x p IH]; simpl; intros H; [exact H|]. inversion H. auto. Qed.
Lemma ltb_vnat fl i v c : nat_of_val v = Some c -> truth (compare_vals fl CLt (vnat i) v) = Nat.ltb i c.
Proof. intros H. destruct (nat_of_val_num v c H) as [q [Hq Eq]]. rewrite vnat_eq.
  assert (cmp_num CLt (Z.of_nat i # 1) q = Nat.ltb i c) as C.
  { unfold cmp_num. apply eq_true_iff_eq. rewrite andb_true_iff, negb_true_iff, Qle_bool_iff, Nat.ltb_lt.
    assert (Qeq_bool (Z.of_nat i # 1) q = false <-> ~ (Z.of_nat i # 1) == q) as NE
      by (split; [intros F E; apply Qeq_bool_iff in E; congruence | intros F; destruct (Qeq_bool (Z.of_nat i # 1) q) eqn:B; [apply Qeq_bool_iff in B; contradiction|reflexivity]]).
    rewrite NE, Eq. unfold Qle, Qeq, inject_Z. simpl. lia. }
  destruct v as [|[|]|z|q'|s]; simpl in Hq; try discriminate; unfold compare_vals, num_of; inversion Hq; subst; simpl; exact C. Qed.
