(* PEXEC, part 2: the steps without scratch columns refine the reference semantics:
   _table_step, _select_rows_step, _select_columns_step, _drop_columns_step, _rename_columns_step, _map_columns_step,
   _order_rows_step (for every sorting routine), _concat_rows_step.  All statements proved. *)
From Coq Require Import List Bool Arith ZArith QArith String Ascii Lia Permutation Sorted.
Import ListNotations.
From DA Require Import Base.PyRT Base.Val Model.Sem Model.PdPrim Model.PandasExec
  Proofs.SemBasicP Proofs.SemOrderP Proofs.ComposeP5 Proofs.PandasExecP1.
Local Open Scope string_scope.
Local Open Scope list_scope.

Lemma Forall2_map_same {A B C} (R : B -> C -> Prop) (f : A -> B) (g : A -> C) l :
  (forall x, In x l -> R (f x) (g x)) -> Forall2 R (map f l) (map g l).
Proof. induction l as [|a t IH]; intros H; simpl; constructor; [apply H; left; reflexivity|apply IH; intros x I; apply H; right; exact I]. Qed.

Lemma table_eta t : mktable (cols t) (rows t) = t.
Proof. destruct t; reflexivity. Qed.
Lemma length_zero_nil {A} (l : list A) : List.length l = 0%nat -> l = [].
Proof. destruct l; [reflexivity|discriminate]. Qed.
Lemma ltb1_nil {A} (l : list A) : Nat.ltb (List.length l) 1 = true -> l = [].
Proof. intros H. apply Nat.ltb_lt in H. apply length_zero_nil. lia. Qed.

(* ------------------------------------------------------------------ _table_step *)
Lemma px_table_exact cs df u : px_table cs df = Some u -> u = sem_select_cols cs df.
Proof.
  unfold px_table. destruct (subset cs (cols df)) eqn:E; simpl; [|discriminate].
  unfold pd_select. rewrite E. simpl. intros H. inversion H. reflexivity.
Qed.
Lemma px_table_width cs df u : px_table cs df = Some u -> width_ok u.
Proof. intros H. rewrite (px_table_exact _ _ _ H). apply width_select_cols. Qed.

(* ------------------------------------------------------------------ _select_rows_step *)
Lemma filter_combine_map {A B} (f : A -> B) (p : B -> bool) (l : list A) :
  map fst (filter (fun rm => p (snd rm)) (combine l (map f l))) = filter (fun r => p (f r)) l.
Proof. induction l as [|a t IH]; simpl; [reflexivity|]. destruct (p (f a)); simpl; rewrite IH; reflexivity. Qed.

Lemma px_select_rows_exact x t u : px_select_rows x t = Some u -> u = sem_select_rows fl_pandas x t.
Proof.
  unfold px_select_rows, nrows. destruct (Nat.ltb (List.length (rows t)) 1) eqn:E.
  - intros H. inversion H; subst. unfold sem_select_rows. rewrite (ltb1_nil _ E). simpl.
    rewrite <- (ltb1_nil _ E). symmetry. apply table_eta.
  - unfold act_on. destruct (cols_used x); [discriminate|].
    unfold pd_mask_rows, nrows. rewrite map_length, Nat.eqb_refl. simpl. intros H. inversion H; subst.
    unfold clean_copy, pd_reset_index, sem_select_rows. f_equal.
    apply (filter_combine_map (fun r => eval_expr fl_pandas (cols t) r x) truth).
Qed.

(* ------------------------------------------------------------------ column steps *)
Lemma px_select_cols_exact cs t u : px_select_cols cs t = Some u -> u = sem_select_cols cs t.
Proof. intros H. apply pd_select_inv in H. tauto. Qed.

Lemma subset_filter (f : string -> bool) (l : list string) : subset (filter f l) l = true.
Proof. apply subset_spec. intros x I. apply filter_In in I. tauto. Qed.
Lemma px_drop_cols_exact ds t u : px_drop_cols ds t = Some u -> u = sem_drop_cols ds t.
Proof. unfold px_drop_cols, pd_select. rewrite subset_filter. intros H. inversion H. reflexivity. Qed.

Lemma rename_lookup m c :
  match dict_get (old_to_new m) c with Some n => n | None => c end = rename_col m c.
Proof.
  unfold rename_col, old_to_new. induction m as [|[n o] t IH]; simpl; [reflexivity|].
  destruct (eq_dec c o) as [->|ne].
  - rewrite String.eqb_refl. reflexivity.
  - destruct (String.eqb o c) eqn:E; [apply String.eqb_eq in E; congruence|]. exact IH.
Qed.
Lemma pd_rename_sem m t : pd_rename (old_to_new m) t = sem_rename m t.
Proof. unfold pd_rename, sem_rename. f_equal. apply map_ext. intros c. apply rename_lookup. Qed.
Lemma px_rename_exact m t u : px_rename m t = Some u -> u = sem_rename m t.
Proof. unfold px_rename. intros H. inversion H. apply pd_rename_sem. Qed.

(* reading all columns of a table gives the same cells (no NoDup needed at the level of named cells) *)
Lemma select_all_eqv t : tab_eqv (sem_select_cols (cols t) t) t.
Proof.
  split; cbn [cols rows sem_select_cols]; [apply same_set_refl|].
  rewrite <- (map_id (rows t)) at 2. apply Forall2_map_same. intros r _ c. rewrite get_map_cols.
  destruct (mem c (cols t)) eqn:M; [reflexivity|]. symmetry. apply get_absent. apply mem_false, M.
Qed.
Lemma filter_true {A} (l : list A) : filter (fun _ => true) l = l.
Proof. induction l; simpl; congruence. Qed.

Lemma drop_none t : sem_drop_cols [] t = sem_select_cols (cols t) t.
Proof. unfold sem_drop_cols. cbn [mem negb]. rewrite filter_true. reflexivity. Qed.
Lemma px_map_cols_eqv m dels t u : px_map_cols m dels t = Some u -> tab_eqv u (sem_drop_cols dels (sem_rename m t)).
Proof.
  unfold px_map_cols. rewrite pd_rename_sem. generalize (sem_rename m t) as t'. intros t'. destruct dels as [|d ds].
  - cbn [List.length Nat.ltb Nat.leb]. intros H. inversion H; subst. rewrite drop_none. apply tab_eqv_sym, select_all_eqv.
  - cbn [List.length Nat.ltb Nat.leb]. unfold pd_select. rewrite subset_filter. intros H. inversion H; subst. apply tab_eqv_refl.
Qed.
Lemma px_map_cols_exact m dels t u : NoDup (cols (sem_rename m t)) -> width_ok t -> px_map_cols m dels t = Some u -> u = sem_drop_cols dels (sem_rename m t).
Proof.
  intros N W. unfold px_map_cols. rewrite pd_rename_sem. pose proof (width_rename m t W) as W'. revert N W'.
  generalize (sem_rename m t) as t'. intros t' N W'. destruct dels as [|d ds].
  - cbn [List.length Nat.ltb Nat.leb]. intros H. inversion H; subst. rewrite drop_none. symmetry. apply select_cols_self; assumption.
  - cbn [List.length Nat.ltb Nat.leb]. unfold pd_select. rewrite subset_filter. intros H. inversion H; subst. reflexivity.
Qed.

(* ------------------------------------------------------------------ _order_rows_step *)
Lemma sort_keys_back cs rev : pd_sort_keys (map (fun c => (c, negb (mem c rev))) cs) = map (fun c => (c, mem c rev)) cs.
Proof. unfold pd_sort_keys. rewrite map_map. apply map_ext. intros c. cbn [fst snd]. rewrite negb_involutive. reflexivity. Qed.

Lemma sorted_short {A} (R : A -> A -> Prop) (l : list A) : (List.length l <= 1)%nat -> StronglySorted R l.
Proof. destruct l as [|a [|b t]]; simpl; intros L; [constructor|repeat constructor|lia]. Qed.

Section Order.
  Variable srt : sorter.
  Hypothesis srt_ok : sorter_ok srt.

  (* the frame after the sorting part of _order_rows_step: a sorted permutation of the input *)
  Lemma px_order_shape cs rev lim t u : px_order srt cs rev lim t = Some u ->
    exists rs, Permutation rs (rows t) /\
               StronglySorted (fun a b => row_le fl_pandas (cols t) (map (fun c => (c, mem c rev)) cs) a b = true) rs /\
               u = mktable (cols t) (match lim with Some n => firstn n rs | None => rs end).
  Proof.
    unfold px_order. set (keys := map (fun c => (c, mem c rev)) cs).
    assert (forall res1, (if Nat.ltb 1 (nrows t)
                          then option_map clean_copy (pd_sort_values_with srt (map (fun c => (c, negb (mem c rev))) cs) t)
                          else Some t) = Some res1 ->
            cols res1 = cols t /\ Permutation (rows res1) (rows t) /\
            StronglySorted (fun a b => row_le fl_pandas (cols t) keys a b = true) (rows res1)) as S1.
    { intros res1. destruct (Nat.ltb 1 (nrows t)) eqn:E.
      - unfold pd_sort_values_with. destruct (subset _ _); simpl; [|discriminate]. intros H. inversion H; subst. cbn [cols rows].
        rewrite sort_keys_back. fold keys. split; [reflexivity|].
        apply srt_ok; [intros; apply row_le_total|intros; eapply row_le_trans; eassumption].
      - intros H. inversion H; subst. split; [reflexivity|]. split; [apply Permutation_refl|].
        apply sorted_short. apply Nat.ltb_ge in E. exact E. }
    destruct (if Nat.ltb 1 (nrows t) then _ else _) as [res1|]; simpl; [|discriminate].
    destruct (S1 res1 eq_refl) as [C [P S]]. intros H. exists (rows res1). split; [exact P|]. split; [exact S|].
    destruct lim as [n|].
    - unfold nrows in H. destruct (Nat.ltb n (List.length (rows res1))) eqn:E; inversion H; subst.
      + unfold clean_copy, pd_reset_index, pd_head. rewrite C. reflexivity.
      + rewrite firstn_all2 by (apply Nat.ltb_ge in E; exact E). rewrite <- C. symmetry. apply table_eta.
    - inversion H; subst. rewrite <- C. symmetry. apply table_eta.
  Qed.

  (* order_rows: same columns and a permutation of the reference rows; the SAME list as soon as the order is total on the data
     (which C18 asks of every order_rows carrying a limit) *)
  Lemma px_order_refines cs rev lim t u :
    (lim <> None -> total_on fl_pandas (cols t) (map (fun c => (c, mem c rev)) cs) (rows t)) ->
    px_order srt cs rev lim t = Some u ->
    cols u = cols (sem_order fl_pandas cs rev lim t) /\ Permutation (rows u) (rows (sem_order fl_pandas cs rev lim t)).
  Proof.
    intros G H. destruct (px_order_shape _ _ _ _ _ H) as [rs [P [S ->]]]. cbn [cols rows sem_order]. split; [reflexivity|].
    set (keys := map (fun c => (c, mem c rev)) cs) in *.
    destruct lim as [n|].
    - assert (rs = stable_sort (row_le fl_pandas (cols t) keys) (rows t)) as ->; [|apply Permutation_refl].
      apply (sorted_perm_unique (row_le fl_pandas (cols t) keys)).
      + exact S.
      + apply stable_sort_sorted; [intros; apply row_le_total|intros; eapply row_le_trans; eassumption].
      + eapply perm_trans; [exact P|]. apply Permutation_sym, stable_sort_perm.
      + intros a b Ia Ib. apply G; [discriminate| |]; eapply Permutation_in; eassumption.
    - eapply perm_trans; [exact P|]. apply Permutation_sym, stable_sort_perm.
  Qed.
End Order.

Lemma stable_sort_short {A} (le : A -> A -> bool) l : (List.length l <= 1)%nat -> stable_sort le l = l.
Proof. destruct l as [|a [|b t]]; simpl; intros L; [reflexivity|reflexivity|lia]. Qed.

(* with the stable sort the step IS sem_order (no premise) *)
Lemma px_order_exact cs rev lim t u : subset cs (cols t) = true -> px_order stable_sorter cs rev lim t = Some u -> u = sem_order fl_pandas cs rev lim t.
Proof.
  intros Sb. unfold px_order, pd_sort_values_with, stable_sorter. rewrite map_map. cbn [fst].
  replace (subset (map (fun x : string => x) cs) (cols t)) with true by (rewrite map_id; symmetry; exact Sb).
  rewrite sort_keys_back. unfold sem_order, nrows. set (keys := map (fun c => (c, mem c rev)) cs).
  assert ((if Nat.ltb 1 (List.length (rows t))
           then option_map clean_copy (Some (mktable (cols t) (stable_sort (row_le fl_pandas (cols t) keys) (rows t))))
           else Some t) = Some (mktable (cols t) (stable_sort (row_le fl_pandas (cols t) keys) (rows t)))) as ->.
  { destruct (Nat.ltb 1 (List.length (rows t))) eqn:E; [reflexivity|].
    rewrite stable_sort_short by (apply Nat.ltb_ge in E; exact E). rewrite table_eta. reflexivity. }
  simpl. cbn [rows cols]. destruct lim as [n|]; intros H.
  - destruct (Nat.ltb n _) eqn:E; inversion H; subst; [reflexivity|].
    rewrite firstn_all2 by (apply Nat.ltb_ge in E; exact E). reflexivity.
  - inversion H. reflexivity.
Qed.

Lemma px_order_width srt cs rev lim t u : sorter_ok srt -> width_ok t -> px_order srt cs rev lim t = Some u -> width_ok u.
Proof.
  intros So W H. destruct (px_order_shape srt So _ _ _ _ _ H) as [rs [P [_ ->]]]. unfold width_ok in *. cbn [cols rows].
  assert (Forall (fun r => List.length r = List.length (cols t)) rs) as F.
  { apply Forall_forall. intros r I. rewrite Forall_forall in W. apply W. eapply Permutation_in; eassumption. }
  destruct lim; [apply Forall_firstn|]; exact F.
Qed.

(* ------------------------------------------------------------------ _concat_rows_step *)
Lemma set_cell_new cs (r : list val) c v : ~ In c cs -> set_cell cs r c v = r ++ [v].
Proof. intros N. unfold set_cell. apply mem_false, index_of_None in N. rewrite N. reflexivity. Qed.
Lemma add_end_new (cs : list string) c : ~ In c cs -> add_end cs c = cs ++ [c].
Proof. intros N. unfold add_end. apply mem_false in N. rewrite N. reflexivity. Qed.

Lemma filter_none {A} (f : A -> bool) l : (forall x, In x l -> f x = false) -> filter f l = [].
Proof. induction l as [|a t IH]; intros H; simpl; [reflexivity|]. rewrite (H a (or_introl eq_refl)). apply IH. intros x I. apply H. right. exact I. Qed.

(* without id column *)
Lemma px_concat_none_eqv an bn l r u :
  same_set (cols l) (cols r) -> px_concat None an bn l r = Some u -> tab_eqv u (sem_concat None an bn l r).
Proof.
  intros S. unfold px_concat. cbn [obind fst snd]. unfold nrows, sem_concat.
  destruct (Nat.ltb (List.length (rows l)) 1) eqn:El.
  - intros H. inversion H; subst. rewrite (ltb1_nil _ El). cbn [app]. split; cbn [cols rows]; [apply same_set_sym, S|].
    rewrite <- (map_id (rows u)) at 1. apply Forall2_map_same. intros rb _ c. rewrite get_map_cols.
    destruct (mem c (cols l)) eqn:M; [reflexivity|]. apply get_absent. intros I. apply S in I. apply mem_In in I. congruence.
  - destruct (Nat.ltb (List.length (rows r)) 1) eqn:Er.
    + intros H. inversion H; subst. rewrite (ltb1_nil _ Er). cbn [map]. rewrite app_nil_r, table_eta. apply tab_eqv_refl.
    + intros H. inversion H; subst. unfold clean_copy, pd_reset_index, pd_concat_rows.
      rewrite (filter_none (fun c => negb (mem c (cols l))) (cols r)).
      2:{ intros x I. apply S in I. apply mem_In in I. rewrite I. reflexivity. }
      rewrite app_nil_r. split; cbn [cols rows]; [apply same_set_refl|].
      apply Forall2_app.
      * rewrite <- (map_id (rows l)) at 2. apply Forall2_map_same. intros ra _ c. rewrite get_map_cols.
        destruct (mem c (cols l)) eqn:M; [reflexivity|]. symmetry. apply get_absent, mem_false, M.
      * apply Forall2_map_same. intros rb _ c. rewrite !get_map_cols.
        destruct (mem c (cols l)) eqn:M; [|reflexivity]. apply mem_In, S, mem_In in M. rewrite M. reflexivity.
Qed.

(* with an id column: both frames first receive the constant column (an empty frame an empty column), then as above *)
Lemma px_concat_some_unfold c an bn l r :
  px_concat (Some c) an bn l r = px_concat None an bn (pd_set_scalar c (VStr an) l) (pd_set_scalar c (VStr bn) r).
Proof.
  assert (forall v t, (if Nat.ltb 0 (nrows t) then Some (pd_set_scalar c v t) else pd_set_col c [] t) = Some (pd_set_scalar c v t)) as E.
  { intros v t. unfold nrows. destruct (rows t) as [|r0 rs] eqn:Er; [|reflexivity].
    cbn [List.length Nat.ltb Nat.leb]. unfold pd_set_col, pd_set_scalar, nrows. rewrite Er. reflexivity. }
  unfold px_concat at 1. rewrite !E. cbn [obind fst snd]. reflexivity.
Qed.

Lemma sem_concat_id_as_columns c an bn l r :
  ~ In c (cols l) -> ~ In c (cols r) -> width_ok l -> width_ok r ->
  sem_concat None an bn (pd_set_scalar c (VStr an) l) (pd_set_scalar c (VStr bn) r) = sem_concat (Some c) an bn l r.
Proof.
  intros Nl Nr Wl Wr. unfold sem_concat, pd_set_scalar. cbn [cols rows]. rewrite (add_end_new _ _ Nl), (add_end_new _ _ Nr). f_equal.
  f_equal.
  - apply map_ext. intros ra. apply set_cell_new, Nl.
  - rewrite !map_map. apply map_ext_in. intros rb Ib. rewrite (set_cell_new _ _ _ _ Nr).
    assert (List.length rb = List.length (cols r)) as Lb by (unfold width_ok in Wr; rewrite Forall_forall in Wr; apply Wr, Ib).
    rewrite map_app. cbn [map]. f_equal.
    + apply map_ext_in. intros x Ix. destruct (in_dec string_dec x (cols r)) as [I|N].
      * apply get_app_l; assumption.
      * rewrite (get_app_r _ _ _ _ _ Lb N). rewrite (get_absent (cols r) rb x N). unfold get. simpl.
        destruct (eq_dec x c) as [->|ne]; [contradiction|reflexivity].
    + f_equal. rewrite (get_app_r _ _ _ _ _ Lb Nr). unfold get. simpl. destruct (eq_dec c c); [reflexivity|congruence].
Qed.

Lemma same_set_add_end (a b : list string) c : same_set a b -> same_set (add_end a c) (add_end b c).
Proof. intros S x. rewrite !In_add_end, (S x). tauto. Qed.

Lemma px_concat_eqv idc an bn l r u :
  same_set (cols l) (cols r) -> (forall c, idc = Some c -> ~ In c (cols l)) -> width_ok l -> width_ok r ->
  px_concat idc an bn l r = Some u -> tab_eqv u (sem_concat idc an bn l r).
Proof.
  intros S N Wl Wr H. destruct idc as [c|]; [|apply (px_concat_none_eqv an bn l r u S H)].
  rewrite px_concat_some_unfold in H.
  pose proof (N c eq_refl) as Nl. assert (~ In c (cols r)) as Nr by (intros I; apply Nl, S, I).
  rewrite <- (sem_concat_id_as_columns c an bn l r Nl Nr Wl Wr).
  apply px_concat_none_eqv; [|exact H]. unfold pd_set_scalar. cbn [cols]. apply same_set_add_end, S.
Qed.

Lemma px_concat_width idc an bn l r u : width_ok l -> width_ok r -> px_concat idc an bn l r = Some u -> width_ok u.
Proof.
  intros Wl Wr.
  assert (forall l r u, width_ok l -> width_ok r -> px_concat None an bn l r = Some u -> width_ok u) as K.
  { clear. intros l r u Wl Wr. unfold px_concat. cbn [obind fst snd].
    destruct (Nat.ltb (nrows l) 1); [intros H; inversion H; subst; exact Wr|].
    destruct (Nat.ltb (nrows r) 1); intros H; inversion H; subst; [exact Wl|].
    unfold clean_copy, pd_reset_index, pd_concat_rows, width_ok. cbn [cols rows]. apply Forall_forall. intros x I.
    apply in_app_iff in I. destruct I as [I|I]; apply in_map_iff in I; destruct I as [y [<- _]]; apply map_length. }
  destruct idc as [c|]; [|apply K; assumption]. rewrite px_concat_some_unfold. apply K; apply width_set_scalar; assumption.
Qed.
