(* C06, part 2: select_columns collapsing, the "select exactly the declared columns" exit, declared_names, and the induction
   principle for builders that skip order_rows steps without limit. *)
From Coq Require Import List Bool Arith String Lia Permutation.
Import ListNotations.
From DA Require Import Base.PyRT Base.Val Model.Sem Model.PermGuard Model.MergeGuard Model.Simplify
  Proofs.SemBasicP Proofs.SemOrderP Proofs.PermP2 Proofs.PermP3 Proofs.PermP4 Proofs.ComposeP5 Proofs.SimplifyP1.
Local Open Scope list_scope.

(* ------------------------------------------------------------------ select_columns after select_columns / drop_columns *)
Lemma select_select cs1 cs2 t : (forall c, In c cs2 -> In c cs1) -> sem_select_cols cs2 (sem_select_cols cs1 t) = sem_select_cols cs2 t.
Proof.
  intros S. unfold sem_select_cols. cbn [cols rows]. f_equal. rewrite map_map. apply map_ext. intros r.
  apply map_ext_in. intros c I. rewrite get_map_cols. rewrite (proj2 (mem_In c cs1) (S c I)). reflexivity.
Qed.

Lemma select_drop ds cs2 t : (forall c, In c cs2 -> In c (cols t) -> ~ In c ds) -> sem_select_cols cs2 (sem_drop_cols ds t) = sem_select_cols cs2 t.
Proof.
  intros S. unfold sem_drop_cols, sem_select_cols. cbn [cols rows]. f_equal. rewrite map_map. apply map_ext. intros r.
  apply map_ext_in. intros c I. rewrite get_map_cols.
  destruct (mem c (filter (fun c0 => negb (mem c0 ds)) (cols t))) eqn:M; [reflexivity|].
  apply mem_false in M. symmetry. apply get_absent. intros Ic. apply M. apply filter_In. split; [exact Ic|].
  apply negb_true_iff, mem_false. apply S; assumption.
Qed.

(* pipelines *)
Lemma select_collapse_select fl s cs1 cs2 e : (forall c, In c cs2 -> In c cs1) ->
  sem_gen fl (OSelectCols (OSelectCols s cs1) cs2) e = sem_gen fl (OSelectCols s cs2) e.
Proof. intros S. cbn [sem_gen]. destruct (sem_gen fl s e) as [t|]; [|reflexivity]. cbn [option_map]. rewrite select_select by exact S. reflexivity. Qed.

Lemma select_collapse_drop fl s ds cs2 e : (forall c, In c cs2 -> In c (column_names (ODropCols s ds))) ->
  sem_gen fl (OSelectCols (ODropCols s ds) cs2) e = sem_gen fl (OSelectCols s cs2) e.
Proof.
  intros S. cbn [sem_gen]. destruct (sem_gen fl s e) as [t|] eqn:E; [|reflexivity]. cbn [option_map]. rewrite select_drop; [reflexivity|].
  intros c I _. specialize (S c I). cbn [column_names] in S. apply filter_In in S. destruct S as [_ S]. apply negb_true_iff, mem_false in S. exact S.
Qed.

(* without the inclusion the collapse is wrong: selecting a column the first selection removed *)
Lemma select_collapse_needs_inclusion :
  exists fl s cs1 cs2 e, sem_gen fl (OSelectCols (OSelectCols s cs1) cs2) e <> sem_gen fl (OSelectCols s cs2) e.
Proof.
  exists fl_spec, (OTable "d" ["a"; "b"]%string), ["a"%string], ["b"%string], [("d"%string, mktable ["a"; "b"]%string [[VBool true; VBool false]])].
  vm_compute. intros H. discriminate H.
Qed.

(* ------------------------------------------------------------------ selecting exactly the columns of the table, in any order *)
Lemma select_all_eqv cs t : same_set cs (cols t) -> tab_eqv t (sem_select_cols cs t).
Proof.
  intros S. split; cbn [cols rows sem_select_cols]; [apply same_set_sym, S|].
  induction (rows t) as [|r l IH]; simpl; constructor; [|exact IH].
  intros c. rewrite get_map_cols. destruct (mem c cs) eqn:M; [reflexivity|].
  apply mem_false in M. apply get_absent. intros I. apply M. apply S. exact I.
Qed.

(* ------------------------------------------------------------------ declared_names *)
Lemma same_set_map (f : string -> string) l1 l2 : same_set l1 l2 -> same_set (map f l1) (map f l2).
Proof. intros S c. rewrite !in_map_iff. split; intros [x [E I]]; exists x; (split; [exact E|apply S; exact I]). Qed.
Lemma same_set_app a1 a2 b1 b2 : same_set a1 a2 -> same_set b1 b2 -> same_set (a1 ++ b1) (a2 ++ b2).
Proof. intros S T c. rewrite !in_app_iff, (S c), (T c). tauto. Qed.

Lemma declared_names_same_set p : same_set (declared_names p) (column_names p).
Proof.
  induction p as [n cs|s IH ops wd w|s IH ops gb|s IH x|s IH cs|s IH cs|s IH m|s IH m dels|s IH cs rev lim|a IHa b IHb on_a on_b jt|a IHa b IHb idc an bn];
    cbn [declared_names column_names]; try apply same_set_refl; try exact IH.
  - apply same_set_ext_cols, IH.
  - apply same_set_filter, IH.
  - apply same_set_map, IH.
  - apply same_set_filter, same_set_map, IH.
  - set (na := declared_names a) in *. set (nb := declared_names b) in *.
    assert (same_set (na ++ filter (fun c => negb (mem c na)) nb) (column_names a ++ filter (fun c => negb (mem c (column_names a))) (column_names b))) as A.
    { intros c. rewrite !in_app_iff, !filter_In, (IHa c), (IHb c), (mem_same_set _ _ c IHa). tauto. }
    destruct (subset _ na) eqn:S1.
    + eapply same_set_trans; [|exact A]. intros c. split; [intros I; apply in_app_iff; left; exact I|]. rewrite subset_spec in S1. apply S1.
    + destruct (subset _ nb && subset nb _) eqn:S2; [|exact A].
      apply andb_true_iff in S2. destruct S2 as [S2 S3]. rewrite subset_spec in S2, S3.
      eapply same_set_trans; [|exact A]. intros c. split; [apply S3|apply S2].
  - apply same_set_app; [exact IHa|apply same_set_refl].
Qed.

(* ------------------------------------------------------------------ builders that only skip order_rows steps without limit *)
Section Skip.
  Variables bld node : op -> op.
  Hypothesis bld_order : forall s cs rev, bld (OOrder s cs rev None) = bld s.
  Hypothesis bld_other : forall p, (forall s cs rev, p <> OOrder s cs rev None) -> bld p = node p.
  Variables P R : op -> Prop.
  Hypothesis P_source : forall s cs rev, P (OOrder s cs rev None) -> P s.
  Hypothesis node_ok : forall p, P p -> R (node p).

  Lemma skip_ind : forall p, P p -> R (bld p).
  Proof.
    induction p as [n cs|s IH ops wd w|s IH ops gb|s IH x|s IH cs|s IH cs|s IH m|s IH m dels|s IH cs rev lim|a IHa b IHb on_a on_b jt|a IHa b IHb idc an bn];
      intros H; try (rewrite bld_other by (intros; discriminate); apply node_ok, H).
    destruct lim as [n|].
    - rewrite bld_other by (intros ? ? ? X; discriminate X). apply node_ok, H.
    - rewrite bld_order. apply IH. eapply P_source, H.
  Qed.
End Skip.

(* the facts about the prefix that survive dropping a limit-less order_rows from under the step *)
Lemma sim_under_order fl e r s cs rev :
  (exists t, sem_gen fl (OOrder s cs rev None) e = Some t /\ tab_sim t r) -> exists t, sem_gen fl s e = Some t /\ tab_sim t r.
Proof.
  intros [t [E S]]. cbn [sem_gen] in E. destruct (sem_gen fl s e) as [t0|]; [|discriminate]. cbn [option_map] in E. inversion E; subst t.
  exists t0. split; [reflexivity|]. eapply tab_sim_trans; [|exact S].
  apply tab_sim_of_perm; [reflexivity|apply Permutation_sym, order_rows_is_permutation].
Qed.
Lemma none_under_order fl e s cs rev : sem_gen fl (OOrder s cs rev None) e = None -> sem_gen fl s e = None.
Proof. cbn [sem_gen]. destruct (sem_gen fl s e); [discriminate|reflexivity]. Qed.

(* what the builder validated of an accepted step, with respect to the columns cs of the table it is applied to *)
Definition step_valid (x : step) (cs : list string) : Prop :=
  match x with
  | SExtend ops one part order _ =>
      NoDup (map fst ops) /\ (forall k, In k (map fst ops) -> ~ In k (eff_part (mkwargs one part order []) ++ order))
  | SSelectCols sel _ => forall c, In c sel -> In c cs
  | SRename m => inj_on (rename_col m) cs
  | SMapCols m => inj_on (rename_col (map_remap m)) cs
  | _ => True
  end.

(* C18's premise for the one step x on its actual input r: an order-sensitive window orders each partition strictly, a project's
   group keys have one representation per value, a limit is taken under a total order.  Nothing is asked of any other step. *)
Definition step_insensitive (iw : list string) (fl : flavor) (x : step) (r : table) : Prop :=
  match x with
  | SExtend ops one part order rev =>
      let n := node_of (implies iw ops) (mkwargs one part order rev) in
      n_windowed n = true -> ops_order_sensitive ops = true -> window_total fl (cols r) (mkwin (n_part n) (n_order n) (n_rev n)) (rows r)
  | SProject _ gb => keys_exact (cols r) gb (rows r)
  | SOrder cs rev lim => lim <> None -> total_on fl (cols r) (map (fun c => (c, mem c rev)) cs) (rows r)
  | _ => True
  end.

Lemma step_valid_same_set x cs cs' : same_set cs cs' -> step_valid x cs -> step_valid x cs'.
Proof.
  intros S. destruct x; cbn [step_valid]; try tauto.
  - intros H c I. apply S, H, I.
  - intros J a b Ia Ib. apply J; apply S; assumption.
  - intros J a b Ia Ib. apply J; apply S; assumption.
Qed.

(* ------------------------------------------------------------------ one step on materialised tables respects tab_sim *)
Lemma width_apply iw fl e x t t' : width_ok t -> apply_sem iw fl e x t = Some t' -> width_ok t'.
Proof.
  intros W. destruct x; cbn [apply_sem]; intros H.
  - injection H as <-. match goal with |- width_ok (if ?b then _ else _) => destruct b end; [apply width_wextend|apply width_extend]; exact W.
  - inversion H; subst. apply width_project.
  - inversion H; subst. apply width_select_rows, W.
  - inversion H; subst. apply width_select_cols.
  - inversion H; subst. apply width_select_cols.
  - inversion H; subst. apply width_rename, W.
  - inversion H; subst. apply width_select_cols.
  - inversion H; subst. apply width_order, W.
  - destruct (sem_gen fl b e); [|discriminate]. inversion H; subst. apply width_join.
  - destruct (sem_gen fl b e); [|discriminate]. inversion H; subst. apply width_concat, W.
Qed.

Lemma sim_apply iw fl e x t r : width_ok t -> width_ok r -> tab_sim t r -> step_valid x (cols r) -> step_insensitive iw fl x r ->
  otab_sim (apply_sem iw fl e x t) (apply_sem iw fl e x r).
Proof.
  intros Wt Wr S V I. destruct x; cbn [apply_sem otab_sim step_valid step_insensitive] in *.
  - destruct (n_windowed _) eqn:Wd; [apply sim_wextend; try assumption; intros Se; apply I; [reflexivity|exact Se]|apply sim_extend; assumption].
  - apply sim_project; assumption.
  - apply sim_select_rows, S.
  - apply sim_select_cols, S.
  - apply sim_drop_cols, S.
  - apply sim_rename; assumption.
  - apply sim_drop_cols, sim_rename; assumption.
  - apply sim_order; assumption.
  - destruct (sem_gen fl b e); [apply sim_join, S|exact Logic.I].
  - destruct (sem_gen fl b e); [apply sim_concat; assumption|exact Logic.I].
Qed.
