(* C07 -- Pipeline composition equals sequential application and is associative.

   "For all pipelines a and b whose boundary columns match, composing them (a >> b, DataOpArrow composition, replacing
    table leaves, or eval with a map of pipelines) yields a pipeline whose result on any input equals running b on the
    result of a.  Composition is associative, and dom/cod describe the composed arrow's input and output columns."

   Statements about the hand model Model/Compose.v (every <Node>.replace_leaves with the arguments it forwards to the
   re-run builder, ViewRepresentation.act_on, DataOpArrow.__init__/act_on/dom/cod) over the reference semantics
   Model/Sem.v, for ALL operator trees, ALL backend flavours fl and ALL environments.  All four composition routes of
   the property end in replace_leaves: a >> b and b(a) go through act_on, DataOpArrow(a) >> DataOpArrow(b) through
   DataOpArrow.act_on, b.eval({k: a}) calls replace_leaves directly.

   Scope of the model (see the header of Model/Compose.v): the builders are re-run UN-SIMPLIFIED.  When the new source
   ends in a node that lets the real builder simplify (extend merging, skipping an intermediate order_rows without
   limit, select_columns collapsing) the real tree differs from replace_leaves' tree; that those simplifications
   preserve meaning is property C06 (Props/C06.v: C06_merged_extend_equals_sequential_extends, C06_merged_extend_has_the_window_of_both_steps)
   and is sampled here by the correspondence (semantic comparison of such cases) and by the oracle on the real code.
   built_ok p states two invariants of the node constructors (ExtendNode.windowed_situation covers what its operators,
   partition and order imply; NaturalJoinNode has as many left as right keys).  nodupb: column names are unique
   (asserted by ViewRepresentation.__init__). *)
From Coq Require Import List Bool String.
Import ListNotations.
From DA Require Import Base.PyRT Base.Val Model.Sem Model.Compose
  Proofs.ComposeP Proofs.ComposeP2 Proofs.ComposeP3 Proofs.ComposeP4 Proofs.ComposeP5.

(* replacing leaves = running the outer pipeline on the results of the replacements.
   boundary_ok m p: every replaced leaf declares exactly the columns its replacement produces (same order). *)
Theorem C07_replace_leaves_sem :
  forall fl m p env, built_ok p = true -> boundary_ok m p = true ->
  sem_gen fl (replace_leaves m p) env = sem_gen fl p (override fl env m).
Proof. exact replace_leaves_sem. Qed.
Print Assumptions C07_replace_leaves_sem.

(* the environment b is run in: every replaced key is bound to the result of its replacement, other keys are unchanged *)
Theorem C07_override_lookup :
  forall fl env m n, dict_get (override fl env m) n = match dict_get m n with Some r => sem_gen fl r env | None => dict_get env n end.
Proof. exact dict_get_override. Qed.
Print Assumptions C07_override_lookup.

(* the composed pipeline declares the columns of the outer pipeline *)
Theorem C07_composed_columns :
  forall m p, built_ok p = true -> boundary_ok m p = true -> column_names (replace_leaves m p) = column_names p.
Proof. exact composed_columns. Qed.
Print Assumptions C07_composed_columns.

(* a >> b: composing at b's leaf k = running b with k bound to a's result (env[k := sem a env]) *)
Theorem C07_compose_is_sequential :
  forall fl k a b env,
  built_ok b = true -> leaf_declares k (column_names a) b = true -> nodupb (column_names a) = true ->
  sem_gen fl (compose_at k a b) env = sem_gen fl b (env_set env k (sem_gen fl a env)).
Proof. exact compose_is_sequential. Qed.
Print Assumptions C07_compose_is_sequential.

(* ... and when k is b's only table: b run on a's result alone *)
Theorem C07_compose_is_b_on_result_of_a :
  forall fl k a b env ta,
  built_ok b = true -> leaf_declares k (column_names a) b = true -> nodupb (column_names a) = true ->
  only_table k b -> sem_gen fl a env = Some ta ->
  sem_gen fl (compose_at k a b) env = sem_gen fl b [(k, ta)].
Proof. exact compose_is_sequential_single. Qed.
Print Assumptions C07_compose_is_b_on_result_of_a.

(* associativity: (a >> b) >> c and a >> (b >> c) are the same tree (so they are defined together and mean the same),
   provided b's leaf name does not also name a different table of c *)
Theorem C07_compose_assoc :
  forall ka kb a b c, built_ok b = true -> built_ok c = true -> (ka = kb \/ ~ In ka (table_names c)) ->
  compose_at kb (compose_at ka a b) c = compose_at ka a (compose_at kb b c)
  /\ forall fl env, sem_gen fl (compose_at kb (compose_at ka a b) c) env = sem_gen fl (compose_at ka a (compose_at kb b c)) env.
Proof. exact compose_assoc. Qed.
Print Assumptions C07_compose_assoc.

(* associativity of the >> operator on single-table pipelines INCLUDING its checks (table consistency, equal column
   sets): both bracketings raise together, and when they do not they return the same tree *)
Theorem C07_rshift_assoc :
  forall a b c kb kc,
  only_table kb b -> only_table kc c -> built_ok b = true -> built_ok c = true ->
  nodupb (column_names a) = true -> leaves_nodup b = true ->
  obind (rshift a b) (fun ab => rshift ab c) = obind (rshift b c) (fun bc => rshift a bc).
Proof. exact rshift_assoc. Qed.
Print Assumptions C07_rshift_assoc.

(* a >> b is accepted exactly when b's table descriptions are consistent and the column SETS agree *)
Theorem C07_rshift_accepts_iff_boundary :
  forall k a b cs, only_table k b -> dict_get (leaves b) k = Some cs ->
  rshift a b = if tables_consistent (leaves b) && set_eqb (column_names a) cs then Some (compose_at k a b) else None.
Proof. exact rshift_accepts_iff. Qed.
Print Assumptions C07_rshift_accepts_iff_boundary.

(* arrows: under DataOpArrow.act_on's boundary check the composed arrow has the domain of the first and the
   co-domain (sorted output column names) of the second arrow *)
Theorem C07_arrow_dom_cod :
  forall pa fa a pb fb b c,
  data_op_arrow pa fa = Some a -> data_op_arrow pb fb = Some b ->
  built_ok pb = true -> nodupb (column_names pa) = true -> nodupb (a_incoming b) = true ->
  arrow_rshift a b = Some c ->
  dom c = dom a /\ cod c = cod b.
Proof. exact arrow_dom_cod. Qed.
Print Assumptions C07_arrow_dom_cod.

(* arrows: transforming a table with the composed arrow = transforming with a, then with b *)
Theorem C07_arrow_transform_is_sequential :
  forall fl pa fa a pb b c t,
  data_op_arrow pa fa = Some a -> data_op_arrow pb None = Some b ->
  built_ok pb = true -> nodupb (column_names pa) = true ->
  column_names pa = a_incoming b ->
  arrow_rshift a b = Some c ->
  arrow_transform fl c t = obind (arrow_transform fl a t) (arrow_transform fl b).
Proof. exact arrow_transform_sequential. Qed.
Print Assumptions C07_arrow_transform_is_sequential.

(* ---- the boundary exactly as the code tests it: equal column SETS (act_on asserts set(b.column_names) == set(old.column_names),
        DataOpArrow.act_on raises on missing / extra columns).  Then the composed pipeline is b run on the results of the
        replacements UP TO COLUMN ORDER: otab_eqv = both undefined, or the same column set, the same number of rows in the
        same order, and every row the same function from column names to values.  renames_okb: no rename_columns /
        map_columns step gives two of its input columns the same name (such nodes cannot be constructed). *)
Theorem C07_replace_leaves_sem_up_to_column_order :
  forall fl m p env, built_ok p = true -> boundary_sets_ok m p = true -> renames_okb p = true ->
  otab_eqv (sem_gen fl (replace_leaves m p) env) (sem_gen fl p (override fl env m)).
Proof. exact replace_leaves_sem_up_to_column_order. Qed.
Print Assumptions C07_replace_leaves_sem_up_to_column_order.

(* whenever a >> b is accepted on a single-table pipeline b, its result is b run on a's result, up to column order *)
Theorem C07_rshift_is_sequential_up_to_column_order :
  forall fl k a b c env,
  only_table k b -> built_ok b = true -> renames_okb b = true -> rshift a b = Some c ->
  otab_eqv (sem_gen fl c env) (sem_gen fl b (env_set env k (sem_gen fl a env))).
Proof. exact rshift_sequential_up_to_column_order. Qed.
Print Assumptions C07_rshift_is_sequential_up_to_column_order.

(* ---- where the hypotheses are needed *)
(* without the boundary condition the statement is false (the replacement has one column more than the leaf declares;
   a table leaf selects its declared columns, the substituted pipeline is taken whole) *)
Theorem C07_replace_leaves_sem_without_boundary_refuted :
  exists fl m p env, built_ok p = true /\ sem_gen fl (replace_leaves m p) env <> sem_gen fl p (override fl env m).
Proof. exact without_boundary_refuted. Qed.
Print Assumptions C07_replace_leaves_sem_without_boundary_refuted.

(* equal column SETS -- all that act_on and DataOpArrow.act_on test -- do not give the same table, only the same table
   up to column order (the two theorems above) *)
Theorem C07_set_boundary_exact_equality_refuted :
  exists fl a b c env, rshift a b = Some c /\ sem_gen fl c env <> sem_gen fl b (env_set env "e" (sem_gen fl a env)).
Proof. exact set_boundary_refuted. Qed.
Print Assumptions C07_set_boundary_exact_equality_refuted.

(* ---- the forwarding of the tree before the C07 fixes violates the property (both inputs satisfy it after the fixes) *)
Theorem C07_map_columns_forwarding_before_fix_refuted :
  exists fl m p env, built_ok p = true /\ boundary_ok m p = true /\
  sem_gen fl (replace_leaves_with fw_before_fixes m p) env <> sem_gen fl p (override fl env m).
Proof. exact map_columns_before_fix_refuted. Qed.
Print Assumptions C07_map_columns_forwarding_before_fix_refuted.

Theorem C07_extend_partition_one_forwarding_before_fix_refuted :
  exists fl m p env, built_ok p = true /\ boundary_ok m p = true /\
  sem_gen fl (replace_leaves_with fw_before_fixes m p) env <> sem_gen fl p (override fl env m).
Proof. exact extend_partition_one_before_fix_refuted. Qed.
Print Assumptions C07_extend_partition_one_forwarding_before_fix_refuted.

(* ---- the hypotheses are satisfiable by non-trivial instances *)
(* a = extend; b = select_rows, windowed extend (partition, order, reverse), order_rows with reverse and limit;
   c = a left join of its leaf with a grouped project of the same leaf (the leaf is used twice) *)
Example C07_example_pipelines :
  built_ok b_win = true /\ leaf_declares "e" (column_names a_ext) b_win = true /\ nodupb (column_names a_ext) = true /\
  built_ok c_join = true /\ leaf_declares "f" (column_names (compose_at "e" a_ext b_win)) c_join = true /\
  (exists t, sem_gen fl_spec (compose_at "f" (compose_at "e" a_ext b_win) c_join) env_d = Some t /\ List.length (rows t) = 2%nat).
Proof. exact example_hypotheses. Qed.
Example C07_example_arrows :
  exists a b c, data_op_arrow a_ext None = Some a /\ data_op_arrow b_win None = Some b /\ arrow_rshift a b = Some c /\
                dom c = ["x"; "g"]%string /\ cod c = ["c"; "g"; "x"; "y"]%string /\ column_names a_ext = a_incoming b.
Proof. exact example_arrows. Qed.
Example C07_example_rshift_assoc :
  only_table "e" b_win /\ only_table "f" c_join /\ leaves_nodup b_win = true /\
  exists r, obind (rshift a_ext b_win) (fun ab => rshift ab c_join) = Some r.
Proof. exact example_rshift_assoc. Qed.
(* the two formerly failing inputs satisfy the property with the forwarding of the fixed code *)
Example C07_example_after_fix_map_columns :
  sem_gen fl_spec (replace_leaves [("e"%string, a_ext)] b_mapdel) env_d = sem_gen fl_spec b_mapdel (override fl_spec env_d [("e"%string, a_ext)]).
Proof. exact map_columns_after_fix. Qed.
Example C07_example_after_fix_partition_one :
  sem_gen fl_spec (replace_leaves [("e"%string, a_ext)] b_size1) env_d = sem_gen fl_spec b_size1 (override fl_spec env_d [("e"%string, a_ext)]).
Proof. exact extend_partition_one_after_fix. Qed.
(* the witness of C07_set_boundary_exact_equality_refuted satisfies the up-to-column-order theorem *)
Example C07_example_up_to_column_order :
  only_table "e" b_keep /\ built_ok b_keep = true /\ renames_okb b_keep = true /\
  exists c, rshift a_swapped b_keep = Some c /\
            otab_eqv (sem_gen fl_spec c env_d) (sem_gen fl_spec b_keep (env_set env_d "e" (sem_gen fl_spec a_swapped env_d))).
Proof. exact example_up_to_column_order. Qed.
