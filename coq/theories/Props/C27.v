(* C27 -- windowed and ordered window functions are computed per ordered partition.
   Statements about the reference semantics Model/Sem.v (sem_wextend), for EVERY table, window specification (any number of
   partition columns, any multi-column ordering with any reversals) and backend flavour; each backend is tied to
   sem_gen <its flavour> by correspondence on every run (harness/props/C27.py), and each window function additionally at the
   level of one ordered partition (Model/WindowCases.v).
   Vocabulary (Model/WindowSpec.v): part_tagged cs pk rs r = the rows of rs whose partition key is equivalent to r's
   (keys_eqv: null groups with null), tagged with their positions; sorted_tagged fl cs w rs r = that partition stably sorted by
   the lexicographic order on the order_by columns, reversed columns descending (row_le); sorted_rows = the same without tags. *)
From Coq Require Import List Bool Arith ZArith QArith String Permutation Sorted.
Import ListNotations.
From DA Require Import Base.PyRT Base.Val Model.Sem Model.WindowSpec Proofs.SemBasicP Proofs.SemOrderP
  Proofs.WindowP1 Proofs.WindowP2 Proofs.WindowP3.

(* (1) the value written for assignment k := fn(arg, extras) at row i is the window function over row i's OWN partition,
   read in the DECLARED order, taken at row i's (unique) position j in that order *)
Theorem C27_window_value_over_own_partition :
  forall (fl : flavor) (ops : list (string * expr)) (w : window) (t : table)
         (k : string) (e : expr) (op : string) (arg : option expr) (extra : list val) (i : nat) (r : list val),
  wf_table t -> NoDup (map fst ops) -> In (k, e) ops -> win_parts e = Some (op, arg, extra) ->
  nth_error (rows t) i = Some r ->
  let srt := sorted_tagged fl (cols t) w (rows t) r in
  let vs := map (fun ir => arg_val fl (cols t) arg (snd ir)) srt in
  exists j r',
    nth_error srt j = Some (i, r)
    /\ (forall j', nth_error (map fst srt) j' = Some i -> j' = j)
    /\ nth_error (rows (sem_wextend fl ops w t)) i = Some r'
    /\ get (ext_cols (cols t) (map fst ops)) r' k = nth j (win_fn fl op extra vs) VNull.
Proof. exact window_value_over_own_partition. Qed.
Print Assumptions C27_window_value_over_own_partition.

(* (2) that ordered partition is sorted by the declared order, is a permutation of the partition, and the partition is exactly
   the rows with an equivalent partition key *)
Theorem C27_partition_sorted_in_declared_order :
  forall (fl : flavor) (w : window) (t : table) (r : list val),
  let srt := sorted_tagged fl (cols t) w (rows t) r in
  StronglySorted (fun a b => row_le fl (cols t) (okeys_of w) (snd a) (snd b) = true) srt
  /\ Permutation srt (part_tagged (cols t) (w_part w) (rows t) r)
  /\ (forall m r', In (m, r') srt <-> nth_error (rows t) m = Some r' /\ keys_eqv (key_of (cols t) (w_part w) r) (key_of (cols t) (w_part w) r') = true).
Proof. exact partition_sorted_in_declared_order. Qed.
Print Assumptions C27_partition_sorted_in_declared_order.

(* ... with a reversed column sorted DESCENDING: of two rows of the ordered partition that differ in the first order column
   (non-null values), the earlier one has the smaller value when the column is not reversed and the larger one when it is *)
Theorem C27_reversed_column_sorted_descending :
  forall (fl : flavor) (w : window) (t : table) (r : list val) (c : string) (rest : list string) (p q : nat) (a b : nat * list val),
  w_order w = c :: rest ->
  let srt := sorted_tagged fl (cols t) w (rows t) r in
  nth_error srt p = Some a -> nth_error srt q = Some b -> (p < q)%nat ->
  get (cols t) (snd a) c <> VNull -> get (cols t) (snd b) c <> VNull -> v_eqv (get (cols t) (snd a) c) (get (cols t) (snd b) c) = false ->
  (if mem c (w_rev w) then v_le (get (cols t) (snd b) c) (get (cols t) (snd a) c)
   else v_le (get (cols t) (snd a) c) (get (cols t) (snd b) c)) = true.
Proof. exact reversed_column_sorted_descending. Qed.
Print Assumptions C27_reversed_column_sorted_descending.

(* (3) TOTAL ORDER: when no two rows of the partition are tied and no order key is null, any two backends -- whatever their
   null-placement conventions (fl1, fl2) and whatever physical order they hold the rows in (t1, t2: the same rows, permuted) --
   write the same value at the same row, provided the conventions of the FUNCTION itself agree on the partition's values
   (fn_conventions_agree; C27_conventions_that_remain says exactly when that is) *)
Theorem C27_total_order_backends_agree :
  forall (fl1 fl2 : flavor) (ops : list (string * expr)) (w : window) (t1 t2 : table)
         (k : string) (e : expr) (op : string) (arg : option expr) (extra : list val) (i1 i2 : nat) (r r1' r2' : list val),
  wf_table t1 -> wf_table t2 -> cols t1 = cols t2 -> Permutation (rows t1) (rows t2) ->
  NoDup (map fst ops) -> In (k, e) ops -> win_parts e = Some (op, arg, extra) -> simple_arg arg ->
  nth_error (rows t1) i1 = Some r -> nth_error (rows t2) i2 = Some r ->
  strict_total_on (row_le fl1 (cols t1) (okeys_of w)) (part_rows (cols t1) (w_part w) (rows t1) r) ->
  no_null_order_keys (cols t1) w (part_rows (cols t1) (w_part w) (rows t1) r) ->
  fn_conventions_agree fl1 fl2 op (map (arg_val fl1 (cols t1) arg) (sorted_rows fl1 (cols t1) w (rows t1) r)) ->
  nth_error (rows (sem_wextend fl1 ops w t1)) i1 = Some r1' -> nth_error (rows (sem_wextend fl2 ops w t2)) i2 = Some r2' ->
  get (ext_cols (cols t1) (map fst ops)) r1' k = get (ext_cols (cols t2) (map fst ops)) r2' k.
Proof. exact total_order_backends_agree. Qed.
Print Assumptions C27_total_order_backends_agree.

(* the ordered partition itself is one list for all conventions and all physical row orders *)
Theorem C27_ordered_partition_is_convention_free :
  forall (fl1 fl2 : flavor) (cs : list string) (w : window) (rs1 rs2 : list (list val)) (r : list val),
  Permutation rs1 rs2 ->
  strict_total_on (row_le fl1 cs (okeys_of w)) (part_rows cs (w_part w) rs1 r) ->
  no_null_order_keys cs w (part_rows cs (w_part w) rs2 r) ->
  sorted_rows fl1 cs w rs1 r = sorted_rows fl2 cs w rs2 r.
Proof. exact ordered_partition_convention_free. Qed.
Print Assumptions C27_ordered_partition_is_convention_free.

(* which function-level conventions remain: none for row numbers, counts of positions, shift, cumprod, rank, first / last,
   ffill / bfill, mean, min, max, median, nunique, var; count / size never meet the empty-group convention inside a window
   (a row's own partition is not empty); sum only when the partition has no non-null value; cumsum / cummax / cummin only when
   the partition holds a null value (Pandas: null at that row, SQL: the running value) *)
Theorem C27_conventions_that_remain :
  forall (fl1 fl2 : flavor) (op : string) (extra vs : list val),
  fn_conventions_agree fl1 fl2 op vs -> win_fn fl1 op extra vs = win_fn fl2 op extra vs.
Proof. exact win_fn_conventions. Qed.
Print Assumptions C27_conventions_that_remain.

Theorem C27_own_partition_is_not_empty :
  forall (fl : flavor) (cs : list string) (w : window) (rs : list (list val)) (r : list val) (i : nat),
  nth_error rs i = Some r -> sorted_rows fl cs w rs r <> [].
Proof. exact own_partition_nonempty. Qed.
Print Assumptions C27_own_partition_is_not_empty.

(* the remaining conventions ARE real backend differences on the unchanged code (listed findings, known_findings.d/C27.json):
   a total order without null keys on which Pandas and SQLite write different running sums at a null-valued row *)
Theorem C27_running_at_null_row_refuted :
  exists (t : table) (w : window) (ops : list (string * expr)) (i : nat) (r1 r2 : list val),
    strict_total_on (row_le fl_pandas (cols t) (okeys_of w)) (rows t) /\ no_null_order_keys (cols t) w (rows t)
    /\ nth_error (rows (sem_wextend fl_pandas ops w t)) i = Some r1 /\ nth_error (rows (sem_wextend fl_sqlite ops w t)) i = Some r2
    /\ get (ext_cols (cols t) (map fst ops)) r1 "s"%string = VNull /\ get (ext_cols (cols t) (map fst ops)) r2 "s"%string = VNum 5.
Proof. exact running_at_null_row_refuted. Qed.
Print Assumptions C27_running_at_null_row_refuted.

(* a GROUP aggregate (mean, size) that the builder accepts in an ORDERED window is a RUNNING aggregate on SQL (default frame),
   not the aggregate over the row's partition (hand model sql_ordered_agg, compared with SQLite on every run) *)
Theorem C27_sql_group_aggregate_in_ordered_window_refuted :
  exists (vs : list val) (j : nat),
    nth j (sql_ordered_agg fl_sqlite "mean" vs) VNull <> nth j (win_fn fl_pandas "mean" [] vs) VNull.
Proof. exact sql_group_aggregate_in_ordered_window_refuted. Qed.
Print Assumptions C27_sql_group_aggregate_in_ordered_window_refuted.

(* Polars first() / last() return the boundary element even when it is null, and n_unique() counts null (hand models
   polars_first / polars_last / polars_nunique, compared with Polars on every run) *)
Theorem C27_polars_first_last_nunique_refuted :
  exists vs : list val,
    polars_first vs <> win_fn fl_polars "first" [] vs /\ polars_last (rev vs) <> win_fn fl_polars "last" [] (rev vs)
    /\ polars_nunique vs <> win_fn fl_polars "nunique" [] vs.
Proof. exact polars_first_last_nunique_refuted. Qed.
Print Assumptions C27_polars_first_last_nunique_refuted.

(* (4) what each function computes at position j of the ordered values vs of a partition *)
(* cumsum / cummax / cummin / cumprod: the fold of the NON-NULL values among the first j+1 (null at a null-valued row unless the
   backend carries the running value) *)
Theorem C27_running_value :
  forall (fl : flavor) (op : string) (f : Q -> Q -> Q) (carry : bool) (extra vs : list val) (j : nat),
  (op, f, carry) = ("cumsum"%string, Qplus, f_running_carry fl) \/ (op, f, carry) = ("cummax"%string, qmax, f_running_carry fl)
  \/ (op, f, carry) = ("cummin"%string, qmin, f_running_carry fl) \/ (op, f, carry) = ("cumprod"%string, Qmult, false) ->
  (j < List.length vs)%nat ->
  nth j (win_fn fl op extra vs) VNull =
    if carry || is_num (nth j vs VNull) then opt_num (qfold1 f (nums (firstn (S j) vs))) else VNull.
Proof. exact running_value. Qed.
Print Assumptions C27_running_value.

Theorem C27_cumsum_is_prefix_sum :
  forall (fl : flavor) (extra vs : list val) (j : nat),
  (j < List.length vs)%nat -> is_num (nth j vs VNull) = true ->
  nth j (win_fn fl "cumsum" extra vs) VNull = qn (qsum (nums (firstn (S j) vs))).
Proof. exact cumsum_is_prefix_sum. Qed.
Print Assumptions C27_cumsum_is_prefix_sum.

(* row numbers (and Pandas' zero-argument _count()) are j+1; cumcount is j *)
Theorem C27_row_number_value :
  forall (fl : flavor) (op : string) (extra vs : list val) (j : nat),
  In op ["_row_number"%string; "row_number"%string; "_count"%string] -> (j < List.length vs)%nat ->
  nth j (win_fn fl op extra vs) VNull = qn (inject_Z (Z.of_nat (j + 1))).
Proof. exact row_number_value. Qed.
Print Assumptions C27_row_number_value.

Theorem C27_cumcount_value :
  forall (fl : flavor) (extra vs : list val) (j : nat),
  (j < List.length vs)%nat -> nth j (win_fn fl "cumcount" extra vs) VNull = qn (inject_Z (Z.of_nat j)).
Proof. exact cumcount_value. Qed.
Print Assumptions C27_cumcount_value.

(* shift(n), n >= 0: the value n rows earlier in the declared order, null when there is none; shift(-n): n rows later *)
Theorem C27_shift_value :
  forall (fl : flavor) (vs : list val) (j : nat) (q : Q),
  (j < List.length vs)%nat ->
  nth j (win_fn fl "shift" [VNum q] vs) VNull =
    (if Z.leb 0 (Qnum q)
     then (if Nat.ltb j (Z.to_nat (Qnum q)) then VNull else nth (j - Z.to_nat (Qnum q)) vs VNull)
     else nth (j + Z.to_nat (Z.opp (Qnum q))) vs VNull)
  /\ nth j (win_fn fl "shift" [] vs) VNull = (if Nat.ltb j 1 then VNull else nth (j - 1) vs VNull).
Proof. exact shift_value. Qed.
Print Assumptions C27_shift_value.

(* rank: the average rank of the row's VALUE among the non-null values of its partition (null stays null); it does not
   depend on the declared order; a value occurring once gets 1 + the number of smaller values *)
Theorem C27_rank_value :
  forall (fl : flavor) (extra vs : list val) (j : nat),
  (j < List.length vs)%nat -> nth j (win_fn fl "rank" extra vs) VNull = rank_val vs (nth j vs VNull).
Proof. exact rank_value. Qed.
Print Assumptions C27_rank_value.
Theorem C27_rank_order_independent :
  forall (vs vs' : list val) (v : val), Permutation vs vs' -> rank_val vs v = rank_val vs' v.
Proof. exact rank_order_independent. Qed.
Print Assumptions C27_rank_order_independent.
Theorem C27_rank_of_untied_value :
  forall (vs : list val) (v : val) (x : Q),
  num_of v = Some x -> List.length (filter (fun y => Qeq_bool y x) (nums vs)) = 1%nat ->
  rank_val vs v = qn (inject_Z (Z.of_nat (List.length (filter (fun y => Qle_bool y x && negb (Qeq_bool y x)) (nums vs)) + 1))).
Proof. exact rank_of_untied_value. Qed.
Print Assumptions C27_rank_of_untied_value.

(* first / last: the first / last non-null value of the partition in the declared order, at every row *)
Theorem C27_first_last_value :
  forall (fl : flavor) (extra vs : list val) (j : nat),
  (j < List.length vs)%nat ->
  nth j (win_fn fl "first" extra vs) VNull = first_nonnull vs /\ nth j (win_fn fl "last" extra vs) VNull = first_nonnull (rev vs).
Proof. exact first_last_value. Qed.
Print Assumptions C27_first_last_value.
Theorem C27_first_nonnull_spec :
  forall (l1 l2 : list val) (v : val), forallb is_null l1 = true -> is_null v = false -> first_nonnull (l1 ++ v :: l2) = v.
Proof. exact first_nonnull_spec. Qed.
Print Assumptions C27_first_nonnull_spec.
Theorem C27_last_nonnull_spec :
  forall (l1 l2 : list val) (v : val), forallb is_null l2 = true -> is_null v = false -> first_nonnull (rev (l1 ++ v :: l2)) = v.
Proof. exact last_nonnull_spec. Qed.
Print Assumptions C27_last_nonnull_spec.

(* ffill: the closest non-null value at or before the row; bfill: at or after it *)
Theorem C27_ffill_value :
  forall (fl : flavor) (extra vs : list val) (j : nat),
  (j < List.length vs)%nat -> nth j (win_fn fl "ffill" extra vs) VNull = first_nonnull (rev (firstn (S j) vs)).
Proof. exact ffill_value. Qed.
Print Assumptions C27_ffill_value.
Theorem C27_bfill_value :
  forall (fl : flavor) (extra vs : list val) (j : nat), nth j (win_fn fl "bfill" extra vs) VNull = first_nonnull (skipn j vs).
Proof. exact bfill_value. Qed.
Print Assumptions C27_bfill_value.

(* group aggregates: one value, computed from ALL the values of the partition, written at every row of the partition *)
Theorem C27_group_aggregate_broadcast :
  forall (fl : flavor) (op : string) (extra vs : list val) (j : nat),
  In op ["sum"%string; "mean"%string; "min"%string; "max"%string; "count"%string; "size"%string; "_size"%string] ->
  (j < List.length vs)%nat -> nth j (win_fn fl op extra vs) VNull = agg_fn fl op vs.
Proof. exact group_aggregate_broadcast. Qed.
Print Assumptions C27_group_aggregate_broadcast.
Theorem C27_median_nunique_var_broadcast :
  forall (fl : flavor) (extra vs : list val) (j : nat),
  (j < List.length vs)%nat ->
  nth j (win_fn fl "median" extra vs) VNull = median_val vs
  /\ nth j (win_fn fl "nunique" extra vs) VNull = nunique_val vs
  /\ nth j (win_fn fl "var" extra vs) VNull = var_val vs.
Proof. exact median_nunique_var_broadcast. Qed.
Print Assumptions C27_median_nunique_var_broadcast.

Local Open Scope string_scope.
Local Open Scope list_scope.
(* non-vacuity: two partition columns with a null key, two order columns with mixed reversal (o1 descending, o2 ascending),
   a null in the value column; the guards of (3) hold for the partition of row 0 and the values are as the property says *)
Definition ex_tab : table :=
  mktable ["p"; "q"; "o1"; "o2"; "x"]
    [[VStr "a"; VNull; VNum 1; VNum 7; VNum 10];
     [VStr "a"; VNull; VNum 2; VNum 5; VNull];
     [VStr "b"; VNum 1; VNum 1; VNum 1; VNum 3];
     [VStr "a"; VNull; VNum 1; VNum 4; VNum 4];
     [VStr "a"; VNum 1; VNum 9; VNum 9; VNum 100]].
Definition ex_win : window := mkwin ["p"; "q"] ["o1"; "o2"] ["o1"].
Definition ex_r0 : list val := [VStr "a"; VNull; VNum 1; VNum 7; VNum 10].
Example C27_guards_satisfiable :
  wf_table ex_tab
  /\ strict_total_on (row_le fl_sqlite (cols ex_tab) (okeys_of ex_win)) (part_rows (cols ex_tab) (w_part ex_win) (rows ex_tab) ex_r0)
  /\ no_null_order_keys (cols ex_tab) ex_win (part_rows (cols ex_tab) (w_part ex_win) (rows ex_tab) ex_r0)
  /\ fn_conventions_agree fl_sqlite fl_pandas "shift" (map (arg_val fl_sqlite (cols ex_tab) (Some (ECol "x"))) (sorted_rows fl_sqlite (cols ex_tab) ex_win (rows ex_tab) ex_r0))
  /\ List.length (part_rows (cols ex_tab) (w_part ex_win) (rows ex_tab) ex_r0) = 3%nat.
Proof.
  split; [|split; [|split; [|split]]].
  - split; [|repeat constructor]. repeat constructor; simpl; intuition discriminate.
  - apply strict_total_b_sound. vm_compute. reflexivity.
  - apply no_null_order_keys_b_sound. vm_compute. reflexivity.
  - left. simpl. tauto.
  - vm_compute. reflexivity.
Qed.
(* the null-key partition {rows 0, 1, 3} in the order o1 DESC, o2 ASC is rows 1, 3, 0: x = null, 4, 10 *)
Example C27_example_values :
  option_map (fun t => map (fun r => (get (cols t) r "rn", get (cols t) r "cs", get (cols t) r "sh")) (rows t))
    (sem_gen fl_pandas (OExtend (OTable "d" (cols ex_tab))
                          [("rn", EOp "_row_number" []); ("cs", EOp "cumsum" [ECol "x"]); ("sh", EOp "shift" [ECol "x"; EConst (VNum 1)])]
                          true ex_win) [("d", ex_tab)])
  = Some [(VNum 3, VNum 14, VNum 4); (VNum 1, VNull, VNull); (VNum 1, VNum 3, VNull); (VNum 2, VNum 4, VNull); (VNum 1, VNum 100, VNull)].
Proof. vm_compute. reflexivity. Qed.
