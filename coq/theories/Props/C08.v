(* C08 -- results have exactly the columns the pipeline declares.
   Statements about the reference semantics Model/Sem.v, for EVERY backend flavour (the conventions of Pandas, SQLite,
   PostgreSQL, Polars and the specification); each backend is tied to sem_gen <its flavour> by correspondence. *)
From Coq Require Import List Bool String.
Import ListNotations.
From DA Require Import Base.PyRT Base.Val Model.Sem Proofs.SemBasicP Model.PdPrim Model.PandasExec Proofs.PandasExecP1 Proofs.PandasExecP9 Props.PEXEC.

(* every pipeline (any depth, any operator mix), every flavour, every environment: the result's columns are exactly the
   declared ones, in the declared order (so also after select_columns) *)
Theorem C08_result_columns_are_declared :
  forall (fl : flavor) (p : op) (e : env) (t : table), sem_gen fl p e = Some t -> cols t = column_names p.
Proof. exact sem_cols. Qed.
Print Assumptions C08_result_columns_are_declared.

(* ... and every row has exactly one cell per declared column: no scratch column survives, none is lost *)
Theorem C08_rows_have_declared_width :
  forall (fl : flavor) (p : op) (e : env) (t : table), sem_gen fl p e = Some t ->
  Forall (fun r => List.length r = List.length (column_names p)) (rows t).
Proof. intros fl p e t H. rewrite <- (sem_cols fl p e t H). exact (sem_rows_width fl p e t H). Qed.
Print Assumptions C08_rows_have_declared_width.

(* evaluation is defined whenever every table the pipeline mentions is bound: also on empty inputs *)
Theorem C08_defined_on_all_inputs :
  forall (fl : flavor) (p : op) (e : env), (forall n, In n (tables_of p) -> dict_get e n <> None) -> exists t, sem_gen fl p e = Some t.
Proof. exact sem_defined. Qed.
Print Assumptions C08_defined_on_all_inputs.

(* The Pandas executor itself, TRANSCRIBED step by step (Model/PandasExec.v over hand models of the pandas primitives; Props/PEXEC.v):
   for every sorting routine and every arrangement of inner-merge rows pandas may choose, every builder-accepted pipeline and every
   input, a returned frame has exactly the declared columns and every row has that width: each scratch column the executor adds
   (stand-ins, temp keys, suffixed right copies, the null-key marker) is removed again, and no declared column is lost. *)
Theorem C08_pandas_executor_transcription_has_declared_columns :
  forall (srt : sorter) (arr : arranger) (q : pquirks) (p : op) (e : env) (t : table),
  sorter_ok srt -> arranger_ok arr -> wf_op_b p = true -> pexec_gen srt arr q p e = Some t ->
  (forall c, In c (cols t) <-> In c (column_names p)) /\ width_ok t.
Proof. exact PEXEC_no_scratch_column_survives. Qed.
Print Assumptions C08_pandas_executor_transcription_has_declared_columns.

Local Open Scope string_scope.
Local Open Scope list_scope.
(* non-vacuity: an ungrouped project over an EMPTY table that is then narrowed still has its declared column *)
Example C08_empty_input_example :
  let p := OSelectCols (OProject (OTable "d" ["k"; "a"]) [("s", EOp "sum" [ECol "a"]); ("m", EOp "max" [ECol "a"])] []) ["m"] in
  option_map cols (sem_gen fl_sqlite p [("d", mktable ["k"; "a"] [])]) = Some ["m"]
  /\ column_names p = ["m"].
Proof. vm_compute. split; reflexivity. Qed.
