(* C25 -- the evaluation result cache is transparent.
   Statements about the hand model Model/Cache.v of eval_cache.py.  The behaviour of hash_data_frame and of list.sort
   enters ONLY through the three hypotheses below, which are part of every statement (modelled, not verified). *)
From Coq Require Import List Bool Arith String Permutation.
Import ListNotations.
From DA Require Import Base.PyRT Model.Cache Proofs.CacheP.

Section C25.
Context {F : Type} `{EqDec F} (hash : F -> string) (sort_keys : list string -> list string).
Hypothesis hash_inj : forall a b, hash a = hash b -> a = b.
Hypothesis sort_perm : forall l, Permutation (sort_keys l) l.
Hypothesis sort_canon : forall l l', Permutation l l' -> sort_keys l = sort_keys l'.

(* data maps that differ in any entry, SQL strings or dialects that differ, never share a key *)
Theorem C25_differing_inputs_never_share_a_key : forall name sql name' sql' (dm dm' : pydict string F),
  NoDup (dict_keys dm) -> NoDup (dict_keys dm') ->
  make_key hash sort_keys name sql dm = make_key hash sort_keys name' sql' dm' ->
  name = name' /\ sql = sql' /\ forall k, dict_get dm k = dict_get dm' k.
Proof. exact (key_injective hash sort_keys hash_inj sort_perm). Qed.

(* equal data maps get the same key whatever their insertion order *)
Theorem C25_equal_inputs_share_the_key : forall name sql (dm dm' : pydict string F),
  NoDup (dict_keys dm) -> NoDup (dict_keys dm') ->
  (forall k, dict_get dm k = dict_get dm' k) -> make_key hash sort_keys name sql dm = make_key hash sort_keys name sql dm'.
Proof. exact (key_deterministic hash sort_keys sort_canon). Qed.

(* for EVERY history in which the caller mutates only frames it holds, the cache of private copies produces, operation by
   operation, the outputs of a plain map from keys to frame values: mutating a returned copy (or the frame that was stored)
   never changes the cache *)
Theorem C25_cache_behaves_like_a_map_of_values : forall ops : list cop,
  well_behaved hash sort_keys c_init [] ops = true ->
  run_c hash sort_keys c_init ops = run_a hash sort_keys a_init ops.
Proof. exact (cache_refines_value_map hash sort_keys). Qed.

(* in that map: a lookup succeeds exactly when an entry with an equal key exists, and yields a fresh cell holding its value *)
Theorem C25_lookup_returns_copy_of_stored_value : forall (s : astate) name sql dm m,
  resolve (aheap s) dm = Some m ->
  snd (a_step hash sort_keys s (CGet name sql dm)) =
    match dict_get (acache s) (make_key hash sort_keys name sql m) with Some r => RLoc (List.length (aheap s)) | None => RKeyError end
  /\ (forall r, dict_get (acache s) (make_key hash sort_keys name sql m) = Some r ->
        nth_error (aheap (fst (a_step hash sort_keys s (CGet name sql dm)))) (List.length (aheap s)) = Some r).
Proof. exact (a_get_spec hash sort_keys). Qed.

Theorem C25_store_sets_exactly_one_entry : forall (s : astate) name sql dm res m r,
  resolve (aheap s) dm = Some m -> nth_error (aheap s) res = Some r ->
  dict_get (acache (fst (a_step hash sort_keys s (CStore name sql dm res)))) (make_key hash sort_keys name sql m) = Some r /\
  forall k, k <> make_key hash sort_keys name sql m -> dict_get (acache (fst (a_step hash sort_keys s (CStore name sql dm res)))) k = dict_get (acache s) k.
Proof. exact (a_store_spec hash sort_keys). Qed.

Theorem C25_only_store_changes_the_cache : forall (s : astate) o,
  (forall name sql dm res, o <> CStore name sql dm res) -> acache (fst (a_step hash sort_keys s o)) = acache s.
Proof. exact (a_cache_only_changed_by_store hash sort_keys). Qed.
End C25.

Print Assumptions C25_differing_inputs_never_share_a_key.
Print Assumptions C25_equal_inputs_share_the_key.
Print Assumptions C25_cache_behaves_like_a_map_of_values.
Print Assumptions C25_lookup_returns_copy_of_stored_value.
Print Assumptions C25_store_sets_exactly_one_entry.
Print Assumptions C25_only_store_changes_the_cache.

(* non-vacuity: a well-behaved history where the caller mutates both the stored frame and the returned copy *)
Example C25_history_example :
  let ops := [CNew 5; CNew 9; CStore "S" "q" [("a"%string, 0)] 1; CMutate 1 7; CGet "S" "q" [("a"%string, 0)]; CMutate 3 8;
              CGet "S" "q" [("a"%string, 0)]; CRead 4] in
  well_behaved (fun n : nat => String (Ascii.ascii_of_nat n) EmptyString) (fun l => l) c_init [] ops = true /\
  last (run_c (fun n : nat => String (Ascii.ascii_of_nat n) EmptyString) (fun l => l) c_init ops) RBad = RVal 9.
Proof. vm_compute. split; reflexivity. Qed.
