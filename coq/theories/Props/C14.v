(* C14 -- generated SQL carries every literal and identifier verbatim.
   Statements about quote_string / quote_identifier / _clean_annotation REGENERATED from data_algebra/sql_model.py and
   MySQL.py (Gen/G_Quote.v, Gen/G_QuoteMySQL.v), against the lexing rules of Model/Lex.v. *)
From Coq Require Import List Bool Arith Ascii String.
Import ListNotations.
From DA Require Import Base.PyRT Base.PyStr Model.Lex Gen.G_Quote Gen.G_QuoteMySQL Proofs.QuoteP.
Local Open Scope string_scope.

(* standard family (SQLite, PostgreSQL): EVERY string reads back verbatim and the text after the literal is untouched,
   so no literal can change the structure of the query *)
Theorem C14_string_literal_reads_back_verbatim_std : forall (q : ascii) (s rest : string),
  starts_with_char q rest = false -> read_literal_std q (quote_string (q1 q) s ++ rest) = Some (s, rest).
Proof. exact quote_string_roundtrip_std. Qed.
Print Assumptions C14_string_literal_reads_back_verbatim_std.

(* backslash family (MySQL, BigQuery, Spark): only for strings without a backslash ... *)
Theorem C14_string_literal_reads_back_verbatim_bs_partial : forall (q : ascii) (s rest : string),
  q <> "\"%char -> has_char (Ascii.eqb "\"%char) s = false -> starts_with_char q rest = false ->
  read_literal_bs q (quote_string (q1 q) s ++ rest) = Some (s, rest).
Proof. exact quote_string_roundtrip_bs_partial. Qed.
Print Assumptions C14_string_literal_reads_back_verbatim_bs_partial.

(* ... the full statement is false there (listed finding): the literal for `\` swallows its closing quote, and following
   text becomes part of the value *)
Theorem C14_string_literal_backslash_family_refuted :
  read_literal_bs "'"%char (quote_string (q1 "'"%char) "\") = None /\
  exists v r, read_literal_bs "'"%char (quote_string (q1 "'"%char) "\" ++ " OR 1=1 --'") = Some (v, r) /\ v <> "\".
Proof. exact quote_string_backslash_family_refuted. Qed.
Print Assumptions C14_string_literal_backslash_family_refuted.

(* identifiers: rejected exactly when they contain the identifier quote, otherwise they read back verbatim *)
Theorem C14_identifier_rejected_iff_contains_quote : forall (q : ascii) (n : string),
  quote_identifier (q1 q) n = None <-> has_char (Ascii.eqb q) n = true.
Proof. exact quote_identifier_accepts_iff. Qed.
Print Assumptions C14_identifier_rejected_iff_contains_quote.
Theorem C14_identifier_reads_back_verbatim : forall (q : ascii) (n t rest : string),
  quote_identifier (q1 q) n = Some t -> read_ident q (t ++ rest) = Some (n, rest).
Proof. exact quote_identifier_roundtrip. Qed.
Print Assumptions C14_identifier_reads_back_verbatim.
Theorem C14_mysql_identifier_quoting_is_the_same : forall q n : string, mysql_quote_identifier q n = quote_identifier q n.
Proof. exact mysql_quote_identifier_same. Qed.
Print Assumptions C14_mysql_identifier_quoting_is_the_same.

(* annotation comments: the cleaned text has no end-of-line and no percent sign, so the comment ends exactly at the newline
   the generator writes after it, whatever the pipeline text contained *)
Theorem C14_annotation_has_no_eol_or_percent : forall a c : string,
  _clean_annotation (Some a) = Some c -> has_char is_eol c = false /\ has_char (Ascii.eqb "%"%char) c = false.
Proof. exact clean_annotation_no_eol. Qed.
Print Assumptions C14_annotation_has_no_eol_or_percent.
Theorem C14_annotation_comment_is_inert : forall a c rest : string,
  _clean_annotation (Some a) = Some c -> skip_comment ("-- " ++ c ++ String "010"%char rest) = Some rest.
Proof. exact comment_is_inert. Qed.
Print Assumptions C14_annotation_comment_is_inert.

(* non-vacuity *)
Example C14_examples :
  quote_string "'" "it's; DROP TABLE d; --" = "'it''s; DROP TABLE d; --'" /\
  quote_identifier """" "a b" = Some """a b""" /\ quote_identifier """" "a""b" = None /\
  _clean_annotation (Some (" x" ++ String "010"%char "; DROP 100% ")) = Some "x ; DROP 100percent".
Proof. vm_compute. repeat split. Qed.
