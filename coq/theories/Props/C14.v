(* C14 -- generated SQL carries every literal and identifier verbatim.
   Statements about quote_string / quote_identifier / _clean_annotation / value_to_sql REGENERATED from
   data_algebra/sql_model.py and MySQL.py (Gen/G_Quote.v, Gen/G_QuoteMySQL.v, Gen/G_ValueToSql.v), against the lexing rules of
   Model/Lex.v; Python values and CPython's str(int) / repr(float) are modelled in Model/PyVal.v; concat_rows labels and
   record-map SQL in Model/RecMapSql.v (token model rendered with the regenerated quoting functions). *)
From Coq Require Import List Bool Arith ZArith Ascii String.
Import ListNotations.
From DA Require Import Base.PyRT Base.PyStr Model.Lex Model.PyVal Gen.G_Quote Gen.G_QuoteMySQL Gen.G_ValueToSql Proofs.QuoteP
  Proofs.ValueP Model.RecMapSql Proofs.RecMapP.
Local Open Scope string_scope.

(* standard family (SQLite, PostgreSQL): EVERY string reads back verbatim and the text after the literal is untouched,
   so no literal can change the structure of the query *)
Theorem C14_string_literal_reads_back_verbatim_std : forall (q : ascii) (s rest : string),
  starts_with_char q rest = false -> read_literal_std q (quote_string (q1 q) s ++ rest) = Some (s, rest).
Proof. exact quote_string_roundtrip_std. Qed.
Print Assumptions C14_string_literal_reads_back_verbatim_std.

(* backslash family (MySQL, BigQuery, Spark): only for strings without a backslash ... *)
Theorem C14_string_literal_reads_back_verbatim_bs_partial : forall (q : ascii) (s rest : string),
  q <> "\"%char -> has_char (Ascii.eqb "\"%char) s = false -> starts_with_char q rest = false ->
  read_literal_bs q (quote_string (q1 q) s ++ rest) = Some (s, rest).
Proof. exact quote_string_roundtrip_bs_partial. Qed.
Print Assumptions C14_string_literal_reads_back_verbatim_bs_partial.

(* ... the full statement is false there (listed finding): the literal for `\` swallows its closing quote, and following
   text becomes part of the value *)
Theorem C14_string_literal_backslash_family_refuted :
  read_literal_bs "'"%char (quote_string (q1 "'"%char) "\") = None /\
  exists v r, read_literal_bs "'"%char (quote_string (q1 "'"%char) "\" ++ " OR 1=1 --'") = Some (v, r) /\ v <> "\".
Proof. exact quote_string_backslash_family_refuted. Qed.
Print Assumptions C14_string_literal_backslash_family_refuted.

(* identifiers: rejected exactly when they contain the identifier quote, otherwise they read back verbatim *)
Theorem C14_identifier_rejected_iff_contains_quote : forall (q : ascii) (n : string),
  quote_identifier (q1 q) n = None <-> has_char (Ascii.eqb q) n = true.
Proof. exact quote_identifier_accepts_iff. Qed.
Print Assumptions C14_identifier_rejected_iff_contains_quote.
Theorem C14_identifier_reads_back_verbatim : forall (q : ascii) (n t rest : string),
  quote_identifier (q1 q) n = Some t -> read_ident q (t ++ rest) = Some (n, rest).
Proof. exact quote_identifier_roundtrip. Qed.
Print Assumptions C14_identifier_reads_back_verbatim.
Theorem C14_mysql_identifier_quoting_is_the_same : forall q n : string, mysql_quote_identifier q n = quote_identifier q n.
Proof. exact mysql_quote_identifier_same. Qed.
Print Assumptions C14_mysql_identifier_quoting_is_the_same.

(* annotation comments: the cleaned text has no end-of-line and no percent sign, so the comment ends exactly at the newline
   the generator writes after it, whatever the pipeline text contained *)
Theorem C14_annotation_has_no_eol_or_percent : forall a c : string,
  _clean_annotation (Some a) = Some c -> has_char is_eol c = false /\ has_char (Ascii.eqb "%"%char) c = false.
Proof. exact clean_annotation_no_eol. Qed.
Print Assumptions C14_annotation_has_no_eol_or_percent.
Theorem C14_annotation_comment_is_inert : forall a c rest : string,
  _clean_annotation (Some a) = Some c -> skip_comment ("-- " ++ c ++ String "010"%char rest) = Some rest.
Proof. exact comment_is_inert. Qed.
Print Assumptions C14_annotation_comment_is_inert.

(* value_to_sql: every scalar value (None, str, bool, int, finite float, NaN, expr_rep.Value of one) is written as ONE literal
   token of the dialect -- NULL, TRUE/FALSE, a signed numeric literal or a string literal -- that denotes the same value
   (same_value: same string; same integer; for a float (+/-) d1..dn * 10^(decpt-n) exactly; NaN and None are NULL), and the
   text after it is untouched.  Backslash family: strings without a backslash (listed finding). *)
Theorem C14_value_to_sql_reads_back : forall (fam : family) (q : ascii) (v : pyval) (rest : string),
  quote_ok q = true -> scalar_ok v -> (fam = Backslash -> no_backslash v) ->
  ends_token rest = true -> starts_with_char q rest = false ->
  exists sv, read_value fam q (value_to_sql (q1 q) v ++ rest) = Some (sv, rest) /\ same_value v sv.
Proof. exact value_to_sql_reads_back. Qed.
Print Assumptions C14_value_to_sql_reads_back.

(* ... which is FALSE for an infinite float: `inf` / `-inf` is not a literal (listed finding C14-infinite-float-literal) *)
Theorem C14_value_to_sql_infinite_float_refuted :
  read_value Std "'"%char (value_to_sql "'" (PFloat (FInf false)) ++ " AS x") = None /\
  read_value Std "'"%char (value_to_sql "'" (PFloat (FInf true)) ++ " AS x") = None.
Proof. exact value_to_sql_inf_refuted. Qed.
Print Assumptions C14_value_to_sql_infinite_float_refuted.

(* list values: only the shape is stated (every item is written by value_to_sql itself, so the theorem above applies to
   each scalar item); a reader for the whole parenthesised list is not modelled *)
Theorem C14_value_to_sql_list_items_partial : forall (qs : string) (l : list pyval),
  value_to_sql qs (PList l) = "(" ++ str_join ", " (map (value_to_sql qs) l) ++ ")" /\
  value_to_sql qs (PTuple l) = "(" ++ str_join ", " (map (value_to_sql qs) l) ++ ")" /\
  value_to_sql qs (PListTerm l) = "(" ++ str_join ", " (map (value_to_sql qs) l) ++ ")".
Proof. exact value_to_sql_list_items. Qed.
Print Assumptions C14_value_to_sql_list_items_partial.

(* concat_rows source labels reach the SQL as the literal value Value(a_name): EVERY label reads back verbatim in the
   standard family (and every label without a backslash elsewhere) *)
Theorem C14_concat_label_reads_back : forall (d : dialect) (name rest : string),
  quote_ok (d_sq d) = true -> (d_fam d = Backslash -> has_char (Ascii.eqb "\"%char) name = false) ->
  ends_token rest = true -> starts_with_char (d_sq d) rest = false ->
  read_value (d_fam d) (d_sq d) (concat_label_sql d name ++ rest) = Some (SStr name, rest).
Proof. exact concat_label_reads_back. Qed.
Print Assumptions C14_concat_label_reads_back.

(* record-map SQL: in the token model a user string (column name, key value, record key) reaches the text ONLY through
   quote_identifier / quote_string / value_to_sql ... *)
Theorem C14_recordmap_tokens_render_through_quoting : forall d : dialect,
  (forall k, render_tok d (Kw k) = Some (kw_text d k)) /\
  (forall n, render_tok d (Id (PStr n)) = quote_identifier (q1 (d_iq d)) n) /\
  (forall s, render_tok d (Lit s) = Some (quote_string (q1 (d_sq d)) s)) /\
  (forall v, render_tok d (Val v) = Some (value_to_sql (q1 (d_sq d)) v)).
Proof. exact tokens_render_through_quoting. Qed.
Print Assumptions C14_recordmap_tokens_render_through_quoting.
(* ... and, whatever the control table, every line of both record-map queries that can be rendered reads back -- fixed
   keyword by fixed keyword, hole by hole -- to exactly the names, strings and values that were put in *)
Theorem C14_recordmap_literals : forall (d : dialect) (rs : recspec) (l : line) (text : string),
  quote_ok (d_sq d) = true ->
  In l (lines_of (emit_r2b rs) ++ lines_of (emit_b2r rs))%list -> Forall (tok_ok d) l -> render_line d l = Some text ->
  exists items, read_shape d (map shape_of l) text = Some (items, "") /\ Forall2 tok_item l items.
Proof. exact recordmap_lines_read_back. Qed.
Print Assumptions C14_recordmap_literals.

(* non-vacuity *)
Example C14_examples_values :
  value_to_sql "'" (PFloat (FFin true [d1; d2; d3; d4] (-6))) = "-1.234e-07" /\
  value_to_sql "'" (PFloat (FFin false [d1] 17)) = "1e+16" /\ value_to_sql "'" (PFloat FNan) = "NULL" /\
  value_to_sql "'" (PValue (PStr "it's")) = "'it''s'" /\ value_to_sql "'" (PInt (-12)) = "-12" /\
  value_to_sql "'" (PBool true) = "TRUE" /\ value_to_sql "'" (PListTerm [PInt 1; PStr "a'b"; PNone]) = "(1, 'a''b', NULL)" /\
  read_value Std "'"%char "-1.234e-07 AS x" = Some (SNum (mk_numtok true [d1] (Some [d2; d3; d4]) (Some (-7)%Z)), " AS x").
Proof. vm_compute. repeat split. Qed.
Definition C14_example_dialect := mk_dialect Std "'"%char """"%char "TEXT" "" "".
Definition C14_example_spec := mk_recspec [("k", [PStr "x' OR 1=1 --"; PStr "b"]); ("v", [PStr "c 1"; PStr "c2"])] ["id"] ["k"].
Example C14_examples_recordmap :
  exists l text, In l (fst (emit_r2b C14_example_spec)) /\ render_line C14_example_dialect l = Some text /\
    text = "  CASE   WHEN CAST(b.""v"" AS TEXT) = 'c 1' THEN a.""c 1""   WHEN CAST(b.""v"" AS TEXT) = 'c2' THEN a.""c2""  ELSE NULL END AS ""v""".
Proof. eexists. eexists. split; [right; right; left; reflexivity|]. split; vm_compute; reflexivity. Qed.
Example C14_examples :
  quote_string "'" "it's; DROP TABLE d; --" = "'it''s; DROP TABLE d; --'" /\
  quote_identifier """" "a b" = Some """a b""" /\ quote_identifier """" "a""b" = None /\
  _clean_annotation (Some (" x" ++ String "010"%char "; DROP 100% ")) = Some "x ; DROP 100percent".
Proof. vm_compute. repeat split. Qed.
