(* C12 -- Printed pipelines rebuild to equal pipelines with identical results.
   "For every pipeline, evaluating the Python source printed by to_python() or repr(), plain or black-formatted, rebuilds a
    pipeline that compares equal to the original and gives the same result on every input.  Pickling and unpickling does the
    same.  Pipelines are therefore shareable as text."

   Statements about the hand models Model/PipePrintStr.v (str.__repr__, the value of a Python string literal, the text of
   Expression.to_python, the lark lexer on that text), Model/PipePrintSyn.v (tokens / syntax / parser of the Python subset
   the printers emit) and Model/PipePrint.v (print_op = to_python_src_ of every node class with RecordMap /
   RecordSpecification repr; rebuild = what eval_da_ops computes, including every builder step that decides which tree
   comes out), on top of C13 (Model/ExprPrint.v, ExprParse.v) and C11 (Model/Equiv.v); all tied to /repo by the
   correspondence run of harness/props/C12.py.

   The environment E : penv holds what is read from the running library / from Python: the names the expression walker
   knows, the function names that imply a windowed extend, repr(float) / float(text) (NOT modelled: the theorems assume,
   for the float constants of the pipeline only, float_lex_ok = "repr(x) is one FLOAT_NUMBER literal that float() reads
   back as x"), and which code points above 127 str.isprintable rejects (the theorems hold for EVERY such predicate).

   FULL STATEMENT "for every pipeline" is FALSE for the code as it is: C12_print_rebuild_refuted_* below.  The guarded
   versions are the theorems named ..._partial; what is missing from the full statement is exactly the content of the guards:
   they are proved for pipelines in builder-normal form (`normal`: every tree the builder API produces -- no skipped order_rows, no
   mergeable extends, no select_columns over select / drop; flags as the constructors compute them) whose expressions are
   printable in C13's sense (what the parser builds; no infinite constant) and lexable (column / method names are ASCII identifiers that are not keywords).
   black (assumed to change layout, quotes and trailing commas only -- the model's parser reads that token stream too, and the
   harness compares) and pickle are outside the model. *)
From Coq Require Import List Bool String Ascii ZArith NArith QArith Arith.
Import ListNotations.
From DA Require Import Base.PyRT Base.Val Model.Sem Model.Equiv.
From DA Require Import Model.PyExpr Model.ExprPrint Model.ExprParse Model.ExprRoundtrip Model.PipePrintStr Model.PipePrintSyn Model.PipePrint.
From DA Require Import Proofs.PipePrintP1 Proofs.PipePrintP3 Proofs.PipePrintP4 Proofs.PipePrintP7 Proofs.PipePrintP8 Proofs.PipePrintP9.
Local Close Scope Q_scope.
Local Open Scope string_scope.
Local Open Scope list_scope.

(* ================================================================== 1. the string-literal layer *)
(* for EVERY string (quotes, backslashes, control characters, any bytes) and every printability predicate: the literal that
   str.__repr__ writes evaluates back to the string *)
Theorem C12_string_literal_roundtrip : forall (np : N -> bool) (s : string), py_unquote (py_repr np s) = Some s.
Proof. exact py_unquote_repr. Qed.
Print Assumptions C12_string_literal_roundtrip.

(* the text of an expression lexes to exactly the tokens of C13's printer *)
Theorem C12_expression_text_lexes : forall (F : ffmt) (np : N -> bool) (e : expr),
  lexable e = true -> (forall m, In m (floats_of e) -> float_lex_ok F m) ->
  lexg F (expr_text F np e) = Some (to_python e).
Proof. exact lexg_expr_text. Qed.
Print Assumptions C12_expression_text_lexes.

(* ================================================================== 2. expressions *)
(* C13's round trip lifted through the string-literal layer: print the expression, quote the text as pipelines do, let
   Python evaluate the literal, lex and parse it in the context of the columns: the SAME expression object (hence is_equal) *)
Theorem C12_print_rebuild_expr_partial : forall (F : ffmt) (np : N -> bool) (c : cfg) (dd : list string) (e : expr),
  printable c dd e = true -> is_term e = true -> lexable e = true -> (forall m, In m (floats_of e) -> float_lex_ok F m) ->
  exists text, py_unquote (py_repr np (expr_text F np e)) = Some text /\ text = expr_text F np e
               /\ parse_text F c dd text = Ok e.
Proof. exact print_rebuild_expr. Qed.
Print Assumptions C12_print_rebuild_expr_partial.

(* ================================================================== 3. the Python subset of printed pipelines *)
(* the parser inverts the layout of every well-formed syntax tree *)
Theorem C12_parse_flatten : forall s : syn, wf_syn s = true -> parse_py (flatten s) = Some s.
Proof. exact parse_flatten. Qed.
Print Assumptions C12_parse_flatten.

(* ================================================================== 4. pipelines *)
(* printing a normal pipeline and evaluating the text gives a pipeline that == the original (it is the same tree) *)
Theorem C12_print_rebuild_op_partial : forall (E : penv) (p : eop), normal E p = true -> floats_ok_op E p ->
  exists ts p', print_op E p = Some ts /\ rebuild E ts = Some p' /\ p' = p /\ pipeline_eqb p p' = true /\ pipeline_eqb p' p = true.
Proof. exact print_rebuild_op. Qed.
Print Assumptions C12_print_rebuild_op_partial.

(* ... which gives the same result on every input, for every backend flavour (C11's soundness of ==) *)
Theorem C12_print_rebuild_same_result_partial : forall (E : penv) (p : eop), normal E p = true -> floats_ok_op E p ->
  exists ts p', print_op E p = Some ts /\ rebuild E ts = Some p' /\ pipeline_eqb p p' = true /\
    forall sa sb, to_sem p = Some sa -> to_sem p' = Some sb -> forall fl env, sem_gen fl sa env = sem_gen fl sb env.
Proof. exact print_rebuild_same_result. Qed.
Print Assumptions C12_print_rebuild_same_result_partial.

(* the printer is injective: the text determines the pipeline (what a cache keyed by the text relies on) *)
Theorem C12_printer_injective_partial : forall (E : penv) (p q : eop),
  normal E p = true -> normal E q = true -> floats_ok_op E p -> floats_ok_op E q -> print_op E p = print_op E q -> p = q.
Proof. exact printer_injective. Qed.
Print Assumptions C12_printer_injective_partial.

(* ================================================================== 5. the full statement is false: witnesses *)
(* a column whose name is not an identifier, used in an expression (built with term objects: the expression language
   cannot name it): the printed expression text does not parse -- known finding C12-column-name-not-an-identifier *)
Theorem C12_print_rebuild_refuted_column_name :
  exists ts, print_op E0 w_col = Some ts /\ rebuild E0 ts = None /\ normal E0 w_col = false
             /\ wfb w_col = true /\ subset (ops_cols [("z", POp "+" true false [PCol "my col"; PVal (KInt 1)])]) ["x"; "my col"] = true.
Proof. exact refuted_column_name. Qed.
Print Assumptions C12_print_rebuild_refuted_column_name.

(* an infinite constant prints as the NAME inf, which is looked up as a column -- known finding C12-infinite-or-nan-constant *)
Theorem C12_print_rebuild_expr_refuted_infinity :
  exists text, py_unquote (py_repr (fun _ => false) (expr_text F0 (fun _ => false) w_inf)) = Some text
               /\ parse_text F0 (e_cfg E0) ["x"] text = Err /\ printable (e_cfg E0) ["x"] w_inf = false.
Proof. exact refuted_expr_infinity. Qed.
Print Assumptions C12_print_rebuild_expr_refuted_infinity.

(* the guard `normal` is needed: a tree assembled from the node constructors directly (an extend over an order_rows
   without limit, which every builder method skips) is re-read as a different pipeline *)
Theorem C12_print_rebuild_refuted_without_normal_form :
  exists ts, print_op E0 w_skip = Some ts /\ rebuild E0 ts = Some w_skip' /\ pipeline_eqb w_skip w_skip' = false /\ normal E0 w_skip = false.
Proof. exact refuted_without_normal. Qed.
Print Assumptions C12_print_rebuild_refuted_without_normal_form.

(* ================================================================== non-vacuity *)
(* a five-step pipeline (extend with a float constant; windowed extend; select_rows on a quoted string; order_rows with
   reverse and limit; natural_join on a key pair with a qualified table) satisfies every hypothesis *)
Example C12_guards_satisfiable : normal E0 ex_p4 = true /\ floats_ok_op E0 ex_p4 /\ float_lex_ok F0 (3 # 2)%Q.
Proof. exact (conj ex_p4_normal (conj ex_p4_floats F0_float_ok)). Qed.
Example C12_sample_print :
  option_map (fun ts => List.length ts) (print_op E0 ex_p4) = Some 108%nat /\
  match print_op E0 ex_p4 with Some ts => rebuild E0 ts | None => None end = Some ex_p4.
Proof. split; vm_compute; reflexivity. Qed.
