(* C17 -- Record transforms are invertible and compose as documented.

   Statements about the hand model Model/CData.v of data_algebra/cdata.py (RecordSpecification, RecordMap) and of the Pandas
   realisation of the two record conversions (pandas_base.py blocks_to_rowrecs / rowrecs_to_blocks), tied to the code by the
   correspondence check of harness/props/C17.py on every run.  Everything is unbounded: any number of record keys, control
   keys, control rows, value columns and data rows.

   tbl_eqv t1 t2 (Model/CData.v): the same column names and the same rows, both as multisets (row order and column order
   ignored; this is data_algebra.test_util.equivalent_frames without the float tolerance).  select_cols cs t: the columns cs
   of t (a transform ignores the other columns of its input).

   Hypotheses, all boolean:  strict_spec S      S is accepted by RecordSpecification(..., strict=True), has 2+ control rows, and
                                                its record keys are distinct names that are not control-table columns
                                                (spec_extra: NOT checked by the constructor; the real transform raises then)
                             conforming_rows S t   t has the row columns of S; its record-key cells are non-null (and in lowest
                                                terms) and no key tuple repeats
                             complete_blocks S t   t is keyed by record keys + control keys, every control key of t is in the
                                                control table, every record has a row for every control-table key
                             same_records A B   A and B have the same record keys and value names (as sets)

   NOT proved here (partial):
     * "Pandas and Polars agree": proved for the three shapes of record map (C17_pandas_polars_agree_...) between the two
       hand models Model/CData.v (pandas_base.py) and Model/CDataPolars.v (polars_model.py, /repo 18f1d41), on strict
       specifications and conforming input.  Partial in one respect: dtypes are not modelled, so the theorems say nothing
       about the inputs on which Polars ITSELF raises (SchemaError when the cells stacked into one block column differ in
       dtype, TypeError for a mixed-type column); the harness counts those and compares the rest.
     * composition.  For the code since /repo 031522a (compose() passes value_suffix "") it is PROVED, for each shape of
       composite, that compose() returns a map and that this map is sequential application:
       C17_compose_sound_blocks_rows, C17_compose_sound_rows_blocks_partial, C17_compose_sound_blocks_blocks_partial.
       Guards: same_records (the maps work on the same record keys and value names -- without it the statement is false,
       C17_compose_refuted_lossy, known finding C17-compose-keeps-values-a-lossy-map-drops); and, for the two _partial ones,
       the outer specifications list their record keys in the same ORDER (rs_keys A = rs_keys C; missing: other orders --
       there the composite's output specification lists the keys in the first map's order, which the proof's layout
       comparison spec_simb does not cover; the harness samples only equal orders).
       Independently of the suffix and of the key order: a map with the first map's input side and an output side with the
       second map's layout (composite_ok) IS sequential application (the C17_compose_sound_partial theorems); the harness
       evaluates composite_ok inside Coq on every composite it samples (case kind KComposeOk).
       C17_compose_refuted_rows_in / _rows_out: with value_suffix " value" (the code before 031522a) composites that take or
       return row records were wrong (fixed: C17 031522a; the check reads the suffix from the source, so the defect is
       reported again if it returns). *)
From Coq Require Import List Bool ZArith QArith String Permutation.
Import ListNotations.
From DA Require Import Base.PyRT Base.Val Model.CData Model.CDataPolars Proofs.CDataP4 Proofs.CDataP5 Proofs.CDataP6 Proofs.CDataP7 Proofs.CDataP8
  Proofs.CDataP9 Proofs.CDataEx.

(* rows -> blocks -> rows returns the original table (its row columns) *)
Theorem C17_inverse_roundtrip_rows : forall S t, strict_spec S = true -> conforming_rows S t = true ->
  exists b x, rowrecs_to_blocks S t = Ok b /\ blocks_to_rowrecs S b = Ok x /\ tbl_eqv x (select_cols (row_columns S) t).
Proof. exact roundtrip_rows. Qed.
Print Assumptions C17_inverse_roundtrip_rows.

(* blocks -> rows -> blocks returns the original table (its block columns); the intermediate row table is keyed *)
Theorem C17_inverse_roundtrip_blocks : forall S t, strict_spec S = true -> complete_blocks S t = true ->
  exists x b, blocks_to_rowrecs S t = Ok x /\ Permutation (cols x) (row_columns S) /\ keyed_by (rs_keys S) x = true /\
              rowrecs_to_blocks S x = Ok b /\ tbl_eqv b (select_cols (block_columns S) t).
Proof. exact roundtrip_blocks. Qed.
Print Assumptions C17_inverse_roundtrip_blocks.

(* RecordMap: transform(inverse(m), transform(m, t)) is t, for each shape of record map; the constructor and inverse()
   succeed on these maps *)
Theorem C17_recordmap_inverse_rows_to_blocks : forall S t, strict_spec S = true -> conforming_rows S t = true ->
  exists m m' y z, mk_map None (Some S) true = Some m /\ inverse m = Some m' /\
    transform m t = Ok y /\ transform m' y = Ok z /\ tbl_eqv z (select_cols (row_columns S) t).
Proof. exact recordmap_inverse_rows_to_blocks. Qed.
Print Assumptions C17_recordmap_inverse_rows_to_blocks.

Theorem C17_recordmap_inverse_blocks_to_rows : forall S t, strict_spec S = true -> complete_blocks S t = true ->
  exists m m' y z, mk_map (Some S) None true = Some m /\ inverse m = Some m' /\
    transform m t = Ok y /\ transform m' y = Ok z /\ tbl_eqv z (select_cols (block_columns S) t).
Proof. exact recordmap_inverse_blocks_to_rows. Qed.
Print Assumptions C17_recordmap_inverse_blocks_to_rows.

Theorem C17_recordmap_inverse_blocks_to_blocks : forall A B t,
  strict_spec A = true -> strict_spec B = true -> same_records A B = true -> complete_blocks A t = true ->
  exists m m' y z, mk_map (Some A) (Some B) true = Some m /\ inverse m = Some m' /\
    transform m t = Ok y /\ transform m' y = Ok z /\ tbl_eqv z (select_cols (block_columns A) t).
Proof. exact recordmap_inverse_blocks_to_blocks. Qed.
Print Assumptions C17_recordmap_inverse_blocks_to_blocks.

(* Pandas and Polars agree on every record transform: transform_pl (Model/CDataPolars.v) is RecordMap.transform on a Polars
   frame.  Both succeed and return the same table up to row and column order (Polars lists the row-record columns in the
   order the control keys first appear in the data, Pandas in ascending key order). *)
Theorem C17_pandas_polars_agree_rows_to_blocks : forall S t, strict_spec S = true -> conforming_rows S t = true ->
  exists z z', transform (mkmap None (Some S) true) t = Ok z /\ transform_pl (mkmap None (Some S) true) t = Ok z' /\ tbl_eqv z' z.
Proof. exact agree_rows_to_blocks. Qed.
Print Assumptions C17_pandas_polars_agree_rows_to_blocks.

Theorem C17_pandas_polars_agree_blocks_to_rows : forall S t, strict_spec S = true -> complete_blocks S t = true ->
  exists z z', transform (mkmap (Some S) None true) t = Ok z /\ transform_pl (mkmap (Some S) None true) t = Ok z' /\ tbl_eqv z' z.
Proof. exact agree_blocks_to_rows. Qed.
Print Assumptions C17_pandas_polars_agree_blocks_to_rows.

Theorem C17_pandas_polars_agree_blocks_to_blocks : forall A B t,
  strict_spec A = true -> strict_spec B = true -> same_records A B = true -> complete_blocks A t = true ->
  exists z z', transform (mkmap (Some A) (Some B) true) t = Ok z /\ transform_pl (mkmap (Some A) (Some B) true) t = Ok z' /\
    tbl_eqv z' z.
Proof. exact agree_blocks_to_blocks. Qed.
Print Assumptions C17_pandas_polars_agree_blocks_to_blocks.

(* composition: self.compose(other) applies other first.  (compose sfx self other; a >> b is b.compose(a).)
   For ANY value_suffix and any order of the record keys: a composite_ok map is sequential application (see the header) *)
Theorem C17_compose_sound_partial_blocks_blocks : forall sfx A B C t c,
  strict_spec A = true -> strict_spec B = true -> strict_spec C = true ->
  same_records A B = true -> same_records B C = true -> complete_blocks A t = true ->
  compose sfx (mkmap (Some B) (Some C) true) (mkmap (Some A) (Some B) true) = CMap c ->
  composite_ok (Some A) (Some C) c = true ->
  exists y z zc, transform (mkmap (Some A) (Some B) true) t = Ok y /\ transform (mkmap (Some B) (Some C) true) y = Ok z /\
    transform c t = Ok zc /\ tbl_eqv zc z.
Proof. exact compose_sound_blocks_blocks. Qed.
Print Assumptions C17_compose_sound_partial_blocks_blocks.

Theorem C17_compose_sound_partial_rows_blocks : forall sfx B C t c,
  strict_spec B = true -> strict_spec C = true -> same_records B C = true -> conforming_rows B t = true ->
  compose sfx (mkmap (Some B) (Some C) true) (mkmap None (Some B) true) = CMap c ->
  composite_ok None (Some C) c = true ->
  exists y z zc, transform (mkmap None (Some B) true) t = Ok y /\ transform (mkmap (Some B) (Some C) true) y = Ok z /\
    transform c t = Ok zc /\ tbl_eqv zc z.
Proof. exact compose_sound_rows_blocks. Qed.
Print Assumptions C17_compose_sound_partial_rows_blocks.

Theorem C17_compose_sound_partial_blocks_rows : forall sfx A B t c,
  strict_spec A = true -> strict_spec B = true -> same_records A B = true -> complete_blocks A t = true ->
  compose sfx (mkmap (Some B) None true) (mkmap (Some A) (Some B) true) = CMap c ->
  composite_ok (Some A) None c = true ->
  exists y z zc, transform (mkmap (Some A) (Some B) true) t = Ok y /\ transform (mkmap (Some B) None true) y = Ok z /\
    transform c t = Ok zc /\ Permutation (cols zc) (cols z) /\ tbl_eqv z (select_cols (row_columns B) zc).
Proof. exact compose_sound_blocks_rows. Qed.
Print Assumptions C17_compose_sound_partial_blocks_rows.

(* compose() since /repo 031522a (value_suffix ""): it returns a map, and the map is sequential application *)
Theorem C17_compose_sound_blocks_rows : forall A B t,
  strict_spec A = true -> strict_spec B = true -> same_records A B = true -> complete_blocks A t = true ->
  exists c y z zc, compose "" (mkmap (Some B) None true) (mkmap (Some A) (Some B) true) = CMap c /\
    transform (mkmap (Some A) (Some B) true) t = Ok y /\ transform (mkmap (Some B) None true) y = Ok z /\
    transform c t = Ok zc /\ Permutation (cols zc) (cols z) /\ tbl_eqv z (select_cols (row_columns B) zc).
Proof. exact compose_sound_blocks_rows_full. Qed.
Print Assumptions C17_compose_sound_blocks_rows.

Theorem C17_compose_sound_rows_blocks_partial : forall B C t,
  strict_spec B = true -> strict_spec C = true -> same_records B C = true -> rs_keys B = rs_keys C ->
  conforming_rows B t = true ->
  exists c y z zc, compose "" (mkmap (Some B) (Some C) true) (mkmap None (Some B) true) = CMap c /\
    transform (mkmap None (Some B) true) t = Ok y /\ transform (mkmap (Some B) (Some C) true) y = Ok z /\
    transform c t = Ok zc /\ tbl_eqv zc z.
Proof. exact compose_sound_rows_blocks_full. Qed.
Print Assumptions C17_compose_sound_rows_blocks_partial.

Theorem C17_compose_sound_blocks_blocks_partial : forall A B C t,
  strict_spec A = true -> strict_spec B = true -> strict_spec C = true ->
  same_records A B = true -> same_records B C = true -> rs_keys A = rs_keys C -> complete_blocks A t = true ->
  exists c y z zc, compose "" (mkmap (Some B) (Some C) true) (mkmap (Some A) (Some B) true) = CMap c /\
    transform (mkmap (Some A) (Some B) true) t = Ok y /\ transform (mkmap (Some B) (Some C) true) y = Ok z /\
    transform c t = Ok zc /\ tbl_eqv zc z.
Proof. exact compose_sound_blocks_blocks_full. Qed.
Print Assumptions C17_compose_sound_blocks_blocks_partial.

(* with value_suffix " value" (compose() before /repo 031522a) the statement is false: a composite that takes row records
   rejects the table the sequence transforms ... *)
Theorem C17_compose_refuted_rows_in : exists A B t c y z,
  strict_spec A = true /\ strict_spec B = true /\ same_records A B = true /\ conforming_rows A t = true /\
  compose " value" (mkmap (Some A) (Some B) true) (mkmap None (Some A) true) = CMap c /\
  transform (mkmap None (Some A) true) t = Ok y /\ transform (mkmap (Some A) (Some B) true) y = Ok z /\
  transform c t = Reject.
Proof. exists ex_A, ex_B, ex_rows, (unwrap (compose " value" m_AB m_rA)),
              (get_ok (transform m_rA ex_rows)), (get_ok (res_bind (transform m_rA ex_rows) (transform m_AB))).
  vm_compute. repeat split; reflexivity. Qed.
Print Assumptions C17_compose_refuted_rows_in.

(* ... and a composite that returns row records names its columns "<name> value" *)
Theorem C17_compose_refuted_rows_out : exists A B t c y z zc,
  strict_spec A = true /\ strict_spec B = true /\ same_records A B = true /\ complete_blocks A t = true /\
  compose " value" (mkmap (Some B) None true) (mkmap (Some A) (Some B) true) = CMap c /\
  transform (mkmap (Some A) (Some B) true) t = Ok y /\ transform (mkmap (Some B) None true) y = Ok z /\
  transform c t = Ok zc /\ table_eqvb zc z = false /\ In "x1 value"%string (cols zc).
Proof. exists ex_A, ex_B, ex_blocks, (unwrap (compose " value" m_Br m_AB)),
              (get_ok (transform m_AB ex_blocks)), (get_ok (res_bind (transform m_AB ex_blocks) (transform m_Br))),
              (get_ok (transform (unwrap (compose " value" m_Br m_AB)) ex_blocks)).
  vm_compute. repeat split; try reflexivity. right. left. reflexivity. Qed.
Print Assumptions C17_compose_refuted_rows_out.

(* independent of the suffix: a strict blocks -> blocks map may DROP value names (the constructor only asks the output
   names to be a subset); its composite with a map to rows keeps all of them (known finding
   C17-compose-keeps-values-a-lossy-map-drops).  This is why the partial theorems assume same_records. *)
Theorem C17_compose_refuted_lossy : exists A L t c y z zc,
  strict_spec A = true /\ strict_spec L = true /\ same_records A L = false /\
  mk_map (Some A) (Some L) true = Some (mkmap (Some A) (Some L) true) /\ complete_blocks A t = true /\
  compose "" (mkmap (Some L) None true) (mkmap (Some A) (Some L) true) = CMap c /\ composite_ok (Some A) None c = true /\
  transform (mkmap (Some A) (Some L) true) t = Ok y /\ transform (mkmap (Some L) None true) y = Ok z /\
  transform c t = Ok zc /\ table_eqvb zc z = false.
Proof. exists ex_A, ex_L, ex_blocks, (unwrap (compose "" m_Lr m_AL)),
              (get_ok (transform m_AL ex_blocks)), (get_ok (res_bind (transform m_AL ex_blocks) (transform m_Lr))),
              (get_ok (transform (unwrap (compose "" m_Lr m_AL)) ex_blocks)).
  vm_compute. repeat split; reflexivity. Qed.
Print Assumptions C17_compose_refuted_lossy.

(* the boolean comparison used by the correspondence check decides tbl_eqv *)
Theorem C17_table_eqvb_decides_tbl_eqv : forall t1 t2, table_eqvb t1 t2 = true <-> tbl_eqv t1 t2.
Proof. exact table_eqvb_spec. Qed.
Print Assumptions C17_table_eqvb_decides_tbl_eqv.

(* ---- non-vacuity: the hypotheses hold on concrete, non-trivial instances (Proofs/CDataEx.v): two records with nulls,
   an extra column, shuffled rows and columns; layouts with 1 and 2 control keys, string and numeric keys *)
Example C17_ex_strict_specs : strict_spec ex_A = true /\ strict_spec ex_B = true /\ strict_spec ex_C = true.
Proof. vm_compute. repeat split; reflexivity. Qed.
Example C17_ex_same_records : same_records ex_A ex_B = true /\ same_records ex_B ex_C = true /\
  rs_keys ex_A = rs_keys ex_C /\ rs_keys ex_B = rs_keys ex_C.
Proof. vm_compute. repeat split; reflexivity. Qed.
Example C17_ex_conforming_rows : conforming_rows ex_A ex_rows = true /\ conforming_rows ex_B ex_rows = true.
Proof. vm_compute. split; reflexivity. Qed.
Example C17_ex_complete_blocks : complete_blocks ex_A ex_blocks = true.
Proof. vm_compute. reflexivity. Qed.
Example C17_ex_transform : transform m_rA ex_rows =
  Ok (mktable ["id"; "k"; "v1"; "v2"]%string
        [[n 1 1; s "a"; n 5 2; VNull]; [n 1 1; s "b"; n 3 1; n 5 1]; [n 2 1; s "a"; n 3 2; s "s"]; [n 2 1; s "b"; VNull; n 4 1]]).
Proof. vm_compute. reflexivity. Qed.
Example C17_ex_polars_column_order :
  cols (get_ok (transform_pl (mkmap (Some ex_A) None true) ex_blocks)) = ["id"; "x2"; "y2"; "x1"; "y1"]%string /\
  cols (get_ok (transform (mkmap (Some ex_A) None true) ex_blocks)) = ["id"; "x1"; "y1"; "x2"; "y2"]%string /\
  table_eqvb (get_ok (transform_pl (mkmap (Some ex_A) None true) ex_blocks)) (get_ok (transform (mkmap (Some ex_A) None true) ex_blocks)) = true.
Proof. vm_compute. repeat split; reflexivity. Qed.
(* with value_suffix "" (compose() since /repo 031522a) compose() builds a composite_ok map for each shape, so the partial
   theorems apply *)
Example C17_ex_compose_fixed_suffix :
  (exists c, compose "" m_AB m_rA = CMap c /\ composite_ok None (Some ex_B) c = true) /\
  (exists c, compose "" m_BC m_AB = CMap c /\ composite_ok (Some ex_A) (Some ex_C) c = true) /\
  (exists c, compose "" m_Br m_AB = CMap c /\ composite_ok (Some ex_A) None c = true).
Proof. split; [|split]; eexists; split; vm_compute; reflexivity. Qed.
(* ... and with " value" it does not, except for blocks -> blocks where the suffixed names stay internal: *)
Example C17_ex_compose_old_suffix :
  composite_ok None (Some ex_B) (unwrap (compose " value" m_AB m_rA)) = false /\
  composite_ok (Some ex_A) None (unwrap (compose " value" m_Br m_AB)) = false /\
  table_eqvb (get_ok (transform (unwrap (compose " value" m_BC m_AB)) ex_blocks))
             (get_ok (res_bind (transform m_AB ex_blocks) (transform m_BC))) = true.
Proof. vm_compute. repeat split; reflexivity. Qed.
