(* C17 -- stub, replaced below *)
From Coq Require Import List Bool.
Import ListNotations.
From DA Require Import Base.PyRT Base.Val Model.CData.
Theorem C17_stub : forall s : recspec, row_columns s = rs_keys s ++ content_keys s.
Proof. exact (fun s => eq_refl). Qed.
Print Assumptions C17_stub.
