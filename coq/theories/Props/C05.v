(* C05 -- every catalogued method behaves as documented on every backend that claims it.

   Objects.  spec_method (Model/Scalar.v): the documented scalar meaning, written from the Term.* docstrings; None = outside
   the documented domain.  sql_eval vr d m lits args: the SQL template of method m in dialect d (Model/SqlTemplates.v `fmt`,
   transcribed from sql_model.py / SQLite.py / PostgreSQL.py and compared with the emitted SQL text on every run) evaluated
   by the hand model of engine d on the row `args`.  np_eval / pl_eval (Model/ScalarBackends.v): the numpy / pandas / polars
   primitive the executors reach.  mf, mf2: the transcendental functions, one uninterpreted symbol shared by both sides.
   The index sets supported_sql / supported_pandas / supported_polars are computed from the frozen catalogue
   (Model/ScalarCatalog.v, compared with op_catalog.methods_table of /repo on every run): the class-e rows marked "y".
   Three defects found by this check were repaired in /repo (9699787 SQL maximum/minimum vs fmax/fmin null handling, 83ba58a SQL
   trimstr length, 9a23bcc SQLite abs/sign at +-infinity): `current` (Model/ScalarCurrent.v) is the model of the repaired
   templates and the plain theorems are about it; the harness still determines the variant `vr` from the code on every run
   and the any-variant theorem keeps the guarded statement for the former templates, so a regression is reported with a
   failing input.  The guards np_guard / pl_guard / pg_is_nan_guard are `true` everywhere except on the argument classes of
   the remaining known findings, each of which has a `_refuted` witness below.  Two Polars defects (maximum / minimum skipping a
   null operand, is_inf of a null) were repaired by /repo 73dee51: their witnesses are regression Examples and corpus files.
   Argument VALUES are universally quantified (all rationals, all strings, all list lengths of is_in / mapv). *)
From Coq Require Import List Bool QArith String.
Import ListNotations.
From DA Require Import Model.Scalar Model.SqlTemplates Model.ScalarBackends Model.ScalarCatalog Model.ScalarIndex Model.ScalarCurrent Model.AggModels Model.AggIndex
  Proofs.ScalarP2 Proofs.ScalarP4 Proofs.AggP Proofs.AggP2.
Local Open Scope string_scope.

(* SQLite and PostgreSQL, current code: for every method the catalogue marks supported, the template evaluates (no engine
   error) to the documented value, on every argument tuple of the documented domain *)
Theorem C05_sql_supported_methods_documented :
  forall (mf : string -> Q -> option Q) (mf2 : string -> Q -> Q -> option Q) (d : dialect) (m : string) (lits : list bool),
  In (m, lits) (supported_sql d) ->
  forall args r, pg_is_nan_guard d m args = true -> spec_method mf mf2 m args = Some r ->
    exists r', sql_eval mf mf2 current d m lits args = Some r' /\ sv_eqv r' r.
Proof. exact sql_supported_documented_current. Qed.
Print Assumptions C05_sql_supported_methods_documented.

(* a constant operand: for every supported method other than the four whose extra arguments must be literals (around, trimstr,
   is_in, mapv: indexed with their flags above), the same holds for EVERY assignment of column / literal flags to the operands
   (x.maximum(0), (2.5).minimum(x), 2.5 + x ...) *)
Theorem C05_sql_supported_methods_documented_with_literal_operands :
  forall (mf : string -> Q -> option Q) (mf2 : string -> Q -> Q -> option Q) (d : dialect) (m : string) (lits0 : list bool),
  In (m, lits0) (supported_sql d) -> str_in m literal_arg_methods = false ->
  forall lits args r, pg_is_nan_guard d m args = true -> spec_method mf mf2 m args = Some r ->
    exists r', sql_eval mf mf2 current d m lits args = Some r' /\ sv_eqv r' r.
Proof. exact sql_supported_documented_current_any_literals. Qed.
Print Assumptions C05_sql_supported_methods_documented_with_literal_operands.

(* the same for every variant of the templates (vr is read off the code on every run): the former templates only outside the
   argument classes of the repaired defects *)
Theorem C05_sql_supported_methods_documented_any_variant :
  forall (mf : string -> Q -> option Q) (mf2 : string -> Q -> Q -> option Q) (vr : variant) (d : dialect) (m : string) (lits : list bool),
  In (m, lits) (supported_sql d) ->
  forall args r, sql_guard vr d m args = true -> spec_method mf mf2 m args = Some r ->
    exists r', sql_eval mf mf2 vr d m lits args = Some r' /\ sv_eqv r' r.
Proof. exact sql_supported_documented. Qed.
Print Assumptions C05_sql_supported_methods_documented_any_variant.

(* Pandas: the numpy / pandas primitive computes the documented value *)
Theorem C05_pandas_supported_methods_documented :
  forall (mf : string -> Q -> option Q) (mf2 : string -> Q -> Q -> option Q) (m : string) (lits : list bool),
  In (m, lits) supported_pandas ->
  forall args r, np_guard m args = true -> spec_method mf mf2 m args = Some r ->
    exists r', np_eval mf mf2 m args = Some r' /\ sv_eqv r' r.
Proof. exact pandas_supported_documented. Qed.
Print Assumptions C05_pandas_supported_methods_documented.

(* Polars (not covered by the catalogue): every catalogued method computes the documented value whenever it does not raise *)
Theorem C05_polars_same_value_when_not_raising :
  forall (mf : string -> Q -> option Q) (mf2 : string -> Q -> Q -> option Q) (m : string) (lits : list bool),
  In (m, lits) supported_polars ->
  forall args r, pl_guard m args = true -> spec_method mf mf2 m args = Some r ->
    forall r', pl_eval mf mf2 m args = Some r' -> sv_eqv r' r.
Proof. exact polars_catalogued_documented. Qed.
Print Assumptions C05_polars_same_value_when_not_raising.

(* ---- the full statement is false for the shipped code: one witness per guard ---- *)
(* (the three SQL defects repaired in /repo -- maximum/minimum vs fmax/fmin, trimstr, abs/sign -- are no longer refutations:
   their witnesses are the regression Examples at the end of this file and the corpus files /verif/corpus/C05) *)
(* the generic is_nan template answers FALSE on NULL, which is what an uploaded NaN is (model-level: no PostgreSQL server) *)
Theorem C05_postgresql_is_nan_of_uploaded_nan_refuted :
  forall mf mf2,
  exists args r r', spec_method mf mf2 "is_nan" args = Some r /\ sql_eval mf mf2 current DPg "is_nan" [false] args = Some r' /\ differs r' r.
Proof. exact pg_is_nan_of_nan_refuted_current. Qed.
Print Assumptions C05_postgresql_is_nan_of_uploaded_nan_refuted.

(* Polars maximum / minimum: a null operand is propagated since /repo 73dee51, but max_horizontal / min_horizontal still skip a float
   NaN that stands next to a present operand (numpy.maximum, the documented "propogate missing", gives NaN) *)
Theorem C05_polars_maximum_minimum_skip_nan_refuted :
  forall mf mf2,
  (exists args r r', spec_method mf mf2 "maximum" args = Some r /\ pl_eval mf mf2 "maximum" args = Some r' /\ differs r' r) /\
  (exists args r r', spec_method mf mf2 "minimum" args = Some r /\ pl_eval mf mf2 "minimum" args = Some r' /\ differs r' r).
Proof. exact polars_maxmin_nan_refuted. Qed.
Print Assumptions C05_polars_maximum_minimum_skip_nan_refuted.

(* Pandas mapv overwrites an infinite mapped value with the default *)
Theorem C05_pandas_mapv_infinite_value_refuted :
  forall mf mf2,
  exists args r r', spec_method mf mf2 "mapv" args = Some r /\ np_eval mf mf2 "mapv" args = Some r' /\ sv_eqvb r' r = false.
Proof. exact np_mapv_infinite_value_refuted. Qed.
Print Assumptions C05_pandas_mapv_infinite_value_refuted.

(* ---- aggregates (project), windowed aggregates (extend with partition_by) and ordered window functions ----
   spec_cls c m vals: the documented output cells of method m over ONE group / ordered partition `vals` (any length: the proofs
   are by induction over the list); agg_sql / agg_pd / agg_pl: the SQL template under the engine model, the pandas and the
   Polars primitive.  The index sets are the class p / g / w catalogue rows marked "y" (minus the helpers without a documented
   value: _count, _ngroup, _uniform). *)
Theorem C05_sql_supported_aggregates_and_windows_documented :
  forall (mf : string -> Q -> option Q) (mf2 : string -> Q -> Q -> option Q) (vr : variant) (d : dialect) (c : acls) (m : string),
  In (c, m) (supported_agg_sql d) ->
  forall vals r, vals <> [] -> spec_cls mf c m vals = Some r ->
    exists r', agg_sql mf mf2 vr d c m vals = Some r' /\ svl_eqv r' r.
Proof. exact sql_agg_supported_documented. Qed.
Print Assumptions C05_sql_supported_aggregates_and_windows_documented.

Theorem C05_pandas_supported_aggregates_and_windows_documented :
  forall (mf : string -> Q -> option Q) (c : acls) (m : string),
  In (c, m) supported_agg_pandas -> pd_agg_guard c m = true ->
  forall vals r, vals <> [] -> spec_cls mf c m vals = Some r ->
    exists r', agg_pd mf c m vals = Some r' /\ svl_eqv r' r.
Proof. exact pandas_agg_supported_documented. Qed.
Print Assumptions C05_pandas_supported_aggregates_and_windows_documented.

(* Polars: same value whenever it does not raise (groups holding a distinguishable NaN are not modelled) *)
Theorem C05_polars_aggregates_and_windows_same_value_when_not_raising :
  forall (mf : string -> Q -> option Q) (c : acls) (m : string),
  In (c, m) supported_agg_polars ->
  forall vals r, vals <> [] -> no_nan vals = true -> spec_cls mf c m vals = Some r ->
    forall r', agg_pl mf c m vals = Some r' -> svl_eqv r' r.
Proof. exact polars_agg_catalogued_documented. Qed.
Print Assumptions C05_polars_aggregates_and_windows_same_value_when_not_raising.

(* Pandas cumcount is the 0-based position of the row, not the documented cumulative number of non-NA cells *)
Theorem C05_pandas_cumcount_is_position_refuted :
  forall mf, exists vals r r', spec_cls mf CWindow "cumcount" vals = Some r /\ agg_pd mf CWindow "cumcount" vals = Some r' /\ svl_eqvb r' r = false.
Proof. exact pandas_cumcount_refuted. Qed.
Print Assumptions C05_pandas_cumcount_is_position_refuted.

(* ---- non-vacuity: the index sets are the catalogue's, the guards are satisfiable, the domain is inhabited ---- *)
Example C05_index_sizes :
  (List.length (supported_sql DSqlite), List.length (supported_sql DPg), List.length supported_pandas, List.length supported_polars) = (64, 56, 65, 65)%nat.
Proof. vm_compute. reflexivity. Qed.
Example C05_maximum_is_claimed_on_sqlite : In ("maximum", [false; false]) (supported_sql DSqlite).
Proof. vm_compute. tauto. Qed.
Example C05_guard_and_domain_inhabited :
  pg_is_nan_guard DSqlite "maximum" [SNum 1; SNum (5 # 2)] = true /\
  spec_method (fun _ _ => None) (fun _ _ _ => None) "maximum" [SNum 1; SNum (5 # 2)] = Some (SNum (5 # 2)) /\
  sql_eval (fun _ _ => None) (fun _ _ _ => None) current DSqlite "maximum" [false; false] [SNum 1; SNum (5 # 2)] = Some (SNum (5 # 2)).
Proof. repeat split; vm_compute; reflexivity. Qed.
(* regression: the witnesses of the repaired defects now give the documented value, and gave the wrong one before the repair *)
Example C05_regression_maximum_fmax_null :
  let mf := fun (_ : string) (_ : Q) => @None Q in let mf2 := fun (_ : string) (_ _ : Q) => @None Q in
  sql_eval mf mf2 current DSqlite "maximum" [false; false] [SNum 1; SNull] = Some SNull /\
  sql_eval mf mf2 current DSqlite "minimum" [false; false] [SNull; SNum 1] = Some SNull /\
  sql_eval mf mf2 current DSqlite "fmax" [false; false] [SNum 1; SNull] = Some (SNum 1) /\
  sql_eval mf mf2 current DPg "fmin" [false; false] [SNull; SNum 1] = Some (SNum 1) /\
  sql_eval mf mf2 shipped DSqlite "maximum" [false; false] [SNum 1; SNull] = Some (SNum 1) /\
  sql_eval mf mf2 shipped DSqlite "fmax" [false; false] [SNum 1; SNull] = Some SNull.
Proof. repeat split; reflexivity. Qed.
Example C05_regression_trimstr_nonzero_start :
  let mf := fun (_ : string) (_ : Q) => @None Q in let mf2 := fun (_ : string) (_ _ : Q) => @None Q in
  sql_eval mf mf2 current DSqlite "trimstr" [false; true; true] [SStr "abcdef"; SNum 1; SNum 3] = Some (SStr "bc") /\
  sql_eval mf mf2 shipped DSqlite "trimstr" [false; true; true] [SStr "abcdef"; SNum 1; SNum 3] = Some (SStr "bcd").
Proof. split; reflexivity. Qed.
Example C05_regression_sqlite_abs_sign_infinity :
  let mf := fun (_ : string) (_ : Q) => @None Q in let mf2 := fun (_ : string) (_ _ : Q) => @None Q in
  sql_eval mf mf2 current DSqlite "abs" [false] [SNInf] = Some SPInf /\
  sql_eval mf mf2 current DSqlite "sign" [false] [SPInf] = Some (SNum 1) /\
  sql_eval mf mf2 shipped DSqlite "abs" [false] [SNInf] = Some SNull.
Proof. repeat split; reflexivity. Qed.
(* regression (Polars, repaired by /repo 73dee51): a null operand of maximum / minimum gives null, is_inf of a null is False *)
Example C05_regression_polars_maximum_null_and_is_inf_null :
  let mf := fun (_ : string) (_ : Q) => @None Q in let mf2 := fun (_ : string) (_ _ : Q) => @None Q in
  pl_eval mf mf2 "maximum" [SNum 1; SNull] = Some SNull /\ pl_eval mf mf2 "minimum" [SNull; SNum 1] = Some SNull /\
  pl_eval mf mf2 "fmax" [SNum 1; SNull] = Some (SNum 1) /\ pl_eval mf mf2 "is_inf" [SNull] = Some (SBool false) /\
  pl_guard "maximum" [SNum 1; SNull] = true /\ pl_guard "is_inf" [SNull] = true.
Proof. repeat split; reflexivity. Qed.
Example C05_aggregate_index_sizes :
  (List.length (supported_agg_sql DSqlite), List.length (supported_agg_sql DPg), List.length supported_agg_pandas, List.length supported_agg_polars) = (28, 29, 39, 39)%nat.
Proof. vm_compute. reflexivity. Qed.
Example C05_aggregate_examples :
  spec_cls (fun _ _ => None) CProject "count" [SNum 3; SNull; SNum 1] = Some [SNum 2] /\
  spec_cls (fun _ _ => None) CWindow "cumsum" [SNum 3; SNum 1; SNum 2] = Some [SNum 3; SNum 4; SNum 6] /\
  agg_sql (fun _ _ => None) (fun _ _ _ => None) current DSqlite CWindow "cumsum" [SNum 3; SNum 1; SNum 2] = Some [SNum 3; SNum 4; SNum 6].
Proof. repeat split; vm_compute; reflexivity. Qed.
Example C05_documented_examples :
  spec_method (fun _ _ => None) (fun _ _ _ => None) "maximum" [SNum 1; SNull] = Some SNull /\
  spec_method (fun _ _ => None) (fun _ _ _ => None) "fmax" [SNum 1; SNull] = Some (SNum 1) /\
  spec_method (fun _ _ => None) (fun _ _ _ => None) "if_else" [SNull; SNum 1; SNum 2] = Some SNull /\
  spec_method (fun _ _ => None) (fun _ _ _ => None) "where" [SNull; SNum 1; SNum 2] = Some (SNum 2).
Proof. repeat split; reflexivity. Qed.
