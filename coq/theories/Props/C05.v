(* placeholder while the models are being tied to the code *)
From Coq Require Import List.
From DA Require Import Model.Scalar Model.SqlTemplates Model.ScalarBackends.
Theorem C05_placeholder : True. Proof. exact I. Qed.
Print Assumptions C05_placeholder.
