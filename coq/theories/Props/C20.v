(* C20 -- data spaces behave like a keyed store of tables.
   Statements about the hand models Model/DataSpace.v of DataModelSpace (m_step) and DBSpace (d_step); each
   step lemma holds from EVERY state (DBSpace: every state satisfying the invariant Dinv, which holds after
   every history), hence after every finite history of operations. *)
From Coq Require Import List Bool Arith String.
Import ListNotations.
From DA Require Import Base.PyRT Model.DataSpace Proofs.DataSpaceP.

Section C20.
Context {T P : Type} (evalp : pydict string T -> P -> option T) (name_of : nat -> string).
Hypothesis name_of_inj : forall a b, name_of a = name_of b -> a = b.     (* f"da_temp_{n}" is injective in n *)
Notation m_step := (m_step evalp name_of).
Notation d_step := (d_step evalp name_of).

(* ---- in-memory space *)
Theorem C20_mem_failed_operation_changes_nothing : forall s o s', m_step s o = (s', OFail) -> dmap s' = dmap s.
Proof. exact (m_fail_unchanged evalp name_of). Qed.

Theorem C20_mem_insert_is_a_map_write : forall s key v ow s' k, m_step s (DInsert key v ow) = (s', OKey k) ->
  written (dmap s) (dmap s') k v /\ (key = Some k \/ (key = None /\ ~ In k (dict_keys (dmap s)))) /\
  (ow = false -> ~ In k (dict_keys (dmap s))).
Proof. exact (m_insert_ok evalp name_of name_of_inj). Qed.

Theorem C20_mem_execute_stores_result_on_current_contents : forall s p key ow s' k, m_step s (DExecute p key ow) = (s', OKey k) ->
  exists v, evalp (dmap s) p = Some v /\ written (dmap s) (dmap s') k v /\
            (key = Some k \/ (key = None /\ ~ In k (dict_keys (dmap s)))) /\ (ow = false -> ~ In k (dict_keys (dmap s))).
Proof. exact (m_execute_ok evalp name_of name_of_inj). Qed.

Theorem C20_mem_no_overwrite_when_forbidden : forall s o k, is_write o = Some (Some k, false) -> In k (dict_keys (dmap s)) ->
  snd (m_step s o) = OFail /\ dmap (fst (m_step s o)) = dmap s.
Proof. exact (m_no_overwrite_when_forbidden evalp name_of). Qed.

Theorem C20_mem_automatic_key_never_replaces : forall s o ow, is_write o = Some (None, ow) ->
  forall k0 v0, dict_get (dmap s) k0 = Some v0 -> dict_get (dmap (fst (m_step s o))) k0 = Some v0.
Proof. exact (m_auto_key_never_replaces evalp name_of name_of_inj). Qed.

Theorem C20_mem_remove : forall s k s', m_step s (DRemove k) = (s', OUnit) ->
  In k (dict_keys (dmap s)) /\ forall k2, dict_get (dmap s') k2 = if eq_dec k2 k then None else dict_get (dmap s) k2.
Proof. exact (m_remove_ok evalp name_of). Qed.

Theorem C20_mem_retrieve_and_keys_reflect_the_map : forall s,
  (forall k, m_step s (DRetrieve k) = (s, match dict_get (dmap s) k with Some v => OVal v | None => OFail end)) /\
  m_step s DKeys = (s, OKeys (dict_keys (dmap s))).
Proof. exact (m_queries evalp name_of). Qed.

Theorem C20_mem_keys_are_a_set_after_every_history : forall ops, NoDup (dict_keys (dmap (m_run evalp name_of ops))).
Proof. exact (m_keys_nodup evalp name_of). Qed.

(* ---- database-backed space *)
Theorem C20_db_invariant_after_every_history : forall ops, Dinv (d_run evalp name_of ops).
Proof. exact (d_inv_run evalp name_of). Qed.

Theorem C20_db_insert_is_a_map_write : forall s key v ow s' k, Dinv s -> d_step s (DInsert key v ow) = (s', OKey k) ->
  written (ddb s) (ddb s') k v /\ (forall k2, In k2 (ddesc s') <-> In k2 (ddesc s) \/ k2 = k) /\
  (key = Some k \/ (key = None /\ ~ In k (ddesc s))) /\ (ow = false -> ~ In k (ddesc s)).
Proof. exact (d_insert_ok evalp name_of name_of_inj). Qed.

Theorem C20_db_execute_stores_result : forall s p key ow s' k, Dinv s -> d_step s (DExecute p key ow) = (s', OKey k) ->
  exists v, evalp (dict_pop (ddb s) k) p = Some v /\ written (ddb s) (ddb s') k v /\
            (forall k2, In k2 (ddesc s') <-> In k2 (ddesc s) \/ k2 = k) /\
            (key = Some k \/ (key = None /\ ~ In k (ddesc s))) /\ (ow = false -> ~ In k (ddesc s)).
Proof. exact (d_execute_ok evalp name_of name_of_inj). Qed.

Theorem C20_db_no_overwrite_when_forbidden : forall s o k, is_write o = Some (Some k, false) -> In k (ddesc s) ->
  snd (d_step s o) = OFail /\ ddesc (fst (d_step s o)) = ddesc s /\ ddb (fst (d_step s o)) = ddb s.
Proof. exact (d_no_overwrite_when_forbidden evalp name_of). Qed.

Theorem C20_db_automatic_key_never_replaces : forall s o ow, Dinv s -> is_write o = Some (None, ow) ->
  forall k0 v0, In k0 (ddesc s) -> dict_get (ddb s) k0 = Some v0 ->
    In k0 (ddesc (fst (d_step s o))) /\ dict_get (ddb (fst (d_step s o))) k0 = Some v0.
Proof. exact (d_auto_key_never_replaces evalp name_of name_of_inj). Qed.

(* failed operations change nothing -- EXCEPT an overwriting execute on an existing key (known finding, refuted below) *)
Theorem C20_db_failed_operation_changes_nothing_partial : forall s o s', Dinv s ->
  (forall p k, o = DExecute p (Some k) true -> ~ In k (ddesc s)) ->
  d_step s o = (s', OFail) -> ddesc s' = ddesc s /\ ddb s' = ddb s.
Proof. exact (d_fail_unchanged evalp name_of name_of_inj). Qed.
End C20.

(* the full statement is false of the faithful model: witness replayed on the implementation = the known finding *)
Theorem C20_db_failed_overwriting_execute_loses_entry_refuted :
  exists (s s' : @dstate nat) (k : string),
    Dinv s /\ In k (ddesc s) /\
    d_step (fun db (p : string) => dict_get db p) (fun n => String (Ascii.ascii_of_nat n) EmptyString) s (DExecute k (Some k) true) = (s', OFail) /\
    ~ In k (ddesc s').
Proof. exact d_execute_overwrite_loses_entry_refuted. Qed.

Print Assumptions C20_mem_failed_operation_changes_nothing.
Print Assumptions C20_mem_insert_is_a_map_write.
Print Assumptions C20_mem_execute_stores_result_on_current_contents.
Print Assumptions C20_mem_no_overwrite_when_forbidden.
Print Assumptions C20_mem_automatic_key_never_replaces.
Print Assumptions C20_mem_remove.
Print Assumptions C20_mem_retrieve_and_keys_reflect_the_map.
Print Assumptions C20_mem_keys_are_a_set_after_every_history.
Print Assumptions C20_db_invariant_after_every_history.
Print Assumptions C20_db_insert_is_a_map_write.
Print Assumptions C20_db_execute_stores_result.
Print Assumptions C20_db_no_overwrite_when_forbidden.
Print Assumptions C20_db_automatic_key_never_replaces.
Print Assumptions C20_db_failed_operation_changes_nothing_partial.
Print Assumptions C20_db_failed_overwriting_execute_loses_entry_refuted.

(* non-vacuity: a concrete history with user keys that look like automatic ones *)
Example C20_history_example :
  let ev := fun (db : pydict string nat) (p : string) => dict_get db p in
  let nm := fun n => String (Ascii.ascii_of_nat (48 + n)) EmptyString in
  dict_keys (dmap (m_run ev nm [DInsert (Some "1"%string) 7 true; DInsert None 8 true; DExecute "1"%string None false])) = ["1"; "2"; "3"]%string.
Proof. vm_compute. reflexivity. Qed.
