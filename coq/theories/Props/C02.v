(* C02 -- PostgreSQL SQL computes the same table as the Pandas executor.   PARTIAL CLAIM.

   Model.  As for C01 (Model/Sem.v, Model/SemStrict.v): Pandas evaluation is `sem_gen fl_pandas p e`, the PostgreSQL-dialect SQL
   run on a PostgreSQL server is `sem_gen fl_postgres p e`.  fl_postgres differs from fl_sqlite in the placement of nulls in
   orderings only (NULLS LAST ascending -- like Pandas -- and NULLS FIRST descending -- unlike Pandas and SQLite).

   What is PARTIAL.  There is no PostgreSQL server in the sandbox.  The PostgreSQL-dialect text (native RIGHT / FULL joins,
   WITH, CTE elimination: translation paths the SQLite dialect never takes) IS executed on every run of the check -- on
   SQLite 3.40.1, which accepts that text -- and compared there with `sem_gen fl_sqlite` (the engine is SQLite) and with the
   Pandas result.  The conventions of a real PostgreSQL server that SQLite cannot reproduce (NULL ordering, NULLIF numeric
   division, BIGINT casts, PostgreSQL's own functions) rest on the written flavour `fl_postgres` alone: they are NOT tied to
   an implementation here.

   PROVED (unbounded): the agreement theorem of C01 instantiated at fl_postgres -- on every pipeline and input on which no
   convention case is reached, the PostgreSQL model and the Pandas model return the same table; refuted: the full statement
   (a descending order_rows with limit over a key containing a null). *)
From Coq Require Import List Bool Arith ZArith QArith String Permutation.
Import ListNotations.
From DA Require Import Base.PyRT Base.Val Model.Sem Model.SemStrict Proofs.AgreeP1 Proofs.AgreeP2 Proofs.AgreeP3 Proofs.AgreeP4.

Theorem C02_postgres_agrees_with_pandas_on_insensitive_inputs_partial :
  forall (p : op) (e : env) (t : table), sem_strict p e = Some t ->
  exists t', sem_gen fl_postgres p e = Some t' /\ cols t' = cols t /\ Permutation (rows t') (rows t).
Proof. exact (fun p e t H => sem_strict_same_columns_and_rows p e t H fl_postgres). Qed.
Print Assumptions C02_postgres_agrees_with_pandas_on_insensitive_inputs_partial.

Theorem C02_same_row_order_after_final_order_rows_partial :
  forall (s : op) (cs rev : list string) (lim : option nat) (e : env) (t : table),
  sem_strict (OOrder s cs rev lim) e = Some t ->
  exists t', sem_gen fl_postgres (OOrder s cs rev lim) e = Some t' /\ cols t' = cols t /\ rows t' = rows t.
Proof. exact (fun s cs rev lim e t H => sem_strict_final_order s cs rev lim e t H fl_postgres). Qed.
Print Assumptions C02_same_row_order_after_final_order_rows_partial.

(* Pandas, PostgreSQL and the engine that actually executes the PostgreSQL text here (SQLite) all coincide on such inputs *)
Theorem C02_pandas_postgres_and_executing_engine_agree_partial :
  forall (p : op) (e : env), insensitive p e = true ->
  sem_gen fl_postgres p e = sem_gen fl_pandas p e /\ sem_gen fl_sqlite p e = sem_gen fl_pandas p e.
Proof.
  exact (fun p e H => conj (agree_core fl_pandas p e (is_nil_true _ H) fl_postgres) (agree_core fl_pandas p e (is_nil_true _ H) fl_sqlite)).
Qed.
Print Assumptions C02_pandas_postgres_and_executing_engine_agree_partial.

Theorem C02_same_multiset_above_unlimited_order_rows_partial :
  forall (p : op) (e : env) (t : table), insensitive_bag p e = true -> sem_gen fl_pandas p e = Some t ->
  exists t', sem_gen fl_postgres p e = Some t' /\ cols t' = cols t /\ Permutation (rows t') (rows t).
Proof. exact (fun p e t H E => insensitive_bag_same_columns_and_rows p e t H E fl_postgres). Qed.
Print Assumptions C02_same_multiset_above_unlimited_order_rows_partial.

(* the full statement is false for the written PostgreSQL conventions: descending order, null key, limit *)
Theorem C02_descending_null_sort_key_with_limit_refuted : differ_with_causes fl_postgres [8]%nat.
Proof. exact w_sort_desc_pg_refuted. Qed.
Print Assumptions C02_descending_null_sort_key_with_limit_refuted.

(* what fl_postgres changes with respect to the engine that runs its text here: ascending order with a null key and a limit --
   PostgreSQL agrees with Pandas (no convention of PostgreSQL matters), SQLite does not; descending -- the other way round *)
Example C02_ascending_nulls_last_like_pandas : verdict fl_postgres w_sort_asc = ([8]%nat, []%nat, true).
Proof. exact w_sort_asc_pg. Qed.
Example C02_ascending_sqlite_differs : verdict fl_sqlite w_sort_asc = ([8]%nat, [7]%nat, false).
Proof. exact w_sort_asc_ok. Qed.
Example C02_descending_nulls_first_unlike_pandas : verdict fl_postgres w_sort_desc = ([8]%nat, [8]%nat, false).
Proof. exact w_sort_desc_pg. Qed.
Example C02_descending_sqlite_agrees : verdict fl_sqlite w_sort_desc = ([8]%nat, []%nat, true).
Proof. exact w_sort_desc_sqlite. Qed.
(* non-vacuity of the guarded theorems: the instance of Props/C01.v *)
Example C02_insensitive_example : insensitive nv_pipeline nv_env = true.
Proof. exact nv_insensitive. Qed.
