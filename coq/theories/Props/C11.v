(* C11 -- Pipelines that compare equal behave identically.
   "Whenever two pipelines compare equal with ==, they produce the same result on every input and the same SQL in every
    dialect.  Pipeline equality is reflexive and symmetric."

   Statements about the hand model Model/Equiv.v (tied to view_representations.py / expr_rep.py / cdata.py by the
   correspondence run of harness/props/C11.py).  `pipeline_eqb` is `==` of the code AS IT IS NOW (after the commits
   a4bd890, 23068d3, 21fc6b8, c0b2f31, 5631bb4 that repaired the seven defects this check found).  `core` erases the three
   stored fields that neither executors nor SQL generation read (Expression.method, the boxing of list-literal elements,
   RecordMap.strict); `to_sem` is the forgetful map into the reference semantics Model/Sem.v (convert_records and is_in
   lists have no image there: for them "same result / same SQL" is covered by C11_eq_same_fields / C11_eq_any_reader).

   FULL STATEMENT, unguarded (wfb = assignment dicts and rename maps have unique keys, which Python dicts guarantee):
     C11_eq_reflexive, C11_eq_symmetric,
     C11_eq_same_fields    -- equal pipelines agree on EVERY field executors and SQL generators read, hence
     C11_eq_any_reader     -- ANY function of those fields (a result on any input, SQL text for any dialect) gives the same,
     C11_eq_sound_result   -- equal pipelines denote the same table in the reference semantics, every flavour, every input.
   The second block holds for every combination of the six historical switches (a switch that is on = one of the repaired
   comparisons forgotten again), with exactly the guards that such a regression would need; the third block records the
   witnesses of the repaired defects: false for the code before the commits (q_unchanged), told apart by the code now. *)
From Coq Require Import List Bool Arith ZArith QArith String.
Import ListNotations.
From DA Require Import Base.PyRT Base.Val Model.Sem Model.Equiv
  Proofs.EquivP1 Proofs.EquivP2 Proofs.EquivP4 Proofs.EquivP5 Proofs.EquivP6.
Local Open Scope string_scope.
Local Open Scope list_scope.

(* ================================================================== 1. the code as it is now *)
Theorem C11_eq_reflexive : forall a, pipeline_eqb a a = true.
Proof. exact pipeline_eqb_refl. Qed.
Print Assumptions C11_eq_reflexive.

Theorem C11_eq_symmetric : forall a b, pipeline_eqb a b = pipeline_eqb b a.
Proof. exact pipeline_eqb_sym. Qed.
Print Assumptions C11_eq_symmetric.

(* pipelines that compare equal agree on every field read by executors and SQL generators *)
Theorem C11_eq_same_fields : forall a b, wfb a = true -> pipeline_eqb a b = true -> core a = core b.
Proof. exact pipeline_same_core. Qed.
Print Assumptions C11_eq_same_fields.

(* ... hence anything computed from those fields -- a result on any input, SQL text for any dialect -- is the same *)
Theorem C11_eq_any_reader : forall a b (X : Type) (f : eop -> X), (forall x y, core x = core y -> f x = f y) ->
  wfb a = true -> pipeline_eqb a b = true -> f a = f b.
Proof. exact pipeline_any_reader. Qed.
Print Assumptions C11_eq_any_reader.

(* the erased fields are invisible to the reference semantics *)
Theorem C11_core_keeps_meaning : forall a, to_sem (core a) = to_sem a.
Proof. exact to_sem_core. Qed.
Print Assumptions C11_core_keeps_meaning.

(* pipelines that compare equal denote the same table, for every backend flavour and every environment *)
Theorem C11_eq_sound_result : forall a b sa sb,
  wfb a = true -> wfb b = true -> pipeline_eqb a b = true -> to_sem a = Some sa -> to_sem b = Some sb ->
  forall fl env, sem_gen fl sa env = sem_gen fl sb env.
Proof. exact pipeline_sound. Qed.
Print Assumptions C11_eq_sound_result.

(* ================================================================== 2. every combination of the historical switches *)
Theorem C11_eq_symmetric_all_variants : forall q a b, eop_eqb q a b = eop_eqb q b a.
Proof. exact eop_eqb_sym. Qed.
Print Assumptions C11_eq_symmetric_all_variants.

(* reflexive on every tree without a nan constant (nan <> nan matters only to the unrepaired constant / list comparisons) *)
Theorem C11_eq_reflexive_all_variants : forall q a, (nan_matters q = true -> nan_free a = true) -> eop_eqb q a a = true.
Proof. exact eop_eqb_refl. Qed.
Print Assumptions C11_eq_reflexive_all_variants.

(* same fields, when the fields a variant forgets agree (`agree q` lists them: table columns and qualifiers, the order of
   the assignments and of the rename-map entries, the type of constants, the items of parsed list literals, blocks_out of
   an unpivot); `agree q_fixed` is constantly true *)
Theorem C11_eq_same_fields_all_variants : forall q a b,
  wfb a = true -> eop_eqb q a b = true -> agree q a b = true -> core a = core b.
Proof. exact eop_same_core. Qed.
Print Assumptions C11_eq_same_fields_all_variants.

(* same result, provided same-named tables list the same columns and no constant pair conflates a bool with a number
   (`ragree q`; constantly true for q_fixed).  The ORDER of the assignments of an extend and of the entries of a rename map
   is not needed: comparing them as unordered mappings, together with column_names, already forces equal results. *)
Theorem C11_eq_sound_result_all_variants : forall q a b sa sb,
  wfb a = true -> wfb b = true -> eop_eqb q a b = true -> ragree q a b = true ->
  to_sem a = Some sa -> to_sem b = Some sb -> forall fl env, sem_gen fl sa env = sem_gen fl sb env.
Proof. exact eop_sound. Qed.
Print Assumptions C11_eq_sound_result_all_variants.

(* ================================================================== 3. the repaired defects *)
(* the code as it is now tells every witness pair apart (and the nan pipeline equals itself) *)
Theorem C11_repaired_witnesses_distinguished :
  pipeline_eqb w_table_a w_table_b = false /\ pipeline_eqb w_order_a w_order_b = false /\ pipeline_eqb w_const_a w_const_b = false /\
  pipeline_eqb w_const_a w_float_b = false /\ pipeline_eqb w_nan w_nan = true /\ pipeline_eqb w_list_a w_list_b = false /\
  pipeline_eqb w_recmap_a w_recmap_b = false /\ pipeline_eqb w_rename_a w_rename_b = false.
Proof. exact repaired_witnesses_distinguished. Qed.
Print Assumptions C11_repaired_witnesses_distinguished.

(* before the commits (q_unchanged) each statement of block 1 was false: *)
(* 5631bb4: same name, different columns -- equal, different tables *)
Theorem C11_history_table_columns :
  exists a b sa sb fl env, wfb a = true /\ wfb b = true /\ eop_eqb q_unchanged a b = true /\
    to_sem a = Some sa /\ to_sem b = Some sb /\ sem_gen fl sa env <> sem_gen fl sb env /\ eop_eqb q_fixed a b = false.
Proof. exact refuted_table_columns. Qed.
Print Assumptions C11_history_table_columns.
(* 23068d3: same assignments in another order -- equal, same meaning, different SELECT list *)
Theorem C11_history_assignment_order :
  exists a b, wfb a = true /\ wfb b = true /\ eop_eqb q_unchanged a b = true /\ ext_keys a <> ext_keys b /\ core a <> core b /\
    (forall sa sb, to_sem a = Some sa -> to_sem b = Some sb -> forall fl env, sem_gen fl sa env = sem_gen fl sb env) /\
    eop_eqb q_fixed a b = false.
Proof. exact refuted_assignment_order. Qed.
Print Assumptions C11_history_assignment_order.
(* c0b2f31: same rename map in another entry order *)
Theorem C11_history_rename_map_order :
  exists a b, wfb a = true /\ wfb b = true /\ eop_eqb q_unchanged a b = true /\ rename_entries a <> rename_entries b /\ core a <> core b /\
    (forall sa sb, to_sem a = Some sa -> to_sem b = Some sb -> forall fl env, sem_gen fl sa env = sem_gen fl sb env) /\
    eop_eqb q_fixed a b = false.
Proof. exact refuted_rename_map_order. Qed.
Print Assumptions C11_history_rename_map_order.
(* a4bd890: 1 = True -- equal, different tables; 1 = 1.0 -- equal, different SQL; nan <> nan; list items ignored *)
Theorem C11_history_constant_type :
  exists a b sa sb fl env, wfb a = true /\ wfb b = true /\ eop_eqb q_unchanged a b = true /\ core a <> core b /\
    to_sem a = Some sa /\ to_sem b = Some sb /\ sem_gen fl sa env <> sem_gen fl sb env /\ eop_eqb q_fixed a b = false.
Proof. exact refuted_constant_type. Qed.
Print Assumptions C11_history_constant_type.
Theorem C11_history_constant_int_float :
  exists a b, wfb a = true /\ wfb b = true /\ eop_eqb q_unchanged a b = true /\ core a <> core b /\ eop_eqb q_fixed a b = false.
Proof. exact refuted_constant_int_float. Qed.
Print Assumptions C11_history_constant_int_float.
Theorem C11_history_nan_not_reflexive : exists a, wfb a = true /\ eop_eqb q_unchanged a a = false /\ eop_eqb q_fixed a a = true.
Proof. exact refuted_reflexive. Qed.
Print Assumptions C11_history_nan_not_reflexive.
Theorem C11_history_list_items :
  exists a b, wfb a = true /\ wfb b = true /\ eop_eqb q_unchanged a b = true /\ core a <> core b /\ eop_eqb q_fixed a b = false.
Proof. exact refuted_list_items. Qed.
Print Assumptions C11_history_list_items.
(* 21fc6b8: two different unpivot layouts *)
Theorem C11_history_recmap_blocks_out :
  exists a b, wfb a = true /\ wfb b = true /\ eop_eqb q_unchanged a b = true /\ core a <> core b /\ eop_eqb q_fixed a b = false.
Proof. exact refuted_recmap_blocks_out. Qed.
Print Assumptions C11_history_recmap_blocks_out.

(* ================================================================== non-vacuity *)
(* two pipelines that are not syntactically equal (method flag, boxing of the list literal, RecordMap.strict differ) and
   satisfy every hypothesis of the theorems of block 1 *)
Definition ex_left := ESelectRows (ETable "d" ["k"; "a"; "b"] []) (POp "is_in" false true [PCol "a"; PList true [KInt 1; KInt 2]]).
Definition ex_left' := ESelectRows (ETable "d" ["k"; "a"; "b"] []) (POp "is_in" false false [PCol "a"; PList false [KInt 1; KInt 2]]).
Definition ex_a := EExtend (EJoin ex_left (ETable "e" ["k"; "c"] []) ["k"] ["k"] "LEFT")
                     [("a", POp "+" true false [PCol "b"; PVal (KFloat 1)]); ("x", POp "*" true false [PCol "c"; PVal (KInt 2)])] [] [] [] false.
Definition ex_b := EExtend (EJoin ex_left' (ETable "e" ["k"; "c"] []) ["k"] ["k"] "LEFT")
                     [("a", POp "+" true true [PCol "b"; PVal (KFloat 1)]); ("x", POp "*" true false [PCol "c"; PVal (KInt 2)])] [] [] [] false.
Example C11_same_fields_hypotheses_satisfiable :
  wfb ex_a = true /\ wfb ex_b = true /\ pipeline_eqb ex_a ex_b = true /\ ex_a <> ex_b /\ core ex_a = core ex_b.
Proof. repeat split; try reflexivity. intros H; vm_compute in H; discriminate. Qed.
(* ... and of the result theorem (no list literal, so both have an image in the reference semantics) *)
Definition ex_c := EExtend (EJoin (ETable "d" ["k"; "a"; "b"] []) (ETable "e" ["k"; "c"] []) ["k"] ["k"] "LEFT")
                     [("a", POp "+" true false [PCol "b"; PVal (KFloat 1)]); ("x", POp "abs" false true [PCol "c"])] [] [] [] false.
Definition ex_d := EExtend (EJoin (ETable "d" ["k"; "a"; "b"] []) (ETable "e" ["k"; "c"] []) ["k"] ["k"] "LEFT")
                     [("a", POp "+" true true [PCol "b"; PVal (KFloat 1)]); ("x", POp "abs" false false [PCol "c"])] [] [] [] false.
Example C11_result_hypotheses_satisfiable :
  wfb ex_c = true /\ wfb ex_d = true /\ pipeline_eqb ex_c ex_d = true /\ ex_c <> ex_d /\
  (exists sa sb, to_sem ex_c = Some sa /\ to_sem ex_d = Some sb).
Proof. repeat split; try reflexivity; [intros H; vm_compute in H; discriminate | eexists; eexists; split; reflexivity]. Qed.
(* the guards of block 2 are satisfiable under the switches of the old code by a pair that differs in the assignment order *)
Definition ex_e := EExtend (ETable "d" ["a"; "b"; "c"] []) [("a", POp "+" true false [PCol "b"; PVal (KInt 1)]); ("c", PCol "b")] [] [] [] false.
Definition ex_f := EExtend (ETable "d" ["a"; "b"; "c"] []) [("c", PCol "b"); ("a", POp "+" true false [PCol "b"; PVal (KInt 1)])] [] [] [] false.
Example C11_all_variants_guards_satisfiable :
  wfb ex_e = true /\ wfb ex_f = true /\ eop_eqb q_unchanged ex_e ex_f = true /\ ragree q_unchanged ex_e ex_f = true /\ ex_e <> ex_f /\
  nan_free ex_e = true /\ (exists sa sb, to_sem ex_e = Some sa /\ to_sem ex_f = Some sb).
Proof. repeat split; try reflexivity; [intros H; vm_compute in H; discriminate | eexists; eexists; split; reflexivity]. Qed.
