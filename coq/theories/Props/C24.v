(* C24 -- OrderedSet is a set that remembers first insertion order.
   Statements are about the code REGENERATED from data_algebra/OrderedSet.py (Gen/G_OrderedSet.v).
   This file contains only statements closed by `exact`, non-vacuity examples and Print Assumptions. *)
From Coq Require Import List Bool ZArith.
Import ListNotations.
From DA Require Import Base.PyRT Gen.G_OrderedSet Proofs.OrderedSetP.

(* after ANY sequence of add / discard / update the elements are exactly those of a plain set *)
Theorem C24_members_like_plain_set : forall (A : Type) (H : EqDec A) (ops : list (@op A)) (x : A),
  In x (iter (run ops)) <-> plain_mem (rev ops) x = true.
Proof. exact @main_members. Qed.
Print Assumptions C24_members_like_plain_set.

(* iteration never repeats an element *)
Theorem C24_iteration_has_no_duplicates : forall (A : Type) (H : EqDec A) (ops : list (@op A)), NoDup (iter (run ops)).
Proof. exact @main_nodup. Qed.
Print Assumptions C24_iteration_has_no_duplicates.

(* first-insertion order: re-adding keeps the position, a new element goes last, discarding keeps the
   relative order of the others, update appends the new elements in order of first occurrence *)
Theorem C24_first_insertion_order : forall (A : Type) (H : EqDec A) (ops : list (@op A)) (o : op),
  iter (run (ops ++ [o])) =
  match o with
  | OAdd x => if mem x (iter (run ops)) then iter (run ops) else iter (run ops) ++ [x]
  | ODiscard x => filter (fun y => negb (eqb x y)) (iter (run ops))
  | OUpdate ls => iter (run ops) ++ filter (fun y => negb (mem y (iter (run ops)))) (first_occ (concat ls))
  end.
Proof. exact @main_order. Qed.
Print Assumptions C24_first_insertion_order.

Theorem C24_constructor : forall (A : Type) (H : EqDec A) (v : list A), iter (OrderedSet___init__ (Some v)) = first_occ v.
Proof. exact @iter_init_some. Qed.
Print Assumptions C24_constructor.

Theorem C24_copy : forall (A : Type) (H : EqDec A) (s : @OrderedSet_t A), Inv s -> iter (OrderedSet_copy s) = iter s.
Proof. exact @iter_copy. Qed.
Print Assumptions C24_copy.

Theorem C24_union_method : forall (A : Type) (H : EqDec A) (s : @OrderedSet_t A) (args : list (list A)), Inv s ->
  iter (OrderedSet_union s args) = iter s ++ filter (fun y => negb (mem y (iter s))) (first_occ (concat args)).
Proof. exact @union_spec. Qed.
Print Assumptions C24_union_method.

Theorem C24_contains : forall (A : Type) (H : EqDec A) (s : @OrderedSet_t A) (x : A), OrderedSet___contains__ s x = true <-> In x (iter s).
Proof. exact @contains_spec. Qed.
Print Assumptions C24_contains.
Theorem C24_len : forall (A : Type) (s : @OrderedSet_t A), OrderedSet___len__ s = List.length (iter s).
Proof. exact @len_spec. Qed.
Print Assumptions C24_len.
Theorem C24_subset : forall (A : Type) (H : EqDec A) (s : @OrderedSet_t A) (o : list A), OrderedSet___le__ s o = true <-> incl (iter s) o.
Proof. exact @le_spec. Qed.
Print Assumptions C24_subset.
Theorem C24_superset : forall (A : Type) (H : EqDec A) (s : @OrderedSet_t A) (o : list A), OrderedSet___ge__ s o = true <-> incl o (iter s).
Proof. exact @ge_spec. Qed.
Print Assumptions C24_superset.

(* helpers: set result ordered by the first argument, then by the second for elements only there *)
Theorem C24_ordered_union : forall (A : Type) (H : EqDec A) (a b : list A),
  iter (ordered_union a b) = first_occ a ++ filter (fun y => negb (mem y a)) (first_occ b).
Proof. exact @ordered_union_spec. Qed.
Print Assumptions C24_ordered_union.
Theorem C24_ordered_intersect : forall (A : Type) (H : EqDec A) (a b : list A),
  iter (ordered_intersect a b) = first_occ (filter (fun v => mem v b) a).
Proof. exact @ordered_intersect_spec. Qed.
Print Assumptions C24_ordered_intersect.
Theorem C24_ordered_diff : forall (A : Type) (H : EqDec A) (a b : list A),
  iter (ordered_diff a b) = first_occ (filter (fun v => negb (mem v b)) a).
Proof. exact @ordered_diff_spec. Qed.
Print Assumptions C24_ordered_diff.

(* non-vacuity: a concrete history, and a state satisfying Inv *)
Example C24_history_example :
  iter (run [OAdd 3%Z; OAdd 1%Z; OAdd 3%Z; OUpdate [[2%Z; 1%Z]; [5%Z]]; ODiscard 1%Z; OAdd 1%Z]) = [3%Z; 2%Z; 5%Z; 1%Z].
Proof. vm_compute. reflexivity. Qed.
Example C24_inv_example : Inv (run [OAdd 3%Z; OAdd 1%Z]) /\ iter (ordered_union [2%Z;1%Z;2%Z] [3%Z;1%Z;4%Z;3%Z]) = [2%Z;1%Z;3%Z;4%Z].
Proof. split; [apply main_nodup | vm_compute; reflexivity]. Qed.
