(* C10 -- Columns not reported as used never influence a pipeline's result.
   "For every pipeline, changing the values of input columns that columns_used() does not report for that table leaves
    the result unchanged.  If the pipeline's table descriptions are narrowed to the reported columns, it evaluates to
    the same result on inputs restricted to those columns."

   Statements about Model/ColumnsUsed.v (hand transcription of every columns_used_from_sources, of
   columns_used_implementation_ / columns_used with its records keyed by node identity, and of the builders' column
   checks; tied to view_representations.py by correspondence on every run) and the reference semantics Model/Sem.v,
   for EVERY pipeline term, EVERY backend flavour and EVERY environment.

   FIRST SENTENCE: proved at full strength (C10_columns_used_sound, also for shared node objects).
   SECOND SENTENCE: in the reference semantics the narrowed pipeline always computes the same table
   (C10_narrowed_pipeline_same_meaning) -- but the REBUILD of the narrowed pipeline is rejected by the builders as soon
   as a step names a column that is not reported (C10_narrowing_rebuild_refuted: the real code raises KeyError /
   ValueError; known finding C10-narrow-rebuild).  C10_narrowing_sound is the statement guarded by "the builders
   accept the narrowed rebuild". *)
From Coq Require Import List Bool Arith ZArith QArith String Permutation.
Import ListNotations.
From DA Require Import Base.PyRT Base.Val Model.Sem Model.ColumnsUsed
  Proofs.ColumnsUsedP2 Proofs.ColumnsUsedP4 Proofs.ColumnsUsedP5.
Local Open Scope string_scope.
Local Open Scope list_scope.

(* Per-node pruning (the lemma SQL generation relies on as well: sql_model.py prunes every sub-query with
   columns_used_from_sources).  A node n accepted by the builders is asked for columns u' of its own.  Replace its
   sources by ANY other pipelines and run them on ANY other inputs: if source i and its replacement agree on
   cols_from_sources n u' [i] (`agree`: no column the original lacks, every requested column present, as many rows,
   the same cells row by row; both undefined counts as agreeing), then n and the rebuilt node agree on u'. *)
Theorem C10_node_pruning_sound :
  forall fl (e e' : env) (n : op) (srcs' : list op) (u' : list string),
  builder_ok n = true -> incl u' (column_names n) ->
  match sources n, srcs' with
  | [s], [s'] => out_agree (cfs1 n u') (sem_gen fl s e) (sem_gen fl s' e')
  | [a; b], [a'; b'] => out_agree (cfs1 n u') (sem_gen fl a e) (sem_gen fl a' e') /\
                        out_agree (cfs2 n u') (sem_gen fl b e) (sem_gen fl b' e')
  | _, _ => False
  end ->
  out_agree u' (sem_gen fl n e) (sem_gen fl (with_sources n srcs') e').
Proof. exact node_step. Qed.
Print Assumptions C10_node_pruning_sound.

(* FIRST SENTENCE.  p: any pipeline the builders accept; ids: the identity of the node objects along its tree
   unfolding (shared objects repeat an id; `ids_ok`: one id, one column list); cu = columns_used().  Two
   environments whose tables have, per table, as many rows in the same order and equal cells in the REPORTED columns
   (everything else -- other columns' values, even which other columns exist -- is arbitrary) give the same result,
   cell for cell, in the same row and column order; and the pipeline is defined on one iff on the other. *)
Theorem C10_columns_used_sound :
  forall fl (p : op) (ids : idt) (cn : nat -> list string) (cu : list (string * list string)) (env env' : env),
  builder_ok p = true -> ids_ok cn p ids -> columns_used p ids = Some cu ->
  (forall name, match dict_get env name, dict_get env' name with
                | Some t, Some t' => input_agree (rec_of cu name) t t'
                | None, None => True
                | _, _ => False
                end) ->
  sem_gen fl p env = sem_gen fl p env'.
Proof. exact cu_sound. Qed.
Print Assumptions C10_columns_used_sound.

(* the same for columns_used(using=u): the result RESTRICTED to u is blind to unreported columns *)
Theorem C10_columns_used_using_sound :
  forall fl (p : op) (ids : idt) (cn : nat -> list string) (u : list string) (cu : list (string * list string)) (env env' : env),
  builder_ok p = true -> ids_ok cn p ids -> columns_used_using p ids (Some u) = Some cu ->
  env_agree (rec_of cu) env env' ->
  out_agree u (sem_gen fl p env) (sem_gen fl p env').
Proof. exact cu_using_sound. Qed.
Print Assumptions C10_columns_used_using_sound.

(* tree-shaped pipelines (no node object shared) need no ids *)
Theorem C10_columns_used_tree_sound :
  forall fl (p : op) (cu : list (string * list string)) (env env' : env),
  builder_ok p = true -> columns_used_tree p = Some cu -> env_agree (rec_of cu) env env' ->
  sem_gen fl p env = sem_gen fl p env'.
Proof. exact cu_tree_sound. Qed.
Print Assumptions C10_columns_used_tree_sound.

(* SECOND SENTENCE, meaning.  narrow_to cu p = p with every table description cut down to the reported columns (original
   order); restrict_env cu env = every input cut down to its reported columns.  In the reference semantics the narrowed
   pipeline is defined iff the original is, and computes the same table (`table_equiv`): same column set, as many rows,
   and row by row the same cell under every column name (the column ORDER may differ: an extend that overwrites an
   unreported column appends it instead). *)
Theorem C10_narrowed_pipeline_same_meaning :
  forall fl (p : op) (ids : idt) (cn : nat -> list string) (cu : list (string * list string)) (env : env),
  builder_ok p = true -> ids_ok cn p ids -> columns_used p ids = Some cu ->
  out_equiv (sem_gen fl p env) (sem_gen fl (narrow_to cu p) (restrict_env cu env)).
Proof. exact cu_narrow_meaning. Qed.
Print Assumptions C10_narrowed_pipeline_same_meaning.

(* SECOND SENTENCE as stated, guarded by "the builders accept the narrowed rebuild" (the guard of known finding
   C10-narrow-rebuild): then both results have duplicate-free column lists that are permutations of each other. *)
Theorem C10_narrowing_sound :
  forall fl (p : op) (ids : idt) (cn : nat -> list string) (cu : list (string * list string)) (env : env),
  builder_ok p = true -> ids_ok cn p ids -> columns_used p ids = Some cu ->
  builder_ok (narrow_to cu p) = true ->
  out_same (sem_gen fl p env) (sem_gen fl (narrow_to cu p) (restrict_env cu env)).
Proof. exact cu_narrow_sound. Qed.
Print Assumptions C10_narrowing_sound.

(* ... and the guard can fail: t[x,y,z].drop_columns([y]).extend({w: x + 1}).select_columns([w]) reports {t: {x}}; the
   narrowed table description [x] makes drop_columns([y]) raise "dropping unknown columns".  (Replayed against the real
   code on every run; DESIGN section 10 item 27.) *)
Theorem C10_narrowing_rebuild_refuted :
  exists (p : op) (ids : idt) (cu : list (string * list string)),
    builder_ok p = true /\ ids_ok (cn_of p ids) p ids /\ columns_used p ids = Some cu /\ cu = [("t", ["x"])] /\
    builder_ok (narrow_to cu p) = false.
Proof. exact narrow_rebuild_refuted. Qed.
Print Assumptions C10_narrowing_rebuild_refuted.

(* ------------------------------------------------------------------ the hypotheses are satisfiable *)
(* a join of two consumers of ONE shared extend node X = t.extend({w: c + 1}):
     X.select_columns([a, w]).natural_join(X.select_columns([a, b]), on a) *)
Definition ex_t := OTable "t" ["a"; "b"; "c"; "d"].
Definition ex_X := OExtend ex_t [("w", EOp "+" [ECol "c"; EConst (VNum 1)])] false (mkwin [] [] []).
Definition ex_join := OJoin (OSelectCols ex_X ["a"; "w"]) (OSelectCols ex_X ["a"; "b"]) ["a"] ["a"] JInner.
Definition ex_ids_shared := IdT 0 [IdT 1 [IdT 7 [IdT 9 []]]; IdT 2 [IdT 7 [IdT 9 []]]].     (* X is one object: id 7 twice *)
Definition ex_ids_apart  := IdT 0 [IdT 1 [IdT 7 [IdT 9 []]]; IdT 2 [IdT 8 [IdT 9 []]]].     (* two equal but distinct objects *)

Example C10_guards_satisfiable :
  builder_ok ex_join = true /\ ids_ok (cn_of ex_join ex_ids_shared) ex_join ex_ids_shared /\
  columns_used ex_join ex_ids_shared = Some [("t", ["a"; "c"; "b"])] /\
  builder_ok (narrow_to [("t", ["a"; "c"; "b"])] ex_join) = true.
Proof. split; [vm_compute; reflexivity|]. split; [apply ids_okb_ok; vm_compute; reflexivity|]. split; vm_compute; reflexivity. Qed.
(* node identity matters: with two distinct objects the second one is asked for {a, b} only, none of its assignments is
   requested, and ExtendNode then reports every source column *)
Example C10_identity_matters :
  columns_used ex_join ex_ids_apart = Some [("t", ["a"; "c"; "b"; "d"])] /\ columns_used_tree ex_join = Some [("t", ["a"; "c"; "b"; "d"])].
Proof. split; vm_compute; reflexivity. Qed.
(* a concrete perturbation the theorem covers: everything but column x differs, even the column lists *)
Example C10_input_agree_example :
  input_agree ["x"] (mktable ["x"; "y"] [[VNum 1; VNum 2]; [VNum 3; VNull]]) (mktable ["y"; "x"; "q"] [[VStr "n"; VNum 1; VNull]; [VNum 7; VNum 3; VNum 0]]).
Proof. repeat constructor; intros c [<-|[]]; reflexivity. Qed.
