(* C01 -- SQLite SQL computes the same table as the Pandas executor.

   Model.  Model/Sem.v is one evaluator `sem_gen fl` for all backends; the record `fl : flavor` holds every convention in which
   they differ.  Pandas evaluation is modelled by `sem_gen fl_pandas p e`, the SQL of to_sql() run on SQLite by
   `sem_gen fl_sqlite p e`; each is compared with the real backend on every run of the check (correspondence, inside Coq).
   The property "same columns, same multiset of rows, same row order after a final order_rows" is then
        tables_agree ordered (sem_gen fl_pandas p e) (sem_gen fl_sqlite p e) = true.

   FULL STATEMENT (for all pipelines p and inputs e): FALSE for the faithful models -- the `..._refuted` theorems below give,
   for each differing convention, a pipeline and tables on which the two models return different tables (each was replayed on
   the real backends: they differ there too; listed as known findings, except the property's own accepted convention).

   PROVED (unbounded: every pipeline of any depth and operator mix, every environment, every flavour):
   Model/SemStrict.v instruments the evaluator: `causes fl p e` lists every place where the data reaches a convention
   (a null operand of a comparison / and / or / maximum / minimum / fmax / fmin whose value is used, `!=` against a null in a
   row filter, sum / count over a group without values, a running window function meeting a null, a null or a tie among sort
   keys that decide a limit or an ordered window, null join keys on both sides).  If that list
   is empty, ALL flavours compute the SAME table.  So on every input where no listed case arises the models of Pandas,
   SQLite and PostgreSQL coincide: no other source of disagreement exists in the models. *)
From Coq Require Import List Bool Arith ZArith QArith String Permutation.
Import ListNotations.
From DA Require Import Base.PyRT Base.Val Model.Sem Model.SemStrict Proofs.AgreeP1 Proofs.AgreeP2 Proofs.AgreeP3 Proofs.AgreeP4.

(* the statement asked for: when the instrumented evaluator returns a table (no convention was reached), every backend's
   model returns the same columns and the same multiset of rows *)
Theorem C01_sql_agrees_with_pandas_on_insensitive_inputs :
  forall (p : op) (e : env) (t : table), sem_strict p e = Some t ->
  forall fl : flavor, exists t', sem_gen fl p e = Some t' /\ cols t' = cols t /\ Permutation (rows t') (rows t).
Proof. exact sem_strict_same_columns_and_rows. Qed.
Print Assumptions C01_sql_agrees_with_pandas_on_insensitive_inputs.

(* ... and the same row order after a final order_rows *)
Theorem C01_same_row_order_after_final_order_rows :
  forall (s : op) (cs rev : list string) (lim : option nat) (e : env) (t : table),
  sem_strict (OOrder s cs rev lim) e = Some t ->
  forall fl : flavor, exists t', sem_gen fl (OOrder s cs rev lim) e = Some t' /\ cols t' = cols t /\ rows t' = rows t.
Proof. exact sem_strict_final_order. Qed.
Print Assumptions C01_same_row_order_after_final_order_rows.

(* the strongest form: walking along ANY flavour fl0, if no cause is met every flavour computes the very same table *)
Theorem C01_no_convention_reached_then_all_backends_compute_one_table :
  forall (fl0 : flavor) (p : op) (e : env), causes fl0 p e = [] -> forall fl : flavor, sem_gen fl p e = sem_gen fl0 p e.
Proof. exact agree_core. Qed.
Print Assumptions C01_no_convention_reached_then_all_backends_compute_one_table.

(* in the words of the property: Pandas and SQLite agree (columns in order; rows as a list, hence also as a multiset) *)
Theorem C01_pandas_and_sqlite_models_agree :
  forall (p : op) (e : env), insensitive p e = true ->
  forall ordered : bool, tables_agree ordered (sem_gen fl_pandas p e) (sem_gen fl_sqlite p e) = true.
Proof. exact (fun p e H ordered => insensitive_tables_agree p e H fl_pandas fl_sqlite ordered). Qed.
Print Assumptions C01_pandas_and_sqlite_models_agree.

(* multisets only: an order_rows WITHOUT limit (and a null among its keys) does not matter as long as only row-wise steps,
   joins and concatenations sit above it -- in particular as the final step *)
Theorem C01_same_multiset_above_unlimited_order_rows :
  forall (p : op) (e : env) (t : table), insensitive_bag p e = true -> sem_gen fl_pandas p e = Some t ->
  forall fl : flavor, exists t', sem_gen fl p e = Some t' /\ cols t' = cols t /\ Permutation (rows t') (rows t).
Proof. exact insensitive_bag_same_columns_and_rows. Qed.
Print Assumptions C01_same_multiset_above_unlimited_order_rows.

(* the causes are what the text says: one application of a scalar function without a null argument, an aggregate over a
   group with a value, a window function over values without a null, sort keys without a null, join keys of which one side
   has no null -- each is computed alike under all flavours *)
Theorem C01_scalar_function_without_null_argument :
  forall (fl fl' : flavor) (f : string) (args : list val), existsb is_null args = false -> scalar_op fl f args = scalar_op fl' f args.
Proof. exact scalar_op_nonnull. Qed.
Print Assumptions C01_scalar_function_without_null_argument.
Theorem C01_row_filter_looks_only_at_truth :
  forall (fl0 : flavor) (cs : list string) (r : list val) (x : expr), truth_causes fl0 cs r x = [] ->
  forall fl : flavor, truth (eval_expr fl cs r x) = truth (eval_expr fl0 cs r x).
Proof. exact truth_stable. Qed.
Print Assumptions C01_row_filter_looks_only_at_truth.
Theorem C01_join_with_null_keys_on_one_side_only :
  forall (on_a on_b : list string) (jt : jointype) (a b : table), join_causes on_a on_b jt a b = [] ->
  forall nm nm' : bool, sem_join nm on_a on_b jt a b = sem_join nm' on_a on_b jt a b.
Proof. exact join_agree. Qed.
Print Assumptions C01_join_with_null_keys_on_one_side_only.

(* ---------- the full statement is false for the faithful models: one witness per convention.
   differ_with_causes fl2 codes := exists p e, tables_agree false (sem_gen fl_pandas p e) (sem_gen fl2 p e) = false
                                              /\ map cause_code (causes fl_pandas p e) = codes
   (the two models return different multisets of rows, and the walk names exactly these causes; codes: cause_code in
   Model/SemStrict.v: 1 comparison, 2 != in a filter, 3 and/or, 4 maximum/minimum, 5 fmax/fmin, 6 empty aggregate,
   7 running window, 8 null sort key, 9 ties, 10 null join keys).
   Proofs/AgreeP4.v also shows for each witness that exactly ONE convention of SQLite matters (w_*_ok). *)
Theorem C01_null_operand_of_comparison_refuted : differ_with_causes fl_sqlite [1; 1]%nat.
Proof. exact w_cmp_refuted. Qed.
Print Assumptions C01_null_operand_of_comparison_refuted.
Theorem C01_not_equal_null_in_row_filter_refuted : differ_with_causes fl_sqlite [2; 2]%nat.
Proof. exact w_ne_filter_refuted. Qed.
Print Assumptions C01_not_equal_null_in_row_filter_refuted.
Theorem C01_null_operand_of_and_or_refuted : differ_with_causes fl_sqlite [3]%nat.
Proof. exact w_logic_refuted. Qed.
Print Assumptions C01_null_operand_of_and_or_refuted.
(* maximum / minimum / fmax / fmin with a null operand: the SQL templates were exchanged until /repo 9699787 and Polars ignored the
   null until /repo 73dee51 (then divergences); now Pandas, SQLite, PostgreSQL and Polars agree there -- the cause is met, no
   convention matters (Examples below).  The cause stays in the hypothesis of the agreement theorems because they hold for EVERY
   flavour record: for a hypothetical backend that ignored the null operand the statement is false on that input *)
Theorem C01_null_operand_of_maximum_minimum_refuted_for_some_conventions : exists fl : flavor, differ_with_causes fl [4; 4; 4]%nat.
Proof. exact w_minmax_some_flavour_refuted. Qed.
Print Assumptions C01_null_operand_of_maximum_minimum_refuted_for_some_conventions.
(* the property's own accepted convention: sum over a group with no non-null value *)
Theorem C01_sum_over_group_without_values_refuted : differ_with_causes fl_sqlite [6]%nat.
Proof. exact w_empty_agg_refuted. Qed.
Print Assumptions C01_sum_over_group_without_values_refuted.
Theorem C01_running_window_at_null_refuted : differ_with_causes fl_sqlite [7]%nat.
Proof. exact w_running_refuted. Qed.
Print Assumptions C01_running_window_at_null_refuted.
Theorem C01_null_sort_key_with_limit_refuted : differ_with_causes fl_sqlite [8]%nat.
Proof. exact w_sort_asc_refuted. Qed.
Print Assumptions C01_null_sort_key_with_limit_refuted.
Theorem C01_null_order_key_of_window_refuted : differ_with_causes fl_sqlite [8]%nat.
Proof. exact w_window_order_refuted. Qed.
Print Assumptions C01_null_order_key_of_window_refuted.
(* null join keys on both sides: pandas.merge pairs them; the Pandas executor did too until /repo af27aca (then a divergence of this
   property).  Now the four named flavours agree (Examples below); the cause stays in the hypothesis because the theorems hold for
   EVERY flavour record: for a backend that pairs null keys the statement is false on that input *)
Theorem C01_null_join_keys_on_both_sides_refuted_for_some_conventions : exists fl : flavor, differ_with_causes fl [10]%nat.
Proof. exact w_join_some_flavour_refuted. Qed.
Print Assumptions C01_null_join_keys_on_both_sides_refuted_for_some_conventions.
(* row ORDER after a final order_rows over a key with nulls differs, the multiset does not (and the multiset walk accepts it) *)
Theorem C01_row_order_over_null_sort_key_refuted :
  exists (p : op) (e : env), tables_agree true (sem_gen fl_pandas p e) (sem_gen fl_sqlite p e) = false
                             /\ tables_agree false (sem_gen fl_pandas p e) (sem_gen fl_sqlite p e) = true
                             /\ insensitive_bag p e = true.
Proof. exact w_final_order_refuted. Qed.
Print Assumptions C01_row_order_over_null_sort_key_refuted.

(* ---------- the hypotheses are satisfiable by a non-trivial instance: a LEFT join with null keys on one side, a row filter
   whose comparisons meet nulls, grouped aggregates (a null key is a group), a running sum, an order_rows with limit --
   over tables with nulls and duplicate rows *)
Example C01_maximum_minimum_with_null_now_agree : verdict fl_sqlite w_minmax = ([4; 4; 4]%nat, []%nat, true).
Proof. exact w_minmax_ok. Qed.
Example C01_maximum_minimum_with_null_postgres_agrees : verdict fl_postgres w_minmax = ([4; 4; 4]%nat, []%nat, true).
Proof. exact w_minmax_postgres. Qed.
Example C01_maximum_minimum_with_null_polars_agrees : verdict fl_polars w_minmax = ([4; 4; 4]%nat, []%nat, true).
Proof. exact w_minmax_polars. Qed.
Example C01_fmax_fmin_with_null_now_agree : verdict fl_sqlite w_fminmax = ([5; 5; 5]%nat, []%nat, true).
Proof. exact w_fminmax_ok. Qed.
Example C01_null_join_keys_sqlite_agrees : verdict fl_sqlite w_join = ([10]%nat, []%nat, true).
Proof. exact w_join_ok. Qed.
Example C01_null_join_keys_postgres_agrees : verdict fl_postgres w_join = ([10]%nat, []%nat, true).
Proof. exact w_join_postgres. Qed.
Example C01_null_join_keys_polars_agrees : verdict fl_polars w_join = ([10]%nat, []%nat, true).
Proof. exact w_join_polars. Qed.
(* a FULL join with null keys on one side only is insensitive (no exclusion any more) and keeps every null-key row *)
Example C01_full_join_with_null_keys_on_one_side :
  verdict fl_sqlite w_full_join = ([]%nat, []%nat, true) /\ insensitive w_full_join w_env = true
  /\ option_map (fun t => List.length (rows t)) (sem_strict w_full_join w_env) = Some 6%nat.
Proof. exact w_full_join_ok. Qed.
Example C01_insensitive_example : insensitive nv_pipeline nv_env = true.
Proof. exact nv_insensitive. Qed.
Example C01_insensitive_example_result :
  option_map rows (sem_strict nv_pipeline nv_env) = Some [[VNull; zv 5; zv 1; VNull; zv 10]; [zv 2; zv 3; zv 1; VNull; zv 5]].
Proof. exact nv_result. Qed.
