(* SQLGEN -- compiler correctness of the SQL generator (deepens C01 / C02 / C08 / C09 / C15).

   Model/SqlGen.v   `to_near` : the step-by-step transcription of SQLModel.*_to_near_sql (sql_model.py: defaulting / extension /
                    checks of `using`, pruning through columns_used_from_sources, the terms written, the guards of c520ee9
                    6f11e66 2bf9832 a22df8b eb42bd0, the view-name counter, the SQL-level extend merge with its contention
                    test and 05d5f06) and of the SQLite join rewrites (SQLite.py), producing a typed NearSQL tree
   Model/SqlSem.v   `qsem` / `nsem` : the meaning of such a tree as SQL (written from the SQL rules; shares only primitive
                    functions with Model/Sem.v)
   Model/Sem.v      `sem_gen fl` : the reference semantics of pipelines (C01: fl_sqlite = the SQL conventions)
   Model/ColumnsUsed.v + Props/C10.v : columns_used_from_sources and the per-node pruning lemma C10_node_pruning_sound,
                    which is the key step of every node's proof (Proofs/SqlGenP3.v prune_unary)

   The statements hold for EVERY pipeline of the stated fragment, every request `using`, every environment, every start value
   of the view counter, every dialect record d (merging on or off, SQLite join rewrites on or off) and every flavour fl of
   scalar conventions (the generated text is the same; both sides read it under the same conventions).

   FRAGMENT (`stage1 (d_allow_extend_merges d) (join_covered d fl) p`):  table descriptions, select_rows, select_columns,
   drop_columns, rename_columns, map_columns, order_rows, project (grouped or not, with the pruning of aggregates and the "keep
   one aggregate" guard), un-windowed extend INCLUDING the SQL-level extend merge, concat_rows (without id column, or with an
   id column -- also over an un-windowed extend, where the generator's `.extend({id: label})` merges the label into that
   ExtendNode; NOT over an order_rows without limit, which that builder call skips: the rows then come in another order,
   transcribed but not proved),
   windowed extend (stage v) for every dialect, INCLUDING the SQL-level extend merge around it (a windowed extend folded
   into the extend step below it, an un-windowed or windowed extend or the id-column extend of concat_rows folded into a
   windowed step, through select / drop_columns too): Proofs/SqlGenP18.v restates the merge invariant and the merged step
   for non-aggregate terms (MergeInvN, unary_nonagg_delivers, merged_delivers_gen) on top of merge_compose_win
   (Proofs/SqlGenP17.v), Proofs/SqlGenP19.v instantiates it for the windowed and the un-windowed extend, and
   natural_join WRITTEN AS A JOIN (stage iv, `join_covered d fl jt`): INNER and LEFT for every dialect; RIGHT when the dialect
   does not rewrite it (d_rewrite_right d = false: DBModel / PostgreSQLModel); FULL when the dialect does not rewrite it
   (d_rewrite_full d = false: DBModel / PostgreSQLModel, and SQLiteModel linked with SQLite >= 3.39) -- anywhere in the
   pipeline, any operands of the fragment (joins of joins included), any key lists the builder accepts (also none: the cross
   join), any request (also the empty one: the row count), under the generator as it is since /repo 6d4c3d4 (d_join_carry d =
   true: a side none of whose columns is wanted is asked for its first column) and for flavours in which a NULL key matches
   nothing (f_join_null_match fl = false: every flavour of Model/Sem.v).  The proof goes through C16's sem_join_is_spec
   (Proofs/JoinP1.v): sem_join = JoinSpec's joined_TN / unmatched_left / unmatched_right, which is what Model/SqlSem.v's
   join_pairs is written from; Proofs/SqlGenP15.v delivers_join / delivers_join_star is the node, Proofs/SqlGenP16.v
   gen_bare_ok (a bare table operand has exactly the requested columns -- what 6d4c3d4 restored) and node_join the glue.
   NOT covered by the semantic theorems (transcribed, tied structurally and behaviourally, unproved):
     - the SQLite rewrites of a join: RIGHT as the swapped LEFT join (d_rewrite_right; needs delivers_join for
       COALESCE(right, left), i.e. join_terms false, and C16's right/left mirror law) and FULL as the three-way construction
       (d_rewrite_full: SQLite < 3.39);
     - the generator before 6d4c3d4 (d_join_carry d = false), which is the finding SQLGEN-join-unused-side-bare-table-ambiguous;

   WHICH PROPERTY FILE EACH THEOREM STRENGTHENS
     SQLGEN_correct_partial, SQLGEN_correct_toplevel_partial   Props/C01.v (SQLite SQL = reference semantics fl_sqlite: the behavioural
                                      model "the SQL path computes sem_gen fl_sqlite" becomes a theorem about the transcribed generator,
                                      for the fragment), Props/C02.v (same generator with d_generic; only the dialect record differs),
                                      Props/C10.v's use (the pruning lemma is what makes `using` sound)
     SQLGEN_join_partial              Props/C16.v (the join contract, for the SQL path: the generated JOIN with its COALESCE / pass terms
                                      and pruned operands computes sem_join = JoinSpec), Props/C01.v, Props/C02.v (RIGHT / FULL native)
     SQLGEN_window_merge_partial      Props/C01.v, Props/C04.v, Props/C09.v (the three seeded changes C01-m3 C04-m3 C09-m3 all break the
                                      hypothesis `deps_describe`: partition / order columns among the declared dependencies)
     SQLGEN_window_vars_without_order_refuted   regression witness for the same (model variant of C01-m3)
     SQLGEN_result_columns_partial    Props/C08.v (declared columns for the SQL path)
     SQLGEN_row_count_partial         Props/C09.v (one row per group / one row without grouping survives pruning in SQL), Props/C08.v
     SQLGEN_view_names_distinct       Props/C15.v (generated names; all node kinds)
     SQLGEN_pre_c520ee9_refuted, SQLGEN_pre_6f11e66_refuted    Props/C09.v / Props/C08.v regression witnesses

   The list-based SQL semantics fixes one row order; the theorems state EQUALITY of tables (same columns in the same order,
   same rows in the same order), which gives "same multiset of rows" and "same row order after order_rows" a fortiori. *)
From Coq Require Import List Bool Arith ZArith QArith String Permutation.
Import ListNotations.
From DA Require Import Base.PyRT Base.Val Model.Sem Model.ColumnsUsed Model.SqlGen Model.SqlSem
  Proofs.SqlGenP1 Proofs.SqlGenP2 Proofs.SqlGenP4 Proofs.SqlGenP6 Proofs.SqlGenP7 Proofs.SqlGenP8 Proofs.SqlGenP9 Proofs.SqlGenP11 Proofs.SqlGenP15 Proofs.SqlGenP16 Proofs.SqlGenP17 Proofs.SqlGenEx Proofs.SqlGenEx2.
Local Open Scope string_scope.
Local Open Scope list_scope.

(* builder_ok p : the builders accepted p (C10's transcription of the constructors' column checks);
   wf_env e p   : every table description of p is bound to a stored table with exactly the declared columns;
   the request (`using`, or every column when None) is duplicate free and names columns of p.
   Then the reference semantics is defined and, for every NON-EMPTY duplicate-free part C of the request, the generated query
   asked for the columns C -- which is how every enclosing query and the final SELECT ask -- returns EXACTLY the reference
   table restricted to C:   nsem (to_near p using) = restrict using (sem_gen p). *)
Theorem SQLGEN_correct_partial :
  forall fl (e : env) d p usg ids q ids',
  builder_ok p = true -> stage1 (d_allow_extend_merges d) (join_covered d fl) p = true -> wf_env e p ->
  NoDup (req p usg) -> incl (req p usg) (column_names p) ->
  to_near d p usg ids = Ok (q, ids') ->
  exists T, sem_gen fl p e = Some T /\
    forall C, C <> [] -> NoDup C -> incl C (req p usg) -> qsem fl e q (Some C) = Some (sem_select_cols C T).
Proof. exact stage1_correct. Qed.
Print Assumptions SQLGEN_correct_partial.

(* The whole query as SQLModel.to_sql writes it (using=None, the final SELECT lists the step's own terms): its result,
   read in the declared column order, IS the reference table (same rows, same order: in particular after a final order_rows). *)
Theorem SQLGEN_correct_toplevel_partial :
  forall fl (e : env) d p ids q ids',
  builder_ok p = true -> stage1 (d_allow_extend_merges d) (join_covered d fl) p = true -> wf_env e p ->
  to_near d p None ids = Ok (q, ids') ->
  exists T R, sem_gen fl p e = Some T /\ nsem fl q e = Some R /\
    sem_select_cols (column_names p) R = T /\ incl (column_names p) (cols R) /\ NoDup (cols R) /\
    Permutation (rows (sem_select_cols (column_names p) R)) (rows T).
Proof. exact stage1_toplevel. Qed.
Print Assumptions SQLGEN_correct_toplevel_partial.

(* C08 for the SQL path: the final SELECT returns every declared column, no column twice, and the declared columns carry the
   reference values.  (PARTIAL: that it returns NO further column is established for this fragment only up to `cols R =
   keys of the final step's terms`, which the structural tie compares with the real graph.) *)
Theorem SQLGEN_result_columns_partial :
  forall fl (e : env) d p ids q ids',
  builder_ok p = true -> stage1 (d_allow_extend_merges d) (join_covered d fl) p = true -> wf_env e p ->
  to_near d p None ids = Ok (q, ids') ->
  exists R, nsem fl q e = Some R /\ incl (column_names p) (cols R) /\ NoDup (cols R) /\
            option_map cols (sem_gen fl p e) = Some (cols (sem_select_cols (column_names p) R)).
Proof.
  intros fl e d p ids q ids' BO St WF H. destruct (stage1_toplevel fl e d p ids q ids' BO St WF H) as [T [R [E1 [E2 [E3 [E4 [E5 _]]]]]]].
  exists R. split; [exact E2|]. split; [exact E4|]. split; [exact E5|]. rewrite E1, E3. reflexivity.
Qed.
Print Assumptions SQLGEN_result_columns_partial.

(* A request for no column at all (row counts, constant extends above): the generated query still has exactly as many rows
   as the reference table -- the content of the "never narrow a step to nothing" guards (c520ee9, a22df8b) and of C09's
   "one row without grouping" for the SQL path of this fragment. *)
Theorem SQLGEN_row_count_partial :
  forall fl (e : env) d p usg ids q ids',
  builder_ok p = true -> stage1 (d_allow_extend_merges d) (join_covered d fl) p = true -> wf_env e p ->
  NoDup (req p usg) -> incl (req p usg) (column_names p) ->
  to_near d p usg ids = Ok (q, ids') ->
  exists T R, sem_gen fl p e = Some T /\ qsem fl e q (Some []) = Some R /\ List.length (rows R) = List.length (rows T).
Proof. exact stage1_row_count. Qed.
Print Assumptions SQLGEN_row_count_partial.

(* Stage (iv), spelled out for a join node at the top (the four theorems above cover joins anywhere in the pipeline): the
   generated JOIN query -- operands pruned to the columns wanted plus the keys, COALESCE(left, right) for a wanted column both
   sides carry, the ON list -- asked for any non-empty part C of the request returns the reference join restricted to C,
   in the reference row order (matched pairs in left-major order, then the unmatched rows the join type keeps).
   PARTIAL: join types the dialect writes as a join (see the header); not the SQLite RIGHT / old-FULL rewrites. *)
Theorem SQLGEN_join_partial :
  forall fl (e : env) d a b on_a on_b jt usg ids q ids',
  let p := OJoin a b on_a on_b jt in
  builder_ok p = true ->
  stage1 (d_allow_extend_merges d) (join_covered d fl) a = true -> stage1 (d_allow_extend_merges d) (join_covered d fl) b = true ->
  join_covered d fl jt = true -> wf_env e p ->
  NoDup (req p usg) -> incl (req p usg) (column_names p) ->
  to_near d p usg ids = Ok (q, ids') ->
  exists A B, sem_gen fl a e = Some A /\ sem_gen fl b e = Some B /\
    forall C, C <> [] -> NoDup C -> incl C (req p usg) ->
      qsem fl e q (Some C) = Some (sem_select_cols C (sem_join false on_a on_b jt A B)).
Proof.
  intros fl e d a b on_a on_b jt usg ids q ids' p BO Sa Sb Jk WF Nu Iu H.
  assert (stage1 (d_allow_extend_merges d) (join_covered d fl) p = true) as St by (unfold p; cbn [stage1]; rewrite Sa, Sb, Jk; reflexivity).
  destruct (SQLGEN_correct_partial fl e d p usg ids q ids' BO St WF Nu Iu H) as [T [ET HT]].
  unfold p in ET. simpl in ET. destruct (sem_gen fl a e) as [A|]; [|discriminate]. destruct (sem_gen fl b e) as [B|]; [|discriminate].
  injection ET as <-. exists A, B. split; [reflexivity|]. split; [reflexivity|].
  assert (f_join_null_match fl = false) as NM.
  { unfold join_covered in Jk. rewrite !andb_true_iff in Jk. destruct Jk as [[_ X] _]. apply negb_true_iff in X. exact X. }
  rewrite NM in HT. exact HT.
Qed.
Print Assumptions SQLGEN_join_partial.

(* Stage (v) under SQL-level merging, at the level of one merge (the induction of the theorems above uses it for every merge;
   kept under its first name).
   ts / ds : terms and declared dependencies of the step below (its SELECT over X, asked for the columns su', yields Y);
   tms / deps : terms and declared dependencies of the extend being generated; neither side aggregates, either side may carry
   window items  f(..) OVER (PARTITION BY .. ORDER BY ..).  If the declared dependencies cover what each term reads
   (deps_describe: for a window item its argument, PARTITION and ORDER columns -- extend_to_near_sql's window_vars) and the
   contention test finds nothing, then the merged SELECT over X equals the outer SELECT over the inner one, for every
   requested K whose terms read columns of su'. *)
Theorem SQLGEN_window_merge_partial :
  forall fl (ts tms : terms) (ds deps : depmap) su' K X,
  (forall kt, In kt ts -> is_agg_term (snd kt) = false) -> (forall kt, In kt tms -> is_agg_term (snd kt) = false) ->
  NoDup (map fst ds) -> NoDup (map fst deps) -> NoDup (map fst tms) -> NoDup (map fst ts) ->
  incl (map fst ts) (map fst ds) -> map fst tms = map fst deps -> deps_describe tms deps ->
  contention (non_trivial_terms deps tms) (needs deps (non_trivial_terms deps tms))
             (non_trivial_terms ds ts) (needs ds (non_trivial_terms ds ts)) = [] ->
  su' <> [] -> incl su' (map fst ts) ->
  K <> [] -> incl K (map fst tms) -> (forall k, In k K -> incl (item_cols (k, term_of tms k)) su') ->
  forall Y, sql_select fl true (Some ts) (Some su') SfxNone X = Some Y ->
  sql_select fl true (Some (merged_terms (non_trivial_terms deps tms) tms deps ts)) (Some K) SfxNone X
  = sql_select fl true (Some tms) (Some K) SfxNone Y.
Proof. exact merge_compose_win. Qed.
Print Assumptions SQLGEN_window_merge_partial.

(* ALL node kinds, ALL dialects, merging on or off: every generated view (step names extend_N, project_N, ..., and the two
   aliases join_source_left_N / join_source_right_N of a join) carries a number taken from the counter between its start value
   and its end value, and the names of one generated tree are pairwise distinct.  (The invariant C15's SQL finding is about,
   and what /repo 161d83f relies on when it starts the counter past every table named like a view.) *)
Theorem SQLGEN_view_names_distinct :
  forall d p usg ids q ids', to_near d p usg ids = Ok (q, ids') ->
  NoDup (view_names q) /\ (forall v, In v (view_names q) -> (ids <= vn_id v < ids')%nat) /\ (ids <= ids')%nat.
Proof. exact view_names_distinct. Qed.
Print Assumptions SQLGEN_view_names_distinct.

(* REGRESSIONS: the generator as it was before two repairs, under the same SQL semantics.
   c520ee9: t.project({s: a.sum()}).extend({c: 1}).select_columns([c]) -- the reference has ONE row; the old project step (no
   terms, SELECT * ) yields one row per row of t; the current generator yields the reference table. *)
Theorem SQLGEN_pre_c520ee9_refuted :
  option_map (fun t => List.length (rows t)) (sem_gen fl_sqlite rx_p1 rx_env) = Some 1%nat /\
  option_map (fun t => List.length (rows t)) (nsem fl_sqlite rx_q1_pre rx_env) = Some 3%nat /\
  match to_near d_sqlite rx_p1 None 0 with Ok (q, _) => nsem fl_sqlite q rx_env = sem_gen fl_sqlite rx_p1 rx_env | _ => False end.
Proof. exact c520ee9_regression. Qed.
Print Assumptions SQLGEN_pre_c520ee9_refuted.
(* 6f11e66: a final order_rows over a stored table with a column its description does not declare: the old step (SELECT * )
   returns the undeclared column, the current one the declared columns only. *)
Theorem SQLGEN_pre_6f11e66_refuted :
  option_map cols (nsem fl_sqlite rx_q2_pre rx_env_wide) = Some ["a"; "b"; "zz"] /\
  match to_near d_sqlite rx_p2 None 0 with
  | Ok (q, _) => option_map cols (nsem fl_sqlite q rx_env_wide) = Some (column_names rx_p2) /\
                 nsem fl_sqlite q rx_env = sem_gen fl_sqlite rx_p2 rx_env
  | _ => False end.
Proof. exact f6f11e66_regression. Qed.
Print Assumptions SQLGEN_pre_6f11e66_refuted.

(* window_vars (seeded changes C01-m3 / C04-m3 / C09-m3 as a model variant): t.extend({b: b * -1}).extend({r: a.cumsum()},
   order_by=[b]).  With the ORDER columns missing from the declared dependencies the contention test sees nothing, the two
   steps are merged and ORDER BY b reads the stored b: r = 4, 3, 9 where the reference has 9, 3, 8; with window_vars as the
   code has them there is contention on b, no merge, and the generated query returns the reference table. *)
Theorem SQLGEN_window_vars_without_order_refuted :
  builder_ok rx_p3 = true /\
  rx_col_r (sem_gen fl_sqlite rx_p3 rx_env) = Some [VNum 9; VNum 3; VNum 8] /\
  match to_near d_sqlite rx_p3_inner (Some ["a"; "b"]) 0 with
  | Ok (sub, _) =>
      match try_sql_merge sub rx_tms3 (rx_deps3 (w_part rx_w3)) with
      | Some (Ok m) => rx_col_r (nsem fl_sqlite m rx_env) = Some [VNum 4; VNum 3; VNum 9]
      | _ => False
      end /\
      try_sql_merge sub rx_tms3 (rx_deps3 (set_union (w_part rx_w3) (w_order rx_w3))) = None
  | _ => False
  end /\
  match to_near d_sqlite rx_p3 None 0 with Ok (q, _) => nsem fl_sqlite q rx_env = sem_gen fl_sqlite rx_p3 rx_env | _ => False end.
Proof. exact window_vars_regression. Qed.
Print Assumptions SQLGEN_window_vars_without_order_refuted.

(* ------------------------------------------------------------------ the hypotheses are satisfiable *)
Definition ex_t := OTable "t" ["a"; "b"; "c"].
Definition ex_p :=
  OOrder (OConcat (OSelectCols (OExtend (OExtend (OSelectRows ex_t (EOp ">" [ECol "a"; EConst (VNum 0)]))
                                                 [("x", EOp "+" [ECol "a"; ECol "b"])] false no_window)
                                        [("y", EOp "*" [ECol "a"; EConst (VNum 2)])] false no_window) ["x"; "c"; "y"])
                  (ORename (OProject ex_t [("y", EOp "sum" [ECol "a"])] ["b"; "c"]) [("x", "b")]) (Some "src") "l" "r")
         ["x"] ["x"] (Some 3%nat).
Definition ex_env : env := [("t", mktable ["a"; "b"; "c"] [[VNum 1; VNum 2; VStr "u"]; [VNum (-1); VNull; VStr "v"]; [VNum 3; VNum 4; VNull]])].
Example SQLGEN_guards_satisfiable :
  builder_ok ex_p = true /\ stage1 true (join_covered d_sqlite fl_sqlite) ex_p = true /\ wf_env ex_env ex_p /\
  match to_near d_sqlite ex_p None 0 with
  | Ok (q, _) => nsem fl_sqlite q ex_env = sem_gen fl_sqlite ex_p ex_env /\
                 option_map (fun t => List.length (rows t)) (nsem fl_sqlite q ex_env) = Some 3%nat
  | _ => False end.
Proof.
  split; [vm_compute; reflexivity|]. split; [vm_compute; reflexivity|]. split.
  - intros n cs I. simpl in I. exists (mktable ["a"; "b"; "c"] [[VNum 1; VNum 2; VStr "u"]; [VNum (-1); VNull; VStr "v"]; [VNum 3; VNum 4; VNull]]).
    destruct I as [I|[I|[]]]; injection I as <- <-; (split; [reflexivity|split; [reflexivity|repeat constructor]]).
  - vm_compute. split; reflexivity.
Qed.
(* a windowed extend, for a dialect that does not merge *)
Definition ex_w := OSelectCols (OExtend ex_t [("r", EOp "cumsum" [ECol "a"])] true (mkwin ["c"] ["b"] ["b"])) ["r"; "c"].
Example SQLGEN_window_guard_satisfiable :
  builder_ok ex_w = true /\ stage1 false (join_covered d_sqlite_nomerge fl_sqlite) ex_w = true /\
  match to_near d_sqlite_nomerge ex_w None 0 with Ok (q, _) => nsem fl_sqlite q ex_env = sem_gen fl_sqlite ex_w ex_env | _ => False end.
Proof. split; [vm_compute; reflexivity|]. split; vm_compute; reflexivity. Qed.
(* a join of the fragment, for the generic dialect as PostgreSQLModel has it at /repo 6d4c3d4 (FULL written as FULL JOIN) *)
Definition ex_d_generic := mk_dialect true false false true.
Definition ex_j :=
  OOrder (OJoin (OSelectRows (OSelectCols ex_t ["a"; "b"]) (EOp ">" [ECol "a"; EConst (VNum 0)]))
                (OProject ex_t [("s", EOp "sum" [ECol "a"])] ["b"]) ["b"] ["b"] JFull) ["a"] [] None.
Example SQLGEN_join_guard_satisfiable :
  builder_ok ex_j = true /\ stage1 true (join_covered ex_d_generic fl_postgres) ex_j = true /\
  match to_near ex_d_generic ex_j None 0 with
  | Ok (q, _) => option_map (sem_select_cols (column_names ex_j)) (nsem fl_postgres q ex_env) = sem_gen fl_postgres ex_j ex_env /\
                 option_map (fun t => List.length (rows t)) (nsem fl_postgres q ex_env) = Some 3%nat
  | _ => False end.
Proof. split; [vm_compute; reflexivity|]. split; [vm_compute; reflexivity|]. vm_compute. split; reflexivity. Qed.
(* a windowed extend over a table, for the DEFAULT dialect (merging on) *)
Example SQLGEN_window_guard_merging_satisfiable :
  builder_ok ex_w = true /\ stage1 true (join_covered d_sqlite fl_sqlite) ex_w = true /\
  match to_near d_sqlite ex_w None 0 with Ok (q, _) => nsem fl_sqlite q ex_env = sem_gen fl_sqlite ex_w ex_env | _ => False end.
Proof. split; [vm_compute; reflexivity|]. split; vm_compute; reflexivity. Qed.
(* windowed extends MERGED at SQL level, default dialect: the windowed extend folded into the extend below it (one SELECT
   with x and the window item r), and an un-windowed extend folded into a windowed step *)
Definition ex_wm := OExtend (OExtend ex_t [("x", EOp "+" [ECol "a"; ECol "b"])] false no_window)
                            [("r", EOp "cumsum" [ECol "a"])] true (mkwin ["c"] ["b"] []).
Definition ex_mw := OExtend (OExtend ex_t [("r", EOp "cumsum" [ECol "a"])] true (mkwin ["c"] ["b"] []))
                            [("y", EOp "*" [ECol "a"; EConst (VNum 2)])] false no_window.
Definition is_one_step (q : tnear) : bool := match q with TUnary _ _ (TTable _ _) _ _ _ _ => true | _ => false end.
Example SQLGEN_window_merged_satisfiable :
  builder_ok ex_wm = true /\ stage1 true (join_covered d_sqlite fl_sqlite) ex_wm = true /\
  builder_ok ex_mw = true /\ stage1 true (join_covered d_sqlite fl_sqlite) ex_mw = true /\
  match to_near d_sqlite ex_wm None 0 with Ok (q, _) => is_one_step q = true /\ nsem fl_sqlite q ex_env = sem_gen fl_sqlite ex_wm ex_env | _ => False end /\
  match to_near d_sqlite ex_mw None 0 with Ok (q, _) => is_one_step q = true /\ nsem fl_sqlite q ex_env = sem_gen fl_sqlite ex_mw ex_env | _ => False end.
Proof. repeat (split; [vm_compute; reflexivity|]). split; vm_compute; split; reflexivity. Qed.
