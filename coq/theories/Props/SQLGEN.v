(* SQLGEN -- compiler correctness of the SQL generator (deepens C01 / C02 / C08 / C09 / C15).

   Model/SqlGen.v   `to_near` : the step-by-step transcription of SQLModel.*_to_near_sql (sql_model.py) and of the SQLite join
                    rewrites (SQLite.py), producing a typed NearSQL tree
   Model/SqlSem.v   `nsem` / `qsem` : the meaning of such a tree as SQL
   Model/Sem.v      `sem_gen fl` : the reference semantics of pipelines (fl_sqlite: SQL conventions)
   Model/ColumnsUsed.v + Props/C10.v : columns_used_from_sources and the per-node pruning lemma, used as the key step

   Statements are for EVERY pipeline of the stated fragment, every request `using`, every environment, every counter start, and
   every flavour fl of scalar conventions (the generated text is the same; both sides read it under the same conventions).

   The list-based SQL semantics fixes one row order; the theorems state EQUALITY of tables (same columns in the same order,
   same rows in the same order), which gives "same multiset of rows" and "same row order after order_rows" a fortiori. *)
From Coq Require Import List Bool Arith ZArith QArith String Permutation.
Import ListNotations.
From DA Require Import Base.PyRT Base.Val Model.Sem Model.ColumnsUsed Model.SqlGen Model.SqlSem
  Proofs.SqlGenP1 Proofs.SqlGenP2 Proofs.SqlGenP4 Proofs.SqlGenP6 Proofs.SqlGenP7 Proofs.SqlGenP8 Proofs.SqlGenP9.
Local Open Scope string_scope.
Local Open Scope list_scope.

(* STAGE (i): table descriptions, select_rows, select_columns, drop_columns, rename_columns, map_columns, un-windowed extend,
   order_rows, concat_rows (`stage1`; an id-column concat_rows over an un-windowed extend or an order_rows without limit is
   not covered: the generator then goes through the builder's extend merge / order skipping), SQL-level extend merging off.

   builder_ok p : the builders accepted p (C10's transcription of the constructors' column checks);
   wf_env e p   : every table description of p is bound to a stored table with exactly the declared columns;
   the request (`using`, or every column when None) is duplicate free and names columns of p.
   Then the reference semantics is defined and, for every NON-EMPTY duplicate-free part C of the request, the generated query
   asked for the columns C -- which is how every enclosing query and the final SELECT ask -- returns EXACTLY the reference
   table restricted to C. *)
Theorem SQLGEN_correct_stage1_partial :
  forall fl (e : env) d p usg ids q ids',
  d_allow_extend_merges d = false -> builder_ok p = true -> stage1 p = true -> wf_env e p ->
  NoDup (req p usg) -> incl (req p usg) (column_names p) ->
  to_near d p usg ids = Ok (q, ids') ->
  exists T, sem_gen fl p e = Some T /\
    forall C, C <> [] -> NoDup C -> incl C (req p usg) -> qsem fl e q (Some C) = Some (sem_select_cols C T).
Proof. exact stage1_correct. Qed.
Print Assumptions SQLGEN_correct_stage1_partial.

(* The whole query as SQLModel.to_sql writes it (using=None, the final SELECT lists the step's own terms): its result,
   read in the declared column order, IS the reference table; every declared column is returned. *)
Theorem SQLGEN_correct_toplevel_stage1_partial :
  forall fl (e : env) d p ids q ids',
  d_allow_extend_merges d = false -> builder_ok p = true -> stage1 p = true -> wf_env e p ->
  to_near d p None ids = Ok (q, ids') ->
  exists T R, sem_gen fl p e = Some T /\ nsem fl q e = Some R /\
    sem_select_cols (column_names p) R = T /\ incl (column_names p) (cols R) /\ NoDup (cols R) /\
    Permutation (rows (sem_select_cols (column_names p) R)) (rows T).
Proof. exact stage1_toplevel. Qed.
Print Assumptions SQLGEN_correct_toplevel_stage1_partial.

(* A request for no column at all (row counts, constant extends): the generated query still has exactly as many rows as
   the reference table -- the content of the "never narrow a step to nothing" guards for this fragment. *)
Theorem SQLGEN_row_count_stage1_partial :
  forall fl (e : env) d p usg ids q ids',
  d_allow_extend_merges d = false -> builder_ok p = true -> stage1 p = true -> wf_env e p ->
  NoDup (req p usg) -> incl (req p usg) (column_names p) ->
  to_near d p usg ids = Ok (q, ids') ->
  exists T R, sem_gen fl p e = Some T /\ qsem fl e q (Some []) = Some R /\ List.length (rows R) = List.length (rows T).
Proof. exact stage1_row_count. Qed.
Print Assumptions SQLGEN_row_count_stage1_partial.

(* ALL node kinds, ALL dialects, merging on or off: every generated view (step names extend_N, project_N, ..., and the two
   aliases join_source_left_N / join_source_right_N of a join) carries a number taken from the counter between its start value
   and its end value, and the names of one generated tree are pairwise distinct.  (This is the invariant C15's SQL finding is
   about, and what /repo 161d83f relies on when it starts the counter past every table named like a view.) *)
Theorem SQLGEN_view_names_distinct :
  forall d p usg ids q ids', to_near d p usg ids = Ok (q, ids') ->
  NoDup (view_names q) /\ (forall v, In v (view_names q) -> (ids <= vn_id v < ids')%nat) /\ (ids <= ids')%nat.
Proof. exact view_names_distinct. Qed.
Print Assumptions SQLGEN_view_names_distinct.

(* ------------------------------------------------------------------ the hypotheses are satisfiable *)
Definition ex_t := OTable "t" ["a"; "b"; "c"].
Definition ex_p :=
  OOrder (OConcat (OSelectCols (OExtend (OSelectRows ex_t (EOp ">" [ECol "a"; EConst (VNum 0)]))
                                        [("x", EOp "+" [ECol "a"; ECol "b"])] false no_window) ["x"; "c"])
                  (ORename (OSelectCols ex_t ["b"; "c"]) [("x", "b")]) (Some "src") "l" "r")
         ["x"] ["x"] (Some 3%nat).
Definition ex_env : env := [("t", mktable ["a"; "b"; "c"] [[VNum 1; VNum 2; VStr "u"]; [VNum (-1); VNull; VStr "v"]; [VNum 3; VNum 4; VNull]])].
Example SQLGEN_guards_satisfiable :
  builder_ok ex_p = true /\ stage1 ex_p = true /\
  (exists q n, to_near d_sqlite_nomerge ex_p None 0 = Ok (q, n) /\
               nsem fl_sqlite q ex_env = sem_gen fl_sqlite ex_p ex_env /\
               option_map (fun t => List.length (rows t)) (nsem fl_sqlite q ex_env) = Some 3%nat).
Proof. split; [vm_compute; reflexivity|]. split; [vm_compute; reflexivity|]. eexists. eexists. split; [vm_compute; reflexivity|]. split; vm_compute; reflexivity. Qed.
