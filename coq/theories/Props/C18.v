(* C18 -- Results ignore input row order, and order_rows orders and limits.
   "For every pipeline whose window orderings are total within each partition, permuting the input rows or giving the input
    frames a non-default index leaves the result unchanged as a multiset, on every backend.  When a pipeline ends in order_rows,
    the rows come out sorted by the given columns with the given reversals.  With a limit, they are exactly the first `limit`
    rows of that order."
   Statements about the reference semantics Model/Sem.v for EVERY backend flavour (each backend is tied to sem_gen <its flavour>
   by correspondence on every run, on original AND permuted inputs), and about the label handling of the Pandas executor
   (Model/PandasIndex.v, tied by the label correspondence of harness/props/C18.py). *)
From Coq Require Import List Bool Arith ZArith QArith String Permutation Sorted.
Import ListNotations.
From DA Require Import Base.PyRT Base.Val Model.Sem Model.PermGuard Model.PandasIndex
  Proofs.SemOrderP Proofs.PermP1 Proofs.PermP2 Proofs.PermP3 Proofs.PermP4 Proofs.PandasIndexP Proofs.PermP5.

(* ---------------------------------------------------------------- 1. the result ignores the input row order *)
(* premises (Proofs/PermP4.v): total_orders = every windowed extend whose function is not a plain group aggregate (sum, mean,
   min, max, count, size) orders each partition of its actual input strictly -- a missing order_by does not -- and every order_rows
   with a limit is total on its actual input; exact_group_keys = a group-key column holds one representation per value (the label of
   a group is the first representation met; values themselves are compared up to True = 1 = 1.0 by every comparator). *)
Theorem C18_result_ignores_input_row_order :
  forall (fl : flavor) (p : op) (e e' : env) (t : table),
  env_perm e e' -> total_orders fl p e -> exact_group_keys fl p e -> sem_gen fl p e = Some t ->
  exists t', sem_gen fl p e' = Some t' /\ cols t' = cols t /\ Permutation (rows t) (rows t').
Proof. exact sem_perm. Qed.
Print Assumptions C18_result_ignores_input_row_order.

(* the premises are decidable on concrete data: the check evaluated inside Coq on every harness case implies them *)
Theorem C18_checked_premises_are_the_premises :
  forall (fl : flavor) (p : op) (e : env), perm_guard_b fl p e = true -> total_orders fl p e /\ exact_group_keys fl p e.
Proof. exact perm_guard_b_sound. Qed.
Print Assumptions C18_checked_premises_are_the_premises.

(* the ingredients: every aggregate is permutation-invariant over Q; a window function that is a plain aggregate is that aggregate
   on every row; project and windowed extend commute with permutations of their input *)
Theorem C18_aggregates_ignore_the_order_of_their_group :
  forall (fl : flavor) (op : string) (vs vs' : list val), Permutation vs vs' -> agg_fn fl op vs = agg_fn fl op vs'.
Proof. exact agg_fn_perm. Qed.
Print Assumptions C18_aggregates_ignore_the_order_of_their_group.

Theorem C18_project_ignores_input_row_order :
  forall (fl : flavor) (ops : list (string * expr)) (gb : list string) (t t' : table),
  cols t = cols t' -> Permutation (rows t) (rows t') -> keys_exact (cols t) gb (rows t) ->
  cols (sem_project fl ops gb t) = cols (sem_project fl ops gb t')
  /\ Permutation (rows (sem_project fl ops gb t)) (rows (sem_project fl ops gb t')).
Proof. exact project_perm. Qed.
Print Assumptions C18_project_ignores_input_row_order.

Theorem C18_windowed_extend_ignores_input_row_order :
  forall (fl : flavor) (ops : list (string * expr)) (w : window) (t t' : table),
  cols t = cols t' -> Permutation (rows t) (rows t') ->
  (ops_order_sensitive ops = true -> window_total fl (cols t) w (rows t)) ->
  cols (sem_wextend fl ops w t) = cols (sem_wextend fl ops w t')
  /\ Permutation (rows (sem_wextend fl ops w t)) (rows (sem_wextend fl ops w t')).
Proof. exact wextend_perm. Qed.
Print Assumptions C18_windowed_extend_ignores_input_row_order.

(* each premise is needed (witnesses in the reference semantics; replayed on the real backends by the harness self-test) *)
Theorem C18_window_order_needed_refuted :
  exists fl p e e' t t', env_perm e e' /\ exact_group_keys fl p e /\ sem_gen fl p e = Some t /\ sem_gen fl p e' = Some t' /\ ~ Permutation (rows t) (rows t').
Proof. exact window_order_needed. Qed.
Print Assumptions C18_window_order_needed_refuted.
Theorem C18_limit_order_needed_refuted :
  exists fl p e e' t t', env_perm e e' /\ exact_group_keys fl p e /\ sem_gen fl p e = Some t /\ sem_gen fl p e' = Some t' /\ ~ Permutation (rows t) (rows t').
Proof. exact limit_order_needed. Qed.
Print Assumptions C18_limit_order_needed_refuted.
Theorem C18_exact_keys_needed_refuted :
  exists fl p e e' t t', env_perm e e' /\ total_orders fl p e /\ sem_gen fl p e = Some t /\ sem_gen fl p e' = Some t' /\ ~ Permutation (rows t) (rows t').
Proof. exact exact_keys_needed. Qed.
Print Assumptions C18_exact_keys_needed_refuted.

(* ---------------------------------------------------------------- 2. order_rows orders and limits *)
(* rows come out sorted by the given columns with the given reversals: lexicographic on (column, descending?) with the
   backend's null placement (row_le fl) *)
Theorem C18_order_rows_sorted :
  forall (fl : flavor) (s : op) (cs rev : list string) (lim : option nat) (e : env) (t : table),
  sem_gen fl (OOrder s cs rev lim) e = Some t ->
  StronglySorted (fun r1 r2 => row_le fl (cols t) (order_keys cs rev) r1 r2 = true) (rows t).
Proof. exact pipeline_order_sorted. Qed.
Print Assumptions C18_order_rows_sorted.

Theorem C18_order_rows_permutation :
  forall (fl : flavor) (s : op) (cs rev : list string) (e : env) (u t : table),
  sem_gen fl s e = Some u -> sem_gen fl (OOrder s cs rev None) e = Some t -> cols t = cols u /\ Permutation (rows t) (rows u).
Proof. exact pipeline_order_permutation. Qed.
Print Assumptions C18_order_rows_permutation.

Theorem C18_order_rows_limit_is_prefix :
  forall (fl : flavor) (s : op) (cs rev : list string) (n : nat) (e : env) (t : table),
  sem_gen fl (OOrder s cs rev (Some n)) e = Some t ->
  exists full, sem_gen fl (OOrder s cs rev None) e = Some full /\ cols t = cols full /\ rows t = firstn n (rows full).
Proof. exact pipeline_order_limit_prefix. Qed.
Print Assumptions C18_order_rows_limit_is_prefix.

(* with a total final order the result is the same LIST, row for row, for every row order of the inputs *)
Theorem C18_total_order_rows_result_is_identical :
  forall (fl : flavor) (s : op) (cs rev : list string) (lim : option nat) (e e' : env) (t : table),
  env_perm e e' -> total_orders fl s e -> exact_group_keys fl s e ->
  (forall u, sem_gen fl s e = Some u -> total_on fl (cols u) (order_keys cs rev) (rows u)) ->
  sem_gen fl (OOrder s cs rev lim) e = Some t -> sem_gen fl (OOrder s cs rev lim) e' = Some t.
Proof. exact pipeline_order_total_exact. Qed.
Print Assumptions C18_total_order_rows_result_is_identical.

(* ---------------------------------------------------------------- 3. the Pandas executor is free of the caller's index *)
Theorem C18_pandas_steps_return_default_index :
  forall (fl : flavor) (p : op) (e : ienv) (f : iframe), px fl p e = Some f -> ix f = default_ix (nrows f).
Proof. exact px_default_index. Qed.
Print Assumptions C18_pandas_steps_return_default_index.

Theorem C18_pandas_every_node_returns_default_index :
  forall (fl : flavor) (p : op) (e : ienv), Forall (fun o => forall l, o = Some l -> exists n, l = default_ix n) (px_trace fl p e).
Proof. exact px_trace_default. Qed.
Print Assumptions C18_pandas_every_node_returns_default_index.

Theorem C18_pandas_result_ignores_caller_index :
  forall (fl : flavor) (p : op) (e e' : ienv), same_data e e' -> px fl p e = px fl p e'.
Proof. exact px_index_free. Qed.
Print Assumptions C18_pandas_result_ignores_caller_index.

(* the aligned column assignment of extend always meets equal labels, so labels never decide data *)
Theorem C18_pandas_model_data_is_reference_semantics :
  forall (fl : flavor) (p : op) (e : ienv) (f : iframe), px fl p e = Some f -> sem_gen fl p (strip e) = Some (tb f).
Proof. exact px_data. Qed.
Print Assumptions C18_pandas_model_data_is_reference_semantics.

(* permuted AND re-labelled inputs *)
Theorem C18_pandas_permuted_and_reindexed_input :
  forall (fl : flavor) (p : op) (e e' : ienv) (f : iframe),
  env_perm (strip e) (strip e') -> total_orders fl p (strip e) -> exact_group_keys fl p (strip e) -> px fl p e = Some f ->
  exists f', px fl p e' = Some f' /\ ix f' = default_ix (nrows f') /\ cols (tb f') = cols (tb f) /\ Permutation (rows (tb f)) (rows (tb f')).
Proof. exact px_perm_reindex. Qed.
Print Assumptions C18_pandas_permuted_and_reindexed_input.

(* were a frame to reach a windowed extend with the caller's labels, the aligned assignment would misplace the new column *)
Theorem C18_pandas_labels_would_leak_without_reset_refuted :
  exists f, px_extend fl_pandas leak_ops true leak_win leak_frame = Some f /\ tb f <> sem_wextend fl_pandas leak_ops leak_win (tb leak_frame).
Proof. exact labels_leak_without_reset. Qed.
Print Assumptions C18_pandas_labels_would_leak_without_reset_refuted.

(* ---------------------------------------------------------------- non-vacuity *)
Local Open Scope string_scope.
Local Open Scope list_scope.
Example C18_premises_satisfiable :
  total_orders fl_sqlite ex_pipe (ex_env ex_rows) /\ exact_group_keys fl_sqlite ex_pipe (ex_env ex_rows)
  /\ env_perm (ex_env ex_rows) (ex_env ex_rows') /\ ex_rows <> ex_rows'
  /\ option_map (fun t => List.length (rows t)) (sem_gen fl_sqlite ex_pipe (ex_env ex_rows)) = Some 3%nat.
Proof.
  split; [|split; [|split; [|split]]].
  - apply total_orders_b_sound. vm_compute. reflexivity.
  - apply exact_keys_b_sound. vm_compute. reflexivity.
  - apply env_perm_cons; [reflexivity| |apply env_perm_nil]. cbn [rows]. unfold ex_rows, ex_rows'.
    apply Permutation_sym. apply (Permutation_app_comm [[q 2; VNull; q 2]; [q 1; q 2; q 3]] [[q 1; q 5; q 0]; [q 1; q 2; q 1]]).
  - vm_compute. intros H. discriminate H.
  - vm_compute. reflexivity.
Qed.
(* a project with a null key and keys_exact *)
Example C18_project_premise_satisfiable :
  keys_exact ["k"; "a"; "u"] ["k"] (ex_rows ++ [[VNull; q 1; q 9]]).
Proof. apply keys_exact_b_sound. vm_compute. reflexivity. Qed.
(* labels: a shuffled integer index, a string index with duplicates *)
Example C18_pandas_reindexed_example :
  let t := mktable ["k"; "a"; "u"] ex_rows in
  px fl_pandas ex_pipe [("d", mkif [[AInt 3]; [AInt 0]; [AInt 2]; [AInt 1]] t)]
  = px fl_pandas ex_pipe [("d", mkif [[AStr "x"]; [AStr "x"]; [AStr "y"]; [AStr "z"]] t)]
  /\ option_map ix (px fl_pandas ex_pipe [("d", mkif [[AStr "x"]; [AStr "x"]; [AStr "y"]; [AStr "z"]] t)]) = Some (default_ix 3).
Proof. split; vm_compute; reflexivity. Qed.
