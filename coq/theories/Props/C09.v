(* C09 -- aggregation returns one row per group, and one row without grouping.
   Statements about the reference semantics Model/Sem.v, for EVERY backend flavour; each backend is tied to
   sem_gen <its flavour> by correspondence on every run. *)
From Coq Require Import List Bool Arith ZArith String.
Import ListNotations.
From DA Require Import Base.PyRT Base.Val Model.Sem Proofs.SemBasicP Proofs.RowCountP.

(* a project WITHOUT group_by returns exactly one row: for every source pipeline and input (also an empty one), and
   whatever column steps (extend, windowed extend, select/drop/rename/map_columns) later overwrite or drop its outputs *)
Theorem C09_ungrouped_project_returns_one_row :
  forall (fl : flavor) (src : op) (ops : list (string * expr)) (later : list colstep) (e : env) (t : table),
  sem_gen fl (fold_left apply_colstep later (OProject src ops [])) e = Some t -> List.length (rows t) = 1%nat.
Proof. exact ungrouped_project_one_row. Qed.
Print Assumptions C09_ungrouped_project_returns_one_row.

(* a project WITH group_by returns exactly one row per distinct combination of key values of its materialised input *)
Theorem C09_grouped_project_one_row_per_distinct_key :
  forall (fl : flavor) (src : op) (ops : list (string * expr)) (gb : list string) (later : list colstep) (e : env) (u t : table),
  gb <> [] -> sem_gen fl src e = Some u ->
  sem_gen fl (fold_left apply_colstep later (OProject src ops gb)) e = Some t ->
  List.length (rows t) = List.length (distinct_keys (map (key_of (cols u) gb) (rows u))).
Proof. exact grouped_project_row_count. Qed.
Print Assumptions C09_grouped_project_one_row_per_distinct_key.

(* "distinct combination": the keys counted are pairwise different, every input key is represented, nothing is invented;
   keys_eqv treats null as equal to null only, so a null key value forms a group of its own *)
Theorem C09_distinct_keys_are_the_distinct_combinations :
  forall ks : list (list val),
  ForallOrdPairs (fun a b => keys_eqv a b = false) (distinct_keys ks)
  /\ (forall k, In k ks -> exists k', In k' (distinct_keys ks) /\ keys_eqv k' k = true)
  /\ (forall k, In k (distinct_keys ks) -> In k ks).
Proof. exact distinct_keys_spec. Qed.
Print Assumptions C09_distinct_keys_are_the_distinct_combinations.

(* every input row -- also one whose key contains a null -- is aggregated into some output row carrying its key *)
Theorem C09_null_key_row_has_its_group :
  forall (fl : flavor) (ops : list (string * expr)) (gb : list string) (t : table) (r0 : list val),
  gb <> [] -> In r0 (rows t) ->
  exists r k, In r (rows (sem_project fl ops gb t)) /\ firstn (List.length gb) r = k /\ keys_eqv k (key_of (cols t) gb r0) = true.
Proof. exact project_null_key_has_group. Qed.
Print Assumptions C09_null_key_row_has_its_group.

(* each output row is its key followed by the aggregates over exactly the input rows with an equivalent key *)
Theorem C09_project_row_aggregates_its_group :
  forall (fl : flavor) (ops : list (string * expr)) (gb : list string) (t : table) (r : list val),
  In r (rows (sem_project fl ops gb t)) ->
  exists k, r = k ++ map (fun ke => agg_value fl (cols t) (filter (fun r0 => keys_eqv k (key_of (cols t) gb r0)) (rows t)) (snd ke)) ops
            /\ (gb <> [] -> In k (map (key_of (cols t) gb) (rows t))).
Proof. exact project_row_content. Qed.
Print Assumptions C09_project_row_aggregates_its_group.

(* a windowed extend keeps every input row (and, SemBasicP.wextend_keeps_other_columns, every column it does not assign);
   that each new value is the window function over the row's own partition is Props/C27.v *)
Theorem C09_windowed_extend_keeps_every_row :
  forall (fl : flavor) (src : op) (ops : list (string * expr)) (w : window) (e : env) (u t : table),
  sem_gen fl src e = Some u -> sem_gen fl (OExtend src ops true w) e = Some t -> List.length (rows t) = List.length (rows u).
Proof. exact windowed_extend_keeps_rows. Qed.
Print Assumptions C09_windowed_extend_keeps_every_row.

Local Open Scope string_scope.
Local Open Scope list_scope.
(* non-vacuity: null keys, an empty input, and outputs that are all dropped afterwards *)
Example C09_null_key_example :
  option_map (fun t => List.length (rows t))
    (sem_gen fl_pandas (OProject (OTable "d" ["k"; "a"]) [("s", EOp "sum" [ECol "a"])] ["k"])
       [("d", mktable ["k"; "a"] [[VNull; VInt 1%Z]; [VInt 2%Z; VInt 1%Z]; [VNull; VInt 5%Z]])]) = Some 2%nat.
Proof. vm_compute. reflexivity. Qed.
Example C09_empty_input_outputs_dropped_example :
  option_map rows
    (sem_gen fl_sqlite (fold_left apply_colstep [CExtend [("y", EConst (VInt 1%Z))]; CSelectCols ["y"]]
                          (OProject (OTable "d" ["k"; "a"]) [("s", EOp "sum" [ECol "a"])] []))
       [("d", mktable ["k"; "a"] [])]) = Some [[VInt 1%Z]].
Proof. vm_compute. reflexivity. Qed.
