(* C26 -- The builder rejects ill-formed steps when the pipeline is built.
   "For every valid pipeline prefix, a step that violates a documented construction rule is rejected when the step is added,
    not later at evaluation.  The rules are: referring to an unknown column, changing a partition or ordering column, using a
    column in the same extend that produces it, a non-aggregating or too-complex window or project expression, joining with
    missing keys or with non-key common columns when that check is requested, and concatenating tables with different
    columns.  Steps that follow all the rules are accepted."

   Statements about the hand model Model/Builder.v (build_step: one builder step on declared columns; apply_step: the same
   step on a prefix as the builder methods see it, with their skipping / collapsing / merging) against the rules written from
   the property text in Model/BuilderSpec.v (violates).  T = the function-name classes of expr_rep.py and the operator
   catalogue, read from /repo on every run: every theorem holds for EVERY T.  try_to_merge_ops is Gen/G_MergeOps.v
   (regenerated from data_ops_utils.py).

   FULL STATEMENT (false for the code as it is, see C26_rejects_iff_rule_violated_refuted):
     forall T cols s, NoDup cols -> cols <> [] -> step_wf s -> (build_step T cols s = Reject <-> violates_rule T cols s).
   What is proved: "rejected => a rule is violated" with no guard; "a rule is violated => rejected" for every rule except
   R_not_aggregating on an operator application that the catalogue does not list as a window / aggregation function (the
   builder has no such table; known finding C26-nonaggregating-operator); the iff under exactly that guard (`catalogued`). *)
From Coq Require Import List Bool String.
Import ListNotations.
From DA Require Import Base.PyRT Model.Builder Model.BuilderSpec Proofs.BuilderP Proofs.BuilderSimplP.

(* "Steps that follow all the rules are accepted": a rejection always has a violated rule behind it.  No guard. *)
Theorem C26_rejected_only_if_rule_violated :
  forall (T : tables) (cols : list string), NoDup cols -> cols <> [] ->
  forall s : step, step_wf s -> build_step T cols s = Reject -> violates_rule T cols s.
Proof. exact reject_violates. Qed.
Print Assumptions C26_rejected_only_if_rule_violated.

(* every violated rule leads to rejection when the step is added; the catalogue guard is needed for R_not_aggregating only *)
Theorem C26_rule_violation_rejected_partial :
  forall (T : tables) (cols : list string), NoDup cols -> cols <> [] ->
  forall (s : step) (r : rule), step_wf s -> (r = R_not_aggregating -> catalogued T s) ->
  violates T cols s r -> build_step T cols s = Reject.
Proof. exact violates_rejected. Qed.
Print Assumptions C26_rule_violation_rejected_partial.

Theorem C26_rejects_iff_rule_violated_partial :
  forall (T : tables) (cols : list string), NoDup cols -> cols <> [] ->
  forall s : step, step_wf s -> catalogued T s ->
  (build_step T cols s = Reject <-> violates_rule T cols s).
Proof. exact rejects_iff_rule_violated. Qed.
Print Assumptions C26_rejects_iff_rule_violated_partial.

(* the unguarded statement is false: `project({"x": "a.abs()"}, group_by=["g"])` and
   `extend({"x": "a.abs()"}, partition_by=["g"])` break R_not_aggregating and are accepted (they fail at evaluation) *)
Theorem C26_rejects_iff_rule_violated_refuted :
  exists (T : tables) (cols : list string) (s : step), NoDup cols /\ cols <> [] /\ step_wf s /\
    violates T cols s R_not_aggregating /\ build_step T cols s <> Reject.
Proof. exact refuted_project. Qed.
Print Assumptions C26_rejects_iff_rule_violated_refuted.

Theorem C26_rejects_iff_rule_violated_refuted_window :
  exists (T : tables) (cols : list string) (s : step), NoDup cols /\ cols <> [] /\ step_wf s /\
    violates T cols s R_not_aggregating /\ build_step T cols s <> Reject.
Proof. exact refuted_window. Qed.
Print Assumptions C26_rejects_iff_rule_violated_refuted_window.

(* an accepted step declares exactly the documented columns, and they are again a valid column list *)
Theorem C26_accept_gives_declared_columns :
  forall (T : tables) (cols : list string), NoDup cols -> cols <> [] ->
  forall (s : step) (c : list string), step_wf s -> build_step T cols s = Accept c ->
  (NoDup c /\ c <> []) /\ (order_fixed s = true -> c = spec_cols cols s) /\ (forall x, In x c <-> In x (spec_cols cols s)).
Proof. exact accept_gives_declared_columns. Qed.
Print Assumptions C26_accept_gives_declared_columns.

(* the verdict on the prefix as the builder sees it (order_rows without limit skipped, select_columns collapsed into an earlier
   select/drop, extends merged by the regenerated try_to_merge_ops) = the verdict on the declared columns alone; when accepted,
   the same set of columns *)
Theorem C26_rejection_independent_of_simplification :
  forall (T : tables) (p : prefix) (s : step), wf_prefix T p ->
  same_outcome (apply_step T p s) (build_step T (declared p) s).
Proof. exact simplification_independent. Qed.
Print Assumptions C26_rejection_independent_of_simplification.

(* ... and, unless two extends are merged, literally the same outcome (column order included) *)
Theorem C26_simplification_keeps_outcome_and_column_order :
  forall (T : tables) (p : prefix) (s : step), wf_prefix T p ->
  (match s with SExtend _ _ _ _ => no_extend_on_top p | _ => True end) ->
  apply_step T p s = build_step T (declared p) s.
Proof. exact simplification_independent_eq. Qed.
Print Assumptions C26_simplification_keeps_outcome_and_column_order.

(* the property as stated, "for every valid pipeline prefix": on the simplified prefix a step is rejected iff it breaks a rule
   with respect to the prefix's declared columns (inside the guard of the known finding) *)
Theorem C26_on_every_prefix_rejects_iff_rule_violated_partial :
  forall (T : tables) (p : prefix) (s : step), wf_prefix T p -> step_wf s -> catalogued T s ->
  (apply_step T p s = Reject <-> violates_rule T (declared p) s).
Proof. exact rejects_iff_rule_violated_on_prefix. Qed.
Print Assumptions C26_on_every_prefix_rejects_iff_rule_violated_partial.

(* ---- non-vacuity ---- *)
Open Scope string_scope.
Open Scope list_scope.
(* a prefix t[a,b,g].extend({x: a.sum()}, partition_by=[g]).order_rows([a]) is well formed *)
Example C26_wf_prefix_example :
  wf_prefix T_example (POrder (PExtend (PNode ["a"; "b"; "g"]) [("x", EOp "sum" [ECol "a"])] ["g"] true [] []) None)%string.
Proof.
  simpl. split; [split; [repeat constructor; simpl; intuition congruence|discriminate]|].
  split; [repeat constructor; simpl; tauto|]. exists (PList ["g"]%string). split; [reflexivity|]. split; [reflexivity|].
  vm_compute. discriminate.
Qed.
(* on it, a second windowed extend over the same partition is MERGED through the skipped order_rows (columns x, y come from one
   node), a step that follows the rules and is inside the guard is accepted, and one that changes the partition column is rejected *)
Example C26_merge_through_skipped_order :
  apply_step T_example (POrder (PExtend (PNode ["a"; "b"; "g"]) [("x", EOp "sum" [ECol "a"])] ["g"] true [] []) None)
                       (SExtend [("y", EOp "max" [ECol "b"])] (PList ["g"]) [] [])%string
  = Accept ["a"; "b"; "g"; "x"; "y"]%string.
Proof. vm_compute. reflexivity. Qed.
Example C26_guard_satisfiable :
  step_wf (SExtend [("y", EOp "max" [ECol "b"])] (PList ["g"]) [] [])%string
  /\ catalogued T_example (SExtend [("y", EOp "max" [ECol "b"])] (PList ["g"]) [] [])%string.
Proof.
  split; [discriminate|]. simpl. intros _ k op args [E|[]]. injection E as _ <- _. simpl. tauto.
Qed.
Example C26_change_partition_column_rejected :
  build_step T_example ["a"; "b"; "g"]%string (SExtend [("g", EOp "max" [ECol "b"])] (PList ["g"]) [] [])%string = Reject.
Proof. vm_compute. reflexivity. Qed.
(* merging changes the ORDER of the declared columns (x is re-assigned): why the general statement compares column sets *)
Example C26_merge_reorders_columns :
  apply_step T_example (PExtend (PNode ["a"]) [("x", EVal); ("y", EVal)] [] false [] []) (SExtend [("x", EVal)] (PList []) [] [])%string
    = Accept ["a"; "y"; "x"]%string
  /\ build_step T_example ["a"; "x"; "y"]%string (SExtend [("x", EVal)] (PList []) [] [])%string = Accept ["a"; "x"; "y"]%string.
Proof. split; vm_compute; reflexivity. Qed.
(* regression (fixed in /repo 2b5c834): select_rows with an expression naming an unknown column is rejected when it is added,
   also when the expression arrives as a parsed term *)
Example C26_select_rows_unknown_column_rejected :
  build_step T_example ["a"; "g"] (SSelectRows (EOp ">" [ECol "zz"; EVal])) = Reject
  /\ violates T_example ["a"; "g"] (SSelectRows (EOp ">" [ECol "zz"; EVal])) R_unknown_column.
Proof. split; [vm_compute; reflexivity|]. exists "zz". split; [simpl; tauto|]. simpl. intuition congruence. Qed.
(* a column common to both tables that is a join key on ONE side only (differently named keys) is a non-key common column:
   orders(id, cust, amount) joined to custs(cust_id, id, name) on id = cust_id is rejected when the check is requested
   (the excused columns are the INTERSECTION of the two key lists), and accepted when it is not *)
Example C26_one_sided_key_is_a_common_nonkey_column :
  build_step T_example ["id"; "cust"; "amount"] (SJoin ["cust_id"; "id"; "name"] [("id", "cust_id")] "LEFT" true) = Reject
  /\ violates T_example ["id"; "cust"; "amount"] (SJoin ["cust_id"; "id"; "name"] [("id", "cust_id")] "LEFT" true) R_join_common_nonkey
  /\ build_step T_example ["id"; "cust"; "amount"] (SJoin ["cust_id"; "id"; "name"] [("id", "cust_id")] "LEFT" false)
     = Accept ["id"; "cust"; "amount"; "cust_id"; "name"].
Proof.
  split; [vm_compute; reflexivity|]. split; [|vm_compute; reflexivity].
  simpl. split; [reflexivity|]. exists "id". split; [tauto|]. split; [tauto|]. intros [_ [E|[]]]. discriminate E.
Qed.
