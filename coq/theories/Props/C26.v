(* placeholder while the model is being validated; replaced by the real statements *)
From Coq Require Import List Bool String.
From DA Require Import Base.PyRT Model.Builder.
Theorem C26_placeholder : forall T cols, build_step T cols (SDropCols nil) = Accept cols.
Proof. reflexivity. Qed.
Print Assumptions C26_placeholder.
