(* C06 -- builder simplifications never change what a pipeline means.
   merge_*: about try_to_merge_ops REGENERATED from data_algebra/data_ops_utils.py (Gen/G_MergeOps.v). *)
From Coq Require Import List Bool String.
Import ListNotations.
From DA Require Import Base.PyRT Base.Val Model.Extend Model.MergeGuard Gen.G_MergeOps Proofs.MergeOpsP Proofs.MergeGuardP.

(* Whenever try_to_merge_ops merges two extend steps, the merged step denotes, column for column, the same frame
   as the two steps applied one after the other -- for EVERY pair of assignment dictionaries (repeated and
   overwriting assignments included), every input frame, and every way `colfn` of computing a column from an
   expression that only looks at the expression's own columns and the window columns W (row-wise evaluation
   and window functions alike). *)
Theorem C06_merged_extend_equals_sequential_extends :
  forall (E : Type) (deps : E -> list string) (W : list string) (colfn : E -> frame -> list val)
         (o1 o2 m : pydict string E) (f : frame),
  colfn_local deps W colfn ->
  NoDup (dict_keys o1) -> NoDup (dict_keys o2) ->
  (forall k, In k (dict_keys o1) -> ~ In k W) ->
  try_to_merge_ops (get_columns_used deps) o1 o2 = Some m ->
  forall c, dict_get (ext colfn m f) c = dict_get (ext colfn o2 (ext colfn o1 f)) c.
Proof. exact @merge_sound. Qed.
Print Assumptions C06_merged_extend_equals_sequential_extends.

Theorem C06_merged_extend_assigns_the_same_columns :
  forall (E : Type) (deps : E -> list string) (o1 o2 m : pydict string E),
  NoDup (dict_keys o1) -> NoDup (dict_keys o2) ->
  try_to_merge_ops (get_columns_used deps) o1 o2 = Some m ->
  NoDup (dict_keys m) /\ forall k, In k (dict_keys m) <-> In k (dict_keys o1) \/ In k (dict_keys o2).
Proof. exact @merge_keys. Qed.
Print Assumptions C06_merged_extend_assigns_the_same_columns.

(* extend_parsed_ merges only under its window test (Model/MergeGuard.v, hand model tied by correspondence).  Whenever that
   test passes and the regenerated try_to_merge_ops merges, the new step -- had it become a node of its own -- and the
   merged node both carry exactly the window bookkeeping of the node merged into: the same windowed_situation (which decides
   which expressions ExtendNode accepts), partition (the number 1 normalised to the empty list), order and reversal.
   p: the predicate "the operator implies a windowed situation", arbitrary. *)
Theorem C06_merged_extend_has_the_window_of_both_steps :
  forall (E : Type) (deps : E -> list string) (p : E -> bool) (o1 o2 m : pydict string E) (a1 a2 : wargs),
  NoDup (dict_keys o1) -> NoDup (dict_keys o2) ->
  try_to_merge_ops (get_columns_used deps) o1 o2 = Some m ->
  merge_guard (implies_windowed p o2) a2 (node_of (implies_windowed p o1) a1) = true ->
  node_of (implies_windowed p o2) a2 = node_of (implies_windowed p o1) a1
  /\ node_of (implies_windowed p m) a2 = node_of (implies_windowed p o1) a1.
Proof. exact @merged_extend_window. Qed.
Print Assumptions C06_merged_extend_has_the_window_of_both_steps.

(* non-vacuity: two windowed steps over the whole table pass the test (partition_by=1 after a sum); a whole-table
   window requested for `_size()` (which does not itself imply a window) after a plain extend does not -- the case
   that was merged, and then rejected by ExtendNode, before the fix 240a99b *)
Example C06_guard_passes :
  merge_guard false (mkwargs true [] [] []) (node_of true (mkwargs false [] [] [])) = true.
Proof. vm_compute. reflexivity. Qed.
Example C06_guard_refuses_plain_then_whole_table_window :
  merge_guard false (mkwargs true [] [] []) (node_of false (mkwargs false [] [] [])) = false.
Proof. vm_compute. reflexivity. Qed.

(* non-vacuity: a merge that happens (overwriting assignment), and the formerly unsound one is now refused *)
Example C06_merge_happens :
  try_to_merge_ops (get_columns_used (fun e : list string => e))
    [("x"%string, ["a"%string]); ("b"%string, ["a"%string])] [("x"%string, []); ("y"%string, ["c"%string])]
  = Some [("b"%string, ["a"%string]); ("x"%string, []); ("y"%string, ["c"%string])].
Proof. vm_compute. reflexivity. Qed.
Example C06_unsound_merge_refused :
  try_to_merge_ops (get_columns_used (fun e : list string => e))
    [("x"%string, ["a"%string]); ("b"%string, ["a"%string])] [("x"%string, []); ("y"%string, ["b"%string])] = None.
Proof. vm_compute. reflexivity. Qed.
