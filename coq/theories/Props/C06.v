(* C06 -- builder simplifications never change what a pipeline means.
   "Chaining steps gives the same result as applying each step in turn to the materialized result of the previous one.  This holds
    even though the builder merges consecutive extend steps, collapses column selections and removes intermediate order_rows steps.
    A simplified pipeline accepts and rejects exactly the steps and options, such as join key checks, that the unsimplified sequence would."

   Part 1 (the merged_extend theorems): about try_to_merge_ops REGENERATED from data_algebra/data_ops_utils.py (Gen/G_MergeOps.v) and the window test of
   extend_parsed_ (Model/MergeGuard.v), over an abstract column function.
   Part 2: about the builders as a whole -- Model/Simplify.v: `build_step` = the tree the real builder returns for a step on a prefix
   (tied on every run by the tree correspondence of harness/props/C06.py), `build_unsimplified` = the same call with nothing skipped,
   collapsed or merged, `run_steps` = materialise after every step -- in the reference semantics Model/Sem.v, for EVERY backend flavour
   fl and every iw (the function names that imply a window, read from /repo on every run).
   Relations: same_bag = equal column lists, rows a permutation;  tab_eqv (C07) = same column set, same rows in the same order, every
   row the same function from column names to values;  tab_sim = tab_eqv up to a permutation of the rows ("the same table as a
   multiset"; the column ORDER may differ because a merged extend lists a re-assigned column later);  otab_* = both undefined, or that.
   Premises: step_insensitive = C18's premise for the one step on its actual input (an order-sensitive window function orders each
   partition strictly, group keys have one representation per value, a limit is taken under a total order); step_valid / prefix_ok =
   what the builder validated (C26): an extend's keys are distinct and are not its window columns, select_columns names known columns,
   a rename does not merge two columns. *)
From Coq Require Import List Bool ZArith String Permutation.
Import ListNotations.
From DA Require Import Base.PyRT Base.Val Model.Extend Model.MergeGuard Gen.G_MergeOps Proofs.MergeOpsP Proofs.MergeGuardP.
From DA Require Import Model.Sem Model.PermGuard Model.Simplify Proofs.SemBasicP Proofs.SemOrderP Proofs.PermP2 Proofs.PermP3 Proofs.ComposeP5
  Proofs.SimplifyP1 Proofs.SimplifyP2 Proofs.SimplifyP3 Proofs.SimplifyP4 Proofs.SimplifyP5 Proofs.SimplifyP6.
From DA Require Model.Builder Model.BuilderSpec Proofs.SimplifyP7.

(* Whenever try_to_merge_ops merges two extend steps, the merged step denotes, column for column, the same frame
   as the two steps applied one after the other -- for EVERY pair of assignment dictionaries (repeated and
   overwriting assignments included), every input frame, and every way `colfn` of computing a column from an
   expression that only looks at the expression's own columns and the window columns W (row-wise evaluation
   and window functions alike). *)
Theorem C06_merged_extend_equals_sequential_extends :
  forall (E : Type) (deps : E -> list string) (W : list string) (colfn : E -> frame -> list val)
         (o1 o2 m : pydict string E) (f : frame),
  colfn_local deps W colfn ->
  NoDup (dict_keys o1) -> NoDup (dict_keys o2) ->
  (forall k, In k (dict_keys o1) -> ~ In k W) ->
  try_to_merge_ops (get_columns_used deps) o1 o2 = Some m ->
  forall c, dict_get (ext colfn m f) c = dict_get (ext colfn o2 (ext colfn o1 f)) c.
Proof. exact @merge_sound. Qed.
Print Assumptions C06_merged_extend_equals_sequential_extends.

Theorem C06_merged_extend_assigns_the_same_columns :
  forall (E : Type) (deps : E -> list string) (o1 o2 m : pydict string E),
  NoDup (dict_keys o1) -> NoDup (dict_keys o2) ->
  try_to_merge_ops (get_columns_used deps) o1 o2 = Some m ->
  NoDup (dict_keys m) /\ forall k, In k (dict_keys m) <-> In k (dict_keys o1) \/ In k (dict_keys o2).
Proof. exact @merge_keys. Qed.
Print Assumptions C06_merged_extend_assigns_the_same_columns.

(* extend_parsed_ merges only under its window test (Model/MergeGuard.v, hand model tied by correspondence).  Whenever that
   test passes and the regenerated try_to_merge_ops merges, the new step -- had it become a node of its own -- and the
   merged node both carry exactly the window bookkeeping of the node merged into: the same windowed_situation (which decides
   which expressions ExtendNode accepts), partition (the number 1 normalised to the empty list), order and reversal.
   p: the predicate "the operator implies a windowed situation", arbitrary. *)
Theorem C06_merged_extend_has_the_window_of_both_steps :
  forall (E : Type) (deps : E -> list string) (p : E -> bool) (o1 o2 m : pydict string E) (a1 a2 : wargs),
  NoDup (dict_keys o1) -> NoDup (dict_keys o2) ->
  try_to_merge_ops (get_columns_used deps) o1 o2 = Some m ->
  merge_guard (implies_windowed p o2) a2 (node_of (implies_windowed p o1) a1) = true ->
  node_of (implies_windowed p o2) a2 = node_of (implies_windowed p o1) a1
  /\ node_of (implies_windowed p m) a2 = node_of (implies_windowed p o1) a1.
Proof. exact @merged_extend_window. Qed.
Print Assumptions C06_merged_extend_has_the_window_of_both_steps.

(* non-vacuity: two windowed steps over the whole table pass the test (partition_by=1 after a sum); a whole-table
   window requested for `_size()` (which does not itself imply a window) after a plain extend does not -- the case
   that was merged, and then rejected by ExtendNode, before the fix 240a99b *)
Example C06_guard_passes :
  merge_guard false (mkwargs true [] [] []) (node_of true (mkwargs false [] [] [])) = true.
Proof. vm_compute. reflexivity. Qed.
Example C06_guard_refuses_plain_then_whole_table_window :
  merge_guard false (mkwargs true [] [] []) (node_of false (mkwargs false [] [] [])) = false.
Proof. vm_compute. reflexivity. Qed.

(* non-vacuity: a merge that happens (overwriting assignment), and the formerly unsound one is now refused *)
Example C06_merge_happens :
  try_to_merge_ops (get_columns_used (fun e : list string => e))
    [("x"%string, ["a"%string]); ("b"%string, ["a"%string])] [("x"%string, []); ("y"%string, ["c"%string])]
  = Some [("b"%string, ["a"%string]); ("x"%string, []); ("y"%string, ["c"%string])].
Proof. vm_compute. reflexivity. Qed.
Example C06_unsound_merge_refused :
  try_to_merge_ops (get_columns_used (fun e : list string => e))
    [("x"%string, ["a"%string]); ("b"%string, ["a"%string])] [("x"%string, []); ("y"%string, ["b"%string])] = None.
Proof. vm_compute. reflexivity. Qed.

(* ================================================================== Part 2: the builders, in the reference semantics *)

(* ---------------------------------------------------------------- extend merging *)
(* the merged extend node denotes the two extends applied one after the other (row-wise, and windowed over one shared window) *)
Theorem C06_merged_extend_denotes_sequential_extends :
  forall (fl : flavor) (o1 o2 m : list (string * expr)) (t : table),
  NoDup (map fst o1) -> NoDup (map fst o2) -> try_to_merge_ops gcu o1 o2 = Some m -> width_ok t ->
  tab_eqv (sem_extend fl m t) (sem_extend fl o2 (sem_extend fl o1 t)).
Proof. intros fl o1 o2 m t N1 N2 H. exact (merge_sem_extend o1 o2 m N1 N2 H fl t). Qed.
Print Assumptions C06_merged_extend_denotes_sequential_extends.

Theorem C06_merged_windowed_extend_denotes_sequential_extends :
  forall (fl : flavor) (w : window) (o1 o2 m : list (string * expr)) (t : table),
  NoDup (map fst o1) -> NoDup (map fst o2) -> try_to_merge_ops gcu o1 o2 = Some m -> width_ok t ->
  (forall k, In k (map fst o1) -> ~ In k (w_part w ++ w_order w)) ->
  tab_eqv (sem_wextend fl m w t) (sem_wextend fl o2 w (sem_wextend fl o1 w t)).
Proof. intros fl w o1 o2 m t N1 N2 H. exact (merge_sem_wextend o1 o2 m N1 N2 H fl w t). Qed.
Print Assumptions C06_merged_windowed_extend_denotes_sequential_extends.

(* ---------------------------------------------------------------- select / drop collapsing *)
Theorem C06_select_collapse_sound :
  forall (fl : flavor) (s : op) (cs1 cs2 : list string) (e : env),
  (forall c, In c cs2 -> In c cs1) ->
  sem_gen fl (OSelectCols (OSelectCols s cs1) cs2) e = sem_gen fl (OSelectCols s cs2) e.
Proof. exact select_collapse_select. Qed.
Print Assumptions C06_select_collapse_sound.

Theorem C06_select_collapse_after_drop_sound :
  forall (fl : flavor) (s : op) (ds cs2 : list string) (e : env),
  (forall c, In c cs2 -> In c (column_names (ODropCols s ds))) ->
  sem_gen fl (OSelectCols (ODropCols s ds) cs2) e = sem_gen fl (OSelectCols s cs2) e.
Proof. exact select_collapse_drop. Qed.
Print Assumptions C06_select_collapse_after_drop_sound.

(* the inclusion (validated by select_columns BEFORE it collapses, since /repo 1cca521) is needed *)
Theorem C06_select_collapse_without_inclusion_refuted :
  exists fl s cs1 cs2 e, sem_gen fl (OSelectCols (OSelectCols s cs1) cs2) e <> sem_gen fl (OSelectCols s cs2) e.
Proof. exact select_collapse_needs_inclusion. Qed.
Print Assumptions C06_select_collapse_without_inclusion_refuted.

(* ---------------------------------------------------------------- order_rows elimination *)
(* the builders forward every step to the source of an order_rows without limit (unless they return the pipeline unchanged) ... *)
Theorem C06_builders_skip_order_rows_without_limit :
  forall (iw : list string) (s : op) (cs rev : list string) (x : step),
  returns_self (OOrder s cs rev None) x = false -> build_step iw (OOrder s cs rev None) x = build_step iw s x.
Proof. exact build_step_skips_order. Qed.
Print Assumptions C06_builders_skip_order_rows_without_limit.

(* ... and for EVERY kind of step x that is not sensitive to the row order of its input, x applied to s and x applied to
   s.order_rows(cs, reverse=rev) have the same columns and the same rows as a multiset *)
Theorem C06_order_rows_elimination_sound :
  forall (iw : list string) (fl : flavor) (e : env) (x : step) (s : op) (cs rev : list string),
  (forall u, sem_gen fl s e = Some u -> step_insensitive iw fl x u) ->
  same_bag (sem_gen fl (build_unsimplified iw s x) e) (sem_gen fl (build_unsimplified iw (OOrder s cs rev None) x) e).
Proof. exact order_elim_sound. Qed.
Print Assumptions C06_order_rows_elimination_sound.

(* the same LIST of rows when the step is itself an order_rows that is total on the data ... *)
Theorem C06_order_rows_elimination_before_total_order_rows_identical :
  forall (fl : flavor) (e : env) (s : op) (cs rev cs2 rev2 : list string) (lim : option nat),
  (forall u, sem_gen fl s e = Some u -> total_on fl (cols u) (map (fun c => (c, mem c rev2)) cs2) (rows u)) ->
  sem_gen fl (OOrder (OOrder s cs rev None) cs2 rev2 lim) e = sem_gen fl (OOrder s cs2 rev2 lim) e.
Proof. exact order_elim_order_total. Qed.
Print Assumptions C06_order_rows_elimination_before_total_order_rows_identical.

(* ... or when the rows are compared after a total final order_rows *)
Theorem C06_order_rows_elimination_identical_after_total_final_order :
  forall (iw : list string) (fl : flavor) (e : env) (x : step) (s : op) (cs rev cs2 rev2 : list string) (lim : option nat),
  (forall u, sem_gen fl s e = Some u -> step_insensitive iw fl x u) ->
  (forall v, sem_gen fl (build_unsimplified iw s x) e = Some v -> total_on fl (cols v) (map (fun c => (c, mem c rev2)) cs2) (rows v)) ->
  sem_gen fl (OOrder (build_unsimplified iw (OOrder s cs rev None) x) cs2 rev2 lim) e
  = sem_gen fl (OOrder (build_unsimplified iw s x) cs2 rev2 lim) e.
Proof. exact order_elim_then_total_order. Qed.
Print Assumptions C06_order_rows_elimination_identical_after_total_final_order.

(* without a final order the LIST of rows does depend on the dropped order_rows (a row-wise step keeps the order of its input) *)
Theorem C06_order_rows_elimination_same_list_refuted :
  exists iw fl e x s cs rev,
    (forall u, sem_gen fl s e = Some u -> step_insensitive iw fl x u) /\
    sem_gen fl (build_unsimplified iw s x) e <> sem_gen fl (build_unsimplified iw (OOrder s cs rev None) x) e.
Proof. exact order_elim_list_needs_final_order. Qed.
Print Assumptions C06_order_rows_elimination_same_list_refuted.

(* FULL STATEMENT without the premise is FALSE, for the model and for the code (known finding C06-unordered-window-after-order_rows):
   t.order_rows(['a']).extend({'c': 'x.first()'}) -- `first` reads the order of its partition but is accepted without an order_by; the
   builder drops the order_rows, and the chained result differs from the step-by-step one even as a multiset *)
Theorem C06_order_rows_elimination_unordered_window_refuted :
  exists iw fl e x s cs rev a b,
    build_step iw (OOrder s cs rev None) x = build_unsimplified iw s x /\
    sem_gen fl (build_unsimplified iw s x) e = Some a /\ sem_gen fl (build_unsimplified iw (OOrder s cs rev None) x) e = Some b /\
    ~ Permutation (rows a) (rows b).
Proof. exact order_elim_unordered_window_refuted. Qed.
Print Assumptions C06_order_rows_elimination_unordered_window_refuted.

(* ---------------------------------------------------------------- one builder call, any prefix *)
(* whatever the builder does with the prefix p (skip, collapse, merge, return it unchanged), the pipeline it returns denotes the
   step applied to the MATERIALISED result of p *)
Theorem C06_builder_step_equals_step_on_materialized_prefix :
  forall (iw : list string) (fl : flavor) (e : env) (x : step) (p : op) (t r : table),
  sem_gen fl p e = Some t -> tab_sim t r -> width_ok r -> prefix_ok iw p -> step_valid x (cols r) -> step_insensitive iw fl x r ->
  otab_sim (sem_gen fl (build_step iw p x) e) (apply_sem iw fl e x r).
Proof. exact build_step_sound. Qed.
Print Assumptions C06_builder_step_equals_step_on_materialized_prefix.

(* ---------------------------------------------------------------- chains: the property *)
(* run_steps (materialise after every step) is the meaning of the pipeline built without any simplification *)
Theorem C06_stepwise_run_is_the_unsimplified_pipeline :
  forall (iw : list string) (fl : flavor) (e : env) (xs : list step) (p0 : op),
  sem_gen fl (build_plain iw p0 xs) e = run_steps iw fl e (sem_gen fl p0 e) xs.
Proof. exact sem_build_plain. Qed.
Print Assumptions C06_stepwise_run_is_the_unsimplified_pipeline.

(* for EVERY list of steps: the pipeline built with the simplifications denotes the same table as applying each step in turn to the
   materialised result of the previous one (same column set, same rows as a multiset), the premises being asked step by step of the
   tables of the step-by-step run (steps_ok).  Induction over the list, using the three simplification lemmas above. *)
Theorem C06_chain_eq_steps :
  forall (iw : list string) (fl : flavor) (e : env) (p0 : op) (xs : list step),
  prefix_ok iw p0 -> steps_ok iw fl e (sem_gen fl p0 e) xs ->
  otab_sim (sem_gen fl (build iw p0 xs) e) (run_steps iw fl e (sem_gen fl p0 e) xs).
Proof. exact chain_eq_steps. Qed.
Print Assumptions C06_chain_eq_steps.

(* ... and the same rows IN THE SAME ORDER when the chain ends in an order_rows that is total on the data *)
Theorem C06_chain_eq_steps_row_for_row_under_total_final_order :
  forall (iw : list string) (fl : flavor) (e : env) (p0 : op) (xs : list step) (cs rev : list string) (lim : option nat),
  prefix_ok iw p0 -> steps_ok iw fl e (sem_gen fl p0 e) xs -> cs <> [] ->
  (forall r, run_steps iw fl e (sem_gen fl p0 e) xs = Some r -> total_on fl (cols r) (map (fun c => (c, mem c rev)) cs) (rows r)) ->
  otab_eqv (sem_gen fl (build iw p0 (xs ++ [SOrder cs rev lim])) e) (run_steps iw fl e (sem_gen fl p0 e) (xs ++ [SOrder cs rev lim])).
Proof. exact chain_eq_steps_ordered. Qed.
Print Assumptions C06_chain_eq_steps_row_for_row_under_total_final_order.

(* the builders keep the invariant the chain theorem starts from *)
Theorem C06_builder_keeps_prefix_invariant :
  forall (iw : list string) (x : step) (p : op), prefix_ok iw p -> step_valid x (column_names p) -> prefix_ok iw (build_step iw p x).
Proof. exact build_step_ok. Qed.
Print Assumptions C06_builder_keeps_prefix_invariant.

(* ---------------------------------------------------------------- accept / reject (restated from C26) *)
(* on every prefix the builder can have produced -- order_rows skipped, select_columns collapsed, extends merged by the regenerated
   try_to_merge_ops -- a step is accepted exactly when it is accepted on the prefix's declared columns alone (what the step-by-step
   sequence sees: a table description of the materialised result), with the same set of columns: the inductive step of "the
   simplified chain accepts iff the unsimplified sequence does".  T = the function-name classes read from /repo. *)
Theorem C06_chain_accepts_iff :
  forall (T : Builder.tables) (p : Builder.prefix) (s : Builder.step), BuilderSpec.wf_prefix T p ->
  ((exists c, Builder.apply_step T p s = Builder.Accept c) <-> (exists c, Builder.build_step T (Builder.declared p) s = Builder.Accept c))
  /\ BuilderSpec.same_outcome (Builder.apply_step T p s) (Builder.build_step T (Builder.declared p) s).
Proof. exact SimplifyP7.accepts_iff. Qed.
Print Assumptions C06_chain_accepts_iff.

(* ---------------------------------------------------------------- non-vacuity *)
Local Open Scope string_scope.
Local Open Scope list_scope.
(* a chain of 8 steps (two order_rows, two windowed extends over one window, two select_columns, two row-wise extends the second of which
   overwrites a column of the first) on which every hypothesis of C06_chain_eq_steps holds; the builder returns three nodes *)
Example C06_chain_hypotheses_satisfiable :
  prefix_ok ex_iw ex_tab /\ steps_ok ex_iw fl_sqlite ex_env (sem_gen fl_sqlite ex_tab ex_env) ex_steps.
Proof. exact ex_steps_ok. Qed.
Example C06_chain_example_is_simplified :
  build ex_iw ex_tab ex_steps
  = OExtend (OSelectCols (OExtend ex_tab [("c", EOp "cumsum" [ECol "a"]); ("r", EOp "_row_number" [])] true (mkwin ["k"] ["u"] []))
                         ["c"; "k"; "u"])
            [("y", ECol "k"); ("z", EConst (q 7%Z))] false (mkwin [] [] []).
Proof. exact ex_built. Qed.
