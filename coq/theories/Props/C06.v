(* C06 -- builder simplifications never change what a pipeline means.
   merge_*: about try_to_merge_ops REGENERATED from data_algebra/data_ops_utils.py (Gen/G_MergeOps.v). *)
From Coq Require Import List Bool String.
Import ListNotations.
From DA Require Import Base.PyRT Base.Val Model.Extend Gen.G_MergeOps Proofs.MergeOpsP.

(* Whenever try_to_merge_ops merges two extend steps, the merged step denotes, column for column, the same frame
   as the two steps applied one after the other -- for EVERY pair of assignment dictionaries (repeated and
   overwriting assignments included), every input frame, and every way `colfn` of computing a column from an
   expression that only looks at the expression's own columns and the window columns W (row-wise evaluation
   and window functions alike). *)
Theorem C06_merged_extend_equals_sequential_extends :
  forall (E : Type) (deps : E -> list string) (W : list string) (colfn : E -> frame -> list val)
         (o1 o2 m : pydict string E) (f : frame),
  colfn_local deps W colfn ->
  NoDup (dict_keys o1) -> NoDup (dict_keys o2) ->
  (forall k, In k (dict_keys o1) -> ~ In k W) ->
  try_to_merge_ops (get_columns_used deps) o1 o2 = Some m ->
  forall c, dict_get (ext colfn m f) c = dict_get (ext colfn o2 (ext colfn o1 f)) c.
Proof. exact @merge_sound. Qed.
Print Assumptions C06_merged_extend_equals_sequential_extends.

Theorem C06_merged_extend_assigns_the_same_columns :
  forall (E : Type) (deps : E -> list string) (o1 o2 m : pydict string E),
  NoDup (dict_keys o1) -> NoDup (dict_keys o2) ->
  try_to_merge_ops (get_columns_used deps) o1 o2 = Some m ->
  NoDup (dict_keys m) /\ forall k, In k (dict_keys m) <-> In k (dict_keys o1) \/ In k (dict_keys o2).
Proof. exact @merge_keys. Qed.
Print Assumptions C06_merged_extend_assigns_the_same_columns.

(* non-vacuity: a merge that happens (overwriting assignment), and the formerly unsound one is now refused *)
Example C06_merge_happens :
  try_to_merge_ops (get_columns_used (fun e : list string => e))
    [("x"%string, ["a"%string]); ("b"%string, ["a"%string])] [("x"%string, []); ("y"%string, ["c"%string])]
  = Some [("b"%string, ["a"%string]); ("x"%string, []); ("y"%string, ["c"%string])].
Proof. vm_compute. reflexivity. Qed.
Example C06_unsound_merge_refused :
  try_to_merge_ops (get_columns_used (fun e : list string => e))
    [("x"%string, ["a"%string]); ("b"%string, ["a"%string])] [("x"%string, []); ("y"%string, ["b"%string])] = None.
Proof. vm_compute. reflexivity. Qed.
