(* C03 -- the Polars executor agrees with Pandas whenever it returns a result.

   "For every pipeline and input on which the Polars executor returns a result without raising, that result has the same
    columns and the same multiset of rows as the Pandas executor's result [accepted differences only: integer / and %,
    sum/count over groups with no non-null values].  An unsupported method or step may raise an error, but it must never
    silently return a different table."

   plexec   (Model/PolarsExec.v)  step-by-step model of PolarsModel._*_step over hand models of the Polars primitives; tied to
            the real eager and lazy executor on every run (Model/PolarsExecCases.v, harness/props/C03.py)
   sem_gen fl_pandas (Model/Sem.v) what the Pandas executor computes

   The full statement is FALSE for the implementation (the `_refuted` theorems below exhibit the witnesses; each is a listed
   known finding, or the accepted sum/count convention).  The guarded statement is `_partial`: it covers every operator kind
   (table, extend with and without window, project, select_rows, select/drop/rename/map_columns, order_rows with and without
   limit, natural_join inner/left/right/full with equally or differently named keys, concat_rows; any column names, also
   ones that look like the executor's scratch names) but, through the CVocab / CJoinKeyed components of the guard, not: the ordered window functions that Polars 1.44.2 still has (shift, first, last,
   ffill, bfill), aggregates of a constant `(1).sum()`, joins WITHOUT keys (CROSS: the scratch key column), methods outside
   the vocabulary of Model/Sem.v; those are covered by the correspondence and the oracle only.  CColumnsExist says that a
   step only reads columns its source has (every pipeline made by the builder).  CSortTies / CGroupKeyRepr state that the
   result is determined at all (no ties under a limit; equal group keys are written the same way).  In a select_rows predicate
   a comparison other than != may see nulls under and / or (filter_nulls_ok): null and False both drop the row. *)
From Coq Require Import List Bool Arith ZArith QArith String Permutation.
Import ListNotations.
From DA Require Import Base.PyRT Base.Val Model.Sem Model.SemCases Model.PolarsExec Proofs.PolarsP8.

(* no `_da_*` temporary column survives a step and no declared column is lost: for EVERY pipeline and input *)
Theorem C03_columns :
  forall (p : op) (e : env) (t : table), plexec p e = Ok t -> cols t = column_names p.
Proof. exact plexec_columns. Qed.
Print Assumptions C03_columns.

(* whenever the Polars executor returns a frame, outside the known findings and the accepted convention it has the columns
   and exactly the multiset of rows of the Pandas executor (exact equality of cells: stronger than the 1e-8 rule) *)
Theorem C03_polars_agrees_or_raises_partial :
  forall (p : op) (e : env) (t t' : table),
  plexec p e = Ok t -> agree_guardb p e = true -> sem_gen fl_pandas p e = Some t' ->
  cols t = cols t' /\ Permutation (rows t) (rows t').
Proof. exact polars_agrees_or_raises. Qed.
Print Assumptions C03_polars_agrees_or_raises_partial.

Local Open Scope string_scope.
Local Open Scope list_scope.

(* ---------------------------------------------------------------- the full statement fails: witnesses *)
Definition differs (p : op) (e : env) (why : list cause) : Prop :=
  exists t t', plexec p e = Ok t /\ sem_gen fl_pandas p e = Some t' /\ failed_causes p e = why /\ ~ Permutation (rows t) (rows t').

Ltac witness row :=
  eexists; eexists; split; [vm_compute; reflexivity|split; [vm_compute; reflexivity|split; [vm_compute; reflexivity|]]];
  intros P; apply Permutation_in with (x := row) in P; [vm_compute in P; intuition discriminate|vm_compute; auto].

Definition one_null : env := [("d", mktable ["a"; "b"] [[VNull; Q2 5 1]])].
Definition ex_env_keys : env :=
  [("d", mktable ["k"; "a"; "s"] [[Q2 1 1; Q2 3 2; VStr "x"]; [Q2 2 1; VNull; VStr "y"]; [VNull; Q2 4 1; VNull]]);
   ("g", mktable ["j"; "k"; "z"] [[Q2 2 1; Q2 7 1; Q2 10 1]; [Q2 5 1; VNull; Q2 30 1]; [VNull; Q2 1 1; Q2 40 1]])].

(* a comparison with a null operand is null on Polars and False on Pandas (stored in a column) *)
Theorem C03_comparison_with_null_refuted :
  differs (OExtend (OTable "d" ["a"; "b"]) [("x", EOp ">" [ECol "a"; EConst (Q2 1 1)])] false (mkwin [] [] [])) one_null [CCmpNull].
Proof. witness [VNull; Q2 5 1; VNull]. Qed.
Print Assumptions C03_comparison_with_null_refuted.

(* and / or are Kleene on Polars; a null operand counts as False on Pandas *)
Theorem C03_logic_with_null_refuted :
  differs (OExtend (OTable "d" ["a"; "b"]) [("x", EOp "and" [ECol "a"; EOp "==" [ECol "b"; ECol "b"]])] false (mkwin [] [] [])) one_null [CLogicNull].
Proof. witness [VNull; Q2 5 1; VNull]. Qed.
Print Assumptions C03_logic_with_null_refuted.

(* regression example for repair 73dee51 (found by this check): maximum / minimum propagate a missing operand on Polars as
   on Pandas -- the former witness of C03_maximum_with_null_refuted is now inside the guard and the two sides agree *)
Example C03_maximum_with_null_agrees :
  let p := OExtend (OTable "d" ["a"; "b"]) [("x", EOp "maximum" [ECol "a"; ECol "b"]); ("y", EOp "minimum" [ECol "b"; ECol "a"])] false (mkwin [] [] []) in
  agree_guardb p one_null = true /\
  plexec p one_null = Ok (mktable ["a"; "b"; "x"; "y"] [[VNull; Q2 5 1; VNull; VNull]]) /\
  sem_gen fl_pandas p one_null = Some (mktable ["a"; "b"; "x"; "y"] [[VNull; Q2 5 1; VNull; VNull]]).
Proof. cbv zeta. split; [vm_compute; reflexivity|split; vm_compute; reflexivity]. Qed.

(* regression example for repair af27aca (Pandas natural_join no longer pairs null keys; found by C16 and this check): the
   former witness of C03_null_join_keys_refuted is inside the guard and the two sides agree (no match for the null key) *)
Example C03_null_join_keys_agree :
  let p := OJoin (OTable "d" ["a"; "b"]) (OTable "f" ["a"; "z"]) ["a"] ["a"] JLeft in
  let e := one_null ++ [("f", mktable ["a"; "z"] [[VNull; Q2 7 1]])] in
  agree_guardb p e = true /\
  plexec p e = Ok (mktable ["a"; "b"; "z"] [[VNull; Q2 5 1; VNull]]) /\
  sem_gen fl_pandas p e = Some (mktable ["a"; "b"; "z"] [[VNull; Q2 5 1; VNull]]).
Proof. cbv zeta. split; [vm_compute; reflexivity|split; vm_compute; reflexivity]. Qed.

(* differently named key pairs (and a key name that is a non-key column of the other side) are inside the guard since ad5b72b *)
Example C03_guard_example_differently_named_keys :
  let p := OJoin (OTable "d" ["k"; "a"; "s"]) (OTable "g" ["j"; "k"; "z"]) ["k"] ["j"] JFull in
  let e := ex_env_keys in
  agree_guardb p e = true /\ option_map (fun t => List.length (rows t)) (match plexec p e with Ok t => Some t | _ => None end) = Some 5%nat.
Proof. cbv zeta. split; vm_compute; reflexivity. Qed.

(* sort puts nulls first on Polars and last on Pandas: a limit keeps different rows *)
Theorem C03_sort_null_placement_refuted :
  differs (OOrder (OTable "d" ["a"; "b"]) ["a"] [] (Some 1%nat)) [("d", mktable ["a"; "b"] [[Q2 1 1; Q2 1 1]; [VNull; Q2 2 1]])] [CSortNulls].
Proof. witness [VNull; Q2 2 1]. Qed.
Print Assumptions C03_sort_null_placement_refuted.

(* regression example for repair 85ef226 (scratch columns and join suffixes are named away from the names in use): the former
   witness of C03_reserved_column_name_refuted -- a user column called like the partition stand-in -- is inside the guard,
   keeps its value, and the two sides agree *)
Example C03_reserved_column_name_agrees :
  let p := OExtend (OTable "d" ["a"; "_da_extend_temp_partition_column"]) [("x", EOp "sum" [ECol "a"])] true (mkwin [] [] []) in
  let e := [("d", mktable ["a"; "_da_extend_temp_partition_column"] [[Q2 2 1; Q2 5 1]])] in
  agree_guardb p e = true /\
  plexec p e = Ok (mktable ["a"; "_da_extend_temp_partition_column"; "x"] [[Q2 2 1; Q2 5 1; Q2 2 1]]) /\
  sem_gen fl_pandas p e = Some (mktable ["a"; "_da_extend_temp_partition_column"; "x"] [[Q2 2 1; Q2 5 1; Q2 2 1]]).
Proof. cbv zeta. split; [vm_compute; reflexivity|split; vm_compute; reflexivity]. Qed.

(* the accepted convention: sum / count / size of an ungrouped project over an empty input (Polars null, Pandas 0) *)
Theorem C03_empty_ungrouped_sum_convention_refuted :
  differs (OProject (OTable "d" ["a"; "b"]) [("s", EOp "sum" [ECol "a"])] []) [("d", mktable ["a"; "b"] [])] [CEmptyProject].
Proof. witness [VNull]. Qed.
Print Assumptions C03_empty_ungrouped_sum_convention_refuted.

(* ---------------------------------------------------------------- the guard is satisfiable by non-trivial pipelines *)
Definition ex_env : env :=
  [("d", mktable ["k"; "a"; "s"] [[Q2 1 1; Q2 3 2; VStr "x"]; [Q2 2 1; VNull; VStr "y"]; [VNull; Q2 4 1; VNull]; [Q2 2 1; Q2 1 1; VStr "x"]]);
   ("f", mktable ["k"; "a"; "z"] [[Q2 2 1; Q2 9 1; Q2 10 1]; [Q2 5 1; Q2 8 1; Q2 30 1]])].

(* FULL join with a right-only row and a shared non-key column, a window aggregate, a null test, a grouped project *)
Example C03_guard_example_join_window_project :
  let p := OProject (OExtend (OExtend (OJoin (OTable "d" ["k"; "a"; "s"]) (OTable "f" ["k"; "a"; "z"]) ["k"] ["k"] JFull)
                                [("w", EOp "sum" [ECol "a"])] true (mkwin ["k"] [] []))
                       [("n", EOp "is_null" [ECol "z"]); ("c", EOp "coalesce" [ECol "a"; EConst (Q2 0 1)])] false (mkwin [] [] []))
             [("m", EOp "max" [ECol "c"]); ("q", EOp "_size" [])] ["k"] in
  agree_guardb p ex_env = true /\
  option_map (fun t => List.length (rows t)) (match plexec p ex_env with Ok t => Some t | _ => None end) = Some 4%nat.
Proof. cbv zeta. split; vm_compute; reflexivity. Qed.

(* RIGHT join, filter on a comparison without nulls, order with a limit on a total key, concat with an id column *)
Example C03_guard_example_right_join_order_concat :
  let j := OJoin (OTable "d" ["k"; "a"; "s"]) (OTable "f" ["k"; "a"; "z"]) ["k"] ["k"] JRight in
  let p := OConcat (OOrder (OSelectRows j (EOp ">" [ECol "z"; EConst (Q2 1 1)])) ["z"; "a"] ["z"] (Some 2%nat)) (OSelectCols j ["k"; "a"; "s"; "z"])
                   (Some "src") "top" "all" in
  agree_guardb p ex_env = true /\ plexec p ex_env <> Raise /\ plexec p ex_env <> Unmodelled.
Proof. cbv zeta. split; [vm_compute; reflexivity|split; vm_compute; discriminate]. Qed.

(* a row filter on a nullable column is inside the guard: a null predicate (Polars) and a False one (Pandas) both drop the row *)
Example C03_guard_example_filter_on_null :
  let p := OSelectRows (OTable "d" ["k"; "a"; "s"]) (EOp "and" [EOp ">" [ECol "a"; EConst (Q2 1 1)]; EOp "<=" [ECol "k"; EConst (Q2 2 1)]]) in
  agree_guardb p ex_env = true /\ option_map (fun t => List.length (rows t)) (match plexec p ex_env with Ok t => Some t | _ => None end) = Some 1%nat.
Proof. cbv zeta. split; vm_compute; reflexivity. Qed.

(* raising is allowed: the window functions that Polars 1.44.2 no longer has raise instead of returning a table *)
Example C03_removed_window_function_raises :
  plexec (OExtend (OTable "d" ["k"; "a"; "s"]) [("x", EOp "cumsum" [ECol "a"])] true (mkwin ["k"] ["a"] [])) ex_env = Raise.
Proof. vm_compute. reflexivity. Qed.
