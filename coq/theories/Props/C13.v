(* C13 -- stub while the models are validated *)
From DA Require Import Model.PyExpr Model.ExprPrint Model.ExprParse Model.ExprSem.
