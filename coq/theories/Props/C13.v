(* C13 -- Expression text is parsed with Python's precedence and meaning.
   Statements about the hand models Model/PyExpr.v (expression objects, tokens), Model/ExprParse.v (lark tree shapes,
   the parser model lark_of, the transcription walk of _walk_lark_tree with the Term methods it reaches),
   Model/ExprSem.v (py_meaning: Python's meaning of a parse tree; eval: the DSL's meaning of an expression object),
   Model/ExprPrint.v (to_python), Model/ExprAst.v (ASTs with explicit parentheses, unparse, strip) and
   Model/ExprRoundtrip.v (printable, the guards).  They are tied to /repo by correspondence on every run.

   First half (meaning): proved at full strength for the walker as it is since 1b8c7b2 (comparison chains are
   rejected; before that fix 'a < b < c' was read as (a < b) < c -- the regression witness is C13_chain_regression).

   FULL STATEMENT of the second half -- "parse a text, print the result, parse again: an equal tree" -- is FALSE
   for the code as it is (the five theorems C13_print_parse_roundtrip_refuted_...); it is proved under the guards src_ok (NAME tokens
   are not operator texts; no call of a dunder method written in the text; callees are NAME or expr.NAME) and
   expr_kf_ok (no infinite constant, no list of fewer than two items unless it is one literal token, no -0.0 as the
   base of a power), each of which is a listed known finding with its witness below. *)
From Coq Require Import List Bool String Ascii ZArith NArith QArith Arith.
Import ListNotations.
From DA Require Import Model.PyExpr Model.ExprPrint Model.ExprParse Model.ExprSem Model.ExprAst Model.ExprRoundtrip
  Proofs.ExprParseP4 Proofs.ExprParseP9 Proofs.ExprParseP19 Proofs.ExprParseP21.
Local Close Scope Q_scope.
Local Open Scope string_scope.
Local Open Scope list_scope.

(* ------------------------------------------------------------------ 1. meaning *)
(* for EVERY lark tree, every set of known names, every column set, every interpretation fsem of the method
   names and every operand assignment: if the walker accepts the tree and Python's reading of the tree has a
   value on the common domain, the expression object evaluates to exactly that value *)
Theorem C13_parse_meaning :
  forall (c : cfg) (dd : list string) (fsem : fsem_t) (en : env) (t : ltree) (e : expr) (v : pval),
  parse_tree c dd t = Ok e -> py_meaning fsem en t = Some v -> eval fsem en e = Some v.
Proof. exact parse_tree_meaning. Qed.
Print Assumptions C13_parse_meaning.

(* the same for the walker proper (sub-trees that are lists / dicts included) *)
Theorem C13_walk_meaning :
  forall (c : cfg) (dd : list string) (fsem : fsem_t) (en : env) (t : ltree) (e : expr) (v : pval),
  walk c dd t = Ok e -> py_meaning fsem en t = Some v -> eval fsem en e = Some v.
Proof. exact walk_meaning. Qed.
Print Assumptions C13_walk_meaning.

(* regression of 1b8c7b2: 'a < b < c' is in the grammar; with a = -3, b = -3, c = 5 Python says False, the
   left-nested object (a < b) < c that the walker used to build says True; the walker now rejects the tree *)
Example C13_chain_regression :
  lark_of chain_toks = Some chain_tree /\
  py_meaning no_fsem chain_env chain_tree = Some (PBool false) /\
  eval no_fsem chain_env chain_expr = Some (PBool true) /\
  parse_tree chain_cfg ["a"; "b"; "c"] chain_tree = Err.
Proof. exact chain_rejected. Qed.

(* ------------------------------------------------------------------ 2. precedence *)
(* for EVERY expression AST of the fragment, in EVERY parenthesisation that respects the grammar's levels
   (necessary and redundant parentheses alike): its text parses to exactly the tree of the AST -- binary operators
   fold to the left within their level, ** to the right and above a unary minus on its left, not / and / or and
   comparisons at their levels, call and attribute trailers, displays *)
Theorem C13_precedence :
  forall d : dtree, wfn d = true -> lark_of (unparse d) = Some (strip d).
Proof. exact lark_of_unparse. Qed.
Print Assumptions C13_precedence.

(* ------------------------------------------------------------------ 3. round trip *)
(* every printable expression object is read back from its own text as the SAME object *)
Theorem C13_printable_roundtrip :
  forall (c : cfg) (dd : list string) (e : expr),
  printable c dd e = true -> is_term e = true ->
  parse c dd (to_python e) = Ok e /\ is_equal e e = true.
Proof. exact printable_roundtrip_eq. Qed.
Print Assumptions C13_printable_roundtrip.

(* whatever the walker builds from the tree of a source AST is printable *)
Theorem C13_parsed_is_printable :
  forall (c : cfg) (dd : list string) (d : dtree) (e : expr),
  wfn d = true -> src_ok d = true -> walk c dd (strip d) = Ok e -> expr_kf_ok e = true ->
  printable c dd e = true.
Proof. exact built_printable. Qed.
Print Assumptions C13_parsed_is_printable.

(* parse the text of a source AST, print the result, parse again: the same object, is_equal to the first *)
Theorem C13_print_parse_roundtrip_partial :
  forall (c : cfg) (dd : list string) (d : dtree) (e : expr),
  wfn d = true -> src_ok d = true ->
  parse c dd (unparse d) = Ok e -> expr_kf_ok e = true ->
  exists e', parse c dd (to_python e) = Ok e' /\ e' = e /\ is_equal e e' = true.
Proof. exact roundtrip_of_source_eq. Qed.
Print Assumptions C13_print_parse_roundtrip_partial.

(* the witnesses of the known findings, each violating exactly one guard *)
(* (-0.0) ** 2  prints as  -0.0 ** 2  which is read back as  -(0.0 ** 2) *)
Theorem C13_print_parse_roundtrip_refuted_negative_zero :
  wfn negzero_src = true /\ src_ok negzero_src = true /\
  parse kcfg kdd (unparse negzero_src) = Ok negzero_e /\ parse kcfg kdd (to_python negzero_e) = Ok negzero_e' /\
  is_equal negzero_e negzero_e' = false /\ expr_kf_ok negzero_e = false.
Proof. exact negzero_refuted. Qed.
Print Assumptions C13_print_parse_roundtrip_refuted_negative_zero.

(* 1e400 + a  prints as  inf + a  which does not parse *)
Theorem C13_print_parse_roundtrip_refuted_infinity :
  wfn inf_src = true /\ src_ok inf_src = true /\
  parse kcfg kdd (unparse inf_src) = Ok inf_e /\ parse kcfg kdd (to_python inf_e) = Err /\ expr_kf_ok inf_e = false.
Proof. exact inf_refuted. Qed.
Print Assumptions C13_print_parse_roundtrip_refuted_infinity.

(* a.is_in([-1,])  prints as  a.is_in([-1])  which does not parse;  a.is_in([True]) is parsed to the EMPTY list *)
Theorem C13_print_parse_roundtrip_refuted_short_list :
  wfn short_list_src = true /\ src_ok short_list_src = true /\
  parse kcfg kdd (unparse short_list_src) = Ok short_list_e /\ parse kcfg kdd (to_python short_list_e) = Err /\
  expr_kf_ok short_list_e = false /\
  wfn true_list_src = true /\ src_ok true_list_src = true /\
  parse kcfg kdd (unparse true_list_src) = Ok (EOp "is_in" false true None [ECol "a"; EList []]).
Proof. exact short_list_refuted. Qed.
Print Assumptions C13_print_parse_roundtrip_refuted_short_list.

(* (+p)(a, c)  is accepted as the function "+" and prints as  +(a, c)  which does not parse *)
Theorem C13_print_parse_roundtrip_refuted_called_operator :
  wfn called_operator_src = true /\ src_ok called_operator_src = false /\
  parse kcfg kdd (unparse called_operator_src) = Ok called_operator_e /\ expr_kf_ok called_operator_e = true /\
  parse kcfg kdd (to_python called_operator_e) = Err.
Proof. exact called_operator_refuted. Qed.
Print Assumptions C13_print_parse_roundtrip_refuted_called_operator.

(* a.__and__(b)  builds the bitwise expression a & b, whose text the walker rejects *)
Theorem C13_print_parse_roundtrip_refuted_dunder_call :
  wfn dunder_src = true /\ src_ok dunder_src = false /\
  parse kcfg kdd (unparse dunder_src) = Ok dunder_e /\ expr_kf_ok dunder_e = true /\
  parse kcfg kdd (to_python dunder_e) = Err.
Proof. exact dunder_refuted. Qed.
Print Assumptions C13_print_parse_roundtrip_refuted_dunder_call.

(* ------------------------------------------------------------------ non-vacuity *)
(* the guards of every theorem above hold of   not p and -a ** 2 + b.abs() * (c - 1) < 3   with a = 3, b = -2, c = 5,
   p = False: well-formed, parsed to sample_e, printable, both meanings are True *)
Example C13_sample_guards :
  wfn sample_src = true /\ src_ok sample_src = true /\
  parse sample_cfg kdd (unparse sample_src) = Ok sample_e /\ expr_kf_ok sample_e = true /\
  printable sample_cfg kdd sample_e = true /\ is_term sample_e = true /\
  py_meaning concrete_fsem sample_env (strip sample_src) = Some (PBool true) /\
  eval concrete_fsem sample_env sample_e = Some (PBool true).
Proof. exact sample_guards. Qed.

(* left association of -, right association of ** above a unary minus *)
Example C13_sample_trees :
  lark_of [TName "a"; TSym "-"; TName "b"; TSym "-"; TName "c"]
    = Some (LNode "arith_expr" [LNode "var" [LTok (TName "a")]; LTok (TSym "-"); LNode "var" [LTok (TName "b")];
                                LTok (TSym "-"); LNode "var" [LTok (TName "c")]])
  /\ lark_of [TSym "-"; TName "a"; TSym "**"; TName "b"; TSym "**"; TName "c"]
    = Some (LNode "factor" [LTok (TSym "-");
              LNode "power" [LNode "var" [LTok (TName "a")];
                             LNode "power" [LNode "var" [LTok (TName "b")]; LNode "var" [LTok (TName "c")]]]]).
Proof. exact sample_trees. Qed.
