(* C13 -- Expression text is parsed with Python's precedence and meaning.
   Statements about the hand models Model/PyExpr.v (expression objects, tokens), Model/ExprParse.v (lark tree shapes,
   the parser model lark_of, the transcription walk of _walk_lark_tree with the Term methods it reaches),
   Model/ExprSem.v (py_meaning: Python's meaning of a parse tree; eval: the DSL's meaning of an expression object),
   Model/ExprPrint.v (to_python), Model/ExprAst.v (ASTs with explicit parentheses, unparse, strip) and
   Model/ExprRoundtrip.v (printable, src_ok).  They are tied to /repo by correspondence on every run.

   All three parts are proved at full strength for the code as it is since 181daac:
   1. meaning (comparison chains are rejected since 1b8c7b2; before that fix 'a < b < c' was read as (a < b) < c --
      the regression witness is C13_chain_regression);
   2. precedence;
   3. "parse a text, print the result, parse again: an equal tree".  It was false in five ways, repaired by
      a6af5a7 (-0.0 printed with its parentheses), e648ab6 (overflowing float literal rejected), 3753518 (one-item
      and empty list literals) and 181daac (only names can be called; no dunder method in text); the former
      counterexamples are the regression Examples below.  The one remaining premise src_ok is about the lexer, not
      about the library: a NAME token of the source is not the text of an operator symbol. *)
From Coq Require Import List Bool String Ascii ZArith NArith QArith Arith.
Import ListNotations.
From DA Require Import Model.PyExpr Model.ExprPrint Model.ExprParse Model.ExprSem Model.ExprAst Model.ExprRoundtrip
  Proofs.ExprParseP4 Proofs.ExprParseP9 Proofs.ExprParseP19 Proofs.ExprParseP21.
Local Close Scope Q_scope.
Local Open Scope string_scope.
Local Open Scope list_scope.

(* ------------------------------------------------------------------ 1. meaning *)
(* for EVERY lark tree, every set of known names, every column set, every interpretation fsem of the method
   names and every operand assignment: if the walker accepts the tree and Python's reading of the tree has a
   value on the common domain, the expression object evaluates to exactly that value *)
Theorem C13_parse_meaning :
  forall (c : cfg) (dd : list string) (fsem : fsem_t) (en : env) (t : ltree) (e : expr) (v : pval),
  parse_tree c dd t = Ok e -> py_meaning fsem en t = Some v -> eval fsem en e = Some v.
Proof. exact parse_tree_meaning. Qed.
Print Assumptions C13_parse_meaning.

(* the same for the walker proper (sub-trees that are lists / dicts included) *)
Theorem C13_walk_meaning :
  forall (c : cfg) (dd : list string) (fsem : fsem_t) (en : env) (t : ltree) (e : expr) (v : pval),
  walk c dd t = Ok e -> py_meaning fsem en t = Some v -> eval fsem en e = Some v.
Proof. exact walk_meaning. Qed.
Print Assumptions C13_walk_meaning.

(* regression of 1b8c7b2: 'a < b < c' is in the grammar; with a = -3, b = -3, c = 5 Python says False, the
   left-nested object (a < b) < c that the walker used to build says True; the walker now rejects the tree *)
Example C13_chain_regression :
  lark_of chain_toks = Some chain_tree /\
  py_meaning no_fsem chain_env chain_tree = Some (PBool false) /\
  eval no_fsem chain_env chain_expr = Some (PBool true) /\
  parse_tree chain_cfg ["a"; "b"; "c"] chain_tree = Err.
Proof. exact chain_rejected. Qed.

(* ------------------------------------------------------------------ 2. precedence *)
(* for EVERY expression AST of the fragment, in EVERY parenthesisation that respects the grammar's levels
   (necessary and redundant parentheses alike): its text parses to exactly the tree of the AST -- binary operators
   fold to the left within their level, ** to the right and above a unary minus on its left, not / and / or and
   comparisons at their levels, call and attribute trailers, displays *)
Theorem C13_precedence :
  forall d : dtree, wfn d = true -> lark_of (unparse d) = Some (strip d).
Proof. exact lark_of_unparse. Qed.
Print Assumptions C13_precedence.

(* ------------------------------------------------------------------ 3. round trip *)
(* every printable expression object is read back from its own text as the SAME object *)
Theorem C13_printable_roundtrip :
  forall (c : cfg) (dd : list string) (e : expr),
  printable c dd e = true -> is_term e = true ->
  parse c dd (to_python e) = Ok e /\ is_equal e e = true.
Proof. exact printable_roundtrip_eq. Qed.
Print Assumptions C13_printable_roundtrip.

(* whatever the walker builds from the tree of a source AST is printable *)
Theorem C13_parsed_is_printable :
  forall (c : cfg) (dd : list string) (d : dtree) (e : expr),
  wfn d = true -> src_ok d = true -> walk c dd (strip d) = Ok e ->
  printable c dd e = true.
Proof. exact built_printable. Qed.
Print Assumptions C13_parsed_is_printable.

(* parse the text of ANY source AST, print the result, parse again: the same object, is_equal to the first *)
Theorem C13_print_parse_roundtrip :
  forall (c : cfg) (dd : list string) (d : dtree) (e : expr),
  wfn d = true -> src_ok d = true ->
  parse c dd (unparse d) = Ok e ->
  exists e', parse c dd (to_python e) = Ok e' /\ e' = e /\ is_equal e e' = true.
Proof. exact roundtrip_of_source_eq. Qed.
Print Assumptions C13_print_parse_roundtrip.

(* regressions: the former counterexamples of the round trip *)
(* a6af5a7: (-0.0) ** 2  was printed as  -0.0 ** 2  = -(0.0 ** 2); it is printed with its parentheses *)
Example C13_regression_negative_zero :
  wfn negzero_src = true /\ src_ok negzero_src = true /\
  parse kcfg kdd (unparse negzero_src) = Ok negzero_e /\
  to_python negzero_e = [TSym "("; TSym "-"; TFloat (Some 0%Q); TSym ")"; TSym "**"; TInt 2] /\
  parse kcfg kdd (to_python negzero_e) = Ok negzero_e.
Proof. exact negzero_regression. Qed.

(* e648ab6: 1e400 + a  became  inf + a  which does not parse; the literal is rejected *)
Example C13_regression_infinity :
  wfn inf_src = true /\ src_ok inf_src = true /\ parse kcfg kdd (unparse inf_src) = Err.
Proof. exact inf_regression. Qed.

(* 3753518: a.is_in([-1,])  was printed as  a.is_in([-1])  which did not parse;  a.is_in([True])  was parsed to the
   EMPTY list; one-item and empty list literals are read item by item *)
Example C13_regression_short_list :
  wfn short_list_src = true /\ src_ok short_list_src = true /\
  parse kcfg kdd (unparse short_list_src) = Ok short_list_e /\ parse kcfg kdd (to_python short_list_e) = Ok short_list_e /\
  wfn true_list_src = true /\ src_ok true_list_src = true /\
  parse kcfg kdd (unparse true_list_src) = Ok true_list_e /\ parse kcfg kdd (to_python true_list_e) = Ok true_list_e /\
  parse kcfg kdd (unparse empty_list_src) = Ok (EOp "is_in" false true None [ECol "a"; EList []]).
Proof. exact short_list_regression. Qed.

(* 181daac: (+p)(a, c)  was accepted as the function "+", printed  +(a, c);  a.__and__(b)  built  a & b  whose text
   the walker rejects; both texts are rejected *)
Example C13_regression_call_targets :
  wfn called_operator_src = true /\ src_ok called_operator_src = true /\
  parse kcfg kdd (unparse called_operator_src) = Err /\
  wfn dunder_src = true /\ src_ok dunder_src = true /\ parse kcfg kdd (unparse dunder_src) = Err.
Proof. exact call_target_regression. Qed.

(* ------------------------------------------------------------------ non-vacuity *)
(* the guards of every theorem above hold of   not p and -a ** 2 + b.abs() * (c - 1) < 3   with a = 3, b = -2, c = 5,
   p = False: well-formed, parsed to sample_e, printable, both meanings are True *)
Example C13_sample_guards :
  wfn sample_src = true /\ src_ok sample_src = true /\
  parse sample_cfg kdd (unparse sample_src) = Ok sample_e /\
  printable sample_cfg kdd sample_e = true /\ is_term sample_e = true /\
  py_meaning concrete_fsem sample_env (strip sample_src) = Some (PBool true) /\
  eval concrete_fsem sample_env sample_e = Some (PBool true).
Proof. exact sample_guards. Qed.

(* left association of -, right association of ** above a unary minus *)
Example C13_sample_trees :
  lark_of [TName "a"; TSym "-"; TName "b"; TSym "-"; TName "c"]
    = Some (LNode "arith_expr" [LNode "var" [LTok (TName "a")]; LTok (TSym "-"); LNode "var" [LTok (TName "b")];
                                LTok (TSym "-"); LNode "var" [LTok (TName "c")]])
  /\ lark_of [TSym "-"; TName "a"; TSym "**"; TName "b"; TSym "**"; TName "c"]
    = Some (LNode "factor" [LTok (TSym "-");
              LNode "power" [LNode "var" [LTok (TName "a")];
                             LNode "power" [LNode "var" [LTok (TName "b")]; LNode "var" [LTok (TName "c")]]]]).
Proof. exact sample_trees. Qed.
