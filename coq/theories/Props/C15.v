(* C15 -- results do not depend on how tables and columns are named.
   "Consistently renaming the input tables and columns of a pipeline, including to names that the executors or the SQL
    generator use internally, renames the result and changes nothing else, on every backend.  No user table or column can
    be captured, overwritten or dropped by the system's own temporary names."

   Part A: the reference semantics Model/Sem.v (sem_gen <flavour> is what each backend is tied to by correspondence on
   every run) is equivariant under EVERY injective renaming of tables and columns, for every pipeline.  It has no names of
   its own, so names "used internally" are just names there; the theorems hold for them too (exchanges of names are
   injective).
   Part B: the executors DO have names of their own (Model/ScratchNames.v: the Pandas steps that write scratch columns
   into the working frame, transcribed name by name, parametric in the names; WITH-query name resolution for SQL).
   Pandas: since fix c06ea4b the executor chooses its scratch names away from the names in use (code_names transcribes
   _unused_column_name and the join-suffix loop); for every step that refers to existing columns the step with scratch
   columns in the frame equals the step with its scratch values in locals -- nothing is captured, overwritten or dropped,
   WHATEVER the user's columns are called -- and renaming the user's columns renames the step's result
   (C15_pandas_steps_never_capture, C15_pandas_steps_rename_equivariant: the full statement for these steps).  The
   C15_hard_coded_* theorems record why the choice matters: with the bare base names (the code before the fix) a user
   column of that name changes the step; their witnesses are the regression corpus of the check.
   SQL: since fix 161d83f to_sql starts its view counter past every table of the pipeline that is itself named like a view
   (first_view_id transcribes the rule); no view the generator can then produce is one of the tables, so a WITH query
   resolves every name as the generator meant it, whatever the tables are called (C15_generated_view_is_no_table,
   C15_with_query_numbered_no_capture).  C15_view_named_like_table_would_capture records why the rule matters.
   Polars: since fix 85ef226 the scratch names are chosen like the Pandas ones; they are listed in `reserved` and the
   steps are not transcribed (metamorphic oracle and regression corpus only). *)
From Coq Require Import List Bool Arith ZArith String.
Import ListNotations.
From DA Require Import Base.PyRT Base.Val Model.Sem Model.Rename Model.ScratchNames Model.ScratchRename Model.ScratchCases.
From DA Require Import Proofs.RenameP2 Proofs.ScratchP1 Proofs.ScratchP2 Proofs.ScratchP3 Proofs.ScratchP4 Proofs.ScratchP5 Proofs.ScratchP6.

(* ------------------------------------------------------------------ part A *)
Theorem C15_sem_rename_equivariant :
  forall (fl : flavor) (rt rc : string -> string), injective rt -> injective rc ->
  forall (p : op) (e : env),
  sem_gen fl (rename_op rt rc p) (rename_env rt rc e) = option_map (rename_tab rc) (sem_gen fl p e).
Proof. exact sem_rename_equivariant. Qed.
Print Assumptions C15_sem_rename_equivariant.

(* "... and changes nothing else": same rows (values, multiplicities, order), columns renamed *)
Theorem C15_renaming_changes_nothing_else :
  forall (fl : flavor) (rt rc : string -> string), injective rt -> injective rc ->
  forall (p : op) (e : env) (t : table), sem_gen fl p e = Some t ->
  exists t', sem_gen fl (rename_op rt rc p) (rename_env rt rc e) = Some t' /\ cols t' = map rc (cols t) /\ rows t' = rows t.
Proof. exact sem_rename_rows_unchanged. Qed.
Print Assumptions C15_renaming_changes_nothing_else.

(* the check's oracle as a theorem: rename -> evaluate -> rename back = evaluate *)
Theorem C15_rename_evaluate_rename_back :
  forall (fl : flavor) (rt rc tback cback : string -> string),
  (forall n, tback (rt n) = n) -> (forall c, cback (rc c) = c) ->
  forall (p : op) (e : env),
  option_map (rename_tab cback) (sem_gen fl (rename_op rt rc p) (rename_env rt rc e)) = sem_gen fl p e.
Proof. exact sem_rename_evaluate_rename_back. Qed.
Print Assumptions C15_rename_evaluate_rename_back.

(* the declared columns (the builders' bookkeeping) are renamed the same way *)
Theorem C15_declared_columns_are_renamed :
  forall (rt rc : string -> string), injective rc -> forall p : op, column_names (rename_op rt rc p) = map rc (column_names p).
Proof. exact column_names_rename. Qed.
Print Assumptions C15_declared_columns_are_renamed.

(* renamings onto ANY names -- the system's own included -- are covered: exchanging names is injective *)
Theorem C15_name_exchanges_are_injective : forall l : list (string * string), injective (swaps l).
Proof. exact swaps_injective. Qed.
Print Assumptions C15_name_exchanges_are_injective.

(* ------------------------------------------------------------------ part B: Pandas scratch columns *)
(* the executor as it is (it chooses its scratch names): for every step that refers to existing columns, the step with
   scratch columns in the frame equals the step with its scratch values in locals: no user column is captured, overwritten
   or dropped, whatever the columns are called *)
Theorem C15_pandas_steps_never_capture :
  forall (A : Type) (P : prims A) (s : pstep) (f g : frame A),
  NoDup (fcols f) -> NoDup (fcols g) -> step_refers_to_frame s f g -> pexec_code P s f g = plain P s f g.
Proof. exact @pandas_steps_never_capture. Qed.
Print Assumptions C15_pandas_steps_never_capture.

(* ... and consistently renaming the user's columns (to ANY names) renames the step's result and changes nothing else *)
Theorem C15_pandas_steps_rename_equivariant :
  forall (A : Type) (P : prims A) (rho : string -> string), injective rho ->
  forall (s : pstep) (f g : frame A), NoDup (fcols f) -> NoDup (fcols g) -> step_refers_to_frame s f g ->
  pexec_code P (rename_step rho s) (rename_frame rho f) (rename_frame rho g) = option_map (rename_frame rho) (pexec_code P s f g).
Proof. exact @pandas_steps_rename_equivariant. Qed.
Print Assumptions C15_pandas_steps_rename_equivariant.

(* the choice made by _unused_column_name is never one of the names in use (the loop ends: the candidates differ in length) *)
Theorem C15_chosen_scratch_name_is_unused : forall (base : string) (taken : list string), ~ In (unused base taken) taken.
Proof. exact unused_not_in. Qed.
Print Assumptions C15_chosen_scratch_name_is_unused.

(* the general form: for ANY choice of scratch names outside the user's names (frame columns and the names the step
   mentions), shared join columns suffixed injectively: nothing captured *)
Theorem C15_no_capture_when_scratch_names_are_not_user_names :
  forall (A : Type) (P : prims A) (sn : pnames) (s : pstep) (f g : frame A),
  NoDup (fcols f) -> NoDup (fcols g) -> good_names sn s f g -> pexec P sn s f g = plain P s f g.
Proof. exact @step_no_capture. Qed.
Print Assumptions C15_no_capture_when_scratch_names_are_not_user_names.

(* the bare base names are harmless for user names outside the table `reserved` (the guarded statement that held before
   the fix, and the reason the check still compares `reserved` with the source) *)
Theorem C15_no_capture_outside_reserved :
  forall (A : Type) (P : prims A) (s : pstep) (f g : frame A),
  NoDup (fcols f) -> NoDup (fcols g) -> (forall c, In c (user_names s f g) -> is_reserved SColumn c = false) ->
  pexec P hard s f g = plain P s f g.
Proof. exact @hard_no_capture_outside_reserved. Qed.
Print Assumptions C15_no_capture_outside_reserved.

(* the plain steps have no names of their own: they commute with every injective renaming of the user's column names *)
Theorem C15_plain_step_rename_equivariant :
  forall (A : Type) (P : prims A) (rho : string -> string), injective rho ->
  forall (s : pstep) (f g : frame A),
  plain P (rename_step rho s) (rename_frame rho f) (rename_frame rho g) = option_map (rename_frame rho) (plain P s f g).
Proof. exact @plain_equivariant. Qed.
Print Assumptions C15_plain_step_rename_equivariant.

(* why the choice matters: with the bare base names (the executor before fix c06ea4b) a user column of that name changes the
   step -- one witness per class; each is replayed on the real code on every run (corpus/C15) and must no longer fail *)
Local Open Scope string_scope.
Theorem C15_hard_coded_project_ones_would_capture :
  wit (PProject [mksop "s" "sum" (ArgCol "x") []] ["_data_table_temp_col"]) ["_data_table_temp_col"; "x"] [].
Proof. exact project_ones_capture_refuted. Qed.
Print Assumptions C15_hard_coded_project_ones_would_capture.

Theorem C15_hard_coded_project_ones_would_drop_output :
  wit (PProject [mksop "_data_table_temp_col" "sum" (ArgCol "x") []] ["g"]) ["g"; "x"] [].
Proof. exact project_ones_output_dropped_refuted. Qed.
Print Assumptions C15_hard_coded_project_ones_would_drop_output.

Theorem C15_hard_coded_project_const_would_capture :
  wit (PProject [mksop "c" "sum" (ArgVal "2") []] ["data_algebra_project_temp_col_0"]) ["data_algebra_project_temp_col_0"; "x"] [].
Proof. exact project_const_capture_refuted. Qed.
Print Assumptions C15_hard_coded_project_const_would_capture.

Theorem C15_hard_coded_extend_standin_would_capture :
  wit (PWExtend [mksop "s" "sum" (ArgCol "_data_algebra_temp_g") []] ["g"] [] []) ["g"; "_data_algebra_temp_g"] [].
Proof. exact extend_standin_capture_refuted. Qed.
Print Assumptions C15_hard_coded_extend_standin_would_capture.

Theorem C15_hard_coded_extend_orig_index_would_capture :
  wit (PWExtend [mksop "c" "cumsum" (ArgCol "_data_algebra_orig_index") []] ["g"] ["y"] []) ["g"; "_data_algebra_orig_index"; "y"] [].
Proof. exact extend_orig_index_capture_refuted. Qed.
Print Assumptions C15_hard_coded_extend_orig_index_would_capture.

Theorem C15_hard_coded_extend_const_would_capture :
  wit (PWExtend [mksop "c" "cumsum" (ArgVal "2") []] ["g"] ["y"] []) ["g"; "y"; "data_algebra_extend_temp_col_0"] [].
Proof. exact extend_const_capture_refuted. Qed.
Print Assumptions C15_hard_coded_extend_const_would_capture.

Theorem C15_hard_coded_join_merge_key_would_capture :
  wit (PJoin "CROSS" [] false) ["g"; "data_algebra_temp_merge_col"] ["q"].
Proof. exact join_merge_key_capture_refuted. Qed.
Print Assumptions C15_hard_coded_join_merge_key_would_capture.

Theorem C15_hard_coded_join_suffix_would_raise :
  wit (PJoin "LEFT" ["k"] false) ["k"; "x"; "x_tmp_right_col"] ["k"; "x"]
  /\ pexec sym hard (PJoin "LEFT" ["k"] false) (sframe "<L:" ["k"; "x"; "x_tmp_right_col"]) (sframe "<R:" ["k"; "x"]) = None.
Proof. exact join_suffix_capture_refuted. Qed.
Print Assumptions C15_hard_coded_join_suffix_would_raise.

(* ------------------------------------------------------------------ part B: SQL view names *)
(* the numbering rule of to_sql: a view <kind>_<i> with i at or past first_view_id of the pipeline's tables is none of them *)
Theorem C15_generated_view_is_no_table :
  forall (tables : list string) (p : string) (i : nat) (t : string),
  In p view_kinds -> In t tables -> first_view_id tables <= i -> t <> (p ++ dec i)%string.
Proof. exact generated_view_is_no_table. Qed.
Print Assumptions C15_generated_view_is_no_table.

(* hence a generated WITH query resolves every name as the generator meant it -- no guard on the tables' names *)
Theorem C15_with_query_numbered_no_capture :
  forall q : wquery, wq_wellformed q = true -> forallb (generated_view_name (wq_tables q)) (w_ctes q) = true -> captured_refs q = [].
Proof. exact with_query_numbered_no_capture. Qed.
Print Assumptions C15_with_query_numbered_no_capture.

(* the general form: no capture when no table is named like one of the query's views *)
Theorem C15_with_query_no_capture :
  forall q : wquery, wq_wellformed q = true -> (forall n, In n (wq_tables q) -> ~ In n (w_ctes q)) -> captured_refs q = [].
Proof. exact with_no_capture. Qed.
Print Assumptions C15_with_query_no_capture.

(* why the rule matters (the generator before 161d83f numbered from 0): a table called extend_0 under a view extend_0 *)
Theorem C15_view_named_like_table_would_capture :
  exists q, wq_wellformed q = true /\ In "extend_0" (wq_tables q) /\ is_reserved STable "extend_0" = true /\ captured_refs q <> [].
Proof. exact with_view_name_capture_refuted. Qed.
Print Assumptions C15_view_named_like_table_would_capture.

(* ------------------------------------------------------------------ non-vacuity *)
Local Open Scope list_scope.
(* an injective renaming ONTO internal names: g <-> _data_table_temp_col, x <-> x_tmp_right_col, table d <-> extend_0; the
   specification's result is the original result with the columns renamed and nothing else *)
Example C15_rename_onto_internal_names_example :
  let rc := swaps [("g", "_data_table_temp_col"); ("x", "g_tmp_right_col")] in
  let rt := swaps [("d", "extend_0")] in
  let p := OProject (OTable "d" ["g"; "x"]) [("s", EOp "sum" [ECol "x"])] ["g"] in
  let e := [("d", mktable ["g"; "x"] [[VStr "a"; VInt 1%Z]; [VStr "b"; VInt 5%Z]; [VStr "a"; VInt 2%Z]])] in
  (injective rt /\ injective rc)
  /\ rename_op rt rc p = OProject (OTable "extend_0" ["_data_table_temp_col"; "g_tmp_right_col"]) [("s", EOp "sum" [ECol "g_tmp_right_col"])] ["_data_table_temp_col"]
  /\ option_map cols (sem_gen fl_pandas (rename_op rt rc p) (rename_env rt rc e)) = Some ["_data_table_temp_col"; "s"]
  /\ option_map rows (sem_gen fl_pandas (rename_op rt rc p) (rename_env rt rc e)) = option_map rows (sem_gen fl_pandas p e).
Proof. cbv zeta. split; [split; apply swaps_injective|]. repeat split; vm_compute; reflexivity. Qed.

(* the same witnesses on the executor as it is: the user column called like a scratch column is left alone *)
Example C15_code_leaves_the_witness_columns_alone :
  pexec_code sym (PProject [mksop "s" "sum" (ArgCol "x") []] ["_data_table_temp_col"]) (sframe "<L:" ["_data_table_temp_col"; "x"]) (sframe "<R:" [])
  = plain sym (PProject [mksop "s" "sum" (ArgCol "x") []] ["_data_table_temp_col"]) (sframe "<L:" ["_data_table_temp_col"; "x"]) (sframe "<R:" [])
  /\ n_table_temp (code_names ["_data_table_temp_col"; "x"; "s"] []) = "__data_table_temp_col"
  /\ pexec_code sym (PJoin "LEFT" ["k"] false) (sframe "<L:" ["k"; "x"; "x_tmp_right_col"]) (sframe "<R:" ["k"; "x"])
     = plain sym (PJoin "LEFT" ["k"] false) (sframe "<L:" ["k"; "x"; "x_tmp_right_col"]) (sframe "<R:" ["k"; "x"])
  /\ n_right (code_names ["k"; "x"; "x_tmp_right_col"; "k"; "x"] ["k"; "x"]) "x" = "x_tmp_right_col_".
Proof. repeat split; vm_compute; reflexivity. Qed.

(* the numbering rule on the old witness: with a table called extend_0 the first view is extend_1 *)
Example C15_first_view_id_example :
  first_view_id ["extend_0"; "d2"] = 1%nat /\ generated_view_name ["extend_0"; "d2"] "extend_1" = true /\ generated_view_name ["extend_0"; "d2"] "extend_0" = false.
Proof. repeat split; vm_compute; reflexivity. Qed.

(* the guards of the part-B theorems are satisfiable: a step that refers to its frame; ordinary names outside `reserved` *)
Example C15_step_refers_to_frame_example :
  step_refers_to_frame (PWExtend [mksop "c" "cumsum" (ArgCol "x") []] ["g"] ["y"] ["y"]) (sframe "<L:" ["g"; "x"; "y"]) (sframe "<R:" []).
Proof. simpl. intros c H. repeat (destruct H as [<-|H]; [simpl; tauto|]). contradiction. Qed.
Example C15_outside_reserved_example :
  forall c, In c (user_names (PProject [mksop "s" "sum" (ArgCol "x") []] ["g"]) (sframe "<L:" ["g"; "x"]) (sframe "<R:" [])) -> is_reserved SColumn c = false.
Proof. exact outside_reserved_example. Qed.
Example C15_chosen_names_are_good_example :
  forall (A : Type) (s : pstep) (f g : frame A), good_names (fresh (user_names s f g)) s f g.
Proof. intros A s f g. constructor; [apply fresh_good_project|apply fresh_good_wextend|apply fresh_good_join]. Qed.
