(* C16 -- natural_join matches SQL join semantics on every backend.

   "For every join type (inner, left, right, full, cross), every key specification (including differently named keys) and
    every input, each backend's natural_join returns the rows of the corresponding standard SQL join.  That includes
    duplicate keys and null keys, and null keys never match.  Shared non-key columns take the left value, or the right
    value where the left is null."

   Model/JoinSpec.v   the standard SQL join, written from the standard (independent of Model/Sem.v)
   Model/Sem.v        what a backend computes for a join node: sem_join nm ...; nm = "null keys match" is false for the
                      specification and for every backend flavour (true is what a plain pandas.merge would do)
   Model/JoinEmul.v   the executors' own emulations: SQLite RIGHT-as-LEFT, SQLite FULL-as-key-table
   Each model is compared with the real executor on every run (harness/props/C16.py); JoinSpec.v is compared with
   SQLite 3.40's native joins.

   FULL STATEMENT vs the tree.  The statement now holds of every backend: native SQL joins (theorems 1-8), SQLite RIGHT
   rewrite (9), Pandas with its null-key marker (11), Polars (Sem.v under fl_polars).  Found by this check and repaired in
   /repo: SQLite RIGHT key lists (786497c), Pandas CROSS with an empty side (8737d6e), Polars FULL keys (c106ad7, 5c7bd4d),
   Polars shared key names / empty `on` (ad5b72b), Pandas leftover suffixed column (756a9c2), Pandas null keys (af27aca),
   SQLite FULL join on engines >= 3.39 (aad03d8).  What remains REFUTED is the FULL-join emulation that engines older than
   SQLite 3.39 still get (10: rows with a null key collapse; differently named keys assert); the refutations of the old
   behaviours are kept as history (9, 11, 12). *)
From Coq Require Import List Bool Arith ZArith QArith String Permutation.
Import ListNotations.
From DA Require Import Base.PyRT Base.Val Model.Sem Model.JoinSpec Model.JoinEmul
  Proofs.SemBasicP Proofs.JoinP1 Proofs.JoinP2 Proofs.JoinP3 Proofs.JoinP4.
Local Open Scope list_scope.

(* 1. natural_join IS the SQL join: same columns, same rows (even in the same order), all join types, all key specifications
      (same / different names, any number of key columns), all tables -- duplicate keys, null keys, empty tables included *)
Theorem C16_sem_join_is_sql_join :
  forall (on_a on_b : list string) (jt : jointype) (a b : table), List.length on_a = List.length on_b ->
  sem_join false on_a on_b jt a b = sql_join_spec (jt_of jt) (combine on_a on_b) a b.
Proof. exact sem_join_is_spec. Qed.
Print Assumptions C16_sem_join_is_sql_join.

Theorem C16_sem_join_rows_are_the_sql_join_rows :
  forall (on_a on_b : list string) (jt : jointype) (a b : table), List.length on_a = List.length on_b ->
  Permutation (rows (sem_join false on_a on_b jt a b)) (sql_join_rows (jt_of jt) (combine on_a on_b) a b).
Proof. exact sem_join_rows_perm. Qed.
Print Assumptions C16_sem_join_rows_are_the_sql_join_rows.

(* 2. jointype = 'CROSS' (the builder demands on = []) is the cross product *)
Theorem C16_cross_join_is_the_cross_product :
  forall a b : table, sem_join false [] [] JInner a b = sql_join_spec SCross [] a b.
Proof. exact sem_cross_is_spec. Qed.
Print Assumptions C16_cross_join_is_the_cross_product.

(* 3. inside a pipeline, under every flavour of backend conventions that does not match null keys *)
Theorem C16_join_node_is_sql_join_under_every_sql_flavour :
  forall (fl : flavor) (pa pb : op) (on_a on_b : list string) (jt : jointype) (e : env) (ta tb : table),
  f_join_null_match fl = false -> List.length on_a = List.length on_b ->
  sem_gen fl pa e = Some ta -> sem_gen fl pb e = Some tb ->
  sem_gen fl (OJoin pa pb on_a on_b jt) e = Some (sql_join_spec (jt_of jt) (combine on_a on_b) ta tb).
Proof. exact sem_gen_join_is_spec. Qed.
Print Assumptions C16_join_node_is_sql_join_under_every_sql_flavour.

(* 4. duplicate keys: a left row with m partners contributes m rows -- and one NULL-extended row when m = 0 in a LEFT / FULL join *)
Theorem C16_left_row_contributes_one_row_per_partner :
  forall (on_a on_b : list string) (a b : table), List.length on_a = List.length on_b ->
  Permutation (rows (sem_join false on_a on_b JLeft a b)) (flat_map (left_contribution (combine on_a on_b) a b) (rows a))
  /\ Permutation (rows (sem_join false on_a on_b JFull a b))
       (flat_map (left_contribution (combine on_a on_b) a b) (rows a)
        ++ map (fun r2 => select_row (cols a) (cols b) None (Some r2)) (unmatched_right (combine on_a on_b) a b))
  /\ (forall r1, List.length (left_contribution (combine on_a on_b) a b r1)
                 = Nat.max 1 (List.length (partners_of_left (combine on_a on_b) a b r1))).
Proof.
  exact (fun on_a on_b a b L => conj (sem_left_join_by_left_row on_a on_b a b L)
                                     (conj (sem_full_join_by_left_row on_a on_b a b L) (left_contribution_length on_a on_b a b))).
Qed.
Print Assumptions C16_left_row_contributes_one_row_per_partner.

Theorem C16_row_counts :
  forall (on_a on_b : list string) (a b : table), List.length on_a = List.length on_b ->
  let on := combine on_a on_b in
  let m := fun r1 => List.length (partners_of_left on a b r1) in
  List.length (rows (sem_join false on_a on_b JInner a b)) = list_sum (map m (rows a))
  /\ List.length (rows (sem_join false on_a on_b JLeft a b)) = list_sum (map (fun r1 => Nat.max 1 (m r1)) (rows a))
  /\ List.length (rows (sem_join false on_a on_b JRight a b)) = (list_sum (map m (rows a)) + List.length (unmatched_right on a b))%nat
  /\ List.length (rows (sem_join false on_a on_b JFull a b))
     = (list_sum (map (fun r1 => Nat.max 1 (m r1)) (rows a)) + List.length (unmatched_right on a b))%nat.
Proof. exact sem_join_row_counts. Qed.
Print Assumptions C16_row_counts.

(* 5. null keys never match: a key with a null on either side matches nothing, so the row has no partner and appears only
      NULL-extended (in the join types that preserve its side), never joined with a row of the other table *)
Theorem C16_null_keys_never_match :
  (forall ka kb : list val, existsb is_null ka = true \/ existsb is_null kb = true -> keys_match false ka kb = false)
  /\ (forall (on : list (string * string)) (a b : table) (r1 : row), has_null_key (cols a) (map fst on) r1 = true ->
        partners_of_left on a b r1 = [] /\ left_contribution on a b r1 = [select_row (cols a) (cols b) (Some r1) None])
  /\ (forall (on : list (string * string)) (a b : table) (r2 : row), has_null_key (cols b) (map snd on) r2 = true ->
        partners_of_right on a b r2 = [] /\ right_contribution on a b r2 = [select_row (cols a) (cols b) None (Some r2)]).
Proof. exact (conj keys_match_null_never (conj null_key_left_row_alone null_key_right_row_alone)). Qed.
Print Assumptions C16_null_keys_never_match.

(* 6. every result row comes from a matching pair, or from an unmatched row of a preserved side *)
Theorem C16_every_result_row_has_an_origin :
  forall (on_a on_b : list string) (jt : jointype) (a b : table) (r : list val), List.length on_a = List.length on_b ->
  In r (rows (sem_join false on_a on_b jt a b)) ->
  exists o1 o2, r = select_row (cols a) (cols b) o1 o2
    /\ match o1, o2 with
       | Some r1, Some r2 => In r1 (rows a) /\ In r2 (rows b) /\ on_holds (cols a) (cols b) (combine on_a on_b) r1 r2 = true
       | Some r1, None => In r1 (rows a) /\ partners_of_left (combine on_a on_b) a b r1 = [] /\ (jt = JLeft \/ jt = JFull)
       | None, Some r2 => In r2 (rows b) /\ partners_of_right (combine on_a on_b) a b r2 = [] /\ (jt = JRight \/ jt = JFull)
       | None, None => False
       end.
Proof. exact sem_join_row_origin. Qed.
Print Assumptions C16_every_result_row_has_an_origin.

(* 7. a column both tables have takes the left value, or the right value where the left is null (NULL-extended sides read
      as null, so a same-named key column shows the side that exists); the other columns come from their own table *)
Theorem C16_coalesce_left_then_right :
  forall (c1 c2 : list string) (r1 r2 : option row) (c : string),
  (In c c1 -> In c c2 -> get (out_cols c1 c2) (select_row c1 c2 r1 r2) c = (if is_null (cell c1 r1 c) then cell c2 r2 c else cell c1 r1 c))
  /\ (In c c1 -> ~ In c c2 -> get (out_cols c1 c2) (select_row c1 c2 r1 r2) c = cell c1 r1 c)
  /\ (~ In c c1 -> In c c2 -> get (out_cols c1 c2) (select_row c1 c2 r1 r2) c = cell c2 r2 c).
Proof.
  exact (fun c1 c2 r1 r2 c => conj (select_row_shared c1 c2 r1 r2 c) (conj (select_row_left_only c1 c2 r1 r2 c) (select_row_right_only c1 c2 r1 r2 c))).
Qed.
Print Assumptions C16_coalesce_left_then_right.

(* 8. a RIGHT join is the mirrored LEFT join -- sources exchanged, key lists exchanged with them, shared columns coalesced
      second-source-first -- up to the arrangement of columns and rows; for every key specification *)
Theorem C16_right_join_is_mirrored_left_join :
  forall (nm : bool) (on_a on_b : list string) (a b : table),
  Permutation (reorder_rows (mirror_left_join nm on_a on_b a b) (out_cols (cols a) (cols b))) (rows (sem_join nm on_a on_b JRight a b))
  /\ (forall c, In c (cols (mirror_left_join nm on_a on_b a b)) <-> In c (out_cols (cols a) (cols b))).
Proof. exact (fun nm on_a on_b a b => conj (right_join_is_mirrored_left_join nm on_a on_b a b) (mirror_left_join_cols nm on_a on_b a b)). Qed.
Print Assumptions C16_right_join_is_mirrored_left_join.

(* 9. SQLite _emit_right_join_as_left_join (sources AND key lists exchanged, COALESCE second-source-first): the RIGHT join, for
      every key specification.  Exchanging the sources alone -- what the code did before 786497c -- joins on the wrong
      columns (refuted with a witness). *)
Theorem C16_sqlite_right_join_emulation :
  forall (on_a on_b : list string) (a b : table), incl on_a (cols a) -> incl on_b (cols b) ->
  exists t, sqlite_right_emul on_a on_b a b = Some t
            /\ Permutation (reorder_rows t (out_cols (cols a) (cols b))) (rows (sem_join false on_a on_b JRight a b))
            /\ (forall c, In c (cols t) <-> In c (out_cols (cols a) (cols b))).
Proof. exact sqlite_right_emul_is_right_join. Qed.
Print Assumptions C16_sqlite_right_join_emulation.

Theorem C16_mirrored_join_without_exchanging_key_lists_refuted :
  exists on_a on_b a b, List.length on_a = List.length on_b /\ incl on_a (cols a) /\ incl on_b (cols b) /\
    ~ Permutation (reorder_rows (mirror_left_join false on_b on_a a b) (out_cols (cols a) (cols b))) (sql_join_rows SRight (combine on_a on_b) a b).
Proof. exact mirror_without_exchanging_key_lists_refuted. Qed.
Print Assumptions C16_mirrored_join_without_exchanging_key_lists_refuted.

(* 10. SQLite _emit_full_join_as_complex (distinct keys of both sides, LEFT JOIN left, LEFT JOIN right).
       partial: no key contains a NULL (and key values are canonical: equal keys are identical) -> the FULL join: per key,
       m*n / m / n rows.   refuted: with NULL keys the rows carrying them collapse into one row of NULLs. *)
Theorem C16_sqlite_full_join_emulation_partial :
  forall (J : list string) (a b : table),
  J <> [] -> wf_table a -> wf_table b -> incl J (cols a) -> incl J (cols b) ->
  (forall k, In k (map (key_of (cols a) J) (rows a) ++ map (key_of (cols b) J) (rows b)) -> existsb is_null k = false) ->
  (forall k1 k2, In k1 (map (key_of (cols a) J) (rows a) ++ map (key_of (cols b) J) (rows b)) ->
                 In k2 (map (key_of (cols a) J) (rows a) ++ map (key_of (cols b) J) (rows b)) -> keys_eqv k1 k2 = true -> k1 = k2) ->
  exists t, sqlite_full_emul J J a b = Some t
    /\ Permutation (reorder_rows t (out_cols (cols a) (cols b))) (sql_join_rows SFull (combine J J) a b)
    /\ (forall c, In c (cols t) <-> In c (out_cols (cols a) (cols b))).
Proof. exact sqlite_full_emul_partial. Qed.
Print Assumptions C16_sqlite_full_join_emulation_partial.

Theorem C16_sqlite_full_join_emulation_refuted :
  exists J a b t, J <> [] /\ wf_table a /\ wf_table b /\ incl J (cols a) /\ incl J (cols b) /\ sqlite_full_emul J J a b = Some t /\
    ~ Permutation (reorder_rows t (out_cols (cols a) (cols b))) (sql_join_rows SFull (combine J J) a b).
Proof. exact sqlite_full_emul_refuted. Qed.
Print Assumptions C16_sqlite_full_join_emulation_refuted.

Theorem C16_sqlite_full_join_emulation_asserts :
  forall (on_a on_b : list string) (a b : table), on_a = [] \/ on_a <> on_b -> sqlite_full_emul on_a on_b a b = None.
Proof. exact sqlite_full_emul_asserts. Qed.
Print Assumptions C16_sqlite_full_join_emulation_asserts.

(* 11. Pandas: pandas.merge alone matches a null key with a null key; _natural_join_step (since af27aca) adds a marker column
       to the keys exactly when both sides have a row with a null key.  With it the Pandas join IS the SQL join, for every
       input.  The plain merge is kept as history: refuted by one null key on each side, and equal to the SQL join when one
       side has no null key (which is why the marker is needed only then). *)
Theorem C16_pandas_join_is_sql_join :
  forall (on_a on_b : list string) (jt : jointype) (a b : table), List.length on_a = List.length on_b ->
  pandas_join on_a on_b jt a b = sql_join_spec (jt_of jt) (combine on_a on_b) a b.
Proof.
  exact (fun on_a on_b jt a b L => eq_trans (pandas_join_is_sem_join on_a on_b jt a b) (sem_join_is_spec on_a on_b jt a b L)).
Qed.
Print Assumptions C16_pandas_join_is_sql_join.

Theorem C16_markerless_merge_null_keys_match_refuted :
  exists on_a on_b jt a b, List.length on_a = List.length on_b /\
    ~ Permutation (rows (sem_join true on_a on_b jt a b)) (sql_join_rows (jt_of jt) (combine on_a on_b) a b).
Proof. exact markerless_merge_null_keys_refuted. Qed.
Print Assumptions C16_markerless_merge_null_keys_match_refuted.

Theorem C16_markerless_merge_without_null_keys_partial :
  forall (on_a on_b : list string) (jt : jointype) (a b : table), List.length on_a = List.length on_b ->
  no_null_keys (cols a) on_a a \/ no_null_keys (cols b) on_b b ->
  sem_join true on_a on_b jt a b = sql_join_spec (jt_of jt) (combine on_a on_b) a b.
Proof.
  exact (fun on_a on_b jt a b L G => eq_trans (pandas_join_no_null_keys on_a on_b jt a b G) (sem_join_is_spec on_a on_b jt a b L)).
Qed.
Print Assumptions C16_markerless_merge_without_null_keys_partial.

(* 12. a FULL join has to coalesce its key columns as well: keeping the two key columns apart and coalescing only the shared
       non-key columns (the Polars executor before c106ad7) loses the key of every row found only on the right.
       refuted: one unmatched right row.   It is the FULL join exactly when every right row has a partner. *)
Theorem C16_full_join_without_key_coalescing_refuted :
  exists J a b, ~ Permutation (rows (full_join_keys_not_coalesced J a b)) (sql_join_rows SFull (combine J J) a b).
Proof. exact full_join_keys_not_coalesced_refuted. Qed.
Print Assumptions C16_full_join_without_key_coalescing_refuted.

Theorem C16_full_join_without_key_coalescing_partial :
  forall (J : list string) (a b : table), unmatched_right (combine J J) a b = [] ->
  full_join_keys_not_coalesced J a b = sql_join_spec SFull (combine J J) a b.
Proof.
  exact (fun J a b U => eq_trans (keys_not_coalesced_ok_when_every_right_row_matches J a b U) (sem_join_is_spec J J JFull a b eq_refl)).
Qed.
Print Assumptions C16_full_join_without_key_coalescing_partial.

(* ------------------------------------------------------------------ non-vacuity *)
Local Open Scope string_scope.
(* the flavours of theorem 3 *)
Example C16_sql_flavours : map f_join_null_match [fl_spec; fl_pandas; fl_sqlite; fl_postgres; fl_polars] = [false; false; false; false; false].
Proof. reflexivity. Qed.

(* duplicate keys, a null key on each side, differently named keys, a shared non-key column with a null on the left *)
Definition ex_a : table := mktable ["ka"; "x"; "s"] [[VNum 1; VNum 10; VNull]; [VNum 1; VNum 11; VNum 1]; [VNull; VNum 12; VNum 2]; [VNum 2; VNum 13; VNull]].
Definition ex_b : table := mktable ["kb"; "y"; "s"] [[VNum 1; VNum 20; VNum 5]; [VNull; VNum 21; VNum 6]; [VNum 3; VNum 23; VNum 8]].
Example C16_full_join_example :
  rows (sem_join false ["ka"] ["kb"] JFull ex_a ex_b) =
  [ [VNum 1; VNum 10; VNum 5; VNum 1; VNum 20]; [VNum 1; VNum 11; VNum 1; VNum 1; VNum 20];      (* key 1: 2 x 1 rows, s coalesced *)
    [VNull; VNum 12; VNum 2; VNull; VNull]; [VNum 2; VNum 13; VNull; VNull; VNull];              (* left rows without partner (null key, key 2) *)
    [VNull; VNull; VNum 6; VNull; VNum 21]; [VNull; VNull; VNum 8; VNum 3; VNum 23] ].            (* right rows without partner (null key, key 3) *)
Proof. vm_compute. reflexivity. Qed.

(* guards of the partial theorems are satisfiable by joins that are not trivial *)
Definition ex_c : table := mktable ["k"; "x"] [[VNum 1; VNum 10]; [VNum 1; VNum 11]; [VNum 2; VNum 13]].
Definition ex_d : table := mktable ["k"; "y"] [[VNum 1; VNum 20]; [VNum 3; VNum 23]; [VNum 3; VNum 24]].
Example C16_sqlite_full_guard_example :
  (forall k, In k (map (key_of (cols ex_c) ["k"]) (rows ex_c) ++ map (key_of (cols ex_d) ["k"]) (rows ex_d)) -> existsb is_null k = false)
  /\ (forall k1 k2, In k1 (map (key_of (cols ex_c) ["k"]) (rows ex_c) ++ map (key_of (cols ex_d) ["k"]) (rows ex_d)) ->
                    In k2 (map (key_of (cols ex_c) ["k"]) (rows ex_c) ++ map (key_of (cols ex_d) ["k"]) (rows ex_d)) -> keys_eqv k1 k2 = true -> k1 = k2)
  /\ option_map (fun t => List.length (rows t)) (sqlite_full_emul ["k"] ["k"] ex_c ex_d) = Some 5%nat.
Proof.
  split; [|split].
  - vm_compute. intros k H. repeat (destruct H as [<-|H]; [reflexivity|]). destruct H.
  - vm_compute. intros k1 k2 H1 H2.
    repeat (destruct H1 as [<-|H1]; [repeat (destruct H2 as [<-|H2]; [intros E; try reflexivity; discriminate E|]); destruct H2|]). destruct H1.
  - vm_compute. reflexivity.
Qed.
Example C16_pandas_guard_example : no_null_keys (cols ex_c) ["k"] ex_c /\ List.length (rows (sem_join true ["k"] ["k"] JFull ex_c ex_b)) = 6%nat.
Proof.
  split; [|vm_compute; reflexivity]. intros r H. vm_compute in H. repeat (destruct H as [<-|H]; [reflexivity|]). destruct H.
Qed.
Example C16_key_coalescing_guard_example :
  unmatched_right (combine ["k"] ["k"]) ex_c (mktable ["k"; "y"] [[VNum 1; VNum 20]; [VNum 2; VNum 21]]) = []
  /\ List.length (rows (full_join_keys_not_coalesced ["k"] ex_c (mktable ["k"; "y"] [[VNum 1; VNum 20]; [VNum 2; VNum 21]]))) = 3%nat.
Proof. split; vm_compute; reflexivity. Qed.
Example C16_sqlite_right_guard_example :
  option_map (fun t => List.length (rows t)) (sqlite_right_emul ["k"] ["k"] ex_c ex_d) = Some 4%nat.
Proof. vm_compute. reflexivity. Qed.
