(* PEXEC -- placeholder while the proofs are being built *)
From DA Require Import Model.PandasExec.
