(* PEXEC -- the Pandas executor of data_algebra, transcribed step by step, refines the reference semantics.

   Model/PandasExec.v (`pexec_gen srt arr q p e`, `pexec` = the same with the stable sort and the left-major inner merge) transcribes every `_*_step` of
   /repo/data_algebra/pandas_base.py over the hand models of the pandas primitives it calls (Model/PdPrim.v).  The trusted
   boundary of "Pandas computes sem_gen fl_pandas" moves from the whole executor to those primitives, to scalar expression
   evaluation (Sem.eval_expr fl_pandas) and to the window / aggregate functions (Sem.win_fn / agg_fn fl_pandas).

   srt is the sorting routine behind DataFrame.sort_values: the theorems hold for EVERY routine that returns a sorted permutation
   (sorter_ok) -- pandas' single-key sort is not stable.  arr is the order in which pandas.merge lists the rows of an INNER join: the
   theorems hold for EVERY rearrangement (arranger_ok: a permutation) -- pandas 3 runs a hash join there.  q records whether table_is_keyed_by_columns groups with dropna=True.
   wf_op_b p is what the builders guarantee (Model/PandasExec.v); total_orders / exact_group_keys are C18's premises (a window
   running an order-sensitive function orders each partition strictly, a limited order_rows is total, group keys have one
   representation per value), decidable by Model/PermGuard.perm_guard_b. *)
From Coq Require Import List Bool Arith ZArith QArith String Permutation.
Import ListNotations.
From DA Require Import Base.PyRT Base.Val Model.Sem Model.PdPrim Model.PandasExec Model.PermGuard
  Proofs.SemBasicP Proofs.SemOrderP Proofs.PermP3 Proofs.PermP4 Proofs.ComposeP5
  Proofs.PandasExecP1 Proofs.PandasExecP2 Proofs.PandasExecP3 Proofs.PandasExecP4 Proofs.PandasExecP5 Proofs.PandasExecP6
  Proofs.PandasExecP7 Proofs.PandasExecP8 Proofs.PandasExecP9 Proofs.PandasExecEx.
Local Open Scope string_scope.
Local Open Scope list_scope.

(* ---------------------------------------------------------------- the pipeline theorem (all eleven step kinds) *)
(* Whenever the transcribed executor returns a frame t, the reference semantics under the Pandas conventions is defined, t has
   exactly its columns (as a set; they are pairwise distinct), and the rows of t, read BY NAME in the reference column order, are a
   permutation of the reference rows.  Column ORDER and row ORDER are not claimed: they differ (see the _refuted witnesses). *)
(* strengthens: the Pandas side ("Pandas computes sem_gen fl_pandas", until now tied by correspondence only) of Props/C01.v (SQLite = Pandas), C02.v (PostgreSQL = Pandas), C03.v (Polars = Pandas), C09.v (one row per group),
   C16.v (join = SQL join), C18.v (row-order independence), C27.v (window functions): every statement there about sem_gen fl_pandas now holds, up
   to column order and row order, for the transcribed executor over the modelled pandas primitives *)
Theorem PEXEC_refines_sem : forall (srt : sorter) (arr : arranger) (q : pquirks) (p : op) (e : env) (t : table),
  sorter_ok srt -> arranger_ok arr -> wf_op_b p = true -> total_orders fl_pandas p e -> exact_group_keys fl_pandas p e ->
  pexec_gen srt arr q p e = Some t ->
  exists t', sem_gen fl_pandas p e = Some t' /\ (forall c, In c (cols t) <-> In c (cols t')) /\ NoDup (cols t') /\
             Permutation (rows (sem_select_cols (cols t') t)) (rows t').
Proof. exact pexec_refines_sem_cells. Qed.
Print Assumptions PEXEC_refines_sem.

(* the same for the executor the correspondence runs (stable sort), with the premises as the computable check of Model/PermGuard.v *)
(* strengthens: the same properties, in the form their correspondences can evaluate (C18.v's computable premise perm_guard_b) *)
Theorem PEXEC_refines_sem_checked : forall (q : pquirks) (p : op) (e : env) (t : table),
  wf_op_b p = true -> perm_guard_b fl_pandas p e = true -> pexec q p e = Some t ->
  exists t', sem_gen fl_pandas p e = Some t' /\ (forall c, In c (cols t) <-> In c (cols t')) /\ NoDup (cols t') /\
             Permutation (rows (sem_select_cols (cols t') t)) (rows t').
Proof.
  exact (fun q p e t W G H => pexec_refines_sem_cells stable_sorter id_arranger q p e t stable_sorter_ok id_arranger_ok W
           (proj1 (perm_guard_b_sound fl_pandas p e G)) (proj2 (perm_guard_b_sound fl_pandas p e G)) H).
Qed.
Print Assumptions PEXEC_refines_sem_checked.

(* the refinement relation itself (row-for-row equal cells against a table with the reference columns and a permutation of the
   reference rows), as used by the induction; coordinators can chain it with `refines_trans` *)
(* strengthens: the same; the relation C01.v / C16.v / C18.v can chain with their own tab_eqv / Permutation lemmas (ComposeP5, PermP1-4) *)
Theorem PEXEC_refines_relation : forall (srt : sorter) (arr : arranger) (q : pquirks) (p : op) (e : env) (t : table),
  sorter_ok srt -> arranger_ok arr -> wf_op_b p = true -> total_orders fl_pandas p e -> exact_group_keys fl_pandas p e ->
  pexec_gen srt arr q p e = Some t ->
  exists t', sem_gen fl_pandas p e = Some t' /\ refines t t' /\ width_ok t.
Proof. exact pexec_refines_sem. Qed.
Print Assumptions PEXEC_refines_relation.

(* ---------------------------------------------------------------- one refinement lemma per step kind *)
(* steps that are the reference operator itself *)
(* strengthens: C01.v, C08.v (per-operator: the table step IS sem_select_cols, columns in the declared order) *)
Theorem PEXEC_table_step_exact : forall cs df u, px_table cs df = Some u -> u = sem_select_cols cs df.
Proof. exact px_table_exact. Qed.
Print Assumptions PEXEC_table_step_exact.
(* strengthens: C01.v, C18.v (row filter keeps the row order) *)
Theorem PEXEC_select_rows_step_exact : forall x t u, px_select_rows x t = Some u -> u = sem_select_rows fl_pandas x t.
Proof. exact px_select_rows_exact. Qed.
Print Assumptions PEXEC_select_rows_step_exact.
(* strengthens: C01.v, C08.v *)
Theorem PEXEC_select_columns_step_exact : forall cs t u, px_select_cols cs t = Some u -> u = sem_select_cols cs t.
Proof. exact px_select_cols_exact. Qed.
Print Assumptions PEXEC_select_columns_step_exact.
(* strengthens: C01.v, C08.v *)
Theorem PEXEC_drop_columns_step_exact : forall ds t u, px_drop_cols ds t = Some u -> u = sem_drop_cols ds t.
Proof. exact px_drop_cols_exact. Qed.
Print Assumptions PEXEC_drop_columns_step_exact.
(* strengthens: C01.v, C08.v, C15.v *)
Theorem PEXEC_rename_columns_step_exact : forall m t u, px_rename m t = Some u -> u = sem_rename m t.
Proof. exact px_rename_exact. Qed.
Print Assumptions PEXEC_rename_columns_step_exact.
(* strengthens: C01.v, C08.v, C15.v *)
Theorem PEXEC_map_columns_step_exact : forall m dels t u,
  NoDup (cols (sem_rename m t)) -> width_ok t -> px_map_cols m dels t = Some u -> u = sem_drop_cols dels (sem_rename m t).
Proof. exact px_map_cols_exact. Qed.
Print Assumptions PEXEC_map_columns_step_exact.
(* order_rows: with the stable sort it IS sem_order; with any sorting routine the same columns and a permutation of the reference rows,
   the same list as soon as the order is total on the data *)
(* strengthens: C18.v (order_rows sorts and limits: the Pandas step with a stable sort IS sem_order) *)
Theorem PEXEC_order_rows_step_exact : forall cs rev lim t u,
  subset cs (cols t) = true -> px_order stable_sorter cs rev lim t = Some u -> u = sem_order fl_pandas cs rev lim t.
Proof. exact px_order_exact. Qed.
Print Assumptions PEXEC_order_rows_step_exact.
(* strengthens: C18.v (with pandas' unstable single-key sort: same rows, the same list when the order is total) *)
Theorem PEXEC_order_rows_step_refines : forall srt cs rev lim t u, sorter_ok srt ->
  (lim <> None -> total_on fl_pandas (cols t) (map (fun c => (c, mem c rev)) cs) (rows t)) ->
  px_order srt cs rev lim t = Some u ->
  cols u = cols (sem_order fl_pandas cs rev lim t) /\ Permutation (rows u) (rows (sem_order fl_pandas cs rev lim t)).
Proof. exact (fun srt cs rev lim t u So => px_order_refines srt So cs rev lim t u). Qed.
Print Assumptions PEXEC_order_rows_step_refines.
(* concat_rows (id column, an empty side returned as it is): the reference table up to column order *)
(* strengthens: C01.v, C08.v (concat_rows incl. id column and empty sides, up to column order) *)
Theorem PEXEC_concat_rows_step_refines : forall idc an bn l r u,
  (forall c, In c (cols l) <-> In c (cols r)) -> (forall c, idc = Some c -> ~ In c (cols l)) -> width_ok l -> width_ok r ->
  px_concat idc an bn l r = Some u -> tab_eqv u (sem_concat idc an bn l r).
Proof. exact px_concat_eqv. Qed.
Print Assumptions PEXEC_concat_rows_step_refines.
(* non-windowed extend: both column-copy paths of add_data_frame_columns_to_data_frame_ *)
(* strengthens: C01.v, C08.v (non-windowed extend; both column-copy paths) *)
Theorem PEXEC_extend_step_refines : forall ops t u,
  (0 < nrows t)%nat -> ops <> [] -> NoDup (map fst ops) -> width_ok t ->
  px_extend_plain ops t = Some u -> tab_eqv u (sem_extend fl_pandas ops t) /\ width_ok u.
Proof. exact px_extend_plain_eqv. Qed.
Print Assumptions PEXEC_extend_step_refines.
(* windowed extend: the real algorithm (sub-frame, original index, sort by partition + order + value columns, group, transform, sort
   back, copy out), for every sorting routine *)
(* strengthens: C27.v (window functions per ordered partition: the executor's sort / group / transform / sort-back algorithm computes sem_wextend), C18.v
   (exactly its total-order premise is needed), C08.v (columns without any data premise) *)
Theorem PEXEC_window_step_refines : forall srt ops w t x cs0,
  sorter_ok srt -> width_ok t -> (forall c, In c (cols t) <-> In c cs0) -> (0 < nrows t)%nat ->
  nodup_names (map fst ops) = true -> ops <> [] ->
  disjointb (map fst ops) (w_part w ++ w_order w) = true -> subset (w_part w ++ w_order w) cs0 = true ->
  nodup_names (w_part w ++ w_order w) = true ->
  forallb (win_ok_b cs0 (map fst ops)) ops = true ->
  px_extend_windowed srt ops w t = Some x ->
  width_ok x /\ (forall c, In c (cols x) <-> In c (ext_cols (cols t) (map fst ops))) /\
  ((ops_order_sensitive ops = true -> window_total fl_pandas (cols t) w (rows t)) -> tab_eqv x (sem_wextend fl_pandas ops w t)).
Proof. exact px_extend_windowed_eqv. Qed.
Print Assumptions PEXEC_window_step_refines.
(* project: scratch column of ones, stand-ins for constants, groupby(dropna=False), reset_index, empty-input cases, keyed check *)
(* strengthens: C09.v (one row per group / one row without grouping: the executor's groupby(dropna=False) + scratch column of ones), C01.v *)
Theorem PEXEC_project_step_refines : forall q ops gb t u,
  width_ok t -> (forall g, In g gb -> In g (cols t)) -> (forall ke, In ke ops -> agg_ok (cols t) (snd ke)) ->
  (ops <> [] \/ gb <> []) ->
  px_project q ops gb t = Some u -> refines u (sem_project fl_pandas ops gb t) /\ width_ok u.
Proof. exact px_project_refines. Qed.
Print Assumptions PEXEC_project_step_refines.
(* natural_join: suffix, scratch key for an empty `on` (also CROSS), the null-key marker (since /repo af27aca null keys match
   nothing), merge (an inner merge lists its rows in any order), the coalescing loop over every suffixed copy merge produced (since
   756a9c2), dropped scratch columns *)
(* strengthens: C16.v (natural_join = SQL join on Pandas: merge + null-key marker + coalescing loop refine sem_join false, i.e. null keys never match), C01.v *)
Theorem PEXEC_join_step_refines : forall arr declared on_a on_b jt l r x,
  arranger_ok arr -> width_ok l -> width_ok r ->
  (forall c, In c on_a -> In c (cols l)) -> (forall c, In c on_b -> In c (cols r)) -> List.length on_a = List.length on_b ->
  (forall c, In c declared <-> In c (cols l ++ filter (fun c => negb (mem c (cols l))) (cols r))) ->
  px_join_with arr declared on_a on_b jt l r = Some x -> refines x (sem_join false on_a on_b jt l r) /\ width_ok x.
Proof. exact px_join_with_refines. Qed.
Print Assumptions PEXEC_join_step_refines.

(* ---------------------------------------------------------------- no scratch column survives *)
(* no premise on the data: whatever the executor returns has exactly the declared columns (every scratch column it added is gone) *)
(* strengthens: C08.v (result columns are exactly the declared ones: now for the executor's own scratch columns, without premise on the data),
   C15.v part B (no scratch column is left behind), C16.v (no <col>_tmp_right_col / merge key / null-key marker survives a join) *)
Theorem PEXEC_no_scratch_column_survives : forall (srt : sorter) (arr : arranger) (q : pquirks) (p : op) (e : env) (t : table),
  sorter_ok srt -> arranger_ok arr -> wf_op_b p = true -> pexec_gen srt arr q p e = Some t ->
  (forall c, In c (cols t) <-> In c (column_names p)) /\ width_ok t.
Proof. exact (fun srt arr q p e t So Ao W H => pexec_shape srt arr q p So Ao e t W H). Qed.
Print Assumptions PEXEC_no_scratch_column_survives.
(* ---------------------------------------------------------------- the chosen scratch names never capture a user column *)
(* since /repo c06ea4b: _unused_column_name returns none of the names in use, the join suffix makes no suffixed shared name a name in
   use; consequently the scratch columns of the three steps are new names (and the stand-ins for constants too) *)
(* strengthens: C15.v part B (Model/ScratchNames.v: the scratch names are chosen away from every user column; here for the names as the
   transcribed steps compute them, incl. the null-key marker of /repo af27aca) *)
Theorem PEXEC_scratch_names_never_capture :
  (forall base taken, ~ In (unused_column_name base taken) taken) /\
  (forall common names c, In c common -> ~ In (sapp c (right_suffix common names)) names) /\
  (forall (ops : list (string * expr)) (res : table),
     let names0 := set_union (cols res) (map fst ops) in
     let standin := unused_column_name base_standin names0 in
     let orig := unused_column_name base_orig_index (names0 ++ [standin]) in
     (~ In standin (cols res) /\ ~ In standin (map fst ops)) /\ (~ In orig (cols res) /\ ~ In orig (map fst ops)) /\ orig <> standin) /\
  (forall st ke st', wcollect st ke = Some st' ->
     ws_temps st' = ws_temps st \/ exists v name, ws_temps st' = ws_temps st ++ [(v, name)] /\ ~ In name (ws_names st) /\ ws_names st' = ws_names st ++ [name]) /\
  (forall (ops : list (string * expr)) (res : table),
     let temp := unused_column_name base_project_temp (set_union (cols res) (map fst ops)) in ~ In temp (cols res) /\ ~ In temp (map fst ops)) /\
  (forall st ke st', pcollect st ke = Some st' ->
     ps_temps st' = ps_temps st \/ exists v name, ps_temps st' = ps_temps st ++ [(v, name)] /\ ~ In name (ps_names st) /\ ps_names st' = ps_names st ++ [name]) /\
  (forall (left right : table),
     let names := set_union (cols left) (cols right) in
     let common := set_inter (cols left) (cols right) in
     (forall c, In c common -> ~ In (sapp c (right_suffix common names)) (cols left) /\ ~ In (sapp c (right_suffix common names)) (cols right)) /\
     (~ In (unused_column_name base_merge_col names) (cols left) /\ ~ In (unused_column_name base_merge_col names) (cols right)) /\
     (~ In (unused_column_name base_null_key names) (cols left) /\ ~ In (unused_column_name base_null_key names) (cols right))).
Proof.
  exact (conj unused_column_name_fresh (conj right_suffix_fresh (conj extend_scratch_fresh (conj wcollect_fresh
        (conj project_scratch_fresh (conj pcollect_fresh join_scratch_fresh)))))).
Qed.
Print Assumptions PEXEC_scratch_names_never_capture.

(* ---------------------------------------------------------------- join: shared columns are COALESCE(left, right) *)
(* strengthens: C16.v ("shared non-key columns take the left value, or the right value where the left is null", cell by cell for the executor) *)
Theorem PEXEC_join_coalesce : forall arr declared on_a on_b jt l r x,
  arranger_ok arr -> width_ok l -> width_ok r ->
  (forall c, In c on_a -> In c (cols l)) -> (forall c, In c on_b -> In c (cols r)) -> List.length on_a = List.length on_b ->
  (forall c, In c declared <-> In c (cols l ++ filter (fun c => negb (mem c (cols l))) (cols r))) ->
  px_join_with arr declared on_a on_b jt l r = Some x ->
  forall row, In row (rows x) ->
    exists p, In p (sem_pairs (join_match false (cols l) (cols r) on_a on_b) (how_of jt) (rows l) (rows r)) /\
              (forall ra, fst p = Some ra -> In ra (rows l)) /\ (forall rb, snd p = Some rb -> In rb (rows r)) /\
              (forall ra rb, fst p = Some ra -> snd p = Some rb ->
                 keys_match false (key_of (cols l) on_a ra) (key_of (cols r) on_b rb) = true) /\
              forall c, In c (cols l) \/ In c (cols r) ->
                get (cols x) row c
                = (let va := match fst p with Some r0 => if mem c (cols l) then get (cols l) r0 c else VNull | None => VNull end in
                   let vb := match snd p with Some r0 => if mem c (cols r) then get (cols r) r0 c else VNull | None => VNull end in
                   if is_null va then vb else va).
Proof. exact join_coalesce. Qed.
Print Assumptions PEXEC_join_coalesce.

(* ---------------------------------------------------------------- where the transcription differs from sem_gen fl_pandas *)
(* findings about Model/Sem.v as a MODEL of the Pandas executor (its correspondence compares rows as a multiset and columns as a set,
   which is all it is right about): *)
(* 1. row order: pandas lists the groups of a project in sorted key order (and interleaves unmatched rows of a left / right join) *)
(* strengthens: C18.v / C01.v (why their correspondences compare rows as a multiset unless the pipeline ends in order_rows) *)
Theorem PEXEC_exact_row_order_refuted :
  exists p e t t', wf_op_b p = true /\ perm_guard_b fl_pandas p e = true /\ pexec q_code p e = Some t /\ sem_gen fl_pandas p e = Some t' /\
                   cols t = cols t' /\ rows t <> rows t'.
Proof. exact exact_row_order_refuted. Qed.
Print Assumptions PEXEC_exact_row_order_refuted.
(* 2. column order: an extend assigning more than half as many columns as the frame has moves an overwritten column to the end *)
(* strengthens: C08.v (the declared ORDER of columns is not what the Pandas executor returns after such an extend; the SQLite backend returns the
   same order as Pandas: a finding about column_names as a model of the result order, not about the executors) *)
Theorem PEXEC_exact_column_order_refuted :
  exists p e t t', wf_op_b p = true /\ perm_guard_b fl_pandas p e = true /\ pexec q_code p e = Some t /\ sem_gen fl_pandas p e = Some t' /\ cols t <> cols t'.
Proof. exact exact_column_order_refuted. Qed.
Print Assumptions PEXEC_exact_column_order_refuted.
(* 3. the window premise is needed: rows tying on the order columns are taken in the order of their VALUE columns by the executor
      (it sorts the sub-frame by partition + order + value columns), in frame order by Sem.v *)
(* strengthens: C18.v, C27.v (their total-order premise cannot be dropped for the Pandas executor) *)
Theorem PEXEC_window_order_premise_refuted :
  exists p e t t', wf_op_b p = true /\ exact_keys_b fl_pandas p e = true /\ total_orders_b fl_pandas p e = false /\
                   pexec q_code p e = Some t /\ sem_gen fl_pandas p e = Some t' /\ ~ refines t t'.
Proof. exact window_premise_refuted. Qed.
Print Assumptions PEXEC_window_order_premise_refuted.
(* a finding about the CODE, fixed by /repo db5bdc2: with table_is_keyed_by_columns grouping with pandas' default dropna=True the
   executor raised where the semantics is defined (every group key of a project contains a null); with dropna=False (the code now)
   it returns the reference table *)
(* strengthens: C09.v (a grouped project must return a row per group also when every key contains a null: fixed by /repo db5bdc2) *)
Theorem PEXEC_project_keyed_check_history_refuted :
  exists p e t', wf_op_b p = true /\ perm_guard_b fl_pandas p e = true /\ sem_gen fl_pandas p e = Some t' /\
                 pexec q_before_db5bdc2 p e = None /\ pexec q_code p e = Some t'.
Proof. exact project_keyed_check_refuted. Qed.
Print Assumptions PEXEC_project_keyed_check_history_refuted.

(* the two join repairs in /repo (756a9c2: every suffixed copy is folded back; af27aca: null keys match nothing) as executed by the
   transcription: the former finding C16-pandas-overlap-leftover-column is gone, and a FULL join of tables that both have a null
   key keeps those rows apart *)
Example PEXEC_join_overlap_now_clean :
  wf_op_b ex_overlap = true /\
  pexec q_code ex_overlap ex_overlap_env = Some (mktable ["p"; "a"; "q"; "b"] [[n 1; n 10; n 1; n 5]]) /\
  sem_gen fl_pandas ex_overlap ex_overlap_env = Some (mktable ["p"; "a"; "q"; "b"] [[n 1; n 10; n 1; n 5]]).
Proof. exact overlap_now_clean. Qed.
Example PEXEC_null_keys_never_match :
  wf_op_b ex_nulljoin = true /\
  pexec q_code ex_nulljoin ex_nulljoin_env = Some (mktable ["k"; "a"; "b"] [[n 2; n 3; n 7]; [VNull; VNull; n 5]; [VNull; n 1; VNull]]) /\
  sem_gen fl_pandas ex_nulljoin ex_nulljoin_env = Some (mktable ["k"; "a"; "b"] [[n 2; n 3; n 7]; [VNull; n 1; VNull]; [VNull; VNull; n 5]]).
Proof. exact null_keys_never_match. Qed.

(* ---------------------------------------------------------------- the premises are satisfiable *)
Example PEXEC_premises_satisfiable :
  wf_op_b ex_all = true /\ perm_guard_b fl_pandas ex_all ex_all_env = true /\
  pexec q_code ex_all ex_all_env = Some (mktable ["k"; "s"; "m"; "z"] [[n 2; n 7; n 3; n 1]; [n 1; n 8; n 4; n 1]]).
Proof. exact ex_all_premises. Qed.
Example PEXEC_sorter_exists : sorter_ok stable_sorter.
Proof. exact stable_sorter_ok. Qed.
Example PEXEC_arranger_exists : arranger_ok id_arranger.
Proof. exact id_arranger_ok. Qed.
