(* C04 -- SQL formatting and optimisation options never change query results.
   FULL STATEMENT (property text): for every pipeline, dialect and input, the SQL produced under any combination of
   use_with, use_cte_elim, annotate, initial_commas, sql_indent and "the dialect merges compatible extend steps" returns the
   same table.

   What is proved, about the hand models of near_sql.py / sql_model.py (Model/NearSql.v, WithForm.v, SqlMerge.v, Render.v;
   tied to the code on every run by comparing the real NearSQL object graphs, WITH lists, caches and SQL text):
   * for EVERY compositional SQL engine (any meaning of one SELECT given the meanings of its sub-queries; a name denotes what
     it is bound to): the WITH form denotes what the nested form denotes (use_with), and so does the WITH form built with the
     common-table-expression cache (use_cte_elim) WHENEVER equal cache keys name equal sub-queries (`cache_sound`);
   * `cache_sound` was FALSE for the keys the code built when this check was written (flags code_as_found): ..._refuted exhibit
     two reachable NearSQL states on which CTE elimination changes the result.  Both were repaired in /repo (0184359: an
     ops_key of None is never cached; efc7e6f: a merged extend is keyed as the outer extend), flags code_repaired; the
     refutations stay as regression statements about the old behaviour, and the check reads the flags off the code at run time.
     For the repaired keys the invariant is still a guard in general (`_partial`): it is a statement about the whole generator
     (to_near_sql is not modelled) and, for shared sub-pipelines that contain a join, about the engine (fresh operand aliases
     occur in the join's text).  C04_cte_elim_preserves_decidable_guard replaces it by a DECIDABLE condition on the NearSQL
     graph -- equal keys name sub-queries that are equal up to step names -- which the check evaluates on every real graph;
   * annotate / initial_commas / sql_indent leave the token stream of the text unchanged, and every comment the generator
     writes ends at the newline written after it (C14's theorem about the regenerated _clean_annotation);
   * the SQL-level extend merge: whenever the code's test passes, the merged SELECT denotes column for column what the two
     nested SELECTs denote (expressions = arbitrary functions of the columns named by their declared dependencies);
     `_partial`: one merge step (the whole generator to_near_sql is not modelled; the check compares the merged graph the real
     generator produces with the model's merge of the unmerged graph on every run), and when the test RAISES instead of
     deciding (KeyError after select_columns / drop_columns narrowed the sub-query: found by this check, repaired in /repo by
     05d5f06; model switch f_merge_skips_missing) nothing is claimed. *)
From Coq Require Import List Bool Arith String Ascii ZArith.
Import ListNotations.
From DA Require Import Base.PyRT Base.PyStr Model.Lex Model.NearSql Model.WithForm Model.SqlMerge Model.Render
  Model.CacheSound
  Proofs.WithFormP1 Proofs.WithFormP2 Proofs.WithFormP3 Proofs.WithFormP4 Proofs.WithFormP5 Proofs.SqlMergeP Proofs.RenderP1.
Local Open Scope string_scope.
Local Open Scope list_scope.

(* use_with: the WITH list (steps bound left to right) denotes what the nested query denotes *)
Theorem C04_with_form_preserves :
  forall (T : Type) (E : engine T) (fl : flags) (q : nearsql) (r : env T),
  hygienic q = true -> nsem_with E r (fst (to_with_form fl None q)) = nsem E r q None.
Proof. exact with_form_preserves. Qed.
Print Assumptions C04_with_form_preserves.

(* the same statement with the common table expressions substituted back: inlining the WITH form gives a query that denotes
   what the original nested query denotes *)
Theorem C04_with_form_inlined_preserves :
  forall (T : Type) (E : engine T) (fl : flags) (q : nearsql) (r : env T),
  hygienic q = true -> nsem E r (inline_ctes (fst (to_with_form fl None q))) None = nsem E r q None.
Proof. exact with_form_inlined_preserves. Qed.
Print Assumptions C04_with_form_inlined_preserves.

(* use_cte_elim: the same with the cache, under the invariant that equal cache keys name equal sub-queries *)
Theorem C04_cte_elim_preserves_partial :
  forall (T : Type) (E : engine T) (fl : flags) (q : nearsql) (r : env T),
  hygienic q = true -> cache_sound E fl q ->
  nsem_with E r (fst (to_with_form fl (Some []) q)) = nsem E r q None.
Proof. exact cte_elim_preserves. Qed.
Print Assumptions C04_cte_elim_preserves_partial.

(* the same with a decidable guard, for every engine: equal cache keys name sub-queries that are equal up to the names of
   their steps, narrow to the same columns, and do not contain their own key (Model/CacheSound.v) *)
Theorem C04_cte_elim_preserves_decidable_guard :
  forall (T : Type) (E : engine T) (fl : flags) (q : nearsql) (r : env T),
  hygienic q = true -> cache_sound_dec fl q = true ->
  nsem_with E r (fst (to_with_form fl (Some []) q)) = nsem E r q None.
Proof. exact cte_elim_preserves_dec. Qed.
Print Assumptions C04_cte_elim_preserves_decidable_guard.

(* ... and WITHOUT the invariant it fails, on a state the generator reaches (merge_tree = the SQL-level extend merge replayed
   on the unmerged graph): a merged extend keeps the ops_key of the step it was merged into *)
Theorem C04_cte_elim_preserves_refuted :
  exists (T : Type) (E : engine T) (q : nearsql) (r : env T),
    hygienic q = true /\ (exists u, merge_tree code_as_found u = Some q) /\
    nsem_with E r (fst (to_with_form code_as_found (Some []) q)) <> nsem E r q None.
Proof. exact cte_elim_preserves_refuted. Qed.
Print Assumptions C04_cte_elim_preserves_refuted.

(* ... and on two raw query steps (ops_key None becomes the text "None") *)
Theorem C04_cte_elim_preserves_refuted_none_key :
  exists (T : Type) (E : engine T) (q : nearsql) (r : env T),
    hygienic q = true /\ nsem_with E r (fst (to_with_form code_as_found (Some []) q)) <> nsem E r q None.
Proof. exact cte_elim_preserves_refuted_none_key. Qed.
Print Assumptions C04_cte_elim_preserves_refuted_none_key.

(* the keys the code builds are not sound: same key, different tables *)
Theorem C04_cache_keys_sound_refuted :
  exists c1 c2 k, In c1 (conts (w_merged code_as_found)) /\ In c2 (conts (w_merged code_as_found)) /\
    ckey code_as_found c1 = Some k /\ ckey code_as_found c2 = Some k /\ csem toy toy_db c1 <> csem toy toy_db c2.
Proof. exact w_keys_collide. Qed.
Print Assumptions C04_cache_keys_sound_refuted.

(* annotate, initial_commas, sql_indent: same token stream *)
Theorem C04_render_tokens_invariant :
  forall (d : dialect) (fl : flags) (o1 o2 : opts) (q : nearsql),
  use_with o1 = use_with o2 -> use_cte_elim o1 = use_cte_elim o2 ->
  toks o1 (to_sql_blocks d fl o1 q) = toks o2 (to_sql_blocks d fl o2 q).
Proof. exact render_tokens_invariant. Qed.
Print Assumptions C04_render_tokens_invariant.

(* every comment in the generated text is the last item of its line and is skipped up to exactly the newline after it
   (annotation comments: whatever the annotation contains; the preamble: when the dialect description has no end of line) *)
Theorem C04_comments_are_inert :
  forall (o : opts) (bs : list block) (l : list item) (s rest : string),
  In l (sql_lines o bs) -> In (IComment s) l ->
  (forall b h, In b bs -> b_c b = BHeader h -> has_char is_eol h = false /\ exists h', h = String "-" (String "-" h')) ->
  (exists pre, l = pre ++ [IComment s]) /\ skip_comment (String.append s (String "010"%char rest)) = Some rest.
Proof. exact comments_are_inert. Qed.
Print Assumptions C04_comments_are_inert.

(* the SQL-level extend merge is an optimisation only (one merge step) *)
Theorem C04_extend_merge_preserves_partial :
  forall (V : Type) (tsem : string -> (string -> option V) -> option V)
         fl n ts s ci sfx an ds k tms deps anno okey m (cols_i : list string),
  sql_merge fl (NUnary n (Some ts) s ci sfx an true (Some ds) k) tms deps anno okey = MYes m ->
  NoDup (map fst deps) -> NoDup (map fst ds) ->
  (forall c, In c (map fst tms) -> In c (map fst deps)) ->
  (forall c, In c (map fst ts) -> In c (map fst ds)) ->
  deps_describe tsem tms deps ->
  (forall c, In c (map fst tms) -> triv tms c -> In c cols_i) ->
  (forall c d, In c (map fst tms) -> In d (deps_of deps c) -> In d cols_i) ->
  exists tm dm an' k', m = NUnary n (Some tm) s ci [] an' true (Some dm) k' /\
    forall (f : cframe V) c, In c (map fst tms) -> term_val tsem tm c f = term_val tsem tms c (select tsem ts cols_i f).
Proof. exact sql_merge_preserves. Qed.
Print Assumptions C04_extend_merge_preserves_partial.

(* the dependencies extend_to_near_sql declares for an assigned column (Model/SqlMerge.v declared_deps, compared with the real
   declared_term_dependencies of every extend node on every run) contain the columns the expression mentions and the window's
   partition and order columns, ascending or reversed: what the guard `deps_describe` above needs of a windowed term *)
Theorem C04_declared_dependencies_cover_the_window :
  forall (demand : list string) (subops : list (string * list string)) (partition order : list string) k cols,
  dict_get subops k = Some cols ->
  forall c, In c (cols ++ partition ++ order) -> In c (deps_of (declared_deps demand subops partition order) k).
Proof. exact declared_deps_cover. Qed.
Print Assumptions C04_declared_dependencies_cover_the_window.

(* which cache key the merged step carries: the inner step's as the code stands (the cause of the first refutation),
   the outer extend's once repaired *)
Theorem C04_merged_step_key :
  forall fl sub tms deps anno okey m,
  sql_merge fl sub tms deps anno okey = MYes m -> ops_key m = if f_merge_rekeys fl then okey else ops_key sub.
Proof. exact sql_merge_key. Qed.
Print Assumptions C04_merged_step_key.

(* ------------------------------------------------------------------ non-vacuity *)
(* cache_sound holds, for EVERY engine, on a query that really reuses a sub-pipeline (one WITH step instead of two) *)
Example C04_cache_sound_satisfiable :
  (forall (T : Type) (E : engine T) (fl : flags), cache_sound E fl g_query) /\ hygienic g_query = true /\
  map fst (w_prev (fst (to_with_form code_as_found (Some []) g_query))) = ["""extend_1"""] /\
  map fst (w_prev (fst (to_with_form code_as_found None g_query))) = ["""extend_1"""; """extend_2"""].
Proof. split; [exact g_cache_sound|]. destruct g_reuses as (a & b & c). repeat split; assumption. Qed.

(* the decidable guard on the witnesses: it fails for both as the code was found, and holds for both as repaired and for the
   genuinely shared query *)
Example C04_decidable_guard_on_witnesses :
  cache_sound_dec code_as_found (w_merged code_as_found) = false /\ cache_sound_dec code_repaired (w_merged code_repaired) = true /\
  cache_sound_dec code_as_found r_query = false /\ cache_sound_dec code_repaired r_query = true /\
  cache_sound_dec code_as_found g_query = true /\ cache_sound_dec code_repaired g_query = true.
Proof. vm_compute. repeat split. Qed.

(* the first refutation in values: rows of the merged pipeline, nested vs CTE elimination; with the repairs (and without
   the cache) the same pipeline translates correctly *)
Example C04_refutation_values :
  nsem toy toy_db (w_merged code_as_found) None
    = [[("a", 1); ("b", 4); ("c", 8); ("x", 1)]; [("a", 1); ("b", 4); ("c", 7); ("x", 1)]]%Z /\
  nsem_with toy toy_db (fst (to_with_form code_as_found (Some []) (w_merged code_as_found)))
    = [[("a", 1); ("b", 4); ("c", 8); ("x", 1)]; [("a", 1); ("b", 4); ("c", 8); ("x", 1)]]%Z /\
  nsem_with toy toy_db (fst (to_with_form code_repaired (Some []) (w_merged code_repaired)))
    = nsem toy toy_db (w_merged code_repaired) None.
Proof. destruct w_values as (a & b & _). destruct w_repaired_right as (c & _). repeat split; assumption. Qed.

Example C04_refutation_none_key_values :
  nsem toy toy_db r_query None = [[("p", 1%Z)]; [("p", 7%Z)]] /\
  nsem_with toy toy_db (fst (to_with_form code_as_found (Some []) r_query)) = [[("p", 1%Z)]; [("p", 1%Z)]] /\
  nsem_with toy toy_db (fst (to_with_form code_repaired (Some []) r_query)) = [[("p", 1%Z)]; [("p", 7%Z)]].
Proof. exact r_cte_elim_wrong. Qed.

(* the guards of the merge theorem hold for the merge of the first witness *)
Example C04_merge_guards_satisfiable :
  (exists m, sql_merge code_as_found (w_inner """extend_0""") m_terms m_deps "extend({'c': 'c + 1'})" (Some "k") = MYes m) /\
  NoDup (map fst m_deps) /\ (forall c, In c (map fst m_terms) -> In c (map fst m_deps)) /\
  deps_describe m_tsem m_terms m_deps /\
  (forall c d, In c (map fst m_terms) -> In d (deps_of m_deps c) -> In d w_cols).
Proof. split; [exact m_merge_happens|exact m_guards]. Qed.

(* rendering: one query under two layouts *)
Example C04_render_example :
  let d := mk_dialect """" "'" "SQLiteModel 1.7.2" true false in
  let q := NUnary """extend_0""" (Some [("a", None); ("y", Some """a"" + 1")]) (NTable """d""" None) (mk_ci (Some ["a"]) false None)
                  [] (Some (String.append " extend({'y': 'a + 1'})" (String "010"%char "-- 100% "))) true None (Some "k") in
  to_sql d code_as_found (mk_opts true false true false " ") q =
    text_of_lines ["-- data_algebra SQL https://github.com/WinVector/data_algebra";
                   "--  dialect: SQLiteModel 1.7.2";
                   "--       string quote: '";
                   "--   identifier quote: """;
                   "SELECT  -- extend({'y': 'a + 1'}) -- 100percent";
                   " ""a"" ,";
                   " ""a"" + 1 AS ""y""";
                   "FROM";
                   " ""d"""] /\
  to_sql d code_as_found (mk_opts true false false true "  ") q =
    text_of_lines ["SELECT";
                   "    ""a""";
                   "  , ""a"" + 1 AS ""y""";
                   "FROM";
                   "  ""d"""].
Proof. vm_compute. split; reflexivity. Qed.
