(* C21 -- Solution helpers compute what their documentation promises (data_algebra/solutions.py).
   Pipelines: Model/Solutions.v (hand transcription of the helpers, tied to the real trees on every run).
   Specifications: Model/Solutions.v replicate_spec / rank_avg_spec / locf_spec / multimap_spec (from the docstrings).
   Semantics: Model/Sem.v sem_gen under every backend flavour fl (fl_pandas and fl_sqlite are the two executors the property
   names; each is tied to the real executor by correspondence), extended locally by sem_x / sem_xop (Model/Solutions.v).
   tbl_equiv = same columns, same rows as a multiset. *)
From Coq Require Import List Bool Arith ZArith QArith String Permutation Lia.
Import ListNotations.
From DA Require Import Base.PyRT Base.Val Model.Sem Model.Solutions Proofs.SolutionsP2 Proofs.SolutionsP5 Proofs.SolutionsP7 Proofs.SolutionsP8.
From DA Require Import Proofs.SemBasicP.

(* replicate_rows_query emits each row exactly `count` times, numbered 0..count-1.
   pw is the FLOAT computation ceil(log(n)/log(2)) of the backend and P the largest power the helper built tables for
   (the same float expression on max_count); the hypothesis on them is part of the statement and is swept against the
   real numpy / math computations for all n <= 2^20 by the harness (a finite sweep). *)
Theorem C21_replicate_rows_correct :
  forall (pw : nat -> nat) (P maxc : nat),
  (forall n, (1 <= n <= maxc)%nat -> (n <= 2 ^ pw n)%nat /\ (pw n <= P)%nat) ->
  forall (fl : flavor) (d : op) (cnt seqc jt : string) (e : env) (t : table),
  sem_x pw fl d e = Some t ->
  dict_get e jt = Some (count_frame seqc P) ->
  replicate_valid cnt seqc maxc t = true ->
  exists out, sem_x pw fl (replicate_rows_pipeline d cnt seqc jt) e = Some out /\ tbl_equiv out (replicate_spec cnt seqc t).
Proof. exact replicate_rows_correct. Qed.
Print Assumptions C21_replicate_rows_correct.

(* rank_to_average gives each row the mean (1-based) position of its tie group within its partition, for every table,
   any number of partitions and ties, null keys included (the tie breaker makes the helper's internal order total) *)
Theorem C21_rank_to_average_correct :
  forall (fl : flavor) (d : op) (ob pb : list string) (rank tb : string) (e : env) (t : table),
  sem_gen fl d e = Some t -> rank_valid ob pb rank tb t = true ->
  exists out, sem_gen fl (rank_to_average_pipeline d ob pb rank tb) e = Some out /\ tbl_equiv out (rank_avg_spec fl ob pb rank t).
Proof. exact rank_to_average_correct. Qed.
Print Assumptions C21_rank_to_average_correct.

(* last_observed_carried_forward fills each missing value with the latest earlier non-missing value of its partition under
   the order (leading missing values stay missing); default selection_predicate is_null().  locf_valid: the helper's own
   name assertions, partition keys are not null, and the order is total inside every partition.
   (pw is only the parameter of sem_x; this pipeline contains no float expression.) *)
Theorem C21_locf_correct :
  forall (pw : nat -> nat) (fl : flavor) (d : op) (ob pb : list string) (vcol use rk tb : string) (e : env) (t : table),
  sem_x pw fl d e = Some t -> locf_valid fl ob pb vcol use rk tb t = true ->
  exists out, sem_x pw fl (locf_pipeline d ob pb vcol use rk tb) e = Some out /\ tbl_equiv out (locf_spec fl ob pb vcol t).
Proof. exact locf_correct. Qed.
Print Assumptions C21_locf_correct.

(* def_multi_column_map maps every listed column through the mapping table (unmapped and null values become null, then
   coalesce_value when given; cols_to_map_back renames the results).
   FULL STATEMENT (false on the unchanged tree): for every call its docstring and assertions allow (row_keys and cols_to_map
   non-empty, ...) the helper returns a pipeline computing multimap_spec.  With ONE column to map the helper raises
   (known finding C21-multi-column-map-single-column-raises): C21_multi_column_map_refuted.
   PROVED PART: whenever the helper returns a pipeline (multi_map_build = Some p, i.e. two or more columns to map) that
   pipeline computes the specification, for every valid input.  m must not mention the reserved name of the intermediate. *)
Theorem C21_multi_column_map_correct_partial :
  forall (pw : nat -> nat) (fl : flavor) (d m : op) (keys : list string) (namec valc mapc : string) (vcols : list string)
         (co : option val) (back : option (list string)) (p : xop) (e : env) (t mt : table),
  multi_map_build d m keys namec valc mapc vcols co back = Some p ->
  sem_x pw fl d e = Some t -> sem_x pw fl m e = Some mt -> ~ In mm_tmp1 (tables_of m) ->
  multimap_valid keys namec valc mapc vcols back t mt = true ->
  exists out, sem_xop pw fl p e = Some out /\ tbl_equiv out (multimap_spec keys namec valc mapc vcols co back t mt).
Proof. exact multi_map_built_correct. Qed.
Print Assumptions C21_multi_column_map_correct_partial.

Theorem C21_multi_column_map_returns_for_two_or_more_columns :
  forall d m keys namec valc mapc vcols co back, (2 <= List.length vcols)%nat ->
  multi_map_build d m keys namec valc mapc vcols co back = Some (multi_map_pipeline d m keys namec valc mapc vcols co back).
Proof. exact multi_map_build_some. Qed.
Print Assumptions C21_multi_column_map_returns_for_two_or_more_columns.

Local Open Scope string_scope.
Local Open Scope list_scope.
(* the witness of the known finding: a documented-valid call (one column to map) on which the helper returns nothing *)
Theorem C21_multi_column_map_refuted :
  exists (d m : op) (keys : list string) (namec valc mapc : string) (vcols : list string) (t mt : table),
    multimap_valid keys namec valc mapc vcols None t mt = true
    /\ sem_gen fl_pandas d [("d", t); ("m", mt)] = Some t /\ sem_gen fl_pandas m [("d", t); ("m", mt)] = Some mt
    /\ multi_map_build d m keys namec valc mapc vcols None None = None.
Proof. exact multi_map_single_column_witness. Qed.
Print Assumptions C21_multi_column_map_refuted.

(* non-vacuity: the hypotheses are satisfiable by concrete non-trivial instances *)
Example C21_pw_hypothesis_example :
  forall n, (1 <= n <= 5)%nat -> (n <= 2 ^ Nat.log2_up n)%nat /\ (Nat.log2_up n <= 3)%nat.
Proof. intros n H. assert (n = 1 \/ n = 2 \/ n = 3 \/ n = 4 \/ n = 5)%nat as C by lia.
  destruct C as [->|[->|[->|[->| ->]]]]; vm_compute; split; repeat constructor. Qed.
Example C21_replicate_valid_example :
  replicate_valid "n" "i" 5 (mktable ["k"; "n"] [[VStr "a"; vnat 1]; [VStr "b"; vnat 3]; [VStr "c"; vnat 5]]) = true
  /\ option_map (fun t => List.length (rows t))
       (sem_x Nat.log2_up fl_sqlite (replicate_rows_pipeline (OTable "d" ["k"; "n"]) "n" "i" "jt")
          [("d", mktable ["k"; "n"] [[VStr "a"; vnat 1]; [VStr "b"; vnat 3]; [VStr "c"; vnat 5]]); ("jt", count_frame "i" 3)]) = Some 9%nat.
Proof. vm_compute. split; reflexivity. Qed.
Example C21_rank_valid_example :
  let t := mktable ["g"; "x"] [[VStr "a"; vnat 1]; [VStr "a"; vnat 1]; [VStr "a"; vnat 2]; [VNull; vnat 3]] in
  rank_valid ["x"] ["g"] "r" "rank_tie_breaker" t = true
  /\ option_map rows (sem_gen fl_pandas (rank_to_average_pipeline (OTable "d" ["g"; "x"]) ["x"] ["g"] "r" "rank_tie_breaker") [("d", t)])
     = Some [[VStr "a"; vnat 1; VNum (3 # 2)]; [VStr "a"; vnat 1; VNum (3 # 2)]; [VStr "a"; vnat 2; vnat 3]; [VNull; vnat 3; vnat 1]].
Proof. vm_compute. split; reflexivity. Qed.
Example C21_locf_valid_example :
  let t := mktable ["g"; "o"; "v"] [[VStr "a"; vnat 2; VNull]; [VStr "a"; vnat 1; vnat 5]; [VStr "b"; vnat 1; VNull]; [VStr "a"; vnat 0; VNull]; [VStr "a"; vnat 3; vnat 7]; [VStr "a"; vnat 4; VNull]] in
  locf_valid fl_sqlite ["o"] ["g"] "v" "locf_to_use" "locf_non_null_rank" "locf_tiebreaker" t = true
  /\ locf_spec fl_sqlite ["o"] ["g"] "v" t
     = mktable ["g"; "o"; "v"] [[VStr "a"; vnat 2; vnat 5]; [VStr "a"; vnat 1; vnat 5]; [VStr "b"; vnat 1; VNull]; [VStr "a"; vnat 0; VNull]; [VStr "a"; vnat 3; vnat 7]; [VStr "a"; vnat 4; vnat 7]].
Proof. vm_compute. split; reflexivity. Qed.
Example C21_multimap_valid_example :
  let t := mktable ["id"; "a"; "b"; "o"] [[vnat 1; VStr "x"; VStr "x"; vnat 1]; [vnat 2; VStr "y"; VStr "z"; vnat 1]; [vnat 3; VNull; VStr "y"; vnat 1]] in
  let m := mktable ["cn"; "cv"; "mv"] [[VStr "a"; VStr "x"; vnat 1]; [VStr "a"; VStr "y"; vnat 2]; [VStr "b"; VStr "x"; vnat 10]; [VStr "b"; VStr "y"; vnat 20]] in
  multimap_valid ["id"] "cn" "cv" "mv" ["a"; "b"] (Some ["A"; "B"]) t m = true
  /\ multimap_spec ["id"] "cn" "cv" "mv" ["a"; "b"] (Some (vnat 0)) (Some ["A"; "B"]) t m
     = mktable ["id"; "A"; "B"] [[vnat 1; vnat 1; vnat 10]; [vnat 2; vnat 2; vnat 0]; [vnat 3; vnat 0; vnat 20]]
  /\ option_map (fun p => sem_xop Nat.log2_up fl_sqlite p [("d", t); ("m", m)])
       (multi_map_build (OTable "d" ["id"; "a"; "b"; "o"]) (OTable "m" ["cn"; "cv"; "mv"]) ["id"] "cn" "cv" "mv" ["a"; "b"] (Some (vnat 0)) (Some ["A"; "B"]))
     = Some (Some (mktable ["id"; "A"; "B"] [[vnat 1; vnat 1; vnat 10]; [vnat 2; vnat 2; vnat 0]; [vnat 3; vnat 0; vnat 20]])).
Proof. vm_compute. repeat split; reflexivity. Qed.
