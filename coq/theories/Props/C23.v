(* C23 -- connected_components labels each edge by its component's least vertex.
   Statements about the hand model Model/ConnComp.v (tied to connected_components.py by correspondence). *)
From Coq Require Import List Bool ZArith Lia.
Import ListNotations.
From DA Require Import Base.PyRT Model.ConnComp Proofs.ConnCompP.

(* for EVERY edge list over ANY decidable, totally ordered vertex type: the call succeeds, returns one label per
   edge, and the label of edge i is connected to the edge's endpoint and is <= every vertex of that component *)
Theorem C23_label_is_least_vertex_of_component :
  forall (V : Type) (H : EqDec V) (leb : V -> V -> bool), total_order leb ->
  forall f g : list V, List.length f = List.length g ->
  exists res, connected_components leb f g = Some res /\ List.length res = List.length f /\
  forall i v, nth_error f i = Some v ->
    exists m, nth_error res i = Some m /\ conn (combine f g) v m /\ (forall u, conn (combine f g) v u -> leb m u = true).
Proof. exact @cc_correct. Qed.
Print Assumptions C23_label_is_least_vertex_of_component.

(* two edges get the same label exactly when they are in the same component *)
Theorem C23_same_label_iff_same_component :
  forall (V : Type) (H : EqDec V) (leb : V -> V -> bool), total_order leb ->
  forall (f g : list V) res, List.length f = List.length g ->
  connected_components leb f g = Some res ->
  forall i j vi vj mi mj, nth_error f i = Some vi -> nth_error f j = Some vj ->
    nth_error res i = Some mi -> nth_error res j = Some mj ->
    (mi = mj <-> conn (combine f g) vi vj).
Proof. exact @cc_same_label_iff. Qed.
Print Assumptions C23_same_label_iff_same_component.

(* non-vacuity: Z with <= is a total order, and the docstring example evaluates as documented *)
Example C23_Z_total_order : total_order Z.leb.
Proof. constructor.
  - intros a. apply Z.leb_le. lia.
  - intros a b Hab Hba. apply Z.leb_le in Hab. apply Z.leb_le in Hba. lia.
  - intros a b c Hab Hbc. apply Z.leb_le in Hab. apply Z.leb_le in Hbc. apply Z.leb_le. lia.
  - intros a b. destruct (Z.le_ge_cases a b); [left|right]; apply Z.leb_le; assumption. Qed.
Example C23_docstring_example : connected_components Z.leb [1;4;6;2;1]%Z [2;5;7;3;7]%Z = Some [1;4;1;1;1]%Z.
Proof. vm_compute. reflexivity. Qed.
