(* C19 -- evaluation never modifies the caller's tables and is repeatable.
   Full statement: for every pipeline and input, eval(), transform(), ex() and >> leave the caller's input frames unchanged
   in values, dtypes, columns and index; evaluating the same pipeline on the same inputs again gives the same result, for
   pipelines that do not use random numbers (Pandas and Polars).

   Stated one level below a functional model: Model/Store.v is a heap of frame OBJECTS (index kind, columns, row count,
   opaque values), and `pexec_st` / `plexec_st` transcribe, step by step, which frame objects each `_*_step` of
   pandas_base.py / polars_model.py creates and which it writes in place.  The theorems hold for ALL pipelines (any depth,
   any sharing), ALL stores and ALL data-dependent outcomes (row-count oracles on the tree).  eval / transform / ex / >> /
   act_on all reach the executor through ViewRepresentation.eval -> data_model.eval with the caller's objects in data_map,
   which is the `env` of the model.  What is assumed (modelled, not verified): the pandas 3 copy-on-write API model in the
   header of Model/Store.v. *)
From Coq Require Import List Bool Arith String.
Import ListNotations.
From DA Require Import Model.Store Model.StoreCases Proofs.StoreP1 Proofs.StoreP2 Proofs.StoreP3.

(* every in-place write of an evaluation goes to a frame object allocated during this evaluation; hence every frame that
   existed before (in particular every caller frame, whether or not the pipeline uses it) is unchanged in index, columns,
   row count and values; the store only grows; the returned frame is never one of the pre-existing objects *)
Theorem C19_inputs_never_written : forall (s : store) (p : op) (env : env_locs) s' l evs,
  pexec_st s p env = Some (s', l, evs) ->
  (forall x, In x (write_locs evs) -> ~ In x (dom s)) /\
  (forall x, In x (dom s) -> get s' x = get s x) /\
  incl (dom s) (dom s') /\ ~ In l (dom s).
Proof. exact pexec_inputs_never_written. Qed.
Print Assumptions C19_inputs_never_written.

(* a second evaluation, started from the store the first one left behind, succeeds and returns a frame with the same
   index kind, columns, row count and values -- for pipelines without random functions *)
Theorem C19_eval_repeatable : forall (s : store) (p : op) (env : env_locs) s1 l1 e1,
  no_random p = true -> (forall n l, In (n, l) env -> In l (dom s)) ->
  pexec_st s p env = Some (s1, l1, e1) ->
  exists s2 l2 e2 F, pexec_st s1 p env = Some (s2, l2, e2) /\ get s1 l1 = Some F /\ get s2 l2 = Some F.
Proof. exact pexec_repeatable. Qed.
Print Assumptions C19_eval_repeatable.

(* the guard `no_random` is needed: a pipeline calling _uniform() returns different values the second time *)
Theorem C19_eval_repeatable_without_no_random_refuted :
  exists s p env s1 l1 e1 s2 l2 e2,
    (forall n l, In (n, l) env -> In l (dom s)) /\ pexec_st s p env = Some (s1, l1, e1) /\ pexec_st s1 p env = Some (s2, l2, e2) /\
    get s1 l1 <> get s2 l2.
Proof. exact random_not_repeatable. Qed.
Print Assumptions C19_eval_repeatable_without_no_random_refuted.

(* Polars: frames are immutable values, every step builds a new frame; the only in-place operations of polars_model.py
   (`s.columns = ...` in the cdata transforms) act on frames derived inside the call *)
Theorem C19_polars_inputs_never_written : forall (s : store) (p : op) (env : env_locs) s' l evs,
  plexec_st s p env = Some (s', l, evs) ->
  (forall x, In x (write_locs evs) -> ~ In x (dom s)) /\
  (forall x, In x (dom s) -> get s' x = get s x) /\
  incl (dom s) (dom s') /\ ~ In l (dom s).
Proof. exact plexec_inputs_never_written. Qed.
Print Assumptions C19_polars_inputs_never_written.

Theorem C19_polars_eval_repeatable : forall (s : store) (p : op) (env : env_locs) s1 l1 e1,
  (forall n l, In (n, l) env -> In l (dom s)) ->
  plexec_st s p env = Some (s1, l1, e1) ->
  exists s2 l2 e2 F, plexec_st s1 p env = Some (s2, l2, e2) /\ get s1 l1 = Some F /\ get s2 l2 = Some F.
Proof. exact plexec_repeatable. Qed.
Print Assumptions C19_polars_eval_repeatable.

(* the result of an evaluation is the pure content function of the caller frames' CONTENTS, and it fails exactly when
   that function is undefined (missing table / missing columns) *)
Theorem C19_result_is_a_function_of_input_contents : forall (env : env_locs) (p : op) (s : store),
  no_random p = true -> (forall n l, In (n, l) env -> In l (dom s)) ->
  match pcontent (frames_of s env) p with
  | Some F => exists l s' evs, pexec env p s = Some (l, s', evs) /\ get s' l = Some F
  | None => pexec env p s = None
  end.
Proof. exact (fun env p s NR OK => pexec_agrees env p NR s OK). Qed.
Print Assumptions C19_result_is_a_function_of_input_contents.

(* the node-by-node run of the correspondence driver is the executor the theorems are about *)
Theorem C19_case_driver_runs_the_executor : forall env p s l o s' e,
  pexec_obs env p s = Some ((l, o), s', e) -> pexec env p s = Some (l, s', e).
Proof. exact pexec_obs_is_pexec. Qed.
Print Assumptions C19_case_driver_runs_the_executor.

(* non-vacuity: a pipeline with table sharing, plain and windowed extend, project, select_rows, join, concat with an empty
   branch, order with limit evaluates (so the hypotheses of the theorems are satisfiable), writes in place at least 10 times, leaves
   caller frame 1 unchanged, and repeats with the same content in a different object *)
Example C19_hypotheses_satisfiable :
  (forall n l, In (n, l) (init_env ex_tables) -> In l (dom (init_store ex_tables))) /\ no_random ex_pipeline = true /\
  match pexec_st (init_store ex_tables) ex_pipeline (init_env ex_tables) with
  | Some (s1, l1, e1) => 10 <=? List.length (write_locs e1) = true /\ get s1 1 = get (init_store ex_tables) 1 /\
                         match pexec_st s1 ex_pipeline (init_env ex_tables) with
                         | Some (s2, l2, _) => get s2 l2 = get s1 l1 /\ get s1 l1 <> None /\ l1 <> l2
                         | None => False
                         end
  | None => False
  end.
Proof. split; [exact ex_env_ok|]. split; [reflexivity|]. vm_compute. repeat split; discriminate. Qed.
