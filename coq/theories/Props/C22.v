(* C22 -- schema-check decorators raise exactly on schema violations.
   Statements about the hand model Model/Schema.v of data_schema.py over an abstract universe of types
   (ty, atom, isinst = isinstance, type_of = type(v)). *)
From Coq Require Import List Bool Arith String.
Import ListNotations.
From DA Require Import Base.PyRT Model.Schema Proofs.SchemaP.

Section C22.
Context {ty atom : Type} `{EqDec ty} (isinst : atom -> ty -> bool) (type_of : atom -> ty).
Hypothesis isinst_type_of : forall a, isinst a (type_of a) = true.

(* the value check fails exactly on violations (missing column, non-frame for a column spec, a non-null cell or scalar
   with none of the declared types) *)
Theorem C22_value_rejected_iff_violation : forall s (v : @value atom),
  (forall cols, s = SFrame cols -> NoDup (map fst cols)) ->
  (check_value isinst s v = false <-> value_violates isinst s v).
Proof. exact (check_value_iff isinst). Qed.

(* check_args raises TypeError exactly when a declared argument is missing or violates its specification *)
Theorem C22_call_raises_iff_argument_missing_or_violating : forall sp names (args : list (@value atom)) kwargs,
  NoDup names -> List.length args <= List.length names -> NoDup (map fst sp) ->
  (forall k s cols, In (k, s) sp -> s = SFrame cols -> NoDup (map fst cols)) ->
  (check_args isinst (Some sp) names args kwargs = TypeErr <->
   exists k s, In (k, s) sp /\
     match arg_value names args kwargs k with None => True | Some v => value_violates isinst s v end).
Proof. exact (check_args_iff isinst). Qed.

Theorem C22_no_other_exception_from_checking : forall sp names (args : list (@value atom)) kwargs,
  List.length args <= List.length names -> check_args isinst sp names args kwargs <> OtherErr.
Proof. exact (check_args_no_other isinst). Qed.

Theorem C22_switch_off_never_raises : forall (R : Type) specs ret (tv : R -> @value atom) names f args kwargs,
  wrapped isinst false specs ret tv names f args kwargs = Returned (f args kwargs).
Proof. exact (@switch_off_transparent ty atom isinst). Qed.

Theorem C22_result_returned_unchanged : forall (R : Type) sw specs ret (tv : R -> @value atom) names f args kwargs r,
  wrapped isinst sw specs ret tv names f args kwargs = Returned r -> r = f args kwargs.
Proof. exact (@returns_unchanged ty atom isinst). Qed.

Theorem C22_returns_iff_no_violation : forall (R : Type) specs ret (tv : R -> @value atom) names f args kwargs,
  List.length args <= List.length names ->
  (wrapped isinst true specs ret tv names f args kwargs = Returned (f args kwargs) <->
   check_args isinst specs names args kwargs = Returned tt /\
   match ret with None => True | Some s => check_value isinst s (tv (f args kwargs)) = true end).
Proof. exact (@wrapped_returns_iff ty atom isinst). Qed.

(* example values declare their own types, alone and inside sets *)
Theorem C22_example_value_declares_its_type : forall a,
  prep_col type_of (RExample a) = CType (type_of a) /\ check_atom isinst (prep_col type_of (RExample a)) a = true.
Proof. exact (prep_example_alone isinst type_of isinst_type_of). Qed.

Theorem C22_example_value_inside_set_declares_its_type : forall l a, In (EExample a) l ->
  exists ts, prep_col type_of (RSet l) = CSet ts /\ In (type_of a) ts /\ check_atom isinst (CSet ts) a = true.
Proof. exact (prep_example_in_set isinst type_of isinst_type_of). Qed.

Theorem C22_set_specification_members : forall (l : list (@relem ty atom)) t,
  exists ts, prep_col type_of (RSet l) = CSet ts /\
  (In t ts <-> (In (EType t) l \/ exists a, In (EExample a) l /\ type_of a = t)).
Proof. exact (prep_set_members type_of). Qed.
End C22.

(* listed finding: by the letter of the property only NON-NULL values can violate; the checker also raises for None *)
Theorem C22_none_for_typed_argument_raises_refuted :
  check_args (fun (_ : unit) (_ : unit) => true) (Some [("x"%string, SPlain (CType tt))]) ["x"%string] [VNone] [] = TypeErr.
Proof. exact null_argument_raises_refuted. Qed.

Print Assumptions C22_value_rejected_iff_violation.
Print Assumptions C22_call_raises_iff_argument_missing_or_violating.
Print Assumptions C22_no_other_exception_from_checking.
Print Assumptions C22_switch_off_never_raises.
Print Assumptions C22_result_returned_unchanged.
Print Assumptions C22_returns_iff_no_violation.
Print Assumptions C22_example_value_declares_its_type.
Print Assumptions C22_example_value_inside_set_declares_its_type.
Print Assumptions C22_set_specification_members.
Print Assumptions C22_none_for_typed_argument_raises_refuted.

(* non-vacuity: a call that conforms and one that does not, in a two-type universe *)
Example C22_example :
  let isi := fun (a t : nat) => Nat.eqb a t in
  let sp := Some [("d"%string, SFrame [("x"%string, CSet [0; 1])])] in
  check_args isi sp ["d"%string] [VFrame [("x"%string, [Some 0; None; Some 1])]] [] = Returned tt /\
  check_args isi sp ["d"%string] [VFrame [("x"%string, [Some 0; Some 2])]] [] = TypeErr /\
  check_args isi sp ["d"%string] [] [] = TypeErr.
Proof. vm_compute. repeat split. Qed.
