(* C15, part B.  Where the system's own names live.

   The reference semantics (Model/Sem.v) has no internal names, so renaming is trivially harmless there (part A).  The
   executors and the SQL generator DO use names of their own, in the same namespaces as the user's names:

     Pandas executor (data_algebra/pandas_base.py), scratch COLUMNS written into the working frame
       _project_step        "_data_table_temp_col"                 a column of ones (counts, ungrouped aggregation); dropped at the end
                            "data_algebra_project_temp_col_<n>"    one per distinct constant aggregated
       _extend_step         "data_algebra_extend_temp_col_<n>"     one per distinct constant argument of a window function; written
        (windowed)                                                  into the INPUT frame, deleted afterwards
                            "_data_algebra_orig_index"             the row index of the sub-frame, to undo the sort
                            "_data_algebra_temp_g"                 a column of ones: the grouping column when partition_by is empty,
                                                                    and the selected column of _size()
       _natural_join_step   "data_algebra_temp_merge_col"          join key when `on` is empty; written into both inputs, deleted
                            "data_algebra_temp_null_key_col"       extra join key marking the rows with a null key, when both inputs
                                                                    have such rows (af27aca); written into both inputs, deleted
                            "<c>_tmp_right_col"                    suffix pandas.merge gives the right copy of a shared non-key column
     Polars executor (polars_model.py): "_da_*" literals, the keyless-join key "_da_join_scratch_key" and the join suffixes
       "_da_right_tmp" / "_da_left_tmp"  -- listed in `reserved`, not transcribed (the check's oracle covers them).
     SQL generator (sql_model.py): view (CTE) names "<kind>_<n>" and join aliases "join_source_left_<n>" /
       "join_source_right_<n>", in the namespace of the user's TABLE names.

   This file transcribes, for the three Pandas steps that have scratch columns, every read and write of a column NAME,
   in the order of the Python; what the library calls compute is left abstract (record `prims`: modelled, not verified --
   only the column contents handed to them matter here).  Names are a parameter (`pnames`).  Since fix c06ea4b the
   executor CHOOSES its scratch names: `_unused_column_name(base, names_in_use)` prefixes the base name with "_" until it
   is none of the names in use, and the join suffix grows by "_" until no shared column's suffixed name is in use;
   `code_names` transcribes that choice.  `hard` are the bare base names (what the executor used before the fix, and what
   it still uses when nothing collides); any other choice can be plugged in.  `plain_*` is the same step with its scratch values held in local
   variables instead of in the frame: no name of its own.  Theorems (Proofs/ScratchP*.v): whenever the scratch names are
   outside the user's names, pexec = plain (nothing is captured, overwritten or dropped); for each class a witness with a
   user column named like the scratch column where they differ.
   For SQL: a WITH query is a list of named steps, each reading names; the engine resolves a name to the CTE of that
   name when there is one, else to the base table.  No proofs in this file. *)
From Coq Require Import List Bool Arith String Ascii Decimal DecimalString.
Import ListNotations.
From DA Require Import Base.PyRT Base.PyStr.
Local Open Scope list_scope.

(* ------------------------------------------------------------------ option monad, small helpers *)
Definition obind {X Y} (o : option X) (f : X -> option Y) : option Y := match o with Some x => f x | None => None end.
Notation "x <- e ;; k" := (obind e (fun x => k)) (at level 61, e at next level, right associativity).

Fixpoint all_some {X} (l : list (option X)) : option (list X) :=
  match l with
  | [] => Some []
  | None :: _ => None
  | Some x :: t => match all_some t with Some r => Some (x :: r) | None => None end
  end.

Fixpoint nodupb (l : list string) : bool := match l with [] => true | x :: t => negb (mem x t) && nodupb t end.

Definition dec (n : nat) : string := NilEmpty.string_of_uint (Nat.to_uint n).       (* Python str(n) *)

(* ------------------------------------------------------------------ frames: ordered columns with abstract contents *)
Section Frames.
  Context {A : Type}.
  Definition frame := list (string * A).
  Definition fcols (f : frame) : list string := map fst f.
  Definition fget (f : frame) (c : string) : option A := dict_get f c.          (* df[c]         (KeyError -> None) *)
  Definition fset (f : frame) (c : string) (a : A) : frame := dict_set f c a.   (* df[c] = a     (in place, else appended) *)
  Definition fdel (f : frame) (c : string) : frame := dict_pop f c.             (* del df[c] / df.drop(c, axis=1) *)
  Fixpoint fselect (f : frame) (cs : list string) : option frame :=             (* df[cs]        (KeyError -> None) *)
    match cs with
    | [] => Some []
    | c :: t => match fget f c, fselect f t with Some a, Some r => Some ((c, a) :: r) | _, _ => None end
    end.
  Definition fmapc (g : A -> A) (f : frame) : frame := map (fun na => (fst na, g (snd na))) f.
  Definition freads (f : frame) (cs : list string) : option (list A) := all_some (map (fget f) cs).
End Frames.
Arguments frame : clear implicits.

(* what the library calls compute: abstract.  Only WHICH column contents they receive matters for C15. *)
Record prims (A : Type) := mkprims {
  p_const : string -> A;                                  (* a column holding the constant printed as this text *)
  p_index : A;                                            (* the frame's row index *)
  p_sort : list (A * bool) -> A -> A;                     (* a column after sort_values(by keys, ascending flags) *)
  p_cumcount : list A -> A;                               (* groupby(keys).cumcount() + 1 *)
  p_ngroup : list A -> A;                                 (* groupby(keys).ngroup() *)
  p_size : list A -> A;                                   (* groupby(keys)[some column].transform("size") *)
  p_transform : string -> list string -> list A -> A -> A;(* groupby(keys)[value].transform(op, *args) *)
  p_agg : string -> list A -> A -> A;                     (* groupby(keys)[value].agg(op)   (keys = [] : no grouping) *)
  p_groupkey : list A -> nat -> A;                        (* i-th key column after reset_index *)
  p_merge_left : string -> list A -> list A -> A -> A;    (* a column of the left frame carried through pd.merge(how, keys) *)
  p_merge_right : string -> list A -> list A -> A -> A;
  p_fillna : A -> A -> A;                                 (* res.loc[c.isnull(), c] = other *)
  p_nullmark_left : list A -> A;                          (* numpy.where(keys.isnull().any(axis=1), arange + 1, 0) *)
  p_nullmark_right : list A -> A                          (* numpy.where(keys.isnull().any(axis=1), -(arange + 1), 0) *)
}.
Arguments p_const {A}. Arguments p_index {A}. Arguments p_sort {A}. Arguments p_cumcount {A}. Arguments p_ngroup {A}.
Arguments p_size {A}. Arguments p_transform {A}. Arguments p_agg {A}. Arguments p_groupkey {A}.
Arguments p_merge_left {A}. Arguments p_merge_right {A}. Arguments p_fillna {A}.
Arguments p_nullmark_left {A}. Arguments p_nullmark_right {A}.

(* ------------------------------------------------------------------ the executor's own names *)
Record pnames := mkpn {
  n_table_temp : string;
  n_proj_tmp : nat -> string;
  n_temp_g : string;
  n_orig_index : string;
  n_ext_tmp : nat -> string;
  n_merge : string;
  n_nullkey : string;
  n_right : string -> string
}.
Local Open Scope string_scope.
Definition hard : pnames := {|
  n_table_temp := "_data_table_temp_col";
  n_proj_tmp := fun n => "data_algebra_project_temp_col_" ++ dec n;
  n_temp_g := "_data_algebra_temp_g";
  n_orig_index := "_data_algebra_orig_index";
  n_ext_tmp := fun n => "data_algebra_extend_temp_col_" ++ dec n;
  n_merge := "data_algebra_temp_merge_col";
  n_nullkey := "data_algebra_temp_null_key_col";
  n_right := fun c => c ++ "_tmp_right_col" |}.

(* names chosen away from a given set of user names: a pad longer than every user name, then the usual name.
   (What a repaired executor would do; ANY choice satisfying `good` below has the same effect.) *)
Fixpoint max_len (u : list string) : nat := match u with [] => O | x :: t => Nat.max (String.length x) (max_len t) end.
Fixpoint pad (n : nat) : string := match n with O => "" | S k => String "_" (pad k) end.
Definition fresh (u : list string) : pnames :=
  let p := pad (S (max_len u)) in {|
  n_table_temp := p ++ "_data_table_temp_col";
  n_proj_tmp := fun n => p ++ "data_algebra_project_temp_col_" ++ dec n;
  n_temp_g := p ++ "_data_algebra_temp_g";
  n_orig_index := p ++ "_data_algebra_orig_index";
  n_ext_tmp := fun n => p ++ "data_algebra_extend_temp_col_" ++ dec n;
  n_merge := p ++ "data_algebra_temp_merge_col";
  n_nullkey := p ++ "data_algebra_temp_null_key_col";
  n_right := fun c => p ++ c ++ "_tmp_right_col" |}.
Local Close Scope string_scope.

(* pandas_base._unused_column_name: `while name in taken: name = "_" + name`.  The loop ends after at most |taken| rounds (the
   candidates have pairwise different lengths); the model runs it with that much fuel (Proofs/ScratchP6.v: never exhausted) *)
Fixpoint unused_name (fuel : nat) (base : string) (taken : list string) : string :=
  match fuel with
  | O => base
  | S k => if mem base taken then unused_name k (String "_" base) taken else base
  end.
Definition unused (base : string) (taken : list string) : string := unused_name (List.length taken) base taken.
(* _natural_join_step: `while any((c + right_suffix) in names_in_use for c in common_cols): right_suffix = right_suffix + "_"` *)
Fixpoint unused_suffix (fuel : nat) (sfx : string) (common taken : list string) : string :=
  match fuel with
  | O => sfx
  | S k => if existsb (fun c => mem (c ++ sfx)%string taken) common then unused_suffix k (sfx ++ "_")%string common taken else sfx
  end.
Local Open Scope string_scope.
(* the names one evaluation of a step uses.  in_use: the frame's columns and the columns the step produces (project, extend),
   the columns of both sides (join).  (The Python adds every name it has chosen to names_in_use before choosing the next;
   the base names differ after their leading underscores, so a later choice never meets an earlier one and the set can be
   kept fixed -- sampled by the correspondence.) *)
Definition code_names (in_use common : list string) : pnames :=
  let sfx := unused_suffix (List.length in_use) "_tmp_right_col" common in_use in {|
  n_table_temp := unused "_data_table_temp_col" in_use;
  n_proj_tmp := fun n => unused ("data_algebra_project_temp_col_" ++ dec n) in_use;
  n_temp_g := unused "_data_algebra_temp_g" in_use;
  n_orig_index := unused "_data_algebra_orig_index" in_use;
  n_ext_tmp := fun n => unused ("data_algebra_extend_temp_col_" ++ dec n) in_use;
  n_merge := unused "data_algebra_temp_merge_col" in_use;
  n_nullkey := unused "data_algebra_temp_null_key_col" in_use;
  n_right := fun c => c ++ sfx |}.
Local Close Scope string_scope.

(* ------------------------------------------------------------------ step descriptions (names only) *)
Inductive arg := ArgNone | ArgCol (c : string) | ArgVal (text : string).
Record sop := mksop { so_key : string; so_fn : string; so_arg : arg; so_extra : list string }.   (* k := fn(arg, extra...) *)
Definition arg_cols (a : arg) : list string := match a with ArgCol c => [c] | _ => [] end.

Inductive pstep :=
  | PProject (ops : list sop) (gb : list string)
  | PWExtend (ops : list sop) (part order rev : list string)
  | PJoin (how : string) (on : list string) (nullkeys : bool).
      (* on_a = on_b = on (same-named keys); [] = no key; nullkeys: both inputs have a row with a null key (data, not names) *)

(* every column name the USER wrote in the step *)
Definition step_names (s : pstep) : list string :=
  match s with
  | PProject ops gb => gb ++ flat_map (fun o => so_key o :: arg_cols (so_arg o)) ops
  | PWExtend ops part order rev => part ++ order ++ rev ++ flat_map (fun o => so_key o :: arg_cols (so_arg o)) ops
  | PJoin _ on _ => on
  end.

Section Steps.
  Context {A : Type} (P : prims A).
  Let one : A := p_const P "1".

  (* ================================================================ _project_step *)
  (* lines 835-857: a temp column per distinct constant *)
  Fixpoint proj_temps (sn : pnames) (ops : list sop) (temps : list (string * string)) (res : frame A) : list (string * string) * frame A :=
    match ops with
    | [] => (temps, res)
    | o :: t =>
        match so_arg o with
        | ArgVal v => if dict_has temps v then proj_temps sn t temps res
                      else let name := n_proj_tmp sn (List.length temps) in
                           proj_temps sn t (temps ++ [(v, name)]) (fset res name (p_const P v))
        | _ => proj_temps sn t temps res
        end
    end.

  (* lines 861-888: cols[k] = res[value_name].agg(op) *)
  Fixpoint proj_cols (sn : pnames) (temps : list (string * string)) (res : frame A) (keys : list A) (ops : list sop) (cols : frame A) : option (frame A) :=
    match ops with
    | [] => Some cols
    | o :: t =>
        vname <- (match so_arg o with
                  | ArgCol c => Some c
                  | ArgVal v => dict_get temps v
                  | ArgNone => Some (n_table_temp sn)
                  end) ;;
        v <- fget res vname ;;
        proj_cols sn temps res keys t (fset cols (so_key o) (p_agg P (so_fn o) keys v))
    end.

  Definition keycols (gb : list string) (keys : list A) : frame A := combine gb (map (p_groupkey P keys) (seq 0 (List.length gb))).

  Definition pexec_project (sn : pnames) (ops : list sop) (gb : list string) (res0 : frame A) : option (frame A) :=
    let '(temps, res1) := proj_temps sn ops [] res0 in
    let res2 := fset res1 (n_table_temp sn) one in                                  (* 858 *)
    keys <- freads res2 gb ;;                                                       (* 860 groupby(group_by) *)
    cols <- (match ops with
             | [] => v <- fget res2 (n_table_temp sn) ;; Some [(n_table_temp sn, p_agg P "sum" keys v)]   (* 890 *)
             | _ => proj_cols sn temps res2 keys ops []
             end) ;;
    if existsb (fun g => mem g (fcols cols)) gb then None                           (* 893 reset_index: "cannot insert g, already exists" *)
    else let res3 := keycols gb keys ++ cols in
         Some (if mem (n_table_temp sn) (fcols res3) then fdel res3 (n_table_temp sn) else res3).   (* 904-905 *)

  Fixpoint plain_proj_cols (res : frame A) (keys : list A) (ops : list sop) (cols : frame A) : option (frame A) :=
    match ops with
    | [] => Some cols
    | o :: t =>
        v <- (match so_arg o with
              | ArgCol c => fget res c
              | ArgVal v => Some (p_const P v)
              | ArgNone => Some one
              end) ;;
        plain_proj_cols res keys t (fset cols (so_key o) (p_agg P (so_fn o) keys v))
    end.

  Definition plain_project (ops : list sop) (gb : list string) (res0 : frame A) : option (frame A) :=
    keys <- freads res0 gb ;;
    cols <- plain_proj_cols res0 keys ops [] ;;
    if existsb (fun g => mem g (fcols cols)) gb then None else Some (keycols gb keys ++ cols).

  (* ================================================================ _extend_step, windowed branch (lines 700-819) *)
  (* 704-710: partition columns (as a set), then the order columns not among them *)
  Fixpoint add_new (l : list string) (cs : list string) : list string :=
    match cs with [] => l | c :: t => add_new (if mem c l then l else l ++ [c]) t end.
  Definition base_cols (part order : list string) : list string := add_new (py_set part) order.

  (* 711-729: value columns join col_list (membership is tested in col_set, which never holds the temp names);
     a temp column per distinct constant is WRITTEN INTO res *)
  Fixpoint ext_scan (sn : pnames) (ops : list sop) (col_list col_set : list string) (temps : list (string * string)) (res : frame A)
    : list string * list (string * string) * frame A :=
    match ops with
    | [] => (col_list, temps, res)
    | o :: t =>
        match so_arg o with
        | ArgCol c => if mem c col_set then ext_scan sn t col_list col_set temps res
                      else ext_scan sn t (col_list ++ [c]) (col_set ++ [c]) temps res
        | ArgVal v => if dict_has temps v then ext_scan sn t col_list col_set temps res
                      else let name := n_ext_tmp sn (List.length temps) in
                           ext_scan sn t (col_list ++ [name]) col_set (temps ++ [(v, name)]) (fset res name (p_const P v))
        | ArgNone => ext_scan sn t col_list col_set temps res
        end
    end.

  (* 747-811: subframe[k] = opframe[...].transform(...) *)
  Fixpoint ext_ops (sn : pnames) (temps : list (string * string)) (gkeys : list A) (ops : list sop) (sub : frame A) : option (frame A) :=
    match ops with
    | [] => Some sub
    | o :: t =>
        col <- (match so_arg o with
                | ArgNone =>
                    if orb (String.eqb (so_fn o) "_row_number") (String.eqb (so_fn o) "_count") then Some (p_cumcount P gkeys)
                    else if String.eqb (so_fn o) "_ngroup" then Some (p_ngroup P gkeys)
                    else if String.eqb (so_fn o) "_size" then (_ <- fget sub (n_temp_g sn) ;; Some (p_size P gkeys))   (* 768: the column must exist; its content is immaterial to size *)
                    else None
                | ArgCol c => v <- fget sub c ;; Some (p_transform P (so_fn o) (so_extra o) gkeys v)
                | ArgVal tx => name <- dict_get temps tx ;; v <- fget sub name ;; Some (p_transform P (so_fn o) (so_extra o) gkeys v)
                end) ;;
        ext_ops sn temps gkeys t (fset sub (so_key o) col)
    end.

  Definition sort_frame (keys : list (A * bool)) (f : frame A) : frame A := fmapc (p_sort P keys) f.

  Definition pexec_wextend (sn : pnames) (ops : list sop) (part order rev : list string) (res0 : frame A) : option (frame A) :=
    let cl0 := base_cols part order in
    let '(col_list, temps, res1) := ext_scan sn ops cl0 cl0 [] res0 in
    sub0 <- fselect res1 col_list ;;                                                (* 731 res[col_list] *)
    let sub1 := fset sub0 (n_orig_index sn) (p_index P) in                          (* 732 *)
    sub2 <- (match cl0 with                                                         (* 733-736 sort_values(by=col_list, ascending) *)
             | [] => Some sub1
             | _ => ks <- freads sub1 col_list ;;
                    Some (sort_frame (combine ks (map (fun c => negb (mem c rev)) col_list)) sub1)
             end) ;;
    let sub3 := fset sub2 (n_temp_g sn) one in                                      (* 737 *)
    gkeys <- (match part with [] => freads sub3 [n_temp_g sn] | _ => freads sub3 part end) ;;   (* 738-745 groupby *)
    sub4 <- ext_ops sn temps gkeys ops sub3 ;;
    let res2 := fold_left fdel (map snd temps) res1 in                              (* 813-814 del res[value_name] *)
    oi <- fget sub4 (n_orig_index sn) ;;                                            (* 816 sort_values(by=["_data_algebra_orig_index"]) *)
    let sub5 := sort_frame [(oi, true)] sub4 in
    sub6 <- fselect sub5 (map so_key ops) ;;                                        (* 817 *)
    Some (fold_left (fun r ka => fset r (fst ka) (snd ka)) sub6 res2).              (* 819 add_data_frame_columns_to_data_frame_ *)

  (* the same step with the scratch values in locals: the sort keys are column CONTENTS (user columns read from the input,
     constants made on the spot), `tmps` maps a constant's text to its (sorted) column, `oi` is the (sorted) index *)
  Fixpoint plain_scan (rev : list string) (res0 : frame A) (ops : list sop) (ucols : list string) (keys : list (option A * bool)) (seen : list string)
    : list string * list (option A * bool) * list string :=
    match ops with
    | [] => (ucols, keys, seen)
    | o :: t =>
        match so_arg o with
        | ArgCol c => if mem c ucols then plain_scan rev res0 t ucols keys seen
                      else plain_scan rev res0 t (ucols ++ [c]) (keys ++ [(fget res0 c, negb (mem c rev))]) seen
        | ArgVal v => if mem v seen then plain_scan rev res0 t ucols keys seen
                      else plain_scan rev res0 t ucols (keys ++ [(Some (p_const P v), true)]) (seen ++ [v])
        | ArgNone => plain_scan rev res0 t ucols keys seen
        end
    end.

  Fixpoint plain_ext_ops (tmps : list (string * A)) (gkeys : list A) (ops : list sop) (sub : frame A) : option (frame A) :=
    match ops with
    | [] => Some sub
    | o :: t =>
        col <- (match so_arg o with
                | ArgNone =>
                    if orb (String.eqb (so_fn o) "_row_number") (String.eqb (so_fn o) "_count") then Some (p_cumcount P gkeys)
                    else if String.eqb (so_fn o) "_ngroup" then Some (p_ngroup P gkeys)
                    else if String.eqb (so_fn o) "_size" then Some (p_size P gkeys)
                    else None
                | ArgCol c => v <- fget sub c ;; Some (p_transform P (so_fn o) (so_extra o) gkeys v)
                | ArgVal tx => v <- dict_get tmps tx ;; Some (p_transform P (so_fn o) (so_extra o) gkeys v)
                end) ;;
        plain_ext_ops tmps gkeys t (fset sub (so_key o) col)
    end.

  Definition plain_wextend (ops : list sop) (part order rev : list string) (res0 : frame A) : option (frame A) :=
    let cl0 := base_cols part order in
    let '(ucols, keys, seen) := plain_scan rev res0 ops cl0 (map (fun c => (fget res0 c, negb (mem c rev))) cl0) [] in
    sub0 <- fselect res0 ucols ;;
    s <- (match cl0 with
          | [] => Some (fun a : A => a)
          | _ => ks <- all_some (map fst keys) ;; Some (p_sort P (combine ks (map snd keys)))
          end) ;;
    let sub2 := fmapc s sub0 in
    let tmps := map (fun v => (v, s (p_const P v))) seen in
    let oi := s (p_index P) in
    gkeys <- (match part with [] => Some [one] | _ => freads sub2 part end) ;;       (* the grouping column of ones is made AFTER the sort *)
    sub4 <- plain_ext_ops tmps gkeys ops sub2 ;;
    let sub5 := sort_frame [(oi, true)] sub4 in
    sub6 <- fselect sub5 (map so_key ops) ;;
    Some (fold_left (fun r ka => fset r (fst ka) (snd ka)) sub6 res0).

  (* ================================================================ _natural_join_step (lines 1029-1066), on_a = on_b = on *)
  (* hand model of the column naming of pandas.merge(left_on=on, right_on=on, suffixes=("", suffix)): left columns, then
     the right columns that are not keys; a right column whose name is also a left column gets the suffix; pandas raises
     MergeError when suffixing produces a duplicate column name -- modelled, not verified *)
  Definition pd_merge (suffix : string -> string) (how : string) (on : list string) (ka kb : list A) (lf rg : frame A) : option (frame A) :=
    let rrest := filter (fun nb => negb (mem (fst nb) on)) rg in
    let out := map (fun na => (fst na, p_merge_left P how ka kb (snd na))) lf
               ++ map (fun nb => ((if mem (fst nb) (fcols lf) then suffix (fst nb) else fst nb), p_merge_right P how ka kb (snd nb))) rrest in
    if nodupb (fcols out) then Some out else None.

  Fixpoint coalesce_common (sn : pnames) (cs : list string) (res : frame A) : option (frame A) :=     (* the loop after the merge *)
    match cs with
    | [] => Some res
    | c :: t => if mem (n_right sn c) (fcols res)                                    (* `if (c + right_suffix) in res.columns` (756a9c2) *)
                then a <- fget res c ;; b <- fget res (n_right sn c) ;;
                     coalesce_common sn t (fdel (fset res c (p_fillna P a b)) (n_right sn c))
                else coalesce_common sn t res
    end.

  Definition pexec_join (sn : pnames) (how : string) (on : list string) (nullkeys : bool) (lf0 rg0 : frame A) : option (frame A) :=
    let common := filter (fun c => mem c (fcols rg0)) (fcols lf0) in
    (* no key: a scratch key column of ones in both inputs *)
    let '(on1, lf1, rg1, sk1) := (match on with
                                  | [] => ([n_merge sn], fset lf0 (n_merge sn) one, fset rg0 (n_merge sn) one, [n_merge sn])
                                  | _ => (on, lf0, rg0, [])
                                  end) in
    ka1 <- freads lf1 on1 ;; kb1 <- freads rg1 on1 ;;                                (* left[on_a].isnull() ... *)
    (* both sides have rows with a null key: a marker column in both inputs joins the keys (af27aca) *)
    let '(on2, lf2, rg2, sk2) := (if nullkeys
                                  then (on1 ++ [n_nullkey sn], fset lf1 (n_nullkey sn) (p_nullmark_left P ka1),
                                        fset rg1 (n_nullkey sn) (p_nullmark_right P kb1), sk1 ++ [n_nullkey sn])
                                  else (on1, lf1, rg1, sk1)) in
    ka <- freads lf2 on2 ;; kb <- freads rg2 on2 ;;
    res <- pd_merge (n_right sn) how on2 ka kb lf2 rg2 ;;                            (* pd.merge(left_on, right_on, suffixes=("", right_suffix)) *)
    let res1 := fold_left fdel sk2 res in                                            (* del res[scratch_col]; del res[null_key_col] *)
    coalesce_common sn common res1.

  (* frames are assumed to have distinct column names (data_algebra never builds others) *)
  Definition plain_join (how : string) (on : list string) (nullkeys : bool) (lf rg : frame A) : option (frame A) :=
    ka1 <- (match on with [] => Some [one] | _ => freads lf on end) ;;
    kb1 <- (match on with [] => Some [one] | _ => freads rg on end) ;;
    let ka := if nullkeys then ka1 ++ [p_nullmark_left P ka1] else ka1 in
    let kb := if nullkeys then kb1 ++ [p_nullmark_right P kb1] else kb1 in
    Some (map (fun na => (fst na,
                          match (if negb (mem (fst na) on) then fget rg (fst na) else None) with
                          | Some b => p_fillna P (p_merge_left P how ka kb (snd na)) (p_merge_right P how ka kb b)
                          | None => p_merge_left P how ka kb (snd na)
                          end)) lf
          ++ map (fun nb => (fst nb, p_merge_right P how ka kb (snd nb)))
                 (filter (fun nb => negb (mem (fst nb) (fcols lf))) rg)).

  (* ================================================================ one entry point *)
  Definition pexec (sn : pnames) (s : pstep) (f g : frame A) : option (frame A) :=
    match s with
    | PProject ops gb => pexec_project sn ops gb f
    | PWExtend ops part order rev => pexec_wextend sn ops part order rev f
    | PJoin how on nk => pexec_join sn how on nk f g
    end.
  Definition plain (s : pstep) (f g : frame A) : option (frame A) :=
    match s with
    | PProject ops gb => plain_project ops gb f
    | PWExtend ops part order rev => plain_wextend ops part order rev f
    | PJoin how on nk => plain_join how on nk f g
    end.
End Steps.

(* ------------------------------------------------------------------ the executor as it is: it chooses its names *)
Definition step_in_use {A} (s : pstep) (f g : frame A) : list string :=
  match s with
  | PProject ops _ | PWExtend ops _ _ _ => fcols f ++ map so_key ops
  | PJoin _ _ _ => fcols f ++ fcols g
  end.
Definition step_common {A} (s : pstep) (f g : frame A) : list string :=
  match s with PJoin _ _ _ => filter (fun c => mem c (fcols g)) (fcols f) | _ => [] end.
Definition pexec_code {A} (P : prims A) (s : pstep) (f g : frame A) : option (frame A) :=
  pexec P (code_names (step_in_use s f g) (step_common s f g)) s f g.
(* what the builders guarantee: a step only refers to columns that exist *)
Definition step_refers_to_frame {A} (s : pstep) (f g : frame A) : Prop :=
  match s with
  | PProject ops gb => forall c, In c (gb ++ flat_map (fun o => arg_cols (so_arg o)) ops) -> In c (fcols f)
  | PWExtend ops part order rev => forall c, In c (part ++ order ++ rev ++ flat_map (fun o => arg_cols (so_arg o)) ops) -> In c (fcols f)
  | PJoin _ on _ => forall c, In c on -> In c (fcols f)
  end.

(* ------------------------------------------------------------------ the table of the system's own names *)
(* collected from the SOURCE on every run by the check (an AST scan of pandas_base.py, polars_model.py, sql_model.py,
   near_sql.py, view_representations.py for string literals in name positions) and compared with this table both ways:
   a literal the table does not know, or an entry no longer in the source, breaks the correspondence. *)
Inductive rkind := KExact | KPrefixNum | KSuffix.          (* "name" | "prefix_" ++ str(n) | column ++ "_suffix" *)
Inductive rspace := SColumn | STable | SAlias.
Record rentry := mkre { r_kind : rkind; r_text : string; r_space : rspace; r_backend : string; r_class : string }.
Local Open Scope string_scope.
Definition reserved : list rentry := [
  mkre KExact "_data_table_temp_col" SColumn "pandas" "project_ones";
  mkre KPrefixNum "data_algebra_project_temp_col_" SColumn "pandas" "project_const";
  mkre KPrefixNum "data_algebra_extend_temp_col_" SColumn "pandas" "extend_const";
  mkre KExact "_data_algebra_orig_index" SColumn "pandas" "extend_orig_index";
  mkre KExact "_data_algebra_temp_g" SColumn "pandas" "extend_standin";
  mkre KExact "data_algebra_temp_merge_col" SColumn "pandas" "join_merge_key";
  mkre KExact "data_algebra_temp_null_key_col" SColumn "pandas" "join_null_key";
  mkre KSuffix "_tmp_right_col" SColumn "pandas" "join_suffix";
  mkre KExact "_da_temp_zero_column" SColumn "polars" "temp_literal";
  mkre KExact "_da_temp_one_column" SColumn "polars" "temp_literal";
  mkre KExact "_da_count_tmp" SColumn "polars" "temp_literal";
  mkre KExact "_da_extend_temp_partition_column" SColumn "polars" "extend_standin";
  mkre KExact "_da_project_temp_group_by_column" SColumn "polars" "project_standin";
  mkre KPrefixNum "_da_extend_temp_v_column_" SColumn "polars" "extend_const";
  mkre KPrefixNum "_da_project_temp_v_column_" SColumn "polars" "project_const";
  mkre KExact "_da_join_scratch_key" SColumn "polars" "join_merge_key";
  mkre KSuffix "_da_left_tmp" SColumn "polars" "join_suffix";
  mkre KSuffix "_da_right_tmp" SColumn "polars" "join_suffix";
  mkre KPrefixNum "table_reference_" STable "sql" "view_name";
  mkre KPrefixNum "extend_" STable "sql" "view_name";
  mkre KPrefixNum "project_" STable "sql" "view_name";
  mkre KPrefixNum "select_rows_" STable "sql" "view_name";
  mkre KPrefixNum "order_rows_" STable "sql" "view_name";
  mkre KPrefixNum "map_columns_" STable "sql" "view_name";
  mkre KPrefixNum "rename_" STable "sql" "view_name";
  mkre KPrefixNum "natural_join_" STable "sql" "view_name";
  mkre KPrefixNum "concat_rows_" STable "sql" "view_name";
  mkre KPrefixNum "convert_records_blocks_in_" STable "sql" "view_name";
  mkre KPrefixNum "convert_records_blocks_out_" STable "sql" "view_name";
  mkre KPrefixNum "join_source_left_" SAlias "sql" "join_alias";
  mkre KPrefixNum "join_source_right_" SAlias "sql" "join_alias"
].
(* string literals the scan also meets in name positions and that are NOT names of the system's own:
   type annotations, dictionary keys of expression records, the default table name of describe_table *)
Definition not_names : list string :=
  [""; "NearSQLContainer"; "ViewRepresentation"; "coalesce"; "op"; "op_class"; "expr"; "data_frame"; "default_Polars_model"].
Local Close Scope string_scope.

Definition is_digit (c : ascii) : bool := let n := nat_of_ascii c in Nat.leb 48 n && Nat.leb n 57.
Fixpoint all_digits (s : string) : bool := match s with EmptyString => true | String c t => is_digit c && all_digits t end.
Fixpoint ends_with (suffix s : string) : bool :=
  String.eqb suffix s || match s with EmptyString => false | String _ t => ends_with suffix t end.
Definition rmatch (e : rentry) (n : string) : bool :=
  match r_kind e with
  | KExact => String.eqb (r_text e) n
  | KPrefixNum => match strip_prefix (r_text e) n with Some d => all_digits d | None => false end
  | KSuffix => ends_with (r_text e) n
  end.
Definition rkind_eqb (a b : rkind) : bool := match a, b with KExact, KExact | KPrefixNum, KPrefixNum | KSuffix, KSuffix => true | _, _ => false end.
Definition rspace_eqb (a b : rspace) : bool := match a, b with SColumn, SColumn | STable, STable | SAlias, SAlias => true | _, _ => false end.
Definition is_reserved (sp : rspace) (n : string) : bool := existsb (fun e => rspace_eqb (r_space e) sp && rmatch e n) reserved.
Definition reserved_class (sp : rspace) (n : string) : option string :=
  option_map r_class (find (fun e => rspace_eqb (r_space e) sp && rmatch e n) reserved).

(* ------------------------------------------------------------------ SQL: names in a WITH query *)
(* the generator writes  WITH v1 AS (... FROM r ...), v2 AS (...) SELECT ... FROM r'  ; every FROM item is a NAME.  The
   generator MEANS a base table (RTable) or one of its own views (RView); the text only carries the name, and the engine
   resolves a name to the common table expression of that name when the WITH list has one, else to the base table. *)
Inductive sref := RTable (n : string) | RView (n : string).
Definition ref_name (r : sref) : string := match r with RTable n | RView n => n end.
Record wquery := mkwq { w_ctes : list string; w_refs : list sref }.
Inductive target := TCte (n : string) | TBase (n : string).
Definition target_eqb (a b : target) : bool :=
  match a, b with TCte x, TCte y | TBase x, TBase y => String.eqb x y | _, _ => false end.
Definition resolve (ctes : list string) (r : sref) : target := if mem (ref_name r) ctes then TCte (ref_name r) else TBase (ref_name r).
Definition intended (r : sref) : target := match r with RTable n => TBase n | RView n => TCte n end.
Definition captured_refs (q : wquery) : list sref := filter (fun r => negb (target_eqb (resolve (w_ctes q) r) (intended r))) (w_refs q).
Definition wq_tables (q : wquery) : list string := flat_map (fun r => match r with RTable n => [n] | _ => [] end) (w_refs q).
Definition wq_wellformed (q : wquery) : bool := forallb (fun r => match r with RView n => mem n (w_ctes q) | _ => true end) (w_refs q).

(* sql_model.to_sql since 161d83f: the view counter starts past every table of the pipeline that is itself named like a view
     for t in ops.get_tables().values(): m = re.match(r"^(?:table_reference|extend|...)_([0-9]+)$", t.table_name)
         if m is not None: temp_id_source[0] = max(temp_id_source[0], int(m.group(1)) + 1)
   and every view is then named <kind>_<id> with id counting up from there. *)
Local Open Scope string_scope.
Definition view_kinds : list string :=
  ["table_reference_"; "extend_"; "project_"; "select_rows_"; "order_rows_"; "map_columns_"; "rename_"; "natural_join_";
   "concat_rows_"; "convert_records_blocks_in_"; "convert_records_blocks_out_"].
Local Close Scope string_scope.
Definition parse_nat (s : string) : option nat :=                       (* int(m.group(1)) for [0-9]+ *)
  match s with
  | EmptyString => None
  | _ => if all_digits s then option_map Nat.of_uint (NilEmpty.uint_of_string s) else None
  end.
(* the numbers n with t = <kind>_<n> (the alternatives of the pattern exclude each other; the model keeps them all) *)
Definition view_numbers (t : string) : list nat :=
  flat_map (fun p => match strip_prefix p t with
                     | Some d => match parse_nat d with Some n => [n] | None => [] end
                     | None => []
                     end) view_kinds.
Definition first_view_id (tables : list string) : nat := fold_right Nat.max 0 (flat_map (fun t => map S (view_numbers t)) tables).
(* a view name the generator may produce for these tables *)
Definition generated_view_name (tables : list string) (v : string) : bool :=
  existsb (fun p => match strip_prefix p v with
                    | Some d => match parse_nat d with Some n => Nat.leb (first_view_id tables) n | None => false end
                    | None => false
                    end) view_kinds.
