(* C05 -- SQL side: a small SQL expression AST, its three-valued evaluation on SQLite and PostgreSQL
   (hand models of the engines' operators and functions: "modelled, not verified"; every entry cites what it models),
   the formatter templates of data_algebra TRANSCRIBED from sql_model.py (db_expr_formatters and the _db_*_expr helpers,
   the generic branches of SQLModel.expr_to_sql), SQLite.py (SQLite_formatters; the user functions installed by
   prepare_connection) and PostgreSQL.py (PostgreSQL_formatters, op_replacements), and a renderer to SQL text so that
   the templates can be compared with the text the real code emits.  No proofs here. *)
From Coq Require Import List Bool ZArith QArith Qround Qabs String Ascii.
Import ListNotations.
From DA Require Import Model.Scalar.
Local Open Scope string_scope.

Inductive dialect := DSqlite | DPg.
Inductive cmpop := CEq | CNe | CLt | CLe | CGt | CGe.
Inductive binop := BAdd | BSub | BMul | BDiv | BMod | BConcat.

(* Which of the three repairs proposed by this check (pending_fixes/C05-*.patch) the code under test carries.  The harness
   determines the variant from the code itself on every run (rendered SQL text, behaviour of SQLite._abs_fn); the
   theorems are stated for every variant: guarded + refuted for the shipped form, unguarded for the repaired form. *)
Record variant := mkvariant { fix_maxmin : bool; fix_trimstr : bool; fix_abs_sign : bool }.
Definition shipped : variant := mkvariant false false false.

Inductive sqlexpr :=
| QAtom (lit : bool) (text : string) (v : sval)       (* a column reference or a literal: renders as text, evaluates to v *)
| QNullLit
| QBoolLit (b : bool)
| QInfLit (neg : bool) (ty : string)                  (* CAST('+infinity' AS ty) / CAST('-infinity' AS ty) *)
| QCase (whens : list (sqlexpr * sqlexpr)) (els : sqlexpr)
| QCaseOf (scrut : sqlexpr) (whens : list (sqlexpr * sqlexpr)) (els : sqlexpr)
| QIsNull (e : sqlexpr)
| QIsNotNull (e : sqlexpr)
| QNot (e : sqlexpr)
| QAnd (a b : sqlexpr)
| QOr (a b : sqlexpr)
| QCmp (op : cmpop) (a b : sqlexpr)
| QBin (op : binop) (a b : sqlexpr)
| QNeg (e : sqlexpr)
| QFun (name : string) (args : list sqlexpr)
| QCast (e : sqlexpr) (ty : string)
| QIn (e : sqlexpr) (vals : list sqlexpr)
| QParen (e : sqlexpr).

(* ------------------------------------------------------------------ engine values *)
(* SQLite has no boolean type (TRUE is 1) and cannot store NaN (it becomes NULL); PostgreSQL has both. *)
Definition mkb (d : dialect) (b : bool) : sval :=
  match d with DSqlite => SNum (if b then 1 else 0) | DPg => SBool b end.
Definition norm (d : dialect) (v : sval) : sval :=
  match d with
  | DSqlite => match v with SNaN => SNull | SBool b => mkb DSqlite b | _ => v end
  | DPg => v
  end.
(* how a cell of the user's frame is stored in the engine: both uploads write NaN as NULL *)
Definition enc (d : dialect) (v : sval) : sval := match v with SNaN => SNull | _ => norm d v end.

(* truth value of a condition: None = the engine rejects the type (or it is not modelled),
   Some None = NULL (unknown) *)
Definition truth (d : dialect) (v : sval) : option (option bool) :=
  match d, v with
  | _, SNull => Some None
  | DSqlite, SNum q => Some (Some (negb (Qeq_bool q 0)))
  | DSqlite, SPInf | DSqlite, SNInf => Some (Some true)
  | DPg, SBool b => Some (Some b)
  | _, _ => None
  end.
Definition of3 (d : dialect) (t : option bool) : sval := match t with Some b => mkb d b | None => SNull end.
Definition and3 (a b : option bool) : option bool :=
  match a, b with
  | Some false, _ | _, Some false => Some false
  | Some true, Some true => Some true
  | _, _ => None end.
Definition or3 (a b : option bool) : option bool :=
  match a, b with
  | Some true, _ | _, Some true => Some true
  | Some false, Some false => Some false
  | _, _ => None end.
Definition not3 (a : option bool) : option bool := option_map negb a.

Definition cmp_test (op : cmpop) (c : comparison) : bool :=
  match op with
  | CEq => is_Eq c | CNe => negb (is_Eq c) | CLt => is_Lt c | CLe => negb (is_Gt c)
  | CGt => is_Gt c | CGe => negb (is_Lt c) end.
(* comparison: NULL when an operand is NULL; operands of one kind (numbers with +-inf, strings, booleans).
   Mixed kinds (SQLite's cross-type ordering, PostgreSQL's type error) and PostgreSQL's NaN ordering are not modelled. *)
Definition sql_cmp (d : dialect) (op : cmpop) (a b : sval) : option sval :=
  match a, b with
  | SNull, _ | _, SNull => Some SNull
  | _, _ => option_map (fun c => mkb d (cmp_test op c)) (cmp3 a b)
  end.

Definition to_xn (v : sval) : option xnum :=
  match v with SNaN => Some XNaN | _ => as_x v end.
(* IEEE division; x / 0 is handled by the caller *)
Definition xdiv (a b : xnum) : xnum :=
  match a, b with
  | XNaN, _ | _, XNaN => XNaN
  | XFin p, XFin q => if Qeq_bool q 0 then match (p ?= 0)%Q with Eq => XNaN | Gt => XPInf | Lt => XNInf end
                      else XFin (p / q)%Q
  | XFin _, _ => XFin 0
  | i, XFin q => match (q ?= 0)%Q with Lt => xneg i | _ => i end
  | _, _ => XNaN
  end.
Definition qtrunc (q : Q) : Z := if Qle_bool 0 q then Qfloor q else Qceiling q.          (* toward zero *)
Definition round_half_away (q : Q) : Q :=                                                 (* SQLite round(X) *)
  if Qle_bool 0 q then qfloor (q + (1 # 2))%Q else (- qfloor (- q + (1 # 2)))%Q.
Definition round_half_even (q : Q) : Q :=                                                 (* rint(): numpy.round, PostgreSQL round(float8) *)
  let n := Qfloor (q + (1 # 2))%Q in
  if qtie q && Z.odd n then inject_Z (n - 1) else inject_Z n.

Definition arith (d : dialect) (op : binop) (a b : sval) : option sval :=
  match a, b with
  | SNull, _ | _, SNull =>
      match op with BConcat => if strish a && strish b then Some SNull else None
                  | _ => Some SNull end                       (* every SQL operator is NULL on a NULL operand *)
  | _, _ =>
    match op with
    | BConcat => match a, b with SStr s, SStr t => Some (SStr (String.append s t)) | _, _ => None end
    | BMod =>
        (* SQLite: "The % operator casts both of its operands to type INTEGER and then computes the remainder after
           dividing the left integer by the right integer" (lang_expr.html); x % 0 is NULL.  Only SQLite templates use it. *)
        match d, a, b with
        | DSqlite, SNum p, SNum q => if Z.eqb (qtrunc q) 0 then Some SNull else Some (SNum (inject_Z (Z.rem (qtrunc p) (qtrunc q))))
        | _, _, _ => None end
    | _ =>
      match to_xn a, to_xn b with
      | Some x, Some y =>
          match op with
          | BAdd => Some (norm d (of_x (xadd x y)))
          | BSub => Some (norm d (of_x (xsub x y)))
          | BMul => Some (norm d (of_x (xmul x y)))
          | BDiv =>
              match y with
              | XFin q => if Qeq_bool q 0 then (match d with DSqlite => Some SNull       (* SQLite: division by zero is NULL *)
                                                           | DPg => None end)             (* PostgreSQL: ERROR division by zero *)
                          else Some (norm d (of_x (xdiv x y)))
              | _ => Some (norm d (of_x (xdiv x y))) end
          | _ => None end
      | _, _ => None end
    end
  end.

Definition bad_py (v : sval) : bool :=        (* SQLite.py _check_scalar_bad on the value handed to a user function *)
  match v with SNull | SNaN | SPInf | SNInf => true | _ => false end.

Section Sem.
  Variable mf : string -> Q -> option Q.
  Variable mf2 : string -> Q -> Q -> option Q.
  Variable d : dialect.
  Variable vr : variant.

  (* SQLite.py _wrap_scalar_fn / _wrap_numpy_fn: None, NaN and +-inf give NaN (stored as NULL) *)
  Definition wrap1 (v : sval) (f : Q -> option sval) : option sval :=
    if bad_py v then Some SNull else match v with SNum q => f q | _ => None end.
  Definition nullprop1 (v : sval) (f : xnum -> option sval) : option sval :=
    match v with SNull => Some SNull | _ => match to_xn v with Some x => f x | None => None end end.
  (* math.pow raises ValueError for a negative base with a non-integer exponent and for 0 ** negative;
     PostgreSQL power() raises in the same cases *)
  Definition pow_defined (p q : Q) : bool :=
    (Qis_int q || Qlt_bool 0 p || (Qeq_bool p 0 && Qlt_bool 0 q)) && negb (Qeq_bool p 0 && Qlt_bool q 0).

  Definition math_symbol (name : string) : option string :=
    match d with
    | DSqlite =>   (* user functions registered by prepare_connection; SQLite function names are case-insensitive *)
        lookup name [("ARCCOS","arccos"); ("ARCCOSH","arccosh"); ("ARCSIN","arcsin"); ("ARCSINH","arcsinh");
                     ("ARCTAN","arctan"); ("ARCTANH","arctanh"); ("COS","cos"); ("COSH","cosh"); ("EXP","exp");
                     ("EXPM1","expm1"); ("LOG","log"); ("LN","log") (* harness shim for PostgreSQL text *); ("LOG10","log10"); ("LOG1P","log1p"); ("SIN","sin");
                     ("SINH","sinh"); ("SQRT","sqrt"); ("TANH","tanh")]%string
    | DPg =>       (* PostgreSQL 9.4+ mathematical functions (functions-math.html); log10 since 12 *)
        lookup name [("COS","cos"); ("COSH","cosh"); ("EXP","exp"); ("LN","log"); ("LOG10","log10"); ("SIN","sin");
                     ("SINH","sinh"); ("SQRT","sqrt"); ("TANH","tanh")]%string
    end.

  Fixpoint first_non_null (l : list sval) : sval :=
    match l with [] => SNull | SNull :: t => first_non_null t | v :: _ => v end.

  Definition fun_sem (name : string) (vs : list sval) : option sval :=
    if String.eqb name "COALESCE" then Some (first_non_null vs)
    else if String.eqb name "NULLIF" then
      match vs with [a; b] => match sql_cmp d CEq a b with
                              | Some r => match truth d r with Some (Some true) => Some SNull | Some _ => Some a | None => None end
                              | None => None end
      | _ => None end
    else if String.eqb name "SUBSTR" then
      (* substr(X,Y,Z): Z characters starting with the Y-th (1-based); NULL on a NULL argument; modelled for Y >= 1, Z >= 0 *)
      match vs with
      | [SNull; _; _] | [_; SNull; _] | [_; _; SNull] => Some SNull
      | [SStr t; SNum a; SNum b] =>
          match Qnat a, Qnat b with
          | Some (S i), Some n => Some (SStr (prefix_n n (substring_from i t)))
          | _, _ => None end
      | _ => None end
    else match d with
    | DSqlite =>
        if String.eqb name "ABS" then            (* _abs_fn: shipped, None / NaN / +-inf give NaN; repaired, only None / NaN do *)
          match vs with
          | [v] => if fix_abs_sign vr then
                     (if missing v then Some SNull else match as_x v with Some x => Some (of_x (xabs x)) | None => None end)
                   else wrap1 v (fun q => Some (SNum (Qabs q)))
          | _ => None end
        else if String.eqb name "SIGN" then      (* _sign_fn *)
          match vs with
          | [v] => if fix_abs_sign vr then
                     (if missing v then Some SNull
                      else match v with SNum q => Some (SNum (Qsgn q)) | SPInf => Some (SNum 1) | SNInf => Some (SNum (-1)) | _ => None end)
                   else wrap1 v (fun q => Some (SNum (Qsgn q)))
          | _ => None end
        else if String.eqb name "FLOOR" then     (* _wrap_scalar_fn math.floor *)
          match vs with [v] => wrap1 v (fun q => Some (SNum (qfloor q))) | _ => None end
        else if String.eqb name "CEILING" then   (* _wrap_scalar_fn math.ceil *)
          match vs with [v] => wrap1 v (fun q => Some (SNum (qceil q))) | _ => None end
        else if String.eqb name "ROUND" then     (* built-in round(X): half away from zero, NULL on NULL *)
          match vs with
          | [SNull] => Some SNull | [SNum q] => Some (SNum (round_half_away q)) | [SPInf] => Some SPInf | [SNInf] => Some SNInf
          | _ => None end
        else if String.eqb name "POWER" then     (* _wrap_scalar_fn2 math.pow *)
          match vs with
          | [a; b] => if bad_py a || bad_py b then Some SNull
                      else match a, b with
                           | SNum p, SNum q => if pow_defined p q then option_map SNum (qpow mf2 p q) else None
                           | _, _ => None end
          | _ => None end
        else if String.eqb name "is_bad" then    (* _check_scalar_bad *)
          match vs with [v] => Some (mkb d (bad_py v)) | _ => None end
        else if String.eqb name "is_nan" then    (* _check_scalar_nan: "sqlite can't tell this from nan" *)
          match vs with [v] => Some (mkb d (missing v)) | _ => None end
        else if String.eqb name "is_inf" then    (* _check_scalar_inf *)
          match vs with [v] => Some (mkb d (match v with SPInf | SNInf => true | _ => false end)) | _ => None end
        else if String.eqb name "MOD" then       (* built-in mod(X,Y) = fmod; reached only by PostgreSQL-dialect text run on SQLite *)
          match vs with
          | [SNull; _] | [_; SNull] => Some SNull
          | [SNum p; SNum q] => if Qeq_bool q 0 then Some SNull else Some (SNum (p - inject_Z (qtrunc (p / q)) * q)%Q)
          | _ => None end
        else match math_symbol name, vs with
             | Some sym, [v] => wrap1 v (fun q => if math_dom sym q then option_map SNum (mf sym q) else None)
             | _, _ => None end
    | DPg =>
        if String.eqb name "ABS" then
          match vs with [v] => nullprop1 v (fun x => Some (of_x (xabs x))) | _ => None end
        else if String.eqb name "SIGN" then
          match vs with [v] => nullprop1 v (fun x => match x with XFin q => Some (SNum (Qsgn q)) | XPInf => Some (SNum 1)
                                                               | XNInf => Some (SNum (-1)) | XNaN => Some SNaN end) | _ => None end
        else if String.eqb name "FLOOR" then
          match vs with [v] => nullprop1 v (fun x => match x with XFin q => Some (SNum (qfloor q)) | _ => Some (of_x x) end) | _ => None end
        else if String.eqb name "CEILING" then
          match vs with [v] => nullprop1 v (fun x => match x with XFin q => Some (SNum (qceil q)) | _ => Some (of_x x) end) | _ => None end
        else if String.eqb name "ROUND" then     (* round(double precision): rint(), ties to even *)
          match vs with [v] => nullprop1 v (fun x => match x with XFin q => Some (SNum (round_half_even q)) | _ => Some (of_x x) end) | _ => None end
        else if String.eqb name "POWER" then
          match vs with
          | [SNull; _] | [_; SNull] => Some SNull
          | [SNum p; SNum q] => if pow_defined p q then option_map SNum (qpow mf2 p q) else None
          | _ => None end
        else if String.eqb name "MOD" then       (* mod(y, x) on integer types: remainder of truncating division; ERROR on zero *)
          match vs with
          | [SNull; _] | [_; SNull] => Some SNull
          | [SNum p; SNum q] => if Qis_int p && Qis_int q && negb (Qeq_bool q 0)
                                then Some (SNum (inject_Z (Z.rem (Qfloor p) (Qfloor q)))) else None
          | _ => None end
        else match math_symbol name, vs with
             | Some sym, [v] => nullprop1 v (fun x => match x with
                                                      | XFin q => if math_dom sym q then option_map SNum (mf sym q) else None
                                                      | _ => None end)
             | _, _ => None end
    end.

  Definition cast_sem (ty : string) (v : sval) : option sval :=
    match v with
    | SNull => Some SNull
    | _ =>
      if String.eqb ty "VARCHAR" then match v with SStr s => Some v | _ => None end       (* number formatting not modelled *)
      else if String.eqb ty "INT64" then      (* SQLite: a type name containing INT has INTEGER affinity; REAL -> INTEGER truncates *)
        match d, v with DSqlite, SNum q => Some (SNum (inject_Z (qtrunc q))) | _, _ => None end
      else if String.eqb ty "BIGINT" then     (* PostgreSQL float8 -> bigint rounds to nearest (ties to even) *)
        match d, v with
        | DPg, SNum q => Some (SNum (round_half_even q))
        | DSqlite, SNum q => Some (SNum (inject_Z (qtrunc q)))      (* INTEGER affinity; only PostgreSQL text run on SQLite *)
        | _, _ => None end
      else None
    end.

  Fixpoint all_some {A} (l : list (option A)) : option (list A) :=
    match l with [] => Some [] | Some x :: t => option_map (cons x) (all_some t) | None :: _ => None end.

  Fixpoint sem (e : sqlexpr) : option sval :=
    match e with
    | QAtom _ _ v => Some v
    | QNullLit => Some SNull
    | QBoolLit b => Some (mkb d b)
    | QInfLit neg ty =>
        match d with
        | DPg => Some (if neg then SNInf else SPInf)      (* 'infinity'::float8 *)
        | DSqlite => Some (SNum 0) end                    (* CAST of non-numeric text to a numeric type is 0 in SQLite *)
    | QCase whens els =>
        (fix go (ws : list (sqlexpr * sqlexpr)) : option sval :=
           match ws with
           | [] => sem els
           | (c, t) :: r =>
               match sem c with
               | Some vc => match truth d vc with
                            | Some (Some true) => sem t
                            | Some _ => go r
                            | None => None end
               | None => None end
           end) whens
    | QCaseOf scrut whens els =>
        match sem scrut with
        | Some vs =>
            (fix go (ws : list (sqlexpr * sqlexpr)) : option sval :=
               match ws with
               | [] => sem els
               | (k, t) :: r =>
                   match sem k with
                   | Some vk => match sql_cmp d CEq vs vk with
                                | Some rr => match truth d rr with
                                             | Some (Some true) => sem t
                                             | Some _ => go r
                                             | None => None end
                                | None => None end
                   | None => None end
               end) whens
        | None => None end
    | QIsNull a => option_map (fun v => mkb d (match v with SNull => true | _ => false end)) (sem a)
    | QIsNotNull a => option_map (fun v => mkb d (match v with SNull => false | _ => true end)) (sem a)
    | QNot a => match sem a with Some v => option_map (fun t => of3 d (not3 t)) (truth d v) | None => None end
    | QAnd a b => match sem a, sem b with
                  | Some va, Some vb => match truth d va, truth d vb with
                                        | Some ta, Some tb => Some (of3 d (and3 ta tb)) | _, _ => None end
                  | _, _ => None end
    | QOr a b => match sem a, sem b with
                 | Some va, Some vb => match truth d va, truth d vb with
                                       | Some ta, Some tb => Some (of3 d (or3 ta tb)) | _, _ => None end
                 | _, _ => None end
    | QCmp op a b => match sem a, sem b with Some va, Some vb => sql_cmp d op va vb | _, _ => None end
    | QBin op a b => match sem a, sem b with Some va, Some vb => arith d op va vb | _, _ => None end
    | QNeg a => match sem a with
                | Some SNull => Some SNull
                | Some v => match to_xn v with Some x => Some (norm d (of_x (xneg x))) | None => None end
                | None => None end
    | QFun name args => match all_some (map sem args) with Some vs => fun_sem name vs | None => None end
    | QCast a ty => match sem a with Some v => cast_sem ty v | None => None end
    | QIn a vals =>
        match sem a, all_some (map sem vals) with
        | Some SNull, Some _ => Some SNull
        | Some v, Some vs => option_map (mkb d) (mem_cmp v vs)
        | _, _ => None end
    | QParen a => sem a
    end.
End Sem.

(* ------------------------------------------------------------------ the templates *)
Definition lit_text (text : string) (v : sval) : sqlexpr := QAtom true text v.
Definition is_lit_with (e : sqlexpr) (q : Q) : bool :=
  match e with QAtom true _ (SNum p) => Qeq_bool p q | _ => false end.
Definition float_type (d : dialect) : string := match d with DSqlite => "double precision" | DPg => "DOUBLE PRECISION" end%string.

(* sql_model._db_maximum_expr / _db_minimum_expr *)
Definition t_maxmin_ornull (op : cmpop) (x y : sqlexpr) : sqlexpr :=
  QCase [ (QParen (QOr (QParen (QIsNull y)) (QCmp op (QParen x) (QParen y))), x);
          (QParen (QOr (QParen (QIsNull x)) (QCmp op (QParen y) (QParen x))), y) ] QNullLit.
(* sql_model._db_fmax_expr / _db_fmin_expr *)
Definition t_maxmin_plain (op : cmpop) (x y : sqlexpr) : sqlexpr :=
  QCase [ (QCmp op (QParen x) (QParen y), x); (QNot (QCmp op (QParen x) (QParen y)), y) ] QNullLit.
(* sql_model._db_is_nan_expr body (shared with _db_is_bad_expr) *)
Definition nan_whens (x : sqlexpr) : list (sqlexpr * sqlexpr) :=
  [ (QAnd (QParen (QCmp CGt x (lit_text "0" (SNum 0)))) (QParen (QCmp CGt (QNeg x) (lit_text "0" (SNum 0)))), QBoolLit true);
    (QParen (QCmp CNe x x), QBoolLit true);
    (QAnd (QParen (QCmp CNe x (lit_text "0" (SNum 0)))) (QParen (QCmp CEq x (QNeg x))), QBoolLit true) ].
Definition inf_when (d : dialect) (x : sqlexpr) : sqlexpr * sqlexpr :=
  (QNot (QParen (QAnd (QParen (QCmp CGt x (QInfLit true (float_type d)))) (QParen (QCmp CLt x (QInfLit false (float_type d)))))), QBoolLit true).

Fixpoint pair_up (l : list sqlexpr) : option (list (sqlexpr * sqlexpr)) :=
  match l with
  | [] => Some []
  | k :: v :: t => option_map (cons (k, v)) (pair_up t)
  | [_] => None end.
Definition all_lit (l : list sqlexpr) : bool := forallb (fun e => match e with QAtom true _ _ => true | _ => false end) l.

(* data_algebra's own derived expression for around(): (x * 10.0 ** d).round() / 10.0 ** d, rendered through the
   generic branches; `d` is a literal *)
Definition t_power10 (dg : sqlexpr) : sqlexpr :=
  if is_lit_with dg 1 then lit_text "10.0" (SNum 10)            (* _db_pow_expr: an exponent literally 1 gives the base *)
  else QFun "POWER" [lit_text "10.0" (SNum 10); dg].

Definition lookup_upper (m : string) : string :=
  match lookup m [("arccos","ARCCOS"); ("arccosh","ARCCOSH"); ("arcsin","ARCSIN"); ("arcsinh","ARCSINH"); ("arctan","ARCTAN");
                  ("arctanh","ARCTANH"); ("cos","COS"); ("cosh","COSH"); ("exp","EXP"); ("expm1","EXPM1"); ("log","LOG");
                  ("log10","LOG10"); ("log1p","LOG1P"); ("sin","SIN"); ("sinh","SINH"); ("sqrt","SQRT"); ("tanh","TANH")]%string
  with Some u => u | None => m end.

Definition fmt (vr : variant) (d : dialect) (m : string) (args : list sqlexpr) : option sqlexpr :=
  let inline2 (mk : sqlexpr -> sqlexpr -> sqlexpr) := match args with [a; b] => Some (mk a b) | _ => None end in
  let fn1 (name : string) := match args with [a] => Some (QFun name [a]) | _ => None end in
  (* generic branch of expr_to_sql for an inline operator of two arguments: a OP b *)
  if String.eqb m "+" then inline2 (QBin BAdd)
  else if String.eqb m "*" then inline2 (QBin BMul)
  else if String.eqb m "/" then inline2 (QBin BDiv)
  else if String.eqb m "-" then
    match args with
    | [a] => Some (QNeg (QParen a))                                 (* generic non-inline branch: OP(arg) *)
    | [a; b] => Some (QBin BSub a b)
    | _ => None end
  else if String.eqb m "==" then inline2 (QCmp CEq)                  (* op_replacements: == -> = *)
  else if String.eqb m "!=" then inline2 (QCmp CNe)
  else if String.eqb m "<" then inline2 (QCmp CLt)
  else if String.eqb m "<=" then inline2 (QCmp CLe)
  else if String.eqb m ">" then inline2 (QCmp CGt)
  else if String.eqb m ">=" then inline2 (QCmp CGe)
  else if String.eqb m "and" then inline2 QAnd
  else if String.eqb m "or" then inline2 QOr
  else if String.eqb m "not" then                                    (* parsed as a == False *)
    match args with [a] => Some (QCmp CEq a (QBoolLit false)) | _ => None end
  else if String.eqb m "%/%" then
    match d, args with
    | DSqlite, [a; b] => Some (QParen (QBin BDiv a (QParen (QBin BMul (lit_text "1.0" (SNum 1)) b))))      (* _db_float_divide_expr *)
    | DPg, [a; b] => Some (QParen (QBin BDiv a (QFun "NULLIF" [QBin BMul (lit_text "1.0" (SNum 1)) b; lit_text "0" (SNum 0)])))  (* _postgresql_null_divide_expr *)
    | _, _ => None end
  else if String.eqb m "//" then                                     (* _db_int_divide_expr: (a / b).floor() *)
    match args with [a; b] => Some (QFun "FLOOR" [QBin BDiv a b]) | _ => None end
  else if String.eqb m "%" || String.eqb m "mod" then
    match d, args with
    | DSqlite, [a; b] => Some (QParen (QBin BMod a b))               (* _sqlite_remainder_expr *)
    | DPg, [a; b] => Some (QFun "MOD" [a; b])                        (* _db_mod_expr *)
    | _, _ => None end
  else if String.eqb m "remainder" then
    match d, args with
    | DSqlite, [a; b] => Some (QParen (QBin BMod a b))
    | DPg, [a; b] =>                                                 (* _db_remainder_expr *)
        Some (QParen (QBin BSub a (QBin BMul (QFun "FLOOR" [QBin BDiv a (QParen (QBin BMul (lit_text "1.0" (SNum 1)) b))]) b)))
    | _, _ => None end
  else if String.eqb m "**" then                                     (* _db_pow_expr *)
    match args with [a; b] => if is_lit_with b 1 then Some a else Some (QFun "POWER" [a; b]) | _ => None end
  else if String.eqb m "abs" then fn1 "ABS"
  else if String.eqb m "sign" then fn1 "SIGN"
  else if String.eqb m "floor" then fn1 "FLOOR"                      (* _db_floor_expr *)
  else if String.eqb m "ceil" then fn1 "CEILING"                     (* _db_ceil_expr *)
  else if String.eqb m "round" then fn1 "ROUND"                      (* _db_round_expr *)
  else if String.eqb m "around" then                                 (* _db_around_expr *)
    match args with
    | [a; dg] => if negb (all_lit [dg]) then None
                 else if is_lit_with dg 0 then Some (QFun "ROUND" [a])
                 else Some (QParen (QBin BDiv (QFun "ROUND" [QBin BMul a (t_power10 dg)]) (t_power10 dg)))
    | _ => None end
  (* shipped: maximum/minimum use the OR-IS-NULL form (which skips a NULL operand) and fmax/fmin the plain form (which
     yields NULL); the repair exchanges them *)
  else if String.eqb m "maximum" then inline2 ((if fix_maxmin vr then t_maxmin_plain else t_maxmin_ornull) CGe)
  else if String.eqb m "minimum" then inline2 ((if fix_maxmin vr then t_maxmin_plain else t_maxmin_ornull) CLe)
  else if String.eqb m "fmax" then inline2 ((if fix_maxmin vr then t_maxmin_ornull else t_maxmin_plain) CGe)
  else if String.eqb m "fmin" then inline2 ((if fix_maxmin vr then t_maxmin_ornull else t_maxmin_plain) CLe)
  else if String.eqb m "if_else" then                                (* _db_if_else_expr *)
    match args with [c; x; y] => Some (QCase [(c, x); (QNot c, y)] QNullLit) | _ => None end
  else if String.eqb m "where" then                                  (* _db_where_expr *)
    match args with [c; x; y] => Some (QCase [(c, x)] y) | _ => None end
  else if String.eqb m "coalesce" then                               (* _db_coalesce_expr *)
    match args with _ :: _ => Some (QFun "COALESCE" args) | [] => None end
  else if String.eqb m "is_null" then                                (* _db_is_null_expr *)
    match args with [a] => Some (QParen (QIsNull a)) | _ => None end
  else if String.eqb m "is_nan" then
    match d, args with
    | DSqlite, [a] => Some (QFun "is_nan" [a])                       (* _sqlite_is_nan_expr *)
    | DPg, [a] => Some (QParen (QCase ((QIsNull a, QBoolLit false) :: nan_whens a) (QBoolLit false)))     (* _db_is_nan_expr *)
    | _, _ => None end
  else if String.eqb m "is_inf" then
    match d, args with
    | DSqlite, [a] => Some (QFun "is_inf" [a])
    | DPg, [a] => Some (QParen (QCase [(QIsNull a, QBoolLit false); inf_when d a] (QBoolLit false)))       (* _db_is_inf_expr *)
    | _, _ => None end
  else if String.eqb m "is_bad" then
    match d, args with
    | DSqlite, [a] => Some (QFun "is_bad" [a])
    | DPg, [a] => Some (QParen (QCase ((QIsNull a, QBoolLit true) :: List.app (nan_whens a) [inf_when d a]) (QBoolLit false)))   (* _db_is_bad_expr *)
    | _, _ => None end
  else if String.eqb m "is_in" then                                  (* _db_is_in_expr; the set is a literal list *)
    match args with a :: vals => if all_lit vals then Some (QParen (QIn a vals)) else None | [] => None end
  else if String.eqb m "mapv" then                                   (* _db_mapv: args = x :: default :: k1 :: v1 ... *)
    match args with
    | a :: dflt :: kv =>
        if negb (all_lit (dflt :: kv)) then None
        else match pair_up kv with
             | Some [] => Some dflt
             | Some ws => Some (QCaseOf a ws dflt)
             | None => None end
    | _ => None end
  else if String.eqb m "concat" then                                 (* _db_concat_expr: each argument through as_str() *)
    match args with [a; b] => Some (QParen (QBin BConcat (QCast a "VARCHAR") (QCast b "VARCHAR"))) | _ => None end
  else if String.eqb m "trimstr" then       (* _trimstr: shipped SUBSTR(x, 1 + start, stop); repaired SUBSTR(x, 1 + start, stop - start) *)
    match args with
    | [a; s; e] => if all_lit [s; e]
                   then Some (QFun "SUBSTR" [a; QBin BAdd (lit_text "1" (SNum 1)) s; if fix_trimstr vr then QBin BSub e s else e])
                   else None
    | _ => None end
  else if String.eqb m "as_int64" then
    match d, args with
    | DSqlite, [a] => Some (QCast a "INT64")                         (* _as_int64 *)
    | DPg, [a] => Some (QCast a "BIGINT")                            (* _postgresql_as_int64 *)
    | _, _ => None end
  else if String.eqb m "as_str" then match args with [a] => Some (QCast a "VARCHAR") | _ => None end      (* _as_str, string_type VARCHAR *)
  else if String.eqb m "arctan2" then inline2 (fun a b => QFun "ARCTAN2" [a; b])
  else if existsb (String.eqb m) math_names then
    (* generic non-inline branch: UPPER(op)(arg); PostgreSQL replaces log by LN (op_replacements) *)
    match args with
    | [a] => Some (QFun (match d with DPg => if String.eqb m "log" then "LN" else lookup_upper m | DSqlite => lookup_upper m end) [a])
    | _ => None end
  else None.

(* ------------------------------------------------------------------ rendering to SQL text (structural tie) *)
Definition cmp_text (op : cmpop) : string :=
  match op with CEq => "=" | CNe => "!=" | CLt => "<" | CLe => "<=" | CGt => ">" | CGe => ">=" end.
Definition bin_text (op : binop) : string :=
  match op with BAdd => "+" | BSub => "-" | BMul => "*" | BDiv => "/" | BMod => "%" | BConcat => "||" end.
Fixpoint join_with (sep : string) (l : list string) : string :=
  match l with [] => "" | [x] => x | x :: t => x ++ sep ++ join_with sep t end.

Fixpoint render (e : sqlexpr) : string :=
  match e with
  | QAtom _ text _ => text
  | QNullLit => "NULL"
  | QBoolLit b => if b then "TRUE" else "FALSE"
  | QInfLit neg ty => "CAST('" ++ (if neg then "-" else "+") ++ "infinity' AS " ++ ty ++ ")"
  | QCase whens els =>
      "CASE" ++ (fix go (ws : list (sqlexpr * sqlexpr)) : string :=
                   match ws with [] => "" | (c, t) :: r => " WHEN " ++ render c ++ " THEN " ++ render t ++ go r end) whens
             ++ " ELSE " ++ render els ++ " END"
  | QCaseOf s whens els =>
      "CASE " ++ render s ++ (fix go (ws : list (sqlexpr * sqlexpr)) : string :=
                   match ws with [] => "" | (c, t) :: r => " WHEN " ++ render c ++ " THEN " ++ render t ++ go r end) whens
             ++ " ELSE " ++ render els ++ " END"
  | QIsNull a => render a ++ " IS NULL"
  | QIsNotNull a => render a ++ " IS NOT NULL"
  | QNot a => "NOT " ++ render a
  | QAnd a b => render a ++ " AND " ++ render b
  | QOr a b => render a ++ " OR " ++ render b
  | QCmp op a b => render a ++ " " ++ cmp_text op ++ " " ++ render b
  | QBin op a b => render a ++ " " ++ bin_text op ++ " " ++ render b
  | QNeg a => "-" ++ render a
  | QFun name args => name ++ "(" ++ join_with ", " (map render args) ++ ")"
  | QCast a ty => "CAST(" ++ render a ++ " AS " ++ ty ++ ")"
  | QIn a vals => render a ++ " IN (" ++ join_with ", " (map render vals) ++ ")"
  | QParen a => "(" ++ render a ++ ")"
  end.

(* ------------------------------------------------------------------ one method on one row *)
(* literal positions of a method call as the catalogue uses it (the remaining arguments are columns) *)
Definition flag_at (lits : list bool) (i : nat) : bool := nth i lits (last lits false).
Fixpoint atoms_from (d : dialect) (lits : list bool) (i : nat) (vs : list sval) : list sqlexpr :=
  match vs with [] => [] | v :: t => QAtom (flag_at lits i) "" (enc d v) :: atoms_from d lits (S i) t end.
(* dt = the dialect whose templates are used, de = the engine that evaluates them (they differ only when the harness
   executes PostgreSQL-dialect text on SQLite) *)
Definition sql_eval_on (mf : string -> Q -> option Q) (mf2 : string -> Q -> Q -> option Q) (vr : variant)
           (dt de : dialect) (m : string) (lits : list bool) (vs : list sval) : option sval :=
  match fmt vr dt m (atoms_from de lits 0 vs) with Some e => sem mf mf2 de vr e | None => None end.
Definition sql_eval mf mf2 vr (d : dialect) := sql_eval_on mf mf2 vr d d.
