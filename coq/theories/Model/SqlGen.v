(* SQLGEN -- step-by-step transcription of the SQL generator of data_algebra:

     data_algebra/sql_model.py   SQLModel.table_def_to_near_sql, extend_to_near_sql (incl. the SQL-level extend merge),
                                 project_to_near_sql, select_rows_to_near_sql, select_columns_to_near_sql,
                                 drop_columns_to_near_sql, order_to_near_sql, map_columns_to_near_sql, rename_to_near_sql,
                                 _natural_join_sub_queries, natural_join_to_near_sql, concat_rows_to_near_sql
     data_algebra/SQLite.py      SQLiteModel.natural_join_to_near_sql, _emit_right_join_as_left_join, _emit_full_join_as_complex
     data_algebra/view_representations.py   the two builder calls the generator itself makes: `.extend({id_column: Value(..)})`
                                 in concat_rows_to_near_sql (extend_parsed_: skips an order_rows without limit, merges into an
                                 un-windowed ExtendNode through try_to_merge_ops) and the builder chain of _emit_full_join_as_complex

   over the pipeline terms of Model/Sem.v, with `columns_used_from_sources` taken from Model/ColumnsUsed.v (C10).

   The product is a TYPED NearSQL tree `tnear`: the object graph of data_algebra/near_sql.py (table / unary step / binary step,
   each sub-query in a container with its column narrowing, force_sql flag and public alias) in which every piece of SQL text
   the code writes is kept as the STRUCTURE it was written from (the expression of the pipeline, the window clause, WHERE /
   GROUP BY / ORDER BY / LIMIT, the ON pairs, COALESCE of the two aliases).  Model/SqlSem.v gives such a tree a meaning;
   `erase` (Model/SqlGenCases.v) turns it back into the text form so that the REAL graph can be compared with it.

   Conventions
   * `using` : a Python set / OrderedSet of column names = a duplicate-free list; `None` = Coq None.  Where Python iterates a
     plain `set` the order of the model's list is one admissible order; the comparison with the implementation treats those lists
     as multisets (see SqlGenCases.v).
   * temp_id_source[0] = the `nat` threaded through (`idsrc`); a view name is the pair (kind, number) printed kind_number.
   * result: Ok | Raise (the Python code raises: KeyError / ValueError / TypeError / AssertionError) | OutOfFuel.  The generator
     recurses into pipelines it BUILDS (concat's id column extend, SQLite's FULL join rewrite), so the recursion is on explicit
     fuel; `gen_fuel p` always suffices (theorems exclude OutOfFuel by assuming Ok).
   * not modelled: annotation text and ops_key (C04's Model/NearSql.v has them; they never reach the meaning of a query).
   No proofs in this file. *)
From Coq Require Import List Bool Arith String.
Import ListNotations.
From DA Require Import Base.PyRT Base.Val Model.Sem Model.ColumnsUsed.
Local Open Scope string_scope.
Local Open Scope list_scope.

(* ------------------------------------------------------------------ the typed NearSQL tree *)
Record vname := mkvn { vn_kind : string; vn_id : nat }.

(* one entry of a `terms` dict *)
Inductive tterm :=
| TmPass                                   (* None: the column of that name, passed through *)
| TmSelf                                   (* the key itself as text (table_reference steps: terms[k] = k): the same column *)
| TmCol (c : string)                       (* quote_identifier(c): another column under this name (rename / map_columns) *)
| TmExpr (e : expr)                        (* expr_to_sql(e), evaluated per row *)
| TmAgg (e : expr)                         (* expr_to_sql(e) of a project step: an aggregate *)
| TmWin (e : expr) (part : list string) (order : list (string * bool))
                                           (* expr_to_sql(e) + " OVER ( PARTITION BY .. ORDER BY .. [DESC] ) " *)
| TmCoalesce (left_first : bool) (c : string).   (* COALESCE(first."c", second."c"); first = the left alias iff left_first *)

Definition terms := list (string * tterm).
Definition depmap := list (string * list string).

Inductive tsuffix :=
| SfxNone
| SfxWhere (e : expr)
| SfxGroup (gb : list string)
| SfxOrder (keys : list (string * bool)) (limit : option nat).     (* ORDER BY (absent when keys = []) and LIMIT *)

Inductive tjoiner := TJoin (jt : jointype) | TUnion.

Record tcinfo := mk_tci { tc_cols : option (list string); tc_force : bool; tc_pub : option vname }.

Inductive tnear :=
| TTable (name : string) (tms : option (list string))       (* NearSQLTable; a term of a table is always its quoted name *)
| TUnary (name : vname) (tms : option terms) (sub : tnear) (ci : tcinfo) (sfx : tsuffix) (mergeable : bool) (deps : option depmap)
| TBinary (name : vname) (tms : option terms) (s1 : tnear) (c1 : tcinfo) (j : tjoiner) (s2 : tnear) (c2 : tcinfo)
          (on : list (string * string)).

Inductive result (A : Type) := Ok (a : A) | Raise | OutOfFuel.
Arguments Ok {A}. Arguments Raise {A}. Arguments OutOfFuel {A}.
Definition bind {A B} (r : result A) (f : A -> result B) : result B :=
  match r with Ok a => f a | Raise => Raise | OutOfFuel => OutOfFuel end.
Notation "'do' '(' a ',' b ')' <- r ; k" := (bind r (fun ab => let '(a, b) := ab in k))
  (at level 200, a name, b name, r at level 100, k at level 200).

(* a SQL dialect, as far as the generator distinguishes dialects *)
Record dialect := mk_dialect {
  d_allow_extend_merges : bool;        (* SQLModel.allow_extend_merges *)
  d_rewrite_right : bool;              (* SQLiteModel.natural_join_to_near_sql: a RIGHT join is written as a LEFT join *)
  d_rewrite_full : bool;               (* ... and a FULL join as key table + two LEFT joins when sqlite3.sqlite_version_info < (3, 39, 0) *)
  d_join_carry : bool                  (* _natural_join_sub_queries lets a side none of whose columns is needed carry one column
                                          (pending_fixes/SQLGEN-join-unused-side-carries-a-column.patch; read off the code at run time) *)
}.
Definition d_sqlite := mk_dialect true true false false.        (* SQLiteModel linked with SQLite 3.39+ (here: 3.40.1), code as found *)
Definition d_sqlite_nomerge := mk_dialect false true false false.
Definition d_sqlite_pre339 := mk_dialect true true true false.  (* SQLiteModel linked with an older engine: FULL join emulated *)
Definition d_generic := mk_dialect true false false false.      (* DBModel / PostgreSQLModel *)

(* NearSQL.__init__: self.terms = terms.copy() only for a non-empty dict, else None *)
Definition norm {A} (l : list A) : option (list A) := match l with [] => None | _ => Some l end.

Definition pass_terms (ks : list string) : terms := map (fun k => (k, TmPass)) ks.

(* keys of the terms of a step, as a list: None and {} both have none *)
Definition tkeys (q : tnear) : list string :=
  match q with
  | TTable _ t => match t with Some l => l | None => [] end
  | TUnary _ t _ _ _ _ _ | TBinary _ t _ _ _ _ _ _ => match t with Some l => map fst l | None => [] end
  end.
Definition terms_is_none (q : tnear) : bool :=
  match q with
  | TTable _ None | TUnary _ None _ _ _ _ _ | TBinary _ None _ _ _ _ _ _ => true
  | _ => false
  end.
(* subsql.terms = {k: subsql.terms[k] for k in ks}  (assignment to the attribute: no normalisation); None = KeyError *)
Definition restrict_terms (q : tnear) (ks : list string) : option tnear :=
  match q with
  | TTable n t => let l := match t with Some l => l | None => [] end in
                  if subset ks l then Some (TTable n (Some ks)) else None
  | TUnary n t s ci sfx mg dp =>
      let l := match t with Some l => l | None => [] end in
      if subset ks (map fst l)
      then Some (TUnary n (Some (flat_map (fun k => match dict_get l k with Some v => [(k, v)] | None => [] end) ks)) s ci sfx mg dp)
      else None
  | TBinary n t s1 c1 j s2 c2 on =>
      let l := match t with Some l => l | None => [] end in
      if subset ks (map fst l)
      then Some (TBinary n (Some (flat_map (fun k => match dict_get l k with Some v => [(k, v)] | None => [] end) ks)) s1 c1 j s2 c2 on)
      else None
  end.
(* subsql.terms = []   (select_columns_to_near_sql, the branch `subsql.terms is None`) *)
Definition empty_terms (q : tnear) : tnear :=
  match q with
  | TTable n _ => TTable n (Some [])
  | TUnary n _ s ci sfx mg dp => TUnary n (Some []) s ci sfx mg dp
  | TBinary n _ s1 c1 j s2 c2 on => TBinary n (Some []) s1 c1 j s2 c2 on
  end.

(* ------------------------------------------------------------------ the SQL-level extend merge (extend_to_near_sql) *)
Definition term_is_trivial (t : tterm) : bool :=          (* (term_dict[ki] is None) or (term_dict[ki] == ki) *)
  match t with TmPass | TmSelf => true | _ => false end.

(* non_trivial_terms(dep_dict, term_dict), with the test `ki in term_dict` of 05d5f06 *)
Definition non_trivial_terms (dep : depmap) (tms : terms) : list string :=
  flat_map (fun kv =>
              let ki := fst kv in let vi := snd kv in
              match dict_get tms ki with
              | None => []
              | Some t => if negb (subset vi [ki]) || negb (mem ki vi) || negb (term_is_trivial t) then [ki] else []
              end) dep.
Definition deps_of (dep : depmap) (k : string) : list string := match dict_get dep k with Some d => d | None => [] end.
Definition needs (dep : depmap) (nt : list string) : list string := flat_map (deps_of dep) nt.
Definition contention (our_nt our_needs sub_nt sub_needs : list string) : list string :=
  set_inter our_nt sub_nt ++ set_inter our_nt sub_needs ++ set_inter sub_nt our_needs.
Definition term_of (tms : terms) (k : string) : tterm := match dict_get tms k with Some t => t | None => TmPass end.

(* subsql.terms[k] = terms[k] for k in our_non_trivial_terms; then every key outside we_use is deleted *)
Definition merged_terms (our_nt : list string) (tms : terms) (deps : depmap) (ts : terms) : terms :=
  filter (fun kv => mem (fst kv) (map fst tms ++ map fst deps))
         (fold_left (fun acc k => dict_set acc k (term_of tms k)) our_nt ts).
Definition merged_deps (our_nt : list string) (tms : terms) (deps ds : depmap) : depmap :=
  filter (fun kv => mem (fst kv) (map fst tms ++ map fst deps))
         (fold_left (fun acc k => dict_set acc k (deps_of deps k)) our_nt ds).

(* None: no merge (a new step is built); Some (Ok m): the changed sub-query is returned; Some Raise: the test itself raises *)
Definition try_sql_merge (sub : tnear) (tms : terms) (deps : depmap) : option (result tnear) :=
  match sub with
  | TUnary n ts0 s ci SfxNone true (Some ds) =>
      match ts0 with
      | None => Some Raise                              (* `ki in term_dict` on None *)
      | Some ts =>
          let our_nt := non_trivial_terms deps tms in
          let sub_nt := non_trivial_terms ds ts in
          match contention our_nt (needs deps our_nt) sub_nt (needs ds sub_nt) with
          | _ :: _ => None
          | [] => Some (Ok (TUnary n (Some (merged_terms our_nt tms deps ts)) s ci SfxNone true (Some (merged_deps our_nt tms deps ds))))
          end
      end
  | _ => None
  end.

(* ------------------------------------------------------------------ builder calls made by the generator *)
(* ViewRepresentation.extend_parsed_ for `{idc: Value(v)}` without window arguments: an order_rows without limit is skipped
   (is_trivial_when_intermediate_), an un-windowed ExtendNode absorbs the new assignment (try_to_merge_ops always succeeds for a
   constant assigned to a fresh name), anything else gets a new ExtendNode *)
Definition no_window := mkwin [] [] [].
Fixpoint builder_extend_const (p : op) (idc : string) (v : val) : op :=
  match p with
  | OOrder s _ _ None => builder_extend_const s idc v
  | OExtend s ops false (mkwin [] [] []) => OExtend s (ops ++ [(idc, EConst v)]) false no_window
  | _ => OExtend p [(idc, EConst v)] false no_window
  end.
(* self.is_trivial_when_intermediate_() at the head of project / natural_join / concat_rows *)
Fixpoint strip_order (p : op) : op :=
  match p with OOrder s _ _ None => strip_order s | _ => p end.
(* SQLiteModel._emit_full_join_as_complex: ops_simulate *)
Definition full_join_rewrite (a b : op) (J : list string) : op :=
  OJoin (OJoin (OProject (OConcat (OProject (strip_order a) [] J) (OProject (strip_order b) [] J) None "a" "b") [] J)
               a J J JLeft)
        b J J JLeft.

(* ------------------------------------------------------------------ the generator *)
Definition gen := nat -> result (tnear * nat).

(* ExtendNode.windowed_situation or len(partition_by) > 0 or len(order_by) > 0 *)
Definition has_window (wd : bool) (w : window) : bool := wd || negb (is_nil (w_part w)) || negb (is_nil (w_order w)).

Definition ext_term (wd : bool) (w : window) (e : expr) : tterm :=
  if has_window wd w then TmWin e (w_part w) (map (fun c => (c, mem c (w_rev w))) (w_order w)) else TmExpr e.

(* extend_to_near_sql; `src` = extend_node.sources[0].to_near_sql_implementation_ *)
Definition gen_extend (d : dialect) (src : option (list string) -> gen) (p : op) (s : op) (ops : list (string * expr))
           (wd : bool) (w : window) (usg : option (list string)) : gen := fun n =>
  let using0 := match usg with Some u => u | None => column_names p end in
  let subops := sub_ops using0 ops in
  match subops with
  | [] => src (Some using0) n
  | _ =>
      let using1 := set_union (set_union (set_union using0 (w_part w)) (w_order w)) (w_rev w) in
      if is_nil using1 then Raise                                             (* must produce at least one column *)
      else if negb (subset using1 (column_names p)) then Raise                (* referred to unknown columns *)
      else
        let subusing := cfs1 p using1 in
        do (subsql, n1) <- src (Some subusing) n;
        let window_vars := if has_window wd w then set_union (w_part w) (w_order w) else [] in
        let origcols := filter (fun k => negb (mem k (map fst subops))) using1 in
        let tms : terms := pass_terms origcols ++ map (fun ke => (fst ke, ext_term wd w (snd ke))) subops in
        let deps : depmap := map (fun k => (k, [k])) origcols
                             ++ map (fun ke => (fst ke, set_union (py_set (cols_used (snd ke))) window_vars)) subops in
        let fresh := Ok (TUnary (mkvn "extend" n1) (norm tms) subsql (mk_tci (Some subusing) false None) SfxNone true (Some deps), S n1) in
        if d_allow_extend_merges d then
          match try_sql_merge subsql tms deps with
          | Some (Ok m) => Ok (m, n1)
          | Some Raise => Raise
          | Some OutOfFuel => OutOfFuel
          | None => fresh
          end
        else fresh
  end.

(* the narrowing shared by select_columns_to_near_sql and drop_columns_to_near_sql: keep `keep`, but never no term at all *)
Definition narrow_or_first (subsql : tnear) (keep : list string) : option tnear :=
  match keep, tkeys subsql with
  | [], k0 :: _ => restrict_terms subsql [k0]
  | _, _ => restrict_terms subsql keep
  end.

(* DBModel.natural_join_to_near_sql with _natural_join_sub_queries; (a, b, on_a, on_b, jt) are the fields of the (possibly
   copied) join node, `p` the node whose column_names are consulted *)
Definition gen_join (d : dialect) (srca srcb : option (list string) -> gen) (p a b : op) (on_a on_b : list string) (jt : jointype)
           (left_is_first : bool) (usg : option (list string)) : gen := fun n =>
  let pj := OJoin a b on_a on_b jt in          (* sources and key lists as the (copied) node has them *)
  let using0 := match usg with Some u => u | None => column_names p end in     (* column_names: the ORIGINAL node's attribute *)
  let n1 := S n in
  (* _natural_join_sub_queries *)
  let using1 := if is_nil using0 then firstn 1 (column_names p) else using0 in   (* 2bf9832 *)
  if negb (subset using1 (column_names p)) then Raise
  else
    let ask := set_union (set_union using1 on_a) on_b in
    let using_left := cfs1 pj ask in
    let using_right := cfs2 pj ask in
    let using_left := if d_join_carry d && is_nil using_left then firstn 1 (column_names a) else using_left in
    let using_right := if d_join_carry d && is_nil using_right then firstn 1 (column_names b) else using_right in
    do (sql_left, n2) <- srca (Some using_left) n1;
    do (sql_right, n3) <- srcb (Some using_right) n2;
    let common := set_inter using_left using_right in
    (* note: `using`, not the defaulted copy made inside _natural_join_sub_queries *)
    let tms : terms := map (fun c => (c, TmCoalesce left_is_first c)) (filter (fun c => mem c using0) common)
                       ++ pass_terms (filter (fun c => negb (mem c common)) using_left)
                       ++ pass_terms (filter (fun c => negb (mem c common)) using_right) in
    Ok (TBinary (mkvn "natural_join" n) (norm tms)
                sql_left (mk_tci (Some using_left) false (Some (mkvn "join_source_left" n)))
                (TJoin jt)
                sql_right (mk_tci (Some using_right) false (Some (mkvn "join_source_right" n)))
                (combine on_a on_b), n3).

Fixpoint to_near_f (fuel : nat) (d : dialect) (p : op) (usg : option (list string)) (n : nat) : result (tnear * nat) :=
  match fuel with
  | O => OutOfFuel
  | S fuel' =>
    let rec := to_near_f fuel' d in
    let using0 := match usg with Some u => u | None => column_names p end in
    match p with
    | OTable name cs =>                                                        (* table_def_to_near_sql *)
        if negb (subset using0 cs) then Raise
        else
          let cols_using := filter (fun c => mem c using0) cs in
          let subsql := TTable name (norm cols_using) in
          if negb (is_nil using0) && negb (set_eqb using0 cs)
          then Ok (TUnary (mkvn "table_reference" n) (norm (map (fun k => (k, TmSelf)) using0)) subsql
                          (mk_tci (Some using0) false None) SfxNone false None, S n)
          else Ok (subsql, n)
    | OExtend s ops wd w => gen_extend d (rec s) p s ops wd w usg n          (* extend_to_near_sql *)
    | OProject s ops gb =>                                                     (* project_to_near_sql *)
        let using1 := if is_nil gb && negb (is_nil ops) && negb (existsb (fun k => mem k using0) (map fst ops))
                      then using0 ++ firstn 1 (map fst ops) else using0 in     (* c520ee9: keep one aggregate *)
        let subops := sub_ops using1 ops in
        let subusing := py_set (cfs1 p using1) in
        let tms : terms := map (fun ke => (fst ke, TmAgg (snd ke))) subops in
        let tms := fold_left (fun acc g => dict_set acc g TmPass) gb tms in
        do (subsql, n1) <- rec s (Some subusing) n;
        Ok (TUnary (mkvn "project" n1) (norm tms) subsql (mk_tci (Some subusing) false None)
                   (match gb with [] => SfxNone | _ => SfxGroup gb end) false None, S n1)
    | OSelectRows s e =>                                                       (* select_rows_to_near_sql *)
        let subusing := cfs1 p using0 in
        do (subsql, n1) <- rec s (Some subusing) n;
        Ok (TUnary (mkvn "select_rows" n1) (norm (pass_terms using0)) subsql (mk_tci (Some subusing) false None)
                   (SfxWhere e) false None, S n1)
    | OSelectCols s cs =>                                                      (* select_columns_to_near_sql *)
        let subusing := cfs1 p using0 in                                       (* already in column_selection order *)
        do (subsql, n1) <- rec s (Some subusing) n;
        if terms_is_none subsql then Ok (empty_terms subsql, n1)
        else match narrow_or_first subsql subusing with
             | Some q => Ok (q, n1)
             | None => Raise
             end
    | ODropCols s ds =>                                                        (* drop_columns_to_near_sql *)
        let subusing := cfs1 p using0 in
        do (subsql, n1) <- rec s (Some subusing) n;
        let keep := filter (fun k => negb (mem k ds)) using0 in
        if terms_is_none subsql then
          match keep with
          | [] => Ok (empty_terms subsql, n1)                                  (* new_terms = {} is stored as it is *)
          | _ => Raise                                                         (* None[k]: TypeError *)
          end
        else match narrow_or_first subsql keep with
             | Some q => Ok (q, n1)
             | None => Raise
             end
    | OOrder s cs rev lim =>                                                   (* order_to_near_sql *)
        let subusing := filter (fun c => mem c (cfs1 p using0)) (column_names p) in    (* fix order *)
        do (subsql, n1) <- rec s (Some subusing) n;
        Ok (TUnary (mkvn "order_rows" n1) (norm (pass_terms subusing)) subsql (mk_tci (Some subusing) false None)
                   (SfxOrder (map (fun c => (c, mem c rev)) cs) lim) false None, S n1)
    | OMapCols s m dels =>                                                     (* map_columns_to_near_sql *)
        let subusing := py_set (cfs1 p using0) in
        do (subsql, n1) <- rec s (Some subusing) n;
        let unchanged := filter (fun c => negb (mem c (map snd m ++ map fst m ++ dels))) subusing in
        let tms : terms := fold_left (fun acc no => dict_set acc (fst no) (TmCol (snd no))) m [] in
        let tms := fold_left (fun acc c => dict_set acc c TmPass) unchanged tms in
        Ok (TUnary (mkvn "map_columns" n1) (norm tms) subsql (mk_tci (Some subusing) false None) SfxNone false None, S n1)
    | ORename s m =>                                                           (* rename_to_near_sql *)
        let subusing := py_set (cfs1 p using0) in
        do (subsql, n1) <- rec s (Some subusing) n;
        let unchanged := filter (fun c => negb (mem c (map snd m ++ map fst m))) subusing in
        let tms : terms := fold_left (fun acc no => dict_set acc (fst no) (TmCol (snd no))) m [] in
        let tms := fold_left (fun acc c => dict_set acc c TmPass) unchanged tms in
        Ok (TUnary (mkvn "rename" n1) (norm tms) subsql (mk_tci (Some subusing) false None) SfxNone false None, S n1)
    | OJoin a b on_a on_b jt =>                                                (* [SQLiteModel.]natural_join_to_near_sql *)
        match jt with
        | JRight =>
            if d_rewrite_right d
            then gen_join d (rec b) (rec a) p b a on_b on_a JLeft false usg n    (* _emit_right_join_as_left_join *)
            else gen_join d (rec a) (rec b) p a b on_a on_b jt true usg n
        | JFull =>
            if d_rewrite_full d then                                           (* _emit_full_join_as_complex *)
              if is_nil on_a then Raise                                        (* assert len(join_node.on_a) > 0 *)
              else if negb (eqb on_a on_b) then Raise                          (* assert join_node.on_a == join_node.on_b *)
              else rec (full_join_rewrite a b on_a) (Some using0) n
            else gen_join d (rec a) (rec b) p a b on_a on_b jt true usg n
        | _ => gen_join d (rec a) (rec b) p a b on_a on_b jt true usg n
        end
    | OConcat a b idc an bn =>                                                 (* concat_rows_to_near_sql *)
        let using1 := if is_nil using0 then firstn 1 (column_names p) else using0 in      (* 2bf9832 *)
        if negb (subset using1 (column_names p)) then Raise
        else
          let using_left := cfs1 p using1 in
          let using_right := cfs2 p using1 in
          if negb (set_eqb using_left using_right) then Raise
          else
            let using_joint := match idc with Some c => add_end using_left c | None => using_left end in
            let tms := pass_terms using_joint in
            let expr_left := match idc with Some c => builder_extend_const a c (VStr an) | None => a end in
            let expr_right := match idc with Some c => builder_extend_const b c (VStr bn) | None => b end in
            do (sql_left, n1) <- rec expr_left (Some using_joint) n;
            do (sql_right, n2) <- rec expr_right (Some using_joint) n1;
            Ok (TBinary (mkvn "concat_rows" n2) (norm tms) sql_left (mk_tci (Some using_joint) true None) TUnion
                        sql_right (mk_tci (Some using_joint) true None) [], S n2)
    end
  end.

(* enough fuel for every pipeline: one unit per node on the longest path, the FULL-join rewrite adds five nodes above its
   sources at every join, the id column of concat_rows at most one *)
Fixpoint gen_fuel (p : op) : nat :=
  match p with
  | OTable _ _ => 1
  | OExtend s _ _ _ | OProject s _ _ | OSelectRows s _ | OSelectCols s _ | ODropCols s _ | ORename s _
  | OMapCols s _ _ | OOrder s _ _ _ => S (gen_fuel s)
  | OJoin a b _ _ _ => 6 + Nat.max (gen_fuel a) (gen_fuel b)
  | OConcat a b _ _ _ => 2 + Nat.max (gen_fuel a) (gen_fuel b)
  end.

Definition to_near (d : dialect) (p : op) (usg : option (list string)) (ids : nat) : result (tnear * nat) :=
  to_near_f (gen_fuel p) d p usg ids.

(* ------------------------------------------------------------------ names of the generated views *)
Definition opt_name (o : option vname) : list vname := match o with Some v => [v] | None => [] end.
Fixpoint view_names (q : tnear) : list vname :=
  match q with
  | TTable _ _ => []
  | TUnary n _ s _ _ _ _ => n :: view_names s
  | TBinary n _ s1 c1 _ s2 c2 _ => n :: opt_name (tc_pub c1) ++ opt_name (tc_pub c2) ++ view_names s1 ++ view_names s2
  end.
(* the counter values used by the steps (the aliases of a join carry their join's number) *)
Fixpoint step_ids (q : tnear) : list nat :=
  match q with
  | TTable _ _ => []
  | TUnary n _ s _ _ _ _ => vn_id n :: step_ids s
  | TBinary n _ s1 _ _ s2 _ _ => vn_id n :: step_ids s1 ++ step_ids s2
  end.

(* ------------------------------------------------------------------ pre-fix generators (regression witnesses) *)
(* project_to_near_sql before c520ee9: no aggregate is kept when every output is pruned *)
Definition project_step_pre_c520ee9 (subsql : tnear) (p : op) (ops : list (string * expr)) (gb : list string)
           (usg0 : list string) (n1 : nat) : tnear :=
  let subops := sub_ops usg0 ops in
  let subusing := py_set (cfs1 p usg0) in
  let tms : terms := fold_left (fun acc g => dict_set acc g TmPass) gb (map (fun ke => (fst ke, TmAgg (snd ke))) subops) in
  TUnary (mkvn "project" n1) (norm tms) subsql (mk_tci (Some subusing) false None)
         (match gb with [] => SfxNone | _ => SfxGroup gb end) false None.
(* order_to_near_sql before 6f11e66: a final order_rows (using=None) wrote no terms: SELECT * *)
Definition order_step_pre_6f11e66 (subsql : tnear) (subusing : list string) (using_was_none : bool)
           (cs rev : list string) (lim : option nat) (n1 : nat) : tnear :=
  TUnary (mkvn "order_rows" n1) (if using_was_none then None else norm (pass_terms subusing)) subsql
         (mk_tci (Some subusing) false None) (SfxOrder (map (fun c => (c, mem c rev)) cs) lim) false None.
