(* C17 -- hand model of data_algebra/cdata.py (RecordSpecification, RecordMap) and of the PANDAS realisation of the two
   record conversions in data_algebra/pandas_base.py (blocks_to_rowrecs, rowrecs_to_blocks), transcribed step by step.

   Modelled, not verified (hand models of library primitives; sampled by the correspondence check on every run):
     * DataFrame.loc[:, cols]            -> select_cols        (columns picked by name, in the order asked for)
     * DataFrame.groupby(keys)           -> groupby            (sort=True: groups in ascending key order; dropna=True: rows
                                                               with a null key cell belong to no group)
     * groupby(keys).size() / max(...)   -> is_keyed           (max of an empty sequence raises)
     * DataFrame.sort_values(by=keys)    -> sort_rows          (stable; lexicographic; nulls last)
     * DataFrame.merge(how="left")       -> the filter in lookup_names (no match: one row of NaN)
     * pd.concat(axis=1) on frames with a fresh RangeIndex -> hcat_all (positional glue)
     * pd.concat(axis=0)                 -> flat_map
   Values: the harness encodes every number as VNum (lowest terms), strings as VStr, None/NaN as VNull, so pandas' value
   equality on key cells is Leibniz equality here.  No proofs in this file. *)
From Coq Require Import List Bool Arith ZArith QArith String Ascii Permutation.
Import ListNotations.
From DA Require Import Base.PyRT Base.Val.

(* ------------------------------------------------------------------ outcomes *)
(* Ok x | Reject (an exception of any class) | Junk (a frame is returned whose column labels are NaN: block rows whose
   control key is not in the control table) *)
Inductive res (A : Type) := Ok (a : A) | Reject | Junk.
Arguments Ok {A} a. Arguments Reject {A}. Arguments Junk {A}.

(* ------------------------------------------------------------------ order on values (sort_values / groupby order) *)
Definition val_rank (v : val) : nat :=
  match v with VBool _ => 0 | VInt _ => 1 | VNum _ => 2 | VStr _ => 3 | VNull => 4 end.

Definition bool_cmp (a b : bool) : comparison :=
  match a, b with false, true => Lt | true, false => Gt | _, _ => Eq end.

(* numbers by value, strings by code point (byte order of UTF-8), nulls last; columns are homogeneous, the rank only
   makes the comparison total *)
Definition val_cmp (a b : val) : comparison :=
  match a, b with
  | VBool x, VBool y => bool_cmp x y
  | VInt x, VInt y => Z.compare x y
  | VNum x, VNum y => Qcompare x y
  | VStr x, VStr y => String.compare x y
  | _, _ => Nat.compare (val_rank a) (val_rank b)
  end.

Fixpoint key_cmp (a b : list val) : comparison :=
  match a, b with
  | [], [] => Eq
  | [], _ :: _ => Lt
  | _ :: _, [] => Gt
  | x :: a', y :: b' => match val_cmp x y with Eq => key_cmp a' b' | c => c end
  end.

Definition cmp_leb (c : comparison) : bool := match c with Gt => false | _ => true end.

Section Sort.
  Context {A : Type} (key : A -> list val).
  Fixpoint insert_by (x : A) (l : list A) : list A :=
    match l with
    | [] => [x]
    | y :: t => if cmp_leb (key_cmp (key x) (key y)) then x :: l else y :: insert_by x t
    end.
  (* stable: an element is put in front of the later elements it ties with *)
  Definition sort_by (l : list A) : list A := fold_right insert_by [] l.
End Sort.

(* ------------------------------------------------------------------ frames *)
Definition non_null (v : val) : bool := match v with VNull => false | _ => true end.
Definition cells (cs : list string) (r : list val) (ks : list string) : list val := map (get cs r) ks.

Definition select_cols (cs : list string) (t : table) : table :=
  mktable cs (map (fun r => cells (cols t) r cs) (rows t)).

Definition sort_rows (cs keys : list string) (rs : list (list val)) : list (list val) :=
  sort_by (fun r => cells cs r keys) rs.

Fixpoint nodupb {A} `{EqDec A} (l : list A) : bool :=
  match l with [] => true | x :: t => negb (mem x t) && nodupb t end.

(* first occurrences, in order *)
Fixpoint dedup {A} `{EqDec A} (seen l : list A) : list A :=
  match l with [] => [] | x :: t => if mem x seen then dedup seen t else x :: dedup (x :: seen) t end.

(* pandas_base.table_is_keyed_by_columns *)
Definition is_keyed (keys : list string) (t : table) : res bool :=
  if Nat.ltb (List.length (rows t)) 2 then Ok true
  else if subset keys (cols t) then
    match keys with
    | [] => Ok false
    | _ =>
      let ks := filter (forallb non_null) (map (fun r => cells (cols t) r keys) (rows t)) in
      match ks with [] => Reject (* max() of an empty sequence *) | _ => Ok (nodupb ks) end
    end
  else Ok false.

(* groupby(keys): (key tuple, its rows in frame order), ascending by key; rows with a null key cell are in no group *)
Definition group_keys (keys : list string) (t : table) : list (list val) :=
  sort_by (fun k => k) (dedup [] (filter (forallb non_null) (map (fun r => cells (cols t) r keys) (rows t)))).
Definition groupby (keys : list string) (t : table) : list (list val * list (list val)) :=
  map (fun k => (k, filter (fun r => eqb (cells (cols t) r keys) k) (rows t))) (group_keys keys t).

(* pd.concat(axis=1): glue the k-th rows; `base` supplies the row count *)
Definition hcat2 (a b : list (list val)) : list (list val) := map (fun p => fst p ++ snd p) (combine a b).
Definition hcat_all (n : nat) (pieces : list (list (list val))) : list (list val) :=
  fold_right hcat2 (repeat [] n) pieces.

(* ------------------------------------------------------------------ RecordSpecification *)
Record recspec := mkspec { rs_keys : list string; rs_ct : table; rs_ctkeys : list string; rs_strict : bool }.

Definition val_str (v : val) : string := match v with VStr s => s | _ => EmptyString end.
Definition is_str_nonempty (v : val) : bool := match v with VStr EmptyString => false | VStr _ => true | _ => false end.

Definition value_cols (s : recspec) : list string :=
  filter (fun c => negb (mem c (rs_ctkeys s))) (cols (rs_ct s)).
(* the cells of the non-key columns, column by column (the order of the loop in __init__) *)
Definition raw_content (ct : table) (ctk : list string) : list val :=
  flat_map (fun c => if mem c ctk then [] else getcol ct c) (cols ct).
(* strict: no duplicates, so dedup is the identity; otherwise first occurrences are kept *)
Definition content_keys (s : recspec) : list string :=
  dedup [] (map val_str (raw_content (rs_ct s) (rs_ctkeys s))).
Definition row_columns (s : recspec) : list string := rs_keys s ++ content_keys s.
Definition block_columns (s : recspec) : list string := rs_keys s ++ cols (rs_ct s).

(* RecordSpecification.__init__: None = an exception.  Checks in the order of the code. *)
Definition mk_spec (ct : table) (rk : list string) (ctk0 : option (list string)) (strict : bool) : option recspec :=
  let n := List.length (rows ct) in
  if Nat.ltb n 1 then None
  else if Nat.ltb (List.length (cols ct)) 2 then None
  else if negb (nodupb (cols ct)) then None
  else
    let ctk := match ctk0 with
               | Some l => l
               | None => if Nat.ltb 1 n then match cols ct with c :: _ => [c] | [] => [] end else []
               end in
    if strict && Nat.ltb 1 n &&
       (match ctk with [] => true | _ => false end
        || match is_keyed ctk ct with Ok true => false | _ => true end) then None
    else if Nat.ltb 1 n && match ctk with [] => true | _ => false end then None
    else if negb (subset ctk (cols ct)) then None
    else if Nat.leb (List.length (cols ct)) (List.length ctk) then None
    else if negb (disjointb rk ctk) then None
    else if existsb (fun ck => existsb (fun v => negb (non_null v)) (getcol ct ck)) ctk then None
    else if match is_keyed ctk ct with Ok true => false | _ => true end then None
    else
      let cvs := raw_content ct ctk in
      if negb (forallb is_str_nonempty cvs) then None
      else
        let names := map val_str cvs in
        if negb (disjointb rk names) then None
        else if negb (nodupb names) && strict then None
        else Some (mkspec rk ct ctk strict).

(* ------------------------------------------------------------------ the two conversions (pandas_base.py) *)

(* limit_and_rename_cols: the names a group's value columns get (left merge of the group's key with the control table) *)
Definition lookup_names (s : recspec) (k : list val) : res (list string) :=
  let ct := rs_ct s in
  match filter (fun cr => eqb (cells (cols ct) cr (rs_ctkeys s)) k) (rows ct) with
  | [] => Junk                                         (* one merged row, all NaN: labels NaN *)
  | [cr] => Ok (map (fun c => val_str (get (cols ct) cr c))
                    (filter (fun c => negb (mem c (rs_ctkeys s))) (cols ct)))
  | _ => Reject                                        (* assert keys.shape[0] == 1 *)
  end.

Fixpoint res_all {A} (l : list (res A)) : res (list A) :=
  match l with
  | [] => Ok []
  | Ok a :: t => match res_all t with Ok r => Ok (a :: r) | Reject => Reject | Junk => Junk end
  | Reject :: _ => Reject
  | Junk :: t => match res_all t with Reject => Reject | _ => Junk end
  end.

Definition blocks_to_rowrecs (s : recspec) (t : table) : res table :=
  let RK := rs_keys s in let CK := rs_ctkeys s in
  let bc := block_columns s in
  let d := select_cols bc t in
  match rows d with
  | [] => Ok (mktable (row_columns s) [])
  | _ :: _ =>
    match is_keyed (RK ++ CK) d with
    | Ok true =>
      let split0 := groupby CK d in
      let split := map (fun kg => (fst kg, match RK with [] => snd kg | _ => sort_rows bc RK (snd kg) end)) split0 in
      match split with
      | [] => Reject                                   (* split[0]: IndexError *)
      | (_, g0) :: rest =>
        if negb (forallb (fun kg => Nat.eqb (List.length (snd kg)) (List.length g0)) rest) then Reject
        else
          let sk := map (fun r => cells bc r RK) g0 in           (* RK = []: a list of empty rows, the row count *)
          let keep := filter (fun c => negb (mem c (RK ++ CK))) bc in
          let pieces := map (fun kg => map (fun r => cells bc r keep) (snd kg)) split in
          match res_all (map (fun kg => lookup_names s (fst kg)) split) with
          | Reject => Reject
          | Junk => Junk
          | Ok names =>
            if negb (forallb (fun ns => Nat.eqb (List.length ns) (List.length keep)) names) then Reject
            else
              let cs := RK ++ List.concat names in
              let body := hcat2 sk (hcat_all (List.length g0) pieces) in
              Ok (mktable cs (match RK with [] => body | _ => sort_rows cs RK body end))
          end
      end
    | Ok false => Reject
    | Reject => Reject
    | Junk => Junk
    end
  end.

Definition rowrecs_to_blocks (s : recspec) (t : table) : res table :=
  let RK := rs_keys s in let CK := rs_ctkeys s in let ct := rs_ct s in
  let rc := row_columns s in
  let d := select_cols rc t in
  match rows d with
  | [] => Ok (mktable (block_columns s) [])
  | _ :: _ =>
    match is_keyed RK d with
    | Ok true =>
      let VC := value_cols s in
      let extract_rows (cr : list val) :=
        let ct_keys := cells (cols ct) cr CK in
        let col_names := map (fun c => val_str (get (cols ct) cr c)) VC in
        map (fun r => cells rc r RK ++ ct_keys ++ cells rc r col_names) (rows d) in
      let cs := RK ++ CK ++ VC in
      Ok (mktable cs (sort_rows cs (RK ++ CK) (flat_map extract_rows (rows ct))))
    | Ok false => Reject
    | Reject => Reject
    | Junk => Junk
    end
  end.

(* ------------------------------------------------------------------ RecordMap *)
Record recmap := mkmap { rm_in : option recspec; rm_out : option recspec; rm_strict : bool }.

Definition is_row_spec (s : recspec) : bool := Nat.leb (List.length (rows (rs_ct s))) 1.

(* RecordMap.__init__ *)
Definition mk_map (bin bout : option recspec) (strict : bool) : option recmap :=
  let chk (b : option recspec) : option (option recspec) :=
    match b with
    | None => Some None
    | Some s => if strict && negb (rs_strict s) then None
                else if is_row_spec s then Some None else Some (Some s)
    end in
  match chk bin with
  | None => None
  | Some bin' =>
    if match bin' with Some s => negb (nodupb (content_keys s)) | None => false end then None
    else
      match chk bout with
      | None => None
      | Some bout' =>
        match bin', bout' with
        | None, None => None
        | Some i, Some o =>
          if negb (subset (rs_keys o) (rs_keys i)) then None
          else if negb (subset (content_keys o) (content_keys i)) then None
          else if strict && negb (set_eqb (rs_keys o) (rs_keys i)) then None
          else Some (mkmap bin' bout' strict)
        | _, _ => Some (mkmap bin' bout' strict)
        end
      end
  end.

Definition columns_needed (m : recmap) : list string :=
  match rm_in m, rm_out m with
  | Some i, _ => block_columns i
  | None, Some o => row_columns o
  | None, None => []
  end.

Definition res_bind {A B} (x : res A) (f : A -> res B) : res B :=
  match x with Ok a => f a | Reject => Reject | Junk => Junk end.

(* RecordMap.transform *)
Definition transform (m : recmap) (t : table) : res table :=
  if negb (subset (columns_needed m) (cols t)) then Reject
  else
    res_bind (match rm_in m with Some i => blocks_to_rowrecs i t | None => Ok t end)
             (fun x => match rm_out m with Some o => rowrecs_to_blocks o x | None => Ok x end).

(* RecordMap.inverse *)
Definition inverse (m : recmap) : option recmap :=
  if rm_strict m then mk_map (rm_out m) (rm_in m) true else None.

Definition map_record_keys (m : recmap) : option (list string) :=
  match rm_in m, rm_out m with
  | Some i, _ => Some (rs_keys i)
  | None, Some o => Some (rs_keys o)
  | None, None => None
  end.

(* RecordMap.example_input(value_suffix=sfx, record_key_suffix=" record key") *)
Definition record_key_suffix : string := " record key".
Definition example_input (sfx : string) (m : recmap) : option table :=
  match map_record_keys m with
  | None => None
  | Some rk =>
    let ex :=
      match rm_in m, rm_out m with
      | Some i, _ =>
        let ct := rs_ct i in
        Some (mktable (cols ct)
               (map (fun cr => map (fun c => if mem c (rs_ctkeys i) then get (cols ct) cr c
                                             else VStr (val_str (get (cols ct) cr c) ++ sfx)) (cols ct)) (rows ct)))
      | None, Some o =>
        let ks := filter (fun k => negb (mem k rk)) (row_columns o) in
        Some (mktable ks [map (fun k => VStr (k ++ sfx)) ks])
      | None, None => None
      end in
    match ex with
    | None => None
    | Some e =>
      match rk with
      | [] => Some e
      | _ => Some (mktable (rk ++ cols e)
                     (map (fun r => map (fun k => VStr (k ++ record_key_suffix)) rk ++ r) (rows e)))
      end
    end
  end.

(* DataFrame.drop(cols, axis=1): KeyError when a label is absent; every column carrying a dropped label goes *)
Definition drop_cols (ds : list string) (t : table) : option table :=
  if subset ds (cols t) then
    let keep := filter (fun c => negb (mem c ds)) (cols t) in
    Some (mktable keep (map (fun r => map snd (filter (fun cv => negb (mem (fst cv) ds)) (combine (cols t) r))) (rows t)))
  else None.

Inductive cres := CRaise | CNone | CMap (m : recmap).

(* RecordMap.compose: self.compose(other); sfx = the value_suffix with which compose calls example_input (read from the
   source on every run: "" since /repo 031522a, " value" before -- then the composite's control tables held the example's
   cell values "<name> value" instead of the names) *)
Definition compose (sfx : string) (self other : recmap) : cres :=
  let s1 := other in let s2 := self in
  match map_record_keys s1, map_record_keys s2 with
  | Some rk, Some rk2 =>
    if negb (set_eqb rk rk2) then CRaise
    else
      match example_input sfx s1 with
      | None => CRaise
      | Some inp =>
        match res_bind (transform s1 inp) (transform s2) with
        | Ok out =>
          match drop_cols rk inp, drop_cols rk out with
          | Some rsi, Some rso =>
            let strict := rm_strict self && rm_strict other in
            let spec_in := match rm_in s1 with
                           | Some i => mk_spec rsi rk (Some (rs_ctkeys i)) strict | None => None end in
            let spec_out := match rm_out s2 with
                            | Some o => mk_spec rso rk (Some (rs_ctkeys o)) strict | None => None end in
            let wrap (x : option recmap) := match x with Some m => CMap m | None => CRaise end in
            if Nat.ltb (List.length (rows inp)) 2 then
              if Nat.ltb (List.length (rows out)) 2 then CNone
              else match spec_out with Some so => wrap (mk_map None (Some so) strict) | None => CRaise end
            else
              if Nat.ltb (List.length (rows out)) 2 then
                match spec_in with Some si => wrap (mk_map (Some si) None strict) | None => CRaise end
              else
                match spec_in, spec_out with
                | Some si, Some so => wrap (mk_map (Some si) (Some so) strict)
                | _, _ => CRaise
                end
          | _, _ => CRaise
          end
        | _ => CRaise
        end
      end
  | _, _ => CRaise
  end.

(* ------------------------------------------------------------------ equality of tables up to row and column order *)
(* t1 ~ t2: the same column names (as a multiset) and, after laying the cells of t1 out in t2's column order, the same
   rows as a multiset.  This is data_algebra.test_util.equivalent_frames without the float tolerance. *)
Fixpoint remove_one {A} `{EqDec A} (x : A) (l : list A) : option (list A) :=
  match l with
  | [] => None
  | y :: t => if eq_dec x y then Some t else option_map (cons y) (remove_one x t)
  end.
Fixpoint perm_eqb {A} `{EqDec A} (a b : list A) : bool :=
  match a with
  | [] => match b with [] => true | _ => false end
  | x :: a' => match remove_one x b with Some b' => perm_eqb a' b' | None => false end
  end.
Definition table_eqvb (t1 t2 : table) : bool :=
  perm_eqb (cols t1) (cols t2) && perm_eqb (rows (select_cols (cols t2) t1)) (rows t2).
(* the same relation as a proposition (Proofs/CDataP1.v: table_eqvb t1 t2 = true <-> tbl_eqv t1 t2) *)
Definition tbl_eqv (t1 t2 : table) : Prop :=
  Permutation (cols t1) (cols t2) /\ Permutation (rows (select_cols (cols t2) t1)) (rows t2).

(* ------------------------------------------------------------------ hypotheses of the theorems, as boolean predicates *)
(* two block specifications describe the same records: the same record keys and the same value names (as sets) *)
Definition same_records (a b : recspec) : bool :=
  set_eqb (rs_keys a) (rs_keys b) && set_eqb (content_keys a) (content_keys b).
(* the layout of a control table: per control row, its key tuple and the names of its value cells *)
Definition ct_layout (s : recspec) : list (list val * list string) :=
  map (fun cr => (cells (cols (rs_ct s)) cr (rs_ctkeys s),
                  map (fun c => val_str (get (cols (rs_ct s)) cr c)) (value_cols s))) (rows (rs_ct s)).
(* the same layout, the control rows possibly listed in another order (and the control table's columns too) *)
Definition spec_simb (a b : recspec) : bool :=
  eqb (rs_keys a) (rs_keys b) && eqb (rs_ctkeys a) (rs_ctkeys b) && eqb (value_cols a) (value_cols b)
  && perm_eqb (ct_layout a) (ct_layout b).

(* numeric cells are in lowest terms (the harness always emits them so); makes value equality Leibniz *)
Definition val_canon (v : val) : bool := match v with VNum q => eqb (Qred q) q | _ => true end.
Definition key_ok (k : list val) : bool := forallb (fun v => non_null v && val_canon v) k.

(* what the constructor does NOT check but every sensible specification satisfies: record keys are distinct and are not
   control-table column names *)
Definition spec_extra (s : recspec) : bool :=
  nodupb (rs_keys s) && disjointb (rs_keys s) (cols (rs_ct s)) && nodupb (rs_ctkeys s)
  && forallb (fun cr => key_ok (cells (cols (rs_ct s)) cr (rs_ctkeys s))) (rows (rs_ct s))
  && forallb (fun cr => Nat.eqb (List.length cr) (List.length (cols (rs_ct s)))) (rows (rs_ct s)).
(* accepted by RecordSpecification(..., strict=True), a block specification (2+ control rows) *)
Definition strict_spec (s : recspec) : bool :=
  rs_strict s && negb (is_row_spec s)
  && match mk_spec (rs_ct s) (rs_keys s) (Some (rs_ctkeys s)) true with Some _ => true | None => false end
  && spec_extra s.

(* t has the columns ks; its rows are keyed by them: no null key cell, no repeated key tuple; with no record keys the
   table holds at most one record *)
Definition keyed_by (ks : list string) (t : table) : bool :=
  subset ks (cols t)
  && forallb (fun r => key_ok (cells (cols t) r ks)) (rows t)
  && nodupb (map (fun r => cells (cols t) r ks) (rows t)).

Definition conforming_rows (s : recspec) (t : table) : bool :=
  keyed_by (rs_keys s) t && subset (row_columns s) (cols t).

(* complete blocks: keyed by record keys + control keys, every control key of the data is a control-table key, and every
   record has a row for every control-table key *)
Definition ct_keys_of (s : recspec) : list (list val) :=
  map (fun cr => cells (cols (rs_ct s)) cr (rs_ctkeys s)) (rows (rs_ct s)).
(* what a composite of a map with input side i and a map with output side o has to look like: the same input
   specification, and an output specification with the layout of o (control rows/columns possibly in another order) *)
Definition spec_eqb (a b : recspec) : bool :=
  eqb (rs_keys a) (rs_keys b) && eqb (cols (rs_ct a)) (cols (rs_ct b)) && eqb (rows (rs_ct a)) (rows (rs_ct b))
  && eqb (rs_ctkeys a) (rs_ctkeys b) && Bool.eqb (rs_strict a) (rs_strict b).
Definition composite_ok (i o : option recspec) (c : recmap) : bool :=
  match i, rm_in c with None, None => true | Some a, Some a' => spec_eqb a a' | _, _ => false end
  && match o, rm_out c with None, None => true | Some b, Some b' => strict_spec b' && spec_simb b b' | _, _ => false end
  && rm_strict c.

Definition complete_blocks (s : recspec) (t : table) : bool :=
  keyed_by (rs_keys s ++ rs_ctkeys s) t && subset (block_columns s) (cols t)
  && forallb (fun r => mem (cells (cols t) r (rs_ctkeys s)) (ct_keys_of s)) (rows t)
  && forallb (fun r => forallb (fun k => mem (cells (cols t) r (rs_keys s) ++ k)
                                            (map (fun r' => cells (cols t) r' (rs_keys s ++ rs_ctkeys s)) (rows t)))
                               (ct_keys_of s)) (rows t).
