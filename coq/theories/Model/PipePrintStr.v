(* Model/PipePrintStr.v -- C12, the CHARACTER level of printed pipelines.

   1. py_repr      : str.__repr__ (what `x.__repr__()` in view_representations.py / expr_rep.py produces for a str):
                     quote choice, backslash / quote / \t \n \r escapes, \xhh for the other control characters, and
                     \xhh / \uhhhh / \Uhhhhhhhh for non-printable code points above 127.  Strings are UTF-8 byte
                     strings (as everywhere in this development); which code points above 127 are "printable" is the
                     Unicode database's business and is a PARAMETER `np` (the non-printable ones), for which every
                     theorem holds whatever it is.
   2. py_unquote   : the value of a Python string literal (what `eval` in expr_parse_fn.eval_da_ops and
                     ast.literal_eval in parse_by_lark compute from a literal without prefix): all escapes of the
                     language reference except \N{name} (answer None: outside the model).
   3. text_py      : Expression.to_python / Value.to_python / ... of expr_rep.py as TEXT (the same case analysis as
                     Model/ExprPrint.to_py, which produces the tokens).  repr(float) is not modelled: it is the
                     parameter `frepr` (and float(text) is `fparse`), see `float_lex_ok`.
   4. lexg         : hand model of the lark lexer of python3_lark.py on expression texts (NAME / keywords / DEC_NUMBER /
                     FLOAT_NUMBER / STRING / operator terminals, longest match).  Texts outside the modelled fragment
                     (comments, newlines, number forms with `_`, hex/octal/imaginary literals, string prefixes, triple
                     quotes, non-ASCII identifiers) are answered None.
   No proofs here. *)
From Coq Require Import List Bool String Ascii ZArith NArith QArith Arith DecimalString DecimalN Decimal.
Import ListNotations.
From DA Require Import Model.PyExpr Model.ExprPrint Model.ExprParse.
Local Close Scope Q_scope.
Local Open Scope string_scope.
Local Open Scope bool_scope.
Local Open Scope list_scope.

Notation "a +++ b" := (String.append a b) (at level 60, right associativity).

(* ------------------------------------------------------------------ characters *)
Definition c_bs : ascii := "\"%char.
Definition c_sq : ascii := "'"%char.
Definition c_dq : ascii := """"%char.
Definition c_nl : ascii := ascii_of_N 10.
Definition c_cr : ascii := ascii_of_N 13.
Definition c_tab : ascii := ascii_of_N 9.
Definition code (c : ascii) : N := N_of_ascii c.
Definition chr (n : N) : ascii := ascii_of_N n.
Definition s1 (c : ascii) : string := String c EmptyString.

Definition in_range (lo hi : N) (c : ascii) : bool := (lo <=? code c)%N && (code c <=? hi)%N.
Definition is_digit (c : ascii) : bool := in_range 48 57 c.
Definition is_alpha_ (c : ascii) : bool := in_range 65 90 c || in_range 97 122 c || Ascii.eqb c "_"%char.
Definition is_idchar (c : ascii) : bool := is_alpha_ c || is_digit c.
Definition is_ws (c : ascii) : bool := Ascii.eqb c " "%char || Ascii.eqb c c_tab || Ascii.eqb c (chr 12).
Definition is_quote (c : ascii) : bool := Ascii.eqb c c_sq || Ascii.eqb c c_dq.

(* ------------------------------------------------------------------ hexadecimal *)
Definition hexdigit (n : N) : ascii := if (n <? 10)%N then chr (48 + n) else chr (87 + n).
Definition hexval (c : ascii) : option N :=
  if in_range 48 57 c then Some (code c - 48)%N
  else if in_range 97 102 c then Some (code c - 87)%N
  else if in_range 65 70 c then Some (code c - 55)%N
  else None.
(* exactly k digits, most significant first *)
Fixpoint hexN (k : nat) (n : N) : string :=
  match k with
  | O => EmptyString
  | S k' => String (hexdigit ((n / 16 ^ N.of_nat k') mod 16)%N) (hexN k' n)
  end.

(* ------------------------------------------------------------------ UTF-8 *)
Definition utf8_enc (cp : N) : string :=
  (if cp <? 128 then s1 (chr cp)
   else if cp <? 2048 then String (chr (192 + cp / 64)) (s1 (chr (128 + cp mod 64)))
   else if cp <? 65536 then
     String (chr (224 + cp / 4096)) (String (chr (128 + (cp / 64) mod 64)) (s1 (chr (128 + cp mod 64))))
   else String (chr (240 + cp / 262144))
          (String (chr (128 + (cp / 4096) mod 64)) (String (chr (128 + (cp / 64) mod 64)) (s1 (chr (128 + cp mod 64))))))%N.

Fixpoint stake (k : nat) (s : string) : string :=
  match k, s with S k', String c r => String c (stake k' r) | _, _ => EmptyString end.
Fixpoint sdrop (k : nat) (s : string) : string :=
  match k, s with S k', String _ r => sdrop k' r | _, _ => s end.

(* the code point encoded at the head of s and the number of continuation bytes; only canonical encodings
   (re-encoding the code point must give back exactly the bytes read) of code points up to U+10FFFF *)
Definition utf8_dec (s : string) : option (N * nat) :=
  match s with
  | EmptyString => None
  | String c0 r =>
      let b0 := code c0 in
      let low (c : ascii) : N := (code c mod 64)%N in
      let try (k : nat) (cp : N) : option (N * nat) :=
        if String.eqb (utf8_enc cp) (stake (S k) s) && (cp <=? 1114111)%N then Some (cp, k) else None in
      (if b0 <? 192 then None
       else if b0 <? 224 then
         match r with String c1 _ => try 1%nat ((b0 - 192) * 64 + low c1) | _ => None end
       else if b0 <? 240 then
         match r with String c1 (String c2 _) => try 2%nat ((b0 - 224) * 4096 + low c1 * 64 + low c2) | _ => None end
       else
         match r with
         | String c1 (String c2 (String c3 _)) => try 3%nat ((b0 - 240) * 262144 + low c1 * 4096 + low c2 * 64 + low c3)
         | _ => None
         end)%N
  end.

(* ------------------------------------------------------------------ 1. str.__repr__ *)
Definition esc_ascii (q c : ascii) : string :=
  if Ascii.eqb c q || Ascii.eqb c c_bs then String c_bs (s1 c)
  else if Ascii.eqb c c_tab then "\t"
  else if Ascii.eqb c c_nl then "\n"
  else if Ascii.eqb c c_cr then "\r"
  else if (code c <? 32)%N || (code c =? 127)%N then "\x" +++ hexN 2 (code c)
  else s1 c.
Definition esc_cp (cp : N) : string :=
  (if cp <? 256 then "\x" +++ hexN 2 cp else if cp <? 65536 then "\u" +++ hexN 4 cp else "\U" +++ hexN 8 cp)%N.

(* `skip` continuation bytes of a code point that has just been written as an escape are dropped *)
Fixpoint esc_go (np : N -> bool) (q : ascii) (skip : nat) (s : string) : string :=
  match s with
  | EmptyString => EmptyString
  | String c r =>
      match skip with
      | S k => esc_go np q k r
      | O =>
          if (code c <? 128)%N then esc_ascii q c +++ esc_go np q 0 r
          else match utf8_dec s with
               | Some (cp, k) => if np cp then esc_cp cp +++ esc_go np q k r else String c (esc_go np q 0 r)
               | None => String c (esc_go np q 0 r)
               end
      end
  end.

Fixpoint has_char (c : ascii) (s : string) : bool :=
  match s with EmptyString => false | String x r => Ascii.eqb x c || has_char c r end.
(* single quotes unless the string has a single quote and no double quote *)
Definition pick_quote (s : string) : ascii := if has_char c_sq s && negb (has_char c_dq s) then c_dq else c_sq.
Definition py_repr (np : N -> bool) (s : string) : string :=
  let q := pick_quote s in String q (esc_go np q 0 s +++ s1 q).

(* ------------------------------------------------------------------ 2. the value of a string literal *)
Inductive sst := SNorm | SEsc | SHex (k : nat) (acc : N) | SOct (k : nat) (acc : N).
Inductive sres := Fail | Done | Cont (out : string) (st : sst).

Definition octval (c : ascii) : option N := if in_range 48 55 c then Some (code c - 48)%N else None.
Definition max_cp : N := 1114111.

Definition step_norm (q c : ascii) : sres :=
  if Ascii.eqb c q then Done
  else if Ascii.eqb c c_nl then Fail                       (* a line end inside a '...' literal *)
  else if Ascii.eqb c c_bs then Cont EmptyString SEsc
  else Cont (s1 c) SNorm.

Definition simple_escapes : list (ascii * N) :=
  [("a"%char, 7); ("b"%char, 8); ("f"%char, 12); ("n"%char, 10); ("r"%char, 13); ("t"%char, 9); ("v"%char, 11)]%N.
Fixpoint assoc_char (c : ascii) (l : list (ascii * N)) : option N :=
  match l with [] => None | (k, v) :: t => if Ascii.eqb c k then Some v else assoc_char c t end.

Definition step (q : ascii) (st : sst) (c : ascii) : sres :=
  match st with
  | SNorm => step_norm q c
  | SEsc =>
      if Ascii.eqb c c_nl then Cont EmptyString SNorm                           (* backslash-newline is ignored *)
      else if Ascii.eqb c c_bs || Ascii.eqb c c_sq || Ascii.eqb c c_dq then Cont (s1 c) SNorm
      else match assoc_char c simple_escapes with
           | Some n => Cont (s1 (chr n)) SNorm
           | None =>
               if Ascii.eqb c "x"%char then Cont EmptyString (SHex 2 0)
               else if Ascii.eqb c "u"%char then Cont EmptyString (SHex 4 0)
               else if Ascii.eqb c "U"%char then Cont EmptyString (SHex 8 0)
               else if Ascii.eqb c "N"%char then Fail                            (* \N{name}: not modelled *)
               else match octval c with
                    | Some d => Cont EmptyString (SOct 2 d)
                    | None => Cont (String c_bs (s1 c)) SNorm                     (* unknown escape: both characters stay *)
                    end
           end
  | SHex k acc =>
      match k, hexval c with
      | S k', Some d =>
          let acc' := (acc * 16 + d)%N in
          match k' with
          | O => if (acc' <=? max_cp)%N then Cont (utf8_enc acc') SNorm else Fail
          | S _ => Cont EmptyString (SHex k' acc')
          end
      | _, _ => Fail
      end
  | SOct k acc =>
      match k, octval c with
      | S k', Some d =>
          let acc' := (acc * 8 + d)%N in
          match k' with
          | O => Cont (utf8_enc acc') SNorm
          | S _ => Cont EmptyString (SOct k' acc')
          end
      | _, _ =>
          (* the octal escape ended before this character *)
          match step_norm q c with
          | Cont out st' => Cont (utf8_enc acc +++ out) st'
          | Done => Done            (* handled by scan_go: the pending code point is emitted there *)
          | Fail => Fail
          end
      end
  end.

(* the text after the opening quote q: (value, text after the closing quote) *)
Fixpoint scan_go (q : ascii) (st : sst) (s : string) : option (string * string) :=
  match s with
  | EmptyString => None
  | String c r =>
      match step q st c with
      | Fail => None
      | Done => Some (match st with SOct _ acc => utf8_enc acc | _ => EmptyString end, r)
      | Cont out st' =>
          match scan_go q st' r with
          | Some (v, rest) => Some (out +++ v, rest)
          | None => None
          end
      end
  end.

Definition py_unquote (lit : string) : option string :=
  match lit with
  | String q r =>
      if is_quote q then
        match scan_go q SNorm r with
        | Some (v, EmptyString) => Some v
        | _ => None
        end
      else None
  | EmptyString => None
  end.

(* ------------------------------------------------------------------ 3. expression text *)
(* repr(x) of a finite non-negative float x (given by its exact value) and float(text): not modelled *)
Record ffmt := mkF { frepr : Q -> string; fparse : string -> option Q }.

Definition dec_of_N (n : N) : string := NilEmpty.string_of_uint (N.to_uint n).
Definition N_of_dec (s : string) : option N := option_map N.of_uint (NilEmpty.uint_of_string s).

Definition val_text (F : ffmt) (np : N -> bool) (v : pval) : string :=
  match v with
  | PNone => "None"
  | PBool b => if b then "True" else "False"
  | PInt z => if Z.ltb z 0 then "-" +++ dec_of_N (Z.to_N (- z)) else dec_of_N (Z.to_N z)
  | PFloat neg m => (if neg then "-" else "") +++ frepr F m
  | PInf neg => (if neg then "-" else "") +++ "inf"
  | PStr s => py_repr np s
  end.

Fixpoint sjoin (sep : string) (parts : list string) : string :=
  match parts with
  | [] => EmptyString
  | [p] => p
  | p :: more => p +++ sep +++ sjoin sep more
  end.
Definition sparen (s : string) : string := "(" +++ s +++ ")".

(* X.to_python(want_inline_parens=want): (text, is_in_parens) -- the same case analysis as ExprPrint.to_py *)
Fixpoint text_py (F : ffmt) (np : N -> bool) (want : bool) (e : expr) : string * bool :=
  match e with
  | ECol n => (n, false)
  | EVal v => if want && prints_with_sign v then (sparen (val_text F np v), true) else (val_text F np v, false)
  | EList vs => ("[" +++ sjoin ", " (map (val_text F np) vs) +++ "]", false)
  | EDict kvs =>
      ("{" +++ sjoin ", " (map (fun kv => val_text F np (fst kv) +++ ": " +++ val_text F np (snd kv)) kvs) +++ "}", false)
  | EOp op inline method _ args =>
      let generic :=
        if inline then
          let result := sjoin (" " +++ op +++ " ") (map (fun a => fst (text_py F np true a)) args) in
          if want then (sparen result, true) else (result, false)
        else
          let subs := map (text_py F np false) args in
          if method then
            match args, subs with
            | a0 :: _, (t0, p0) :: more =>
                ((if p0 || is_col a0 then t0 else sparen t0) +++ "." +++ op +++ "(" +++ sjoin ", " (map fst more) +++ ")", false)
            | _, _ => (EmptyString, false)
            end
          else (op +++ "(" +++ sjoin ", " (map fst subs) +++ ")", false) in
      match args with
      | [] => (op +++ "()", false)
      | [a] =>
          let '(t0, p0) := text_py F np false a in
          if inline then
            let text := op +++ (if p0 then t0 else sparen t0) in
            if want then (sparen text, true) else (text, false)
          else if method then ((if p0 || is_col a then t0 else sparen t0) +++ "." +++ op +++ "()", false)
          else generic
      | _ => generic
      end
  end.

Definition expr_text (F : ffmt) (np : N -> bool) (e : expr) : string := fst (text_py F np false e).

(* ------------------------------------------------------------------ 4. the lexer of expression texts *)
Definition keywords : list string :=
  ["False"; "None"; "True"; "and"; "as"; "assert"; "async"; "await"; "break"; "class"; "continue"; "def"; "del"; "elif";
   "else"; "except"; "finally"; "for"; "from"; "global"; "if"; "import"; "in"; "is"; "lambda"; "nonlocal"; "not"; "or";
   "pass"; "raise"; "return"; "try"; "while"; "with"; "yield"].
Definition symbols3 : list string := ["%+%"; "%/%"; "%?%"; "**="; "..."; "//="; "<<="; ">>="].
Definition symbols2 : list string :=
  ["!="; "%="; "&="; "**"; "*="; "+="; "-="; "->"; "//"; "/="; "<<"; "<="; "<>"; "=="; ">="; ">>"; "@="; "^="; "|="].
Definition symbols1 : list string :=
  ["%"; "&"; "("; ")"; "*"; "+"; ","; "-"; "."; "/"; ":"; ";"; "<"; "="; ">"; "@"; "["; "]"; "^"; "{"; "|"; "}"; "~"].

Definition smem (s : string) (l : list string) : bool := existsb (String.eqb s) l.

Fixpoint span (p : ascii -> bool) (s : string) : string * string :=
  match s with
  | String c r => if p c then let '(a, b) := span p r in (String c a, b) else (EmptyString, s)
  | EmptyString => (EmptyString, EmptyString)
  end.

Definition starts_with (p : ascii -> bool) (s : string) : bool := match s with String c _ => p c | EmptyString => false end.

(* longest operator terminal at the head of s *)
Definition sym_match (s : string) : option (string * string) :=
  match s with
  | String a (String b (String c r3)) =>
      let t3 := String a (String b (s1 c)) in
      let t2 := String a (s1 b) in
      if smem t3 symbols3 then Some (t3, r3)
      else if smem t2 symbols2 then Some (t2, String c r3)
      else if smem (s1 a) symbols1 then Some (s1 a, String b (String c r3))
      else None
  | String a (String b EmptyString) =>
      let t2 := String a (s1 b) in
      if smem t2 symbols2 then Some (t2, EmptyString)
      else if smem (s1 a) symbols1 then Some (s1 a, s1 b)
      else None
  | String a EmptyString => if smem (s1 a) symbols1 then Some (s1 a, EmptyString) else None
  | EmptyString => None
  end.

Definition is_e (c : ascii) : bool := Ascii.eqb c "e"%char || Ascii.eqb c "E"%char.
Definition is_sign (c : ascii) : bool := Ascii.eqb c "+"%char || Ascii.eqb c "-"%char.

(* [eE][+-]?digits at the head of s *)
Definition exp_part (s : string) : option (string * string) :=
  match s with
  | String e r =>
      if is_e e then
        let '(sg, r1) := match r with
                         | String c r' => if is_sign c then (s1 c, r') else (EmptyString, r)
                         | EmptyString => (EmptyString, r)
                         end in
        let '(d, r2) := span is_digit r1 in
        match d with EmptyString => None | _ => Some (String e (sg +++ d), r2) end
      else None
  | EmptyString => None
  end.

Fixpoint all_chars (p : ascii -> bool) (s : string) : bool :=
  match s with EmptyString => true | String c r => p c && all_chars p r end.
(* DEC_NUMBER: 0+ or [1-9][0-9]* *)
Definition dec_ok (d : string) : bool :=
  match d with
  | String c r => if Ascii.eqb c "0"%char then all_chars (Ascii.eqb "0"%char) r else true
  | EmptyString => false
  end.

(* a number token at the head of s (s starts with a digit) *)
Definition lex_number (F : ffmt) (s : string) : option (tok * string) :=
  let '(d1, r1) := span is_digit s in
  let fin (t : tok) (rest : string) : option (tok * string) :=
    if starts_with is_idchar rest || starts_with (Ascii.eqb "."%char) rest then None else Some (t, rest) in
  match r1 with
  | String c r2 =>
      if Ascii.eqb c "."%char then
        let '(d2, r3) := span is_digit r2 in
        match exp_part r3 with
        | Some (ex, r4) => fin (TFloat (fparse F (d1 +++ "." +++ d2 +++ ex))) r4
        | None => fin (TFloat (fparse F (d1 +++ "." +++ d2))) r3
        end
      else
        match exp_part r1 with
        | Some (ex, r4) => fin (TFloat (fparse F (d1 +++ ex))) r4
        | None => if dec_ok d1 then match N_of_dec d1 with Some n => fin (TInt n) r1 | None => None end else None
        end
  | EmptyString => if dec_ok d1 then match N_of_dec d1 with Some n => Some (TInt n, EmptyString) | None => None end else None
  end.

Definition classify (w : string) : tok := if smem w keywords then TSym w else TName w.

Definition ocons {A} (x : A) (o : option (list A)) : option (list A) := option_map (List.cons x) o.
Definition oapp {A} (l : list A) (o : option (list A)) : option (list A) := option_map (List.app l) o.

Definition shorter (a b : string) : bool := Nat.ltb (String.length a) (String.length b).

(* one step of the lexer; `rec` lexes the remaining text (always strictly shorter) *)
Definition lex_body (F : ffmt) (rec : string -> option (list tok)) (s : string) : option (list tok) :=
  match s with
  | EmptyString => Some []
  | String c r =>
      if is_ws c then rec r
      else if is_alpha_ c then
        let '(w, rest) := span is_idchar s in
        if starts_with is_quote rest then None                     (* a string prefix: outside the fragment *)
        else if shorter rest s then ocons (classify w) (rec rest) else None
      else if is_digit c then
        match lex_number F s with
        | Some (t, rest) => if shorter rest s then ocons t (rec rest) else None
        | None => None
        end
      else if is_quote c then
        match scan_go c SNorm r with
        | Some (v, rest) =>
            if (match v with EmptyString => true | _ => false end) && starts_with (Ascii.eqb c) rest then None   (* triple quote *)
            else if shorter rest s then ocons (TStr v) (rec rest) else None
        | None => None
        end
      else
        match sym_match s with
        | Some (sy, rest) => if shorter rest s then ocons (TSym sy) (rec rest) else None
        | None => None
        end
  end.

Fixpoint lex_fuel (F : ffmt) (n : nat) (s : string) : option (list tok) :=
  match n with
  | O => None
  | S n' => lex_body F (lex_fuel F n') s
  end.
Definition lexg (F : ffmt) (s : string) : option (list tok) := lex_fuel F (S (String.length s)) s.

(* the library's parse of an expression text: lex, then C13's parser model *)
Definition parse_text (F : ffmt) (c : cfg) (dd : list string) (text : string) : res expr :=
  match lexg F text with Some ts => parse c dd ts | None => Err end.

(* ------------------------------------------------------------------ vocabulary of the theorems *)
(* an ASCII identifier that is not a keyword *)
Definition ident_ok (s : string) : bool :=
  starts_with is_alpha_ s && all_chars is_idchar s && negb (smem s keywords).

(* float(repr(x)) == x, and the text of repr(x) is one FLOAT_NUMBER token wherever a value may stand *)
Definition delim_start (rest : string) : bool :=
  match rest with
  | EmptyString => true
  | String c _ => smem (s1 c) [" "; ")"; ","; "]"; "}"; ":"]
  end.
Definition float_lex_ok (F : ffmt) (m : Q) : Prop :=
  starts_with is_digit (frepr F m) = true /\
  forall rest, delim_start rest = true -> lex_number F (frepr F m +++ rest) = Some (TFloat (Some m), rest).

Definition floats_of_val (v : pval) : list Q := match v with PFloat _ m => [m] | _ => [] end.
Fixpoint floats_of (e : expr) : list Q :=
  match e with
  | ECol _ => []
  | EVal v => floats_of_val v
  | EList vs => flat_map floats_of_val vs
  | EDict kvs => flat_map (fun kv => floats_of_val (fst kv) ++ floats_of_val (snd kv)) kvs
  | EOp _ _ _ _ args => flat_map floats_of args
  end.

(* the names in the expression are written as they are lexed: columns and function / method names are identifiers,
   inline operators are operator terminals *)
Fixpoint lexable (e : expr) : bool :=
  match e with
  | ECol n => ident_ok n
  | EVal _ | EList _ | EDict _ => true
  | EOp op inline _ _ args =>
      (if inline then smem op sym_texts else ident_ok op) && forallb lexable args
  end.
