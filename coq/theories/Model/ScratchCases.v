(* C15 correspondence driver for Model/ScratchNames.v.
   (1) pcase: one real Pandas step run twice -- with ordinary column names, and with ONE user column renamed to a name
       of the executor's own (renamed back afterwards).  Observed: did the result change (or the step raise)?
       Predicted: do pexec_code (the step with the names the executor chooses) and plain differ on the same step over a SYMBOLIC frame (column contents are
       terms; the library primitives are free constructors, so two results are equal iff the same contents reached the
       same primitives in the same places)?
   (2) lcase: a string literal found by the source scan in a name position, with its kind: the table `reserved` (or
       `not_names`) must know it; and every entry of `reserved` must still be found.
   (3) qcase: the view names of one generated WITH query and the user tables it reads: every view name has a reserved
       form, and a user table is observed to be captured only when the model's name resolution says so. *)
From Coq Require Import List Bool Arith String Ascii.
Import ListNotations.
From DA Require Import Base.PyRT Base.Cases Base.PyStr Model.ScratchNames.
Local Open Scope string_scope.
Local Open Scope list_scope.

Definition cat (l : list string) : string := fold_right (fun a b => (a ++ "," ++ b)%string) ""%string l.
Definition sym : prims string := mkprims string
  (fun t => "const(" ++ t ++ ")")%string
  "index"%string
  (fun keys a => "sort([" ++ cat (map (fun kb => fst kb ++ (if snd kb : bool then "+" else "-")) keys) ++ "];" ++ a ++ ")")%string
  (fun keys => "cumcount([" ++ cat keys ++ "])")%string
  (fun keys => "ngroup([" ++ cat keys ++ "])")%string
  (fun keys => "size([" ++ cat keys ++ "])")%string
  (fun op extra keys v => "transform(" ++ op ++ ";[" ++ cat extra ++ "];[" ++ cat keys ++ "];" ++ v ++ ")")%string
  (fun op keys v => "agg(" ++ op ++ ";[" ++ cat keys ++ "];" ++ v ++ ")")%string
  (fun keys i => "key([" ++ cat keys ++ "];" ++ dec i ++ ")")%string
  (fun how ka kb a => "mleft(" ++ how ++ ";[" ++ cat ka ++ "];[" ++ cat kb ++ "];" ++ a ++ ")")%string
  (fun how ka kb a => "mright(" ++ how ++ ";[" ++ cat ka ++ "];[" ++ cat kb ++ "];" ++ a ++ ")")%string
  (fun a b => "fillna(" ++ a ++ ";" ++ b ++ ")")%string
  (fun ka => "nullmarkL([" ++ cat ka ++ "])")%string
  (fun kb => "nullmarkR([" ++ cat kb ++ "])")%string.

(* the model's step is the executor AS IT IS: it chooses its scratch names (Model/ScratchNames.v pexec_code) *)
Record pcase := mkpc { pc_step : pstep; pc_left : list string; pc_right : list string; pc_captured : bool }.
Definition sframe (tag : string) (cs : list string) : frame string := map (fun c => (c, (tag ++ c ++ ">")%string)) cs.
Definition predicted (c : pcase) : bool :=
  let l := sframe "<L:" (pc_left c) in let r := sframe "<R:" (pc_right c) in
  negb (eqb (pexec_code sym (pc_step c) l r) (plain sym (pc_step c) l r)).
Definition pcase_ok (c : pcase) : bool := Bool.eqb (predicted c) (pc_captured c).
Definition check_pcases (cs : list pcase) : list nat := failing_idx pcase_ok cs.

Definition lit_known (kt : rkind * string) : bool :=
  existsb (fun e => rkind_eqb (r_kind e) (fst kt) && String.eqb (r_text e) (snd kt)) reserved
  || match fst kt with KExact => mem (snd kt) not_names | _ => false end.
Definition check_literals (cs : list (rkind * string)) : list nat := failing_idx lit_known cs.
(* indices of `reserved` entries the scan no longer finds *)
Definition check_reserved_found (found : list (rkind * string)) : list nat :=
  failing_idx (fun e => existsb (fun kt => rkind_eqb (r_kind e) (fst kt) && String.eqb (r_text e) (snd kt)) found) reserved.

Record qcase := mkqc { qc_ctes : list string; qc_tables : list string; qc_captured : bool }.
Definition qcase_query (c : qcase) : wquery := mkwq (qc_ctes c) (map RTable (qc_tables c) ++ map RView (qc_ctes c)).
(* one-sided: an observed change must be predicted; a predicted capture may stay invisible (the shadowing view can happen to
   hold the same rows as the table it hides) *)
Definition qcase_ok (c : qcase) : bool :=
  forallb (is_reserved STable) (qc_ctes c)
  && forallb (generated_view_name (qc_tables c)) (qc_ctes c)      (* the numbering rule of to_sql (161d83f) *)
  && implb (qc_captured c) (match captured_refs (qcase_query c) with [] => false | _ => true end).
Definition check_qcases (cs : list qcase) : list nat := failing_idx qcase_ok cs.

(* name cases: the harness's pool tags every name it draws with the class it believes the name collides with *)
Record ncase := mknc { nc_space : rspace; nc_name : string; nc_class : option string }.
Definition ncase_ok (c : ncase) : bool := eqb (reserved_class (nc_space c) (nc_name c)) (nc_class c).
Definition check_ncases (cs : list ncase) : list nat := failing_idx ncase_ok cs.

(* literals and names in one file: indices >= 1000 are entries of `reserved` the scan no longer finds *)
Inductive scase := SLit (k : rkind) (t : string) | SName (c : ncase).
Definition scase_ok (c : scase) : bool := match c with SLit k t => lit_known (k, t) | SName n => ncase_ok n end.
Definition check_static (cs : list scase) : list nat :=
  failing_idx scase_ok cs
  ++ map (fun i => 1000 + i) (check_reserved_found (flat_map (fun c => match c with SLit k t => [(k, t)] | _ => [] end) cs)).
