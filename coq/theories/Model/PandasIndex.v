(* C18: the index handling of the Pandas executor (data_algebra/pandas_base.py), one level below Model/Sem.v.
   A frame is a table (Base/Val.v) together with its row labels (the Pandas index).  What is transcribed here is WHERE the
   executor keeps, permutes, filters or resets the labels:
     _table_step           df.loc[:, columns] keeps the caller's labels; clean_copy = reset_index(drop=True) replaces them
     _extend_step          no rows: pd.DataFrame(dict) (fresh labels).  Otherwise the new columns are computed in a frame
                           `new` and copied into `res` by add_data_frame_columns_to_data_frame_ (res[c] = new[c], or pd.concat(axis=1)):
                           Pandas ALIGNS these on the labels.  Row-wise: `new` carries res's labels (act_on) unless every
                           expression is a constant (columns_to_frame_: range labels).  Windowed: the sub-frame is
                           clean_copy'd, tagged with _data_algebra_orig_index (= position), sorted, transformed, sorted back by
                           the tag and clean_copy'd again: range labels, rows in the original positions.
     _project_step         group keys become the labels of the aggregate; reset_index removes them in every path
     _select_rows_step     no rows: the frame is returned as it is; otherwise res.loc[selection] filters the labels and clean_copy resets
     _select_columns_step, _drop_columns_step, _rename_columns_step, _map_columns_step   labels kept
     _order_rows_step      more than one row: sort_values(ignore_index=True) + drop_indices; a limit that cuts: iloc + clean_copy
     _natural_join_step    pd.merge returns range labels; drop_indices
     _concat_rows_step     one side empty: THE OTHER FRAME IS RETURNED AS IT IS; else pd.concat(ignore_index=True) + drop_indices
   The DATA of every step is delegated to Model/Sem.v (tied to the executor by the Sem correspondence), except where the
   labels decide the data: the aligned column assignment of _extend_step.
   Hand model of Pandas ("modelled, not verified"; sampled by the index correspondence of harness/props/C18.py):
     reset_index(drop=True) gives labels 0..n-1; loc / [] / rename keep labels; a column assignment or pd.concat(axis=1) between
     frames with EQUAL label lists is positional; otherwise the assignment looks each label of the target up in the source
     (first match, missing -> null) and pd.concat(axis=1) outer-joins the label sets (not modelled: None). *)
From Coq Require Import List Bool Arith ZArith QArith String.
Import ListNotations.
From DA Require Import Base.PyRT Base.Val Model.Sem.
Local Open Scope string_scope.
Local Open Scope list_scope.

Inductive atom := AInt (z : Z) | AStr (s : string) | AVal (v : val).
#[global] Instance atom_EqDec : EqDec atom.
Proof. intros x y. destruct x, y; try (right; congruence).
  - destruct (eq_dec z z0); [left|right]; congruence.
  - destruct (eq_dec s s0); [left|right]; congruence.
  - destruct (eq_dec v v0); [left|right]; congruence. Defined.
(* one atom: a plain label; several: an entry of a MultiIndex; AVal atoms: group keys *)
Definition label := list atom.

Record iframe := mkif { ix : list label; tb : table }.
Definition ienv := list (string * iframe).
Definition nrows (f : iframe) : nat := List.length (rows (tb f)).
Definition default_ix (n : nat) : list label := map (fun i => [AInt (Z.of_nat i)]) (seq 0 n).

(* ---------------------------------------------------------------- Pandas primitives *)
Definition reset_index_drop (f : iframe) : iframe := mkif (default_ix (nrows f)) (tb f).     (* clean_copy, drop_indices *)
Definition loc_cols (cs : list string) (f : iframe) : iframe := mkif (ix f) (sem_select_cols cs (tb f)).
Definition with_data (f : iframe) (t : table) : iframe := mkif (ix f) t.                     (* same labels, new columns *)
Definition loc_rows (keep : list val -> bool) (f : iframe) : iframe :=
  mkif (map fst (filter (fun lr => keep (snd lr)) (combine (ix f) (rows (tb f)))))
       (mktable (cols (tb f)) (filter keep (rows (tb f)))).
Definition iloc_firstn (n : nat) (f : iframe) : iframe := mkif (firstn n (ix f)) (mktable (cols (tb f)) (firstn n (rows (tb f)))).
Definition sort_values (le : list val -> list val -> bool) (ignore_index : bool) (f : iframe) : iframe :=
  let s := stable_sort (fun a b : label * list val => le (snd a) (snd b)) (combine (ix f) (rows (tb f))) in
  mkif (if ignore_index then default_ix (List.length s) else map fst s) (mktable (cols (tb f)) (map snd s)).

Fixpoint find_pos (l : label) (ls : list label) : option nat :=
  match ls with [] => None | x :: t => if eq_dec l x then Some 0%nat else option_map S (find_pos l t) end.
Definition put_cells (cs : list string) (r : list val) (names : list string) (value : string -> val) : list val :=
  fst (fold_left (fun acc k => let '(row, ccs) := acc in (set_cell ccs row k (value k), add_end ccs k)) names (r, cs)).
(* res[c] = new[c] for c in names, when the label lists differ: every label of res is looked up in new *)
Definition assign_by_label (res : iframe) (new_ix : list label) (new : table) (names : list string) : table :=
  mktable (ext_cols (cols (tb res)) names)
          (map (fun lr => put_cells (cols (tb res)) (snd lr) names
                            (fun k => match find_pos (fst lr) new_ix with
                                      | Some j => get (cols new) (nth j (rows new) []) k
                                      | None => VNull
                                      end))
               (combine (ix res) (rows (tb res)))).

(* ---------------------------------------------------------------- the steps *)
Definition px_table (cs : list string) (df : iframe) : iframe := reset_index_drop (loc_cols cs df).

Definition all_constant (ops : list (string * expr)) : bool :=
  forallb (fun ke => match cols_used (snd ke) with [] => true | _ => false end) ops.
Definition px_extend (fl : flavor) (ops : list (string * expr)) (wd : bool) (w : window) (res : iframe) : option iframe :=
  let positional := (if wd then sem_wextend fl ops w else sem_extend fl ops) (tb res) in
  if Nat.eqb (nrows res) 0 then Some (mkif (default_ix 0) positional)                      (* pd.DataFrame(v_dict) *)
  else
    let new_ix := if wd then default_ix (nrows res)                                          (* clean_copy of the restored sub-frame *)
                  else if all_constant ops then default_ix (nrows res) else ix res in
    if eq_dec (ix res) new_ix then Some (with_data res positional)                           (* equal labels: positional *)
    else if Nat.ltb (List.length (cols (tb res))) (2 * List.length ops) then None            (* pd.concat(axis=1) on different labels *)
    else Some (with_data res (assign_by_label res new_ix positional (map fst ops))).

Definition group_labels (gb : list string) (t : table) : list label :=
  match gb with [] => default_ix 1 | _ => map (map AVal) (distinct_keys (map (key_of (cols t) gb) (rows t))) end.
Definition px_project (fl : flavor) (ops : list (string * expr)) (gb : list string) (res : iframe) : iframe :=
  reset_index_drop (mkif (group_labels gb (tb res)) (sem_project fl ops gb (tb res))).

Definition px_select_rows (fl : flavor) (x : expr) (res : iframe) : iframe :=
  if Nat.ltb (nrows res) 1 then res
  else reset_index_drop (loc_rows (fun r => truth (eval_expr fl (cols (tb res)) r x)) res).

Definition px_order (fl : flavor) (cs rev : list string) (lim : option nat) (res : iframe) : iframe :=
  let keys := map (fun c => (c, mem c rev)) cs in
  let res1 := if Nat.ltb 1 (nrows res) then reset_index_drop (sort_values (row_le fl (cols (tb res)) keys) true res) else res in
  match lim with
  | Some n => if Nat.ltb n (nrows res1) then reset_index_drop (iloc_firstn n res1) else res1
  | None => res1
  end.

Definition px_join (nm : bool) (on_a on_b : list string) (jt : jointype) (l r : iframe) : iframe :=
  let data := sem_join nm on_a on_b jt (tb l) (tb r) in
  if Nat.eqb (nrows l) 0 && Nat.eqb (nrows r) 0 then mkif (default_ix 0) data                (* pd.DataFrame({k: []}) *)
  else reset_index_drop (mkif (default_ix (List.length (rows data))) data).                  (* pd.merge, drop_indices *)

Definition px_concat (idc : option string) (an bn : string) (l r : iframe) : iframe :=
  let data := sem_concat idc an bn (tb l) (tb r) in
  if Nat.ltb (nrows l) 1 then with_data r data                                                (* return right *)
  else if Nat.ltb (nrows r) 1 then with_data l data                                           (* return left *)
  else reset_index_drop (mkif (ix l ++ ix r) data).                                           (* pd.concat(ignore_index=True), drop_indices *)

Fixpoint px (fl : flavor) (p : op) (e : ienv) : option iframe :=
  match p with
  | OTable n cs => option_map (px_table cs) (dict_get e n)
  | OExtend s ops wd w => match px fl s e with Some res => px_extend fl ops wd w res | None => None end
  | OProject s ops gb => option_map (px_project fl ops gb) (px fl s e)
  | OSelectRows s x => option_map (px_select_rows fl x) (px fl s e)
  | OSelectCols s cs => option_map (loc_cols cs) (px fl s e)
  | ODropCols s ds => option_map (fun res => with_data res (sem_drop_cols ds (tb res))) (px fl s e)
  | ORename s m => option_map (fun res => with_data res (sem_rename m (tb res))) (px fl s e)
  | OMapCols s m dels => option_map (fun res => with_data res (sem_drop_cols dels (sem_rename m (tb res)))) (px fl s e)
  | OOrder s cs rev lim => option_map (px_order fl cs rev lim) (px fl s e)
  | OJoin a b on_a on_b jt => match px fl a e, px fl b e with Some l, Some r => Some (px_join (f_join_null_match fl) on_a on_b jt l r) | _, _ => None end
  | OConcat a b idc an bn => match px fl a e, px fl b e with Some l, Some r => Some (px_concat idc an bn l r) | _, _ => None end
  end.

(* the labels of the frame returned by every node, in the executor's evaluation order (sources first, left before right) *)
Fixpoint px_trace (fl : flavor) (p : op) (e : ienv) : list (option (list label)) :=
  let here := option_map ix (px fl p e) in
  match p with
  | OTable _ _ => [here]
  | OExtend s _ _ _ | OProject s _ _ | OSelectRows s _ | OSelectCols s _ | ODropCols s _ | ORename s _ | OMapCols s _ _ | OOrder s _ _ _ =>
      px_trace fl s e ++ [here]
  | OJoin a b _ _ _ | OConcat a b _ _ _ => px_trace fl a e ++ px_trace fl b e ++ [here]
  end.

Definition strip (e : ienv) : env := map (fun nf => (fst nf, tb (snd nf))) e.
