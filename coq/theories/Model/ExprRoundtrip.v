(* Model/ExprRoundtrip.v -- the vocabulary of the round-trip half of C13:
     printable c dd e  : the expression objects for which parse (to_python e) = Ok e  (a boolean; every condition is
                         local to one node and is what the walker itself checks when it builds that node)
     src_ok d          : what the lexer guarantees of a source AST (NAME tokens are not operator / keyword texts)
     dtree_of want e   : the AST (with its parentheses) of the text `e.to_python(want_inline_parens=want)`
   No proofs here. *)
From Coq Require Import List Bool String Ascii ZArith NArith QArith Arith.
Import ListNotations.
From DA Require Import Model.PyExpr Model.ExprPrint Model.ExprParse Model.ExprAst.
Local Close Scope Q_scope.
Local Open Scope string_scope.
Local Open Scope bool_scope.
Local Open Scope list_scope.

Definition res_expr_eqb (a b : res expr) : bool :=
  match a, b with Ok x, Ok y => expr_eqb x y | Err, Err => true | _, _ => false end.

(* inline operators the walker rebuilds as one k-ary node / as a two-argument node *)
Definition kops : list string := ["+"; "*"; "and"; "or"].
Definition bin2_ops : list string := ["-"; "/"; "//"; "%"; "%/%"; "**"; "=="; "!="; "<"; "<="; ">"; ">="].

Definition is_sym_text (s : string) : bool := existsb (String.eqb s) sym_texts.
Definition is_value (e : expr) : bool := match e with EVal _ => true | _ => false end.
Definition is_inf (v : pval) : bool := match v with PInf _ => true | _ => false end.
Fixpoint distinct_keys (kvs : list (pval * pval)) : bool :=
  match kvs with
  | [] => true
  | (k, _) :: t => negb (existsb (fun kv => py_eq (fst kv) k) t) && distinct_keys t
  end.

Fixpoint printable (c : cfg) (dd : list string) (e : expr) {struct e} : bool :=
  match e with
  | ECol n => mem_str n dd && negb (is_sym_text n)
  | EVal v => negb (is_inf v)
  | EList vs =>
      negb (existsb is_inf vs) && negb (existsb (fun v => pval_eqb v PNone) vs)
      && compatible_types (map type_of vs)
  | EDict kvs =>
      negb (match kvs with [] => true | _ => false end)
      && negb (existsb (fun kv => is_inf (fst kv) || is_inf (snd kv)) kvs)
      && negb (existsb (fun kv => pval_eqb (fst kv) PNone) kvs)
      && distinct_keys kvs
      && compatible_types (map (fun kv => type_of (fst kv)) kvs)
      && compatible_types (map (fun kv => type_of (snd kv)) kvs)
  | EOp op inline method params args =>
      (match params with None => true | Some _ => false end)
      && forallb (printable c dd) args
      && if inline then
           negb method && mem_str op (known c)
           && match args with
              | [] => false
              | [a] => (op ==s "-") && is_term a && negb (is_value a)
              | a :: b :: more =>
                  if mem_str op kops then true
                  else mem_str op bin2_ops && (match more with [] => true | _ => false end)
                       && res_expr_eqb (call_method c (remap op_remap op) a [b]) (Ok (EOp op inline method params args))
              end
         else if method then
           negb (is_sym_text op) && negb (is_dunder op)
           && match args with
              | self :: rest => res_expr_eqb (call_method c op self rest) (Ok (EOp op inline method params args))
              | [] => false
              end
         else negb (is_sym_text op) && mem_str op (known c)
  end.

(* ---- source ASTs: what the lexer guarantees -- a NAME token is never an operator or keyword text *)
Fixpoint src_ok (d : dtree) : bool :=
  match d with
  | DPar x | DNot x | DFactor _ x => src_ok x
  | DName s => negb (is_sym_text s)
  | DNum _ | DStr _ | DConst _ => true
  | DChain _ d0 rest => src_ok d0 && forallb (fun p => src_ok (snd p)) rest
  | DPower b e => src_ok b && src_ok e
  | DCall f args _ => src_ok f && forallb src_ok args
  | DAttr o n => negb (is_sym_text n) && src_ok o
  | DColl _ items _ => forallb src_ok items
  | DDict items _ => forallb (fun kv => src_ok (fst kv) && src_ok (snd kv)) items
  end.

(* ---- the AST of the printed text *)
Definition dneg (neg : bool) (d : dtree) : dtree := if neg then DFactor "-" d else d.
Definition dval (v : pval) : dtree :=
  match v with
  | PNone => DConst "None"
  | PBool b => DConst (if b then "True" else "False")
  | PInt z => dneg (Z.ltb z 0) (DNum (TInt (Z.to_N (Z.abs z))))
  | PFloat neg m => dneg neg (DNum (TFloat (Some m)))
  | PInf neg => dneg neg (DName "inf")
  | PStr s => DStr (TStr s)
  end.

Definition par_when (b : bool) (d : dtree) : dtree := if b then DPar d else d.

Definition binop_level (op : string) : nat := match binlvl op with Some l => l | None => 0 end.

Fixpoint dtree_of (want : bool) (e : expr) {struct e} : dtree :=
  match e with
  | ECol n => DName n
  | EVal v => par_when (want && prints_with_sign v) (dval v)
  | EList vs => DColl BBrack (map dval vs) false
  | EDict kvs => DDict (map (fun kv => (dval (fst kv), dval (snd kv))) kvs) false
  | EOp op inline method _ args =>
      let recv a := par_when (negb (is_col a)) (dtree_of false a) in
      let generic :=
        if inline then
          par_when want
            (match args with
             | a :: rest =>
                 if op ==s "**" then
                   match rest with
                   | [b] => DPower (dtree_of true a) (dtree_of true b)
                   | _ => DName op
                   end
                 else DChain (binop_level op) (dtree_of true a) (map (fun x => (op, dtree_of true x)) rest)
             | [] => DName op
             end)
        else if method then
          match args with
          | a0 :: rest => DCall (DAttr (recv a0) op) (map (dtree_of false) rest) false
          | [] => DName op
          end
        else DCall (DName op) (map (dtree_of false) args) false in
      match args with
      | [] => DCall (DName op) [] false
      | [a] =>
          if inline then par_when want (DFactor op (DPar (dtree_of false a)))
          else if method then DCall (DAttr (recv a) op) [] false
          else generic
      | _ => generic
      end
  end.
