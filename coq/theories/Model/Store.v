(* C19 -- ownership / store model of the Pandas (and Polars) executors of data_algebra.

   A functional model cannot mutate, so the executors are modelled ONE LEVEL DOWN: every data frame OBJECT is a location
   in a heap, the caller's frames are locations that exist before the evaluation starts, and each `_*_step` of
   data_algebra/pandas_base.py is transcribed as the sequence of frame objects it CREATES (`new` / `derive`) and of the
   IN-PLACE operations it performs (`wr`) on a frame it holds.

   Hand model of the pandas 3 API used by pandas_base.py (modelled, not verified; pandas 3 is copy-on-write, so a new
   object never shares later writes with its parent):
     write in place : df[c] = v, del df[c], df.loc[m, c] = v, df.reset_index(inplace=True, drop=True) (= drop_indices),
                      df.columns = [...]
     return a new object: df.loc[:, cols], df[cols], df.loc[mask, :], df.iloc[range(n), :], df.reset_index(drop=True)
                      (= clean_copy), df.sort_values(..., inplace=False), df.rename(columns=...), df.drop(.., inplace=False),
                      pd.merge, pd.concat, pd.DataFrame(...), groupby(..).agg / transform (read only)
   Data-dependent outcomes (row counts after select_rows / project / natural_join / convert_records) are ORACLE
   annotations `nr` on the operator tree: the theorems quantify over all trees, hence over all outcomes; the
   correspondence run fills them with the row counts observed on the implementation.

   Frame contents are abstract: index kind (default RangeIndex or anything else), column names, row count and an opaque
   symbolic payload (a term recording from which caller payloads and by which operations the values were computed).
   No proofs in this file. *)
From Coq Require Import List Bool Arith String.
Import ListNotations.
Local Open Scope string_scope.
Local Open Scope list_scope.

(* ------------------------------------------------------------------ frames, store, events *)
Definition loc := nat.
Inductive idx := IxRange | IxOther.
Inductive payload :=
  | PIn (n : nat)                                                   (* opaque values (and dtypes) of a caller frame *)
  | PRnd (n : nat)                                                  (* a draw from numpy's global random state n *)
  | PF (tag : string) (names : list string) (args : list payload).  (* deterministic library function of its arguments *)
Record frame := mkframe { f_index : idx; f_cols : list string; f_nrows : nat; f_data : payload }.
Record store := mkstore { frames : list (loc * frame); rng : nat }.

Inductive skind := KTable | KExtend | KProject | KSelectRows | KSelectCols | KDropCols | KOrderRows | KMapCols | KRename
                 | KJoin | KConcat | KConvert.
Inductive wkind := WSetItem | WDelItem | WResetIndex | WLocSet | WSetColumns.
Inductive event := EAlloc (k : skind) (l : loc) | EWrite (k : skind) (l : loc) (w : wkind) | ERead (k : skind) (l : loc).

Fixpoint lookup (fs : list (loc * frame)) (l : loc) : option frame :=
  match fs with [] => None | (l', f) :: t => if Nat.eqb l l' then Some f else lookup t l end.
Fixpoint update (fs : list (loc * frame)) (l : loc) (f : frame) : list (loc * frame) :=
  match fs with [] => [] | (l', f') :: t => if Nat.eqb l l' then (l', f) :: t else (l', f') :: update t l f end.
Definition dom (s : store) : list loc := map fst (frames s).
Definition fresh (s : store) : loc := S (list_max (dom s)).
Definition get (s : store) (l : loc) : option frame := lookup (frames s) l.

(* ------------------------------------------------------------------ state + trace monad *)
Definition M (A : Type) := store -> option (A * store * list event).
Definition ret {A} (a : A) : M A := fun s => Some (a, s, []).
Definition fail {A} : M A := fun _ => None.
Definition bind {A B} (m : M A) (k : A -> M B) : M B :=
  fun s => match m s with
           | None => None
           | Some (a, s1, e1) => match k a s1 with None => None | Some (b, s2, e2) => Some (b, s2, e1 ++ e2) end
           end.
Definition new (k : skind) (f : frame) : M loc :=
  fun s => let l := fresh s in Some (l, mkstore ((l, f) :: frames s) (rng s), [EAlloc k l]).
Definition rd (k : skind) (l : loc) : M frame :=
  fun s => match get s l with Some f => Some (f, s, [ERead k l]) | None => None end.
(* one or several in-place operations on the frame object at l *)
Definition wr (k : skind) (l : loc) (ws : list wkind) (upd : frame -> frame) : M unit :=
  fun s => match get s l with
           | Some f => Some (tt, mkstore (update (frames s) l (upd f)) (rng s), map (EWrite k l) ws)
           | None => None
           end.
Definition draw : M nat := fun s => Some (rng s, mkstore (frames s) (S (rng s)), []).
(* a library call that reads frame(s) and returns a NEW object *)
Definition derive (k : skind) (l : loc) (g : frame -> frame) : M loc := bind (rd k l) (fun f => new k (g f)).
Definition derive2 (k : skind) (l1 l2 : loc) (g : frame -> frame -> frame) : M loc :=
  bind (rd k l1) (fun f1 => bind (rd k l2) (fun f2 => new k (g f1 f2))).

(* ------------------------------------------------------------------ column-name helpers *)
Definition mem (c : string) (cs : list string) : bool := existsb (String.eqb c) cs.
Definition subset (a b : list string) : bool := forallb (fun c => mem c b) a.
Definition inter (a b : list string) : list string := filter (fun c => mem c b) a.
Definition diff (a b : list string) : list string := filter (fun c => negb (mem c b)) a.
Definition ncols (f : frame) : nat := List.length (f_cols f).
Definition isnil {A} (l : list A) : bool := match l with [] => true | _ => false end.
Fixpoint assoc (m : list (string * string)) (c : string) : string :=
  match m with [] => c | (a, b) :: t => if String.eqb a c then b else assoc t c end.

(* ------------------------------------------------------------------ pure frame functions (what each library call computes) *)
Definition f_reset (f : frame) : frame := mkframe IxRange (f_cols f) (f_nrows f) (f_data f).
Definition fr_loc_cols (cs : list string) (f : frame) : frame := mkframe (f_index f) cs (f_nrows f) (PF "cols" cs [f_data f]).
Definition fr_keep (cs : list string) (f : frame) : frame := fr_loc_cols (diff (f_cols f) cs) f.       (* all columns but cs *)
(* df[c] = v for each c of cs: existing columns are replaced in position, new ones appended *)
Definition fr_set (cs : list string) (tag : string) (args : list payload) (f : frame) : frame :=
  mkframe (f_index f) (f_cols f ++ diff cs (f_cols f)) (f_nrows f) (PF tag cs (f_data f :: args)).
Definition fr_del (cs : list string) (f : frame) : frame :=
  mkframe (f_index f) (diff (f_cols f) cs) (f_nrows f) (PF "del" cs [f_data f]).
Definition fr_rows (n : nat) (tag : string) (f : frame) : frame :=      (* a row subset: the index is no longer the default one *)
  mkframe IxOther (f_cols f) n (PF tag [] [f_data f]).
Definition fr_sort (by_ rev : list string) (f : frame) : frame :=       (* sort_values without ignore_index *)
  mkframe IxOther (f_cols f) (f_nrows f) (PF "sort" (by_ ++ "/" :: rev) [f_data f]).
Definition fr_sort_ignore (by_ rev : list string) (f : frame) : frame := (* sort_values(ignore_index=True) *)
  mkframe IxRange (f_cols f) (f_nrows f) (PF "sort" (by_ ++ "/" :: rev) [f_data f]).
Definition fr_rename (m : list (string * string)) (f : frame) : frame :=
  mkframe (f_index f) (map (assoc m) (f_cols f)) (f_nrows f) (PF "rename" (map fst m ++ "/" :: map snd m) [f_data f]).
Definition fr_concat_cols (a b : frame) : frame :=
  mkframe (f_index a) (f_cols a ++ f_cols b) (f_nrows a) (PF "concat_cols" [] [f_data a; f_data b]).
Definition fr_concat_rows (a b : frame) : frame :=
  mkframe IxRange (f_cols a ++ diff (f_cols b) (f_cols a)) (f_nrows a + f_nrows b) (PF "concat_rows" [] [f_data a; f_data b]).
Definition fr_empty (cs : list string) : frame := mkframe IxRange cs 0 (PF "empty" cs []).
Definition fr_setcolumns (cs : list string) (f : frame) : frame :=      (* df.columns = cs *)
  mkframe (f_index f) cs (f_nrows f) (PF "set_columns" cs [f_data f]).

(* ------------------------------------------------------------------ operator trees *)
Record wspec := mkw { w_consts : list string;      (* scratch columns data_algebra_extend_temp_col_<i> written into res *)
                      w_cols : list string;        (* col_list: partition, order and value columns of the sub-frame *)
                      w_sorted : bool }.           (* len(order_cols) > 0 *)
Inductive op :=
  | Table (name : string) (cols : list string)
  | Extend (src : op) (tag : string) (outs : list string) (win : option wspec) (random : bool)
  | Project (src : op) (tag : string) (group_by outs consts : list string) (nr : nat)
  | SelectRows (src : op) (tag : string) (nr : nat)
  | SelectCols (src : op) (cs : list string)
  | DropCols (src : op) (cs : list string)
  | OrderRows (src : op) (by_ rev : list string) (limit : option nat)
  | MapCols (src : op) (m : list (string * string)) (dels : list string)
  | Rename (src : op) (m : list (string * string))                  (* old name -> new name (op.reverse_mapping) *)
  | NaturalJoin (a b : op) (on_a on_b : list string) (jt : string) (nullkeys : bool) (nr : nat)   (* nullkeys: both sides have a row with a null key *)
  | ConcatRows (a b : op) (idcol : option string)
  | ConvertRecords (src : op) (has_in has_out : bool) (mid_cols out_cols : list string) (nr_mid nr : nat).

Definition env_locs := list (string * loc).           (* data_map: table name -> the caller's frame object *)
Fixpoint env_get (env : env_locs) (n : string) : option loc :=
  match env with [] => None | (k, l) :: t => if String.eqb k n then Some l else env_get t n end.

Fixpoint no_random (p : op) : bool :=
  match p with
  | Table _ _ => true
  | Extend s _ _ _ r => negb r && no_random s
  | Project s _ _ _ _ _ | SelectRows s _ _ | SelectCols s _ | DropCols s _ | OrderRows s _ _ _ | MapCols s _ _ | Rename s _
  | ConvertRecords s _ _ _ _ _ _ => no_random s
  | NaturalJoin a b _ _ _ _ _ | ConcatRows a b _ => no_random a && no_random b
  end.

(* ================================================================== Pandas executor: pandas_base.py, step by step *)
Definition rep {A} (w : wkind) (l : list A) : list wkind := map (fun _ => w) l.

(* _table_step: res = df.loc[:, columns_using]; res = self.clean_copy(res) *)
Definition c_table (cols : list string) (f0 : frame) : frame := f_reset (fr_loc_cols cols f0).
Definition step_table (env : env_locs) (name : string) (cols : list string) : M loc :=
  match env_get env name with
  | None => fail                                                    (* KeyError *)
  | Some l0 =>
      bind (rd KTable l0) (fun f0 =>
      if subset cols (f_cols f0)
      then bind (derive KTable l0 (fr_loc_cols cols)) (fun l1 => derive KTable l1 f_reset)
      else fail)                                                    (* missing required columns *)
  end.

(* add_data_frame_columns_to_data_frame_(res, transient_new_frame) *)
Definition fr_norows (f : frame) : frame := mkframe IxOther (f_cols f) 0 (PF "norows" [] [f_data f]).
Definition c_trim (fr fn : frame) : frame :=
  if Nat.eqb (f_nrows fr) 0 && Nat.ltb 0 (f_nrows fn) then f_reset (fr_norows fn) else fn.
Definition c_add_cols (fr fn : frame) : frame :=
  if Nat.eqb (ncols fn) 0 then fr else
  let fn' := c_trim fr fn in
  if Nat.eqb (f_nrows fr) (f_nrows fn') && Nat.eqb (ncols fr) 0 then fn'
  else if Nat.ltb (ncols fr) (2 * ncols fn')
       then fr_concat_cols (fr_del (inter (f_cols fr) (f_cols fn')) fr) fn'
       else fr_set (f_cols fn') "setcols" [f_data fn'] fr.
Definition add_cols (k : skind) (res nf : loc) : M loc :=
  bind (rd k res) (fun fr => bind (rd k nf) (fun fn =>
  if Nat.eqb (ncols fn) 0 then ret res else
  bind (if Nat.eqb (f_nrows fr) 0 && Nat.ltb 0 (f_nrows fn)
        then bind (derive k nf fr_norows) (fun t => derive k t f_reset)       (* clean_copy(new.iloc[range(0), :]) *)
        else ret nf) (fun nf' =>
  bind (rd k nf') (fun fn' =>
  if Nat.eqb (f_nrows fr) (f_nrows fn') && Nat.eqb (ncols fr) 0 then ret nf'
  else if Nat.ltb (ncols fr) (2 * ncols fn')
       then (* "lots of columns path": for c in common: del res[c]; return pd.concat([res, new], axis=1) *)
            bind (wr k res (rep WDelItem (inter (f_cols fr) (f_cols fn'))) (fr_del (inter (f_cols fr) (f_cols fn')))) (fun _ =>
            derive2 k res nf' fr_concat_cols)
       else (* "normal path": for c in new.columns: res[c] = new[c]; return res *)
            bind (wr k res (rep WSetItem (f_cols fn')) (fr_set (f_cols fn') "setcols" [f_data fn'])) (fun _ => ret res))))).

(* _extend_step *)
Definition fr_newcols (tag : string) (outs : list string) (extra : list payload) (f : frame) : frame :=
  mkframe IxRange outs (f_nrows f) (PF tag outs (f_data f :: extra)).                    (* columns_to_frame_(new_cols) *)
Definition c_extend_empty (outs : list string) (f : frame) : frame := fr_empty (f_cols f ++ diff outs (f_cols f)).
Definition c_window (tag : string) (outs : list string) (w : wspec) (f : frame) : frame :=
  let res1 := fr_set (w_consts w) "const" [] f in
  let s1 := fr_set ["_data_algebra_orig_index"] "index" [] (f_reset (fr_loc_cols (w_cols w) res1)) in
  let s := if w_sorted w then f_reset (fr_sort (w_cols w) [] s1) else s1 in
  let s' := fr_set outs tag [] (fr_set ["_data_algebra_temp_g"] "const" [] s) in
  let res2 := fr_del (w_consts w) res1 in
  c_add_cols res2 (f_reset (fr_loc_cols outs (fr_sort ["_data_algebra_orig_index"] [] s'))).
Definition c_extend (tag : string) (outs : list string) (win : option wspec) (f : frame) : frame :=
  if Nat.eqb (f_nrows f) 0 then c_extend_empty outs f
  else match win with
       | None => c_add_cols f (fr_newcols tag outs [] f)
       | Some w => c_window tag outs w f
       end.
Definition step_extend (tag : string) (outs : list string) (win : option wspec) (random : bool) (res : loc) : M loc :=
  bind (rd KExtend res) (fun f =>
  if Nat.eqb (f_nrows f) 0 then new KExtend (c_extend_empty outs f)                     (* return self.pd.DataFrame(v_dict) *)
  else match win with
  | None =>
      bind (if random then bind draw (fun r => ret [PRnd r]) else ret []) (fun extra =>  (* numpy.random.uniform *)
      bind (derive KExtend res (fr_newcols tag outs extra)) (fun nf =>                   (* act_on reads res; new frame *)
      add_cols KExtend res nf))
  | Some w =>
      bind (wr KExtend res (rep WSetItem (w_consts w)) (fr_set (w_consts w) "const" [])) (fun _ =>   (* res[value_name] = const *)
      bind (derive KExtend res (fr_loc_cols (w_cols w))) (fun s0 =>                      (* res[col_list] *)
      bind (derive KExtend s0 f_reset) (fun s1 =>                                        (* clean_copy *)
      bind (wr KExtend s1 [WSetItem] (fr_set ["_data_algebra_orig_index"] "index" [])) (fun _ =>
      bind (if w_sorted w
            then bind (derive KExtend s1 (fr_sort (w_cols w) [])) (fun s2 => derive KExtend s2 f_reset)
            else ret s1) (fun s =>
      bind (wr KExtend s [WSetItem] (fr_set ["_data_algebra_temp_g"] "const" [])) (fun _ =>          (* subframe[standin] = 1 *)
      bind (wr KExtend s (rep WSetItem outs) (fr_set outs tag [])) (fun _ =>                         (* subframe[k] = ...transform *)
      bind (wr KExtend res (rep WDelItem (w_consts w)) (fr_del (w_consts w))) (fun _ =>              (* del res[value_name] *)
      bind (derive KExtend s (fr_sort ["_data_algebra_orig_index"] [])) (fun s3 =>
      bind (derive KExtend s3 (fr_loc_cols outs)) (fun s4 =>
      bind (derive KExtend s4 f_reset) (fun s5 =>
      add_cols KExtend res s5)))))))))))
  end).

(* _project_step *)
Definition tmpc : string := "_data_table_temp_col".
Definition proj_cols (outs : list string) : list string := if isnil outs then [tmpc] else outs.
Definition fr_agg (tag : string) (group_by outs : list string) (nr : nat) (f : frame) : frame :=
  mkframe (if isnil group_by || Nat.eqb nr 0 then IxRange else IxOther) (proj_cols outs) nr (PF tag (group_by ++ "/" :: outs) [f_data f]).
Definition fr_proj_reset (group_by : list string) (f : frame) : frame :=               (* reset_index(drop = no keys or no rows) *)
  mkframe IxRange ((if isnil group_by || Nat.eqb (f_nrows f) 0 then [] else group_by) ++ f_cols f) (f_nrows f) (f_data f).
Definition c_project (tag : string) (group_by outs consts : list string) (nr : nat) (f : frame) : frame :=
  let res := fr_set [tmpc] "const" [] (fr_set consts "const" [] f) in
  let b := fr_proj_reset group_by (fr_agg tag group_by outs nr res) in
  let b' := if Nat.eqb (f_nrows b) 0 then fr_set (diff group_by (f_cols b)) "emptycol" [] b else b in
  if mem tmpc (f_cols b') then fr_keep [tmpc] b' else b'.
Definition step_project (tag : string) (group_by outs consts : list string) (nr : nat) (res : loc) : M loc :=
  bind (wr KProject res (rep WSetItem consts) (fr_set consts "const" [])) (fun _ =>       (* res[value_name] = const *)
  bind (wr KProject res [WSetItem] (fr_set [tmpc] "const" [])) (fun _ =>                  (* res["_data_table_temp_col"] = 1 *)
  bind (derive KProject res (fr_agg tag group_by outs nr)) (fun a =>                      (* groupby/agg; columns_to_frame_ *)
  bind (derive KProject a (fr_proj_reset group_by)) (fun b =>                             (* reset_index(inplace=False) *)
  bind (rd KProject b) (fun fb =>
  bind (if Nat.eqb (f_nrows fb) 0
        then wr KProject b (rep WSetItem (diff group_by (f_cols fb))) (fr_set (diff group_by (f_cols fb)) "emptycol" [])  (* res[g] = [] *)
        else ret tt) (fun _ =>
  bind (rd KProject b) (fun fb' =>
  if mem tmpc (f_cols fb') then derive KProject b (fr_keep [tmpc]) else ret b))))))).      (* res.drop(tmp, axis=1) *)

(* _select_rows_step *)
Definition c_select_rows (tag : string) (nr : nat) (f : frame) : frame :=
  if Nat.ltb (f_nrows f) 1 then f else f_reset (fr_rows nr tag f).
Definition step_select_rows (tag : string) (nr : nat) (res : loc) : M loc :=
  bind (rd KSelectRows res) (fun f =>
  if Nat.ltb (f_nrows f) 1 then ret res
  else bind (derive KSelectRows res (fr_rows nr tag)) (fun a => derive KSelectRows a f_reset)).   (* clean_copy(res.loc[sel, :]) *)

(* _select_columns_step, _drop_columns_step: res[cols] *)
Definition step_select_cols (cs : list string) (res : loc) : M loc := derive KSelectCols res (fr_loc_cols cs).
Definition step_drop_cols (cs : list string) (res : loc) : M loc := derive KDropCols res (fr_keep cs).

(* _order_rows_step *)
Definition c_order_sorted (by_ rev : list string) (f : frame) : frame :=
  if Nat.ltb 1 (f_nrows f) then f_reset (fr_sort_ignore by_ rev f) else f.
Definition c_order_rows (by_ rev : list string) (limit : option nat) (f : frame) : frame :=
  let f2 := c_order_sorted by_ rev f in
  match limit with
  | Some n => if Nat.ltb n (f_nrows f2) then f_reset (fr_rows n "head" f2) else f2
  | None => f2
  end.
Definition step_order_rows (by_ rev : list string) (limit : option nat) (res : loc) : M loc :=
  bind (rd KOrderRows res) (fun f =>
  bind (if Nat.ltb 1 (f_nrows f)
        then bind (derive KOrderRows res (fr_sort_ignore by_ rev)) (fun s =>              (* sort_values(inplace=False) *)
             bind (wr KOrderRows s [WResetIndex] f_reset) (fun _ => ret s))                (* self.drop_indices(res) *)
        else ret res) (fun r =>
  bind (rd KOrderRows r) (fun f2 =>
  match limit with
  | Some n => if Nat.ltb n (f_nrows f2)
              then bind (derive KOrderRows r (fr_rows n "head")) (fun a => derive KOrderRows a f_reset)
              else ret r
  | None => ret r
  end))).

(* _map_columns_step, _rename_columns_step *)
Definition c_map_cols (m : list (string * string)) (dels : list string) (f : frame) : frame :=
  if isnil dels then fr_rename m f else fr_keep dels (fr_rename m f).
Definition step_map_cols (m : list (string * string)) (dels : list string) (res : loc) : M loc :=
  bind (derive KMapCols res (fr_rename m)) (fun a => if isnil dels then ret a else derive KMapCols a (fr_keep dels)).
Definition step_rename (m : list (string * string)) (res : loc) : M loc := derive KRename res (fr_rename m).

(* _natural_join_step.  Scratch names are chosen away from the columns of both sides (_unused_column_name; the right
   suffix grows by "_" until no `c + suffix` is in use).  `left` / `right` are the objects returned by the evaluation of the
   two sources, i.e. allocated by this evaluation: the scratch key (no keys) and the null-key marker (both sides have a row
   with a null key -- data dependent, oracle `nullkeys`) are written into them in place. *)
Fixpoint unused_name (fuel : nat) (base : string) (taken : list string) : string :=
  match fuel with 0 => base | S k => if mem base taken then unused_name k ("_" ++ base)%string taken else base end.
Fixpoint unused_sfx (fuel : nat) (sx : string) (common taken : list string) : string :=
  match fuel with
  | 0 => sx
  | S k => if existsb (fun c => mem (c ++ sx)%string taken) common then unused_sfx k (sx ++ "_")%string common taken else sx
  end.
Definition in_use (fl fr : frame) : list string := f_cols fl ++ f_cols fr.
Definition join_scratch (fl fr : frame) : string := unused_name (S (List.length (in_use fl fr))) "data_algebra_temp_merge_col" (in_use fl fr).
Definition join_nullcol (fl fr : frame) : string := unused_name (S (List.length (in_use fl fr))) "data_algebra_temp_null_key_col" (in_use fl fr).
Definition join_sfx (fl fr : frame) : string :=
  unused_sfx (S (List.length (in_use fl fr))) "_tmp_right_col" (inter (f_cols fl) (f_cols fr)) (in_use fl fr).
Definition same_keys (on_a on_b : list string) : list string :=
  map fst (filter (fun ab => String.eqb (fst ab) (snd ab)) (combine on_a on_b)).
Definition fr_merge (sx : string) (on_a on_b : list string) (jt : string) (nr : nat) (a b : frame) : frame :=
  mkframe IxRange
          (f_cols a ++ map (fun c => if mem c (f_cols a) then (c ++ sx)%string else c) (diff (f_cols b) (same_keys on_a on_b)))
          nr (PF "merge" (jt :: on_a ++ "/" :: on_b) [f_data a; f_data b]).
Definition fr_locset (c : string) (f : frame) : frame :=
  mkframe (f_index f) (f_cols f) (f_nrows f) (PF "coalesce" [c] [f_data f]).
Definition c_coalesce (sx : string) (cs : list string) (f : frame) : frame :=
  fold_left (fun g c => fr_keep [(c ++ sx)%string] (fr_locset c g)) cs f.
Fixpoint coalesce_loop (sx : string) (cs : list string) (l : loc) : M loc :=
  match cs with
  | [] => ret l
  | c :: t => bind (wr KJoin l [WLocSet] (fr_locset c)) (fun _ =>                          (* res.loc[is_null, c] = ... *)
              bind (derive KJoin l (fr_keep [(c ++ sx)%string])) (fun l' => coalesce_loop sx t l'))  (* res = res.drop(c + suffix, axis=1) *)
  end.
Definition join_keys (on_ : list string) (sc nk : string) (nullkeys : bool) : list string :=
  (if isnil on_ then [sc] else on_) ++ (if nullkeys then [nk] else []).
Definition c_join (on_a on_b : list string) (jt : string) (nullkeys : bool) (nr : nat) (fl fr : frame) : frame :=
  if Nat.eqb (f_nrows fl) 0 && Nat.eqb (f_nrows fr) 0 then fr_empty (f_cols fl ++ diff (f_cols fr) (f_cols fl))
  else
    let common := inter (f_cols fl) (f_cols fr) in
    let sc := join_scratch fl fr in
    let nk := join_nullcol fl fr in
    let fl1 := if isnil on_a then fr_set [sc] "const" [] fl else fl in
    let fr1 := if isnil on_a then fr_set [sc] "const" [] fr else fr in
    let fl2 := if nullkeys then fr_set [nk] "nullmark" [] fl1 else fl1 in
    let fr2 := if nullkeys then fr_set [nk] "nullmark" [] fr1 else fr1 in
    let m := f_reset (fr_merge (join_sfx fl fr) (join_keys on_a sc nk nullkeys) (join_keys on_b sc nk nullkeys) jt nr fl2 fr2) in
    let m1 := if isnil on_a then fr_del [sc] m else m in
    let m2 := if nullkeys then fr_del [nk] m1 else m1 in
    f_reset (c_coalesce (join_sfx fl fr) (diff common (same_keys on_a on_b)) m2).
Definition step_join (on_a on_b : list string) (jt : string) (nullkeys : bool) (nr : nat) (left right : loc) : M loc :=
  bind (rd KJoin left) (fun fl => bind (rd KJoin right) (fun fr =>
  if Nat.eqb (f_nrows fl) 0 && Nat.eqb (f_nrows fr) 0
  then new KJoin (fr_empty (f_cols fl ++ diff (f_cols fr) (f_cols fl)))
  else
    bind (if isnil on_a
          then bind (wr KJoin left [WSetItem] (fr_set [join_scratch fl fr] "const" [])) (fun _ =>     (* left[scratch_col] = 1 *)
               wr KJoin right [WSetItem] (fr_set [join_scratch fl fr] "const" []))                    (* right[scratch_col] = 1 *)
          else ret tt) (fun _ =>
    bind (if nullkeys
          then bind (wr KJoin left [WSetItem] (fr_set [join_nullcol fl fr] "nullmark" [])) (fun _ =>  (* left[null_key_col] = ... *)
               wr KJoin right [WSetItem] (fr_set [join_nullcol fl fr] "nullmark" []))                 (* right[null_key_col] = ... *)
          else ret tt) (fun _ =>
    bind (derive2 KJoin left right (fr_merge (join_sfx fl fr) (join_keys on_a (join_scratch fl fr) (join_nullcol fl fr) nullkeys)
                                             (join_keys on_b (join_scratch fl fr) (join_nullcol fl fr) nullkeys) jt nr)) (fun m =>     (* pd.merge *)
    bind (wr KJoin m [WResetIndex] f_reset) (fun _ =>                                        (* drop_indices(res) *)
    bind (if isnil on_a then wr KJoin m [WDelItem] (fr_del [join_scratch fl fr]) else ret tt) (fun _ => (* del res[scratch_col] *)
    bind (if nullkeys then wr KJoin m [WDelItem] (fr_del [join_nullcol fl fr]) else ret tt) (fun _ =>   (* del res[null_key_col] *)
    (* for c in common_cols: if (c + right_suffix) in res.columns  <=>  c is not a same-named key pair *)
    bind (coalesce_loop (join_sfx fl fr) (diff (inter (f_cols fl) (f_cols fr)) (same_keys on_a on_b)) m) (fun r =>
    bind (wr KJoin r [WResetIndex] f_reset) (fun _ => ret r)))))))))).

(* _concat_rows_step *)
Definition c_idcol (idcol : option string) (f : frame) : frame :=
  match idcol with Some c => fr_set [c] "const" [] f | None => f end.
Definition c_concat (idcol : option string) (fl fr : frame) : frame :=
  let fl' := c_idcol idcol fl in
  let fr' := c_idcol idcol fr in
  if Nat.ltb (f_nrows fl') 1 then fr' else if Nat.ltb (f_nrows fr') 1 then fl' else f_reset (fr_concat_rows fl' fr').
Definition step_concat (idcol : option string) (left right : loc) : M loc :=
  bind (match idcol with
        | Some c => bind (wr KConcat left [WSetItem] (fr_set [c] "const" [])) (fun _ =>      (* left[op.id_column] = a_name *)
                    wr KConcat right [WSetItem] (fr_set [c] "const" []))                     (* right[op.id_column] = b_name *)
        | None => ret tt
        end) (fun _ =>
  bind (rd KConcat left) (fun fl => bind (rd KConcat right) (fun fr =>
  if Nat.ltb (f_nrows fl) 1 then ret right
  else if Nat.ltb (f_nrows fr) 1 then ret left
  else bind (derive2 KConcat left right fr_concat_rows) (fun r =>                            (* pd.concat(ignore_index=True) *)
       bind (wr KConcat r [WResetIndex] f_reset) (fun _ => ret r))))).

(* _convert_records_step: RecordMap.transform -> clean_copy, blocks_to_rowrecs, rowrecs_to_blocks.  One representative of
   each loop body (`s.columns = ...`, `new_dat.columns = ...`, `row[c] = ...` all act on frames derived inside the call) *)
Definition fr_piece (tag : string) (f : frame) : frame := mkframe IxRange (f_cols f) (f_nrows f) (PF tag [] [f_data f]).
Definition fr_glue (cs : list string) (n : nat) (a b : frame) : frame := mkframe IxRange cs n (PF "glue" cs [f_data a; f_data b]).
Definition c_b2r (mid_cols : list string) (nr_mid : nat) (x : frame) : frame :=
  let d := fr_piece "block_columns" x in
  if Nat.ltb (f_nrows d) 1 then fr_empty mid_cols
  else fr_glue mid_cols nr_mid d (fr_setcolumns mid_cols (fr_piece "split" d)).
Definition c_r2b (out_cols : list string) (nr : nat) (y : frame) : frame :=
  let d := fr_piece "row_columns" y in
  if Nat.ltb (f_nrows d) 1 then fr_empty out_cols
  else fr_sort_ignore out_cols [] (fr_glue out_cols nr (fr_set out_cols "keys" [] (fr_piece "record_keys" d))
                                           (fr_setcolumns out_cols (fr_piece "values" d))).
Definition c_convert (has_in has_out : bool) (mid_cols out_cols : list string) (nr_mid nr : nat) (f : frame) : frame :=
  let x := f_reset f in
  let y := if has_in then c_b2r mid_cols nr_mid x else x in
  if has_out then c_r2b out_cols nr y else y.
Definition b2r (mid_cols : list string) (nr_mid : nat) (x : loc) : M loc :=
  bind (derive KConvert x (fr_piece "block_columns")) (fun d =>          (* data.loc[:, block_columns].reset_index(drop=True) *)
  bind (rd KConvert d) (fun fd =>
  if Nat.ltb (f_nrows fd) 1 then new KConvert (fr_empty mid_cols)
  else bind (derive KConvert d (fr_piece "split")) (fun s =>             (* groupby split / reset_index / sort_values / drop *)
       bind (wr KConvert s [WSetColumns] (fr_setcolumns mid_cols)) (fun _ =>    (* s.columns = [...] *)
       derive2 KConvert d s (fr_glue mid_cols nr_mid))))).               (* pd.concat([sk] + split, axis=1), sort_values *)
Definition r2b (out_cols : list string) (nr : nat) (y : loc) : M loc :=
  bind (derive KConvert y (fr_piece "row_columns")) (fun d =>
  bind (rd KConvert d) (fun fd =>
  if Nat.ltb (f_nrows fd) 1 then new KConvert (fr_empty out_cols)
  else bind (derive KConvert d (fr_piece "values")) (fun nd =>           (* data.loc[:, col_names].reset_index(drop=True) *)
       bind (wr KConvert nd [WSetColumns] (fr_setcolumns out_cols)) (fun _ =>   (* new_dat.columns = new_names *)
       bind (derive KConvert d (fr_piece "record_keys")) (fun row =>     (* data.loc[:, record_keys].reset_index(drop=True) *)
       bind (wr KConvert row [WSetItem] (fr_set out_cols "keys" [])) (fun _ =>  (* row[c] = ct_keys.loc[0, c] *)
       bind (derive2 KConvert row nd (fr_glue out_cols nr)) (fun c =>    (* pd.concat *)
       derive KConvert c (fr_sort_ignore out_cols [])))))))).            (* sort_values(inplace=False, ignore_index=True) *)
Definition step_convert (has_in has_out : bool) (mid_cols out_cols : list string) (nr_mid nr : nat) (res : loc) : M loc :=
  bind (derive KConvert res f_reset) (fun x =>                           (* X = local_data_model.clean_copy(X) *)
  bind (if has_in then b2r mid_cols nr_mid x else ret x) (fun y =>
  if has_out then r2b out_cols nr y else ret y)).

(* the executor: _eval_value_source dispatches on the node; a node reached twice (DAG sharing) is evaluated twice *)
Fixpoint pexec (env : env_locs) (p : op) : M loc :=
  match p with
  | Table name cols => step_table env name cols
  | Extend s tag outs win random => bind (pexec env s) (step_extend tag outs win random)
  | Project s tag gb outs consts nr => bind (pexec env s) (step_project tag gb outs consts nr)
  | SelectRows s tag nr => bind (pexec env s) (step_select_rows tag nr)
  | SelectCols s cs => bind (pexec env s) (step_select_cols cs)
  | DropCols s cs => bind (pexec env s) (step_drop_cols cs)
  | OrderRows s by_ rev limit => bind (pexec env s) (step_order_rows by_ rev limit)
  | MapCols s m dels => bind (pexec env s) (step_map_cols m dels)
  | Rename s m => bind (pexec env s) (step_rename m)
  | NaturalJoin a b on_a on_b jt nk nr =>
      bind (pexec env a) (fun left => bind (pexec env b) (fun right => step_join on_a on_b jt nk nr left right))
  | ConcatRows a b idcol =>
      bind (pexec env a) (fun left => bind (pexec env b) (fun right => step_concat idcol left right))
  | ConvertRecords s hi ho mc oc nm nr => bind (pexec env s) (step_convert hi ho mc oc nm nr)
  end.

Definition pexec_st (s : store) (p : op) (env : env_locs) : option (store * loc * list event) :=
  match pexec env p s with Some (l, s', evs) => Some (s', l, evs) | None => None end.

(* the pure meaning of a pipeline on frame CONTENTS (used to state repeatability; random draws excluded by no_random) *)
Definition env_frames := list (string * option frame).
Fixpoint envf_get (e : env_frames) (n : string) : option frame :=
  match e with [] => None | (k, f) :: t => if String.eqb k n then f else envf_get t n end.
Definition frames_of (s : store) (env : env_locs) : env_frames := map (fun nl => (fst nl, get s (snd nl))) env.
Definition omap2 {A B C} (g : A -> B -> C) (a : option A) (b : option B) : option C :=
  match a, b with Some x, Some y => Some (g x y) | _, _ => None end.
Fixpoint pcontent (e : env_frames) (p : op) : option frame :=
  match p with
  | Table name cols => match envf_get e name with
                       | Some f0 => if subset cols (f_cols f0) then Some (c_table cols f0) else None
                       | None => None
                       end
  | Extend s tag outs win _ => option_map (c_extend tag outs win) (pcontent e s)
  | Project s tag gb outs consts nr => option_map (c_project tag gb outs consts nr) (pcontent e s)
  | SelectRows s tag nr => option_map (c_select_rows tag nr) (pcontent e s)
  | SelectCols s cs => option_map (fr_loc_cols cs) (pcontent e s)
  | DropCols s cs => option_map (fr_keep cs) (pcontent e s)
  | OrderRows s by_ rev limit => option_map (c_order_rows by_ rev limit) (pcontent e s)
  | MapCols s m dels => option_map (c_map_cols m dels) (pcontent e s)
  | Rename s m => option_map (fr_rename m) (pcontent e s)
  | NaturalJoin a b on_a on_b jt nk nr => omap2 (c_join on_a on_b jt nk nr) (pcontent e a) (pcontent e b)
  | ConcatRows a b idcol => omap2 (c_concat idcol) (pcontent e a) (pcontent e b)
  | ConvertRecords s hi ho mc oc nm nr => option_map (c_convert hi ho mc oc nm nr) (pcontent e s)
  end.

(* ================================================================== Polars executor (polars_model.py)
   Polars frames are immutable values: every step builds a new (Lazy)Frame from its sources (`select`, `with_columns`,
   `filter`, `sort`, `join`, `concat` ... all return new objects) and nothing in _compose_polars_ops writes in place.
   The only in-place operations of polars_model.py are `s.columns = [...]` / `new_dat.columns = new_names` inside the
   cdata transforms, on frames derived inside the call (`s.drop(...)`, `data[:, col_names]`). *)
Definition pl_cols1 (p : op) (cs : list string) : list string :=
  match p with
  | Extend _ _ outs _ _ => cs ++ diff outs cs
  | Project _ _ gb outs _ _ => gb ++ outs
  | SelectCols _ c => c
  | DropCols _ c => diff cs c
  | MapCols _ m dels => diff (map (assoc m) cs) dels
  | Rename _ m => map (assoc m) cs
  | ConvertRecords _ _ _ _ oc _ _ => oc
  | _ => cs
  end.
Definition pl_rows1 (p : op) (n : nat) : nat :=
  match p with
  | Project _ _ _ _ _ nr | SelectRows _ _ nr | ConvertRecords _ _ _ _ _ _ nr => nr
  | OrderRows _ _ _ (Some k) => Nat.min k n
  | _ => n
  end.
Definition pl_unary (p : op) (f : frame) : frame :=
  mkframe IxRange (pl_cols1 p (f_cols f)) (pl_rows1 p (f_nrows f)) (PF "polars" (pl_cols1 p (f_cols f)) [f_data f]).
Definition pl_binary (p : op) (a b : frame) : frame :=
  match p with
  | NaturalJoin _ _ _ _ _ _ nr => mkframe IxRange (f_cols a ++ diff (f_cols b) (f_cols a)) nr (PF "polars_join" [] [f_data a; f_data b])
  | ConcatRows _ _ idcol => mkframe IxRange (f_cols a ++ match idcol with Some c => [c] | None => [] end) (f_nrows a + f_nrows b)
                                    (PF "polars_concat" [] [f_data a; f_data b])
  | _ => a
  end.
Definition kind_of (p : op) : skind :=
  match p with
  | Table _ _ => KTable | Extend _ _ _ _ _ => KExtend | Project _ _ _ _ _ _ => KProject | SelectRows _ _ _ => KSelectRows
  | SelectCols _ _ => KSelectCols | DropCols _ _ => KDropCols | OrderRows _ _ _ _ => KOrderRows | MapCols _ _ _ => KMapCols
  | Rename _ _ => KRename | NaturalJoin _ _ _ _ _ _ _ => KJoin | ConcatRows _ _ _ => KConcat | ConvertRecords _ _ _ _ _ _ _ => KConvert
  end.
Definition pl_table (env : env_locs) (name : string) (cols : list string) : M loc :=
  match env_get env name with
  | None => fail
  | Some l0 => bind (rd KTable l0) (fun f0 =>
               if subset cols (f_cols f0)
               then bind (derive KTable l0 (fr_piece "lazy")) (fun l1 => derive KTable l1 (fr_loc_cols cols))   (* res.lazy(); res.select(cols) *)
               else fail)
  end.
Definition pl_convert (p : op) (res : loc) : M loc :=
  bind (derive KConvert res (fr_piece "collect")) (fun x =>
  bind (derive KConvert x (fr_piece "pieces")) (fun s =>
  bind (wr KConvert s [WSetColumns] (fr_setcolumns (pl_cols1 p []))) (fun _ =>
  derive2 KConvert x s (fun a _ => pl_unary p a)))).
(* _natural_join_step (Polars): with_columns(scratch key) on both inputs when there are no keys, join(coalesce=False),
   with_columns(when/then coalescing of every shared column), select(columns_produced): new frames only *)
Definition pl_scratch_name (fa fb : frame) : string :=          (* _unused_column_name("_da_join_scratch_key", names_in_use) *)
  unused_name (S (List.length (in_use fa fb))) "_da_join_scratch_key" (in_use fa fb).
Definition pl_scratch (nm : string) (f : frame) : frame := mkframe IxRange (f_cols f ++ [nm]) (f_nrows f) (PF "with_scratch" [nm] [f_data f]).
Definition pl_select (fa fb : frame) (nr : nat) (fc : frame) : frame :=
  mkframe IxRange (f_cols fa ++ diff (f_cols fb) (f_cols fa)) nr (PF "select" [] [f_data fc]).
Definition pl_c_join (p : op) (on_a : list string) (nr : nat) (fa fb : frame) : frame :=
  let fa' := if isnil on_a then pl_scratch (pl_scratch_name fa fb) fa else fa in
  let fb' := if isnil on_a then pl_scratch (pl_scratch_name fa fb) fb else fb in
  let j := pl_binary p fa' fb' in
  pl_select fa fb nr (if isnil (inter (f_cols fa) (f_cols fb)) then j else fr_piece "coalesce" j).
Definition pl_join (p : op) (on_a : list string) (nr : nat) (la lb : loc) : M loc :=
  bind (rd KJoin la) (fun fa => bind (rd KJoin lb) (fun fb =>
  bind (if isnil on_a then derive KJoin la (pl_scratch (pl_scratch_name fa fb)) else ret la) (fun a' =>   (* d.with_columns(lit(1).alias(scratch)) *)
  bind (if isnil on_a then derive KJoin lb (pl_scratch (pl_scratch_name fa fb)) else ret lb) (fun b' =>
  bind (derive2 KJoin a' b' (pl_binary p)) (fun j =>                                                     (* join(coalesce=False, suffix=unused suffix) *)
  bind (if isnil (inter (f_cols fa) (f_cols fb)) then ret j else derive KJoin j (fr_piece "coalesce")) (fun c =>   (* with_columns(when/then) *)
  derive KJoin c (pl_select fa fb nr))))))).                                                            (* select(columns_produced) *)
Fixpoint plexec (env : env_locs) (p : op) : M loc :=
  match p with
  | Table name cols => pl_table env name cols
  | Extend s _ _ _ _ | Project s _ _ _ _ _ | SelectRows s _ _ | SelectCols s _ | DropCols s _ | OrderRows s _ _ _
  | MapCols s _ _ | Rename s _ => bind (plexec env s) (fun l => derive (kind_of p) l (pl_unary p))
  | ConvertRecords s _ _ _ _ _ _ => bind (plexec env s) (pl_convert p)
  | NaturalJoin a b on_a _ _ _ nr => bind (plexec env a) (fun la => bind (plexec env b) (fun lb => pl_join p on_a nr la lb))
  | ConcatRows a b _ =>
      bind (plexec env a) (fun la => bind (plexec env b) (fun lb => derive2 (kind_of p) la lb (pl_binary p)))
  end.
Definition plexec_st (s : store) (p : op) (env : env_locs) : option (store * loc * list event) :=
  match plexec env p s with Some (l, s', evs) => Some (s', l, evs) | None => None end.
Fixpoint plcontent (e : env_frames) (p : op) : option frame :=
  match p with
  | Table name cols => match envf_get e name with
                       | Some f0 => if subset cols (f_cols f0) then Some (fr_loc_cols cols (fr_piece "lazy" f0)) else None
                       | None => None
                       end
  | Extend s _ _ _ _ | Project s _ _ _ _ _ | SelectRows s _ _ | SelectCols s _ | DropCols s _ | OrderRows s _ _ _
  | MapCols s _ _ | Rename s _ => option_map (pl_unary p) (plcontent e s)
  | ConvertRecords s _ _ _ _ _ _ => option_map (fun f => pl_unary p (fr_piece "collect" f)) (plcontent e s)
  | NaturalJoin a b on_a _ _ _ nr => omap2 (pl_c_join p on_a nr) (plcontent e a) (plcontent e b)
  | ConcatRows a b _ => omap2 (pl_binary p) (plcontent e a) (plcontent e b)
  end.

(* ------------------------------------------------------------------ trace observations used by theorems and the case driver *)
Definition write_locs (evs : list event) : list loc :=
  flat_map (fun e => match e with EWrite _ l _ => [l] | _ => [] end) evs.
Definition fst3 {A B C} (x : A * B * C) : A := fst (fst x).
