(* C21 correspondence driver.  One case = one call of a solution helper on concrete tables, as OBSERVED on the real code:
     * the operator tree the real helper built (converted field by field) -- compared with the model's pipeline term;
     * for replicate_rows_query the frame the helper returned -- compared with count_frame;
     * the result of that real pipeline on Pandas and on SQLite -- compared with the model's semantics of the MODEL's
       pipeline under that backend's flavour, and (on valid inputs) with the Coq SPECIFICATION.
   The float expression of replicate_rows_query is evaluated here with pw := Nat.log2_up; the harness sweeps the real float
   computations against exactly that function for all n <= 2^20. *)
From Coq Require Import List Bool Arith ZArith QArith String.
Import ListNotations.
From DA Require Import Base.PyRT Base.Cases Base.Val Model.Sem Model.SemCases Model.Solutions.
Local Open Scope string_scope.
Local Open Scope list_scope.

Fixpoint expr_eqb (a b : expr) : bool :=
  match a, b with
  | ECol x, ECol y => eqb x y
  | EConst x, EConst y => eqb x y
  | EOp o1 l1, EOp o2 l2 =>
      eqb o1 o2 && (fix go (l1 l2 : list expr) : bool :=
                      match l1, l2 with [], [] => true | x :: t, y :: u => expr_eqb x y && go t u | _, _ => false end) l1 l2
  | _, _ => false
  end.
Fixpoint ops_eqb (a b : list (string * expr)) : bool :=
  match a, b with
  | [], [] => true
  | (k1, e1) :: t, (k2, e2) :: u => eqb k1 k2 && expr_eqb e1 e2 && ops_eqb t u
  | _, _ => false
  end.
Definition window_eqb (a b : window) : bool :=
  eqb (w_part a) (w_part b) && eqb (w_order a) (w_order b) && eqb (w_rev a) (w_rev b).
Definition jointype_eqb (a b : jointype) : bool :=
  match a, b with JInner, JInner | JLeft, JLeft | JRight, JRight | JFull, JFull => true | _, _ => false end.
Fixpoint op_eqb (x y : op) : bool :=
  match x, y with
  | OTable n1 c1, OTable n2 c2 => eqb n1 n2 && eqb c1 c2
  | OExtend s1 o1 wd1 w1, OExtend s2 o2 wd2 w2 => op_eqb s1 s2 && ops_eqb o1 o2 && Bool.eqb wd1 wd2 && window_eqb w1 w2
  | OProject s1 o1 g1, OProject s2 o2 g2 => op_eqb s1 s2 && ops_eqb o1 o2 && eqb g1 g2
  | OSelectRows s1 e1, OSelectRows s2 e2 => op_eqb s1 s2 && expr_eqb e1 e2
  | OSelectCols s1 c1, OSelectCols s2 c2 => op_eqb s1 s2 && eqb c1 c2
  | ODropCols s1 c1, ODropCols s2 c2 => op_eqb s1 s2 && eqb c1 c2
  | ORename s1 m1, ORename s2 m2 => op_eqb s1 s2 && eqb m1 m2
  | OMapCols s1 m1 d1, OMapCols s2 m2 d2 => op_eqb s1 s2 && eqb m1 m2 && eqb d1 d2
  | OOrder s1 c1 r1 l1, OOrder s2 c2 r2 l2 => op_eqb s1 s2 && eqb c1 c2 && eqb r1 r2 && eqb l1 l2
  | OJoin a1 b1 x1 y1 j1, OJoin a2 b2 x2 y2 j2 => op_eqb a1 a2 && op_eqb b1 b2 && eqb x1 x2 && eqb y1 y2 && jointype_eqb j1 j2
  | OConcat a1 b1 i1 n1 m1, OConcat a2 b2 i2 n2 m2 => op_eqb a1 a2 && op_eqb b1 b2 && eqb i1 i2 && eqb n1 n2 && eqb m1 m2
  | _, _ => false
  end.
Fixpoint xop_eqb (x y : xop) : bool :=
  match x, y with
  | XSem p, XSem q => op_eqb p q
  | XLet n1 b1 c1, XLet n2 b2 c2 => eqb n1 n2 && xop_eqb b1 b2 && xop_eqb c1 c2
  | XUnpivot s1 k1 n1 v1 c1, XUnpivot s2 k2 n2 v2 c2 => xop_eqb s1 s2 && eqb k1 k2 && eqb n1 n2 && eqb v1 v2 && eqb c1 c2
  | XPivot s1 k1 n1 v1 c1, XPivot s2 k2 n2 v2 c2 => xop_eqb s1 s2 && eqb k1 k2 && eqb n1 n2 && eqb v1 v2 && eqb c1 c2
  | _, _ => false
  end.

(* one helper call: its arguments *)
Inductive hcall :=
  | HRep (d : op) (cnt seqc jt : string) (maxc : nat)
  | HRank (d : op) (ob pb : list string) (rank tb : string)
  | HLocf (d : op) (ob pb : list string) (vcol use rk tb : string)
  | HMM (d m : op) (keys : list string) (namec valc mapc : string) (vcols : list string) (coalesce : option val) (back : option (list string)).

Definition pw_exact : nat -> nat := Nat.log2_up.

(* what the helper returns: None = it raises *)
Definition model_build (h : hcall) : option xop :=
  match h with
  | HRep d cnt seqc jt _ => Some (XSem (replicate_rows_pipeline d cnt seqc jt))
  | HRank d ob pb rank tb => Some (XSem (rank_to_average_pipeline d ob pb rank tb))
  | HLocf d ob pb vcol use rk tb => Some (XSem (locf_pipeline d ob pb vcol use rk tb))
  | HMM d m keys namec valc mapc vcols co back => multi_map_build d m keys namec valc mapc vcols co back
  end.
Definition opt_xop_eqb (a b : option xop) : bool :=
  match a, b with Some x, Some y => xop_eqb x y | None, None => true | _, _ => false end.

(* the specification's table and the validity of the input, under flavour fl *)
Definition spec_of (fl : flavor) (h : hcall) (e : env) : option (bool * table) :=
  match h with
  | HRep d cnt seqc jt maxc =>
      match sem_gen fl d e with Some t => Some (replicate_valid cnt seqc maxc t, replicate_spec cnt seqc t) | None => None end
  | HRank d ob pb rank tb =>
      match sem_gen fl d e with Some t => Some (rank_valid ob pb rank tb t, rank_avg_spec fl ob pb rank t) | None => None end
  | HLocf d ob pb vcol use rk tb =>
      match sem_gen fl d e with Some t => Some (locf_valid fl ob pb vcol use rk tb t, locf_spec fl ob pb vcol t) | None => None end
  | HMM d m keys namec valc mapc vcols co back =>
      match sem_gen fl d e, sem_gen fl m e with
      | Some t, Some mt => Some (multimap_valid keys namec valc mapc vcols back t mt, multimap_spec keys namec valc mapc vcols co back t mt)
      | _, _ => None
      end
  end.

Record ccase := mkc {
  call : hcall;
  built : option xop;                     (* the tree the real helper built; None = the helper raised *)
  tables : env;                           (* the input tables (for HRep including the frame the helper returned, under jt) *)
  results : list (flavor * table)         (* what the real pipeline returned per backend *)
}.

(* for replicate_rows_query: the returned frame is count_frame seq P for the P the real code computed (number of distinct
   power keys - 1), and the generator's max_count satisfies max_count <= 2^P *)
Definition frame_ok (c : ccase) : bool :=
  match call c with
  | HRep _ _ seqc jt maxc =>
      match dict_get (tables c) jt with
      | Some f => let P := pw_exact maxc in
                  eqb (cols f) (cols (count_frame seqc P)) && table_close true (count_frame seqc P) f
      | None => false
      end
  | _ => true
  end.

Definition result_ok (c : ccase) (fr : flavor * table) : bool :=
  let '(fl, obs) := fr in
  match option_map (fun p => sem_xop pw_exact fl p (tables c)) (model_build (call c)) with
  | Some (Some m) => table_close false m obs
  | _ => false
  end
  && match spec_of fl (call c) (tables c) with
     | Some (valid, s) => valid && table_close false s obs        (* the generator only produces valid inputs *)
     | None => false
     end.

Definition case_ok (c : ccase) : bool :=
  opt_xop_eqb (model_build (call c)) (built c) && frame_ok c && forallb (result_ok c) (results c).
Definition check_cases cs : list nat := failing_idx case_ok cs.

(* finer diagnosis, used by the harness only after a failure: which part of case_ok failed *)
Definition diagnose (c : ccase) : list nat :=
  (if opt_xop_eqb (model_build (call c)) (built c) then [] else [1%nat]) ++ (if frame_ok c then [] else [2%nat])
  ++ flat_map (fun fr => let '(fl, obs) := fr in
                 (match option_map (fun p => sem_xop pw_exact fl p (tables c)) (model_build (call c)) with
                  | Some (Some m) => if table_close false m obs then [] else [3%nat] | _ => [4%nat] end)
                 ++ (match spec_of fl (call c) (tables c) with
                     | Some (valid, s) => (if valid then [] else [5%nat]) ++ (if table_close false s obs then [] else [6%nat])
                     | None => [7%nat] end)) (results c).
