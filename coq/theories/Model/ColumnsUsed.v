(* C10 -- hand transcription of data_algebra/view_representations.py:
     <Node>.columns_used_from_sources            -> cols_from_sources
     ViewRepresentation.columns_used_implementation_ / columns_used / get_tables
                                                 -> cu_impl / columns_used / get_tables   (node identity = an id tree)
     the column checks of the node constructors  -> builder_ok
   over the pipeline terms of Model/Sem.v.  Python sets / OrderedSets are lists; every comparison with the
   implementation and every lemma is at membership level.  No proofs here.

   Conventions of harness/semconv.py `cop` (the converter real DAG -> `op`):
     ORename s m   : m = column_remapping.items()           (NEW name, OLD name)
     OMapCols s m d: m = [(new, old) for old, new in column_remapping.items()], d = column_deletions
     OExtend       : partition_by = 1 is stored as [] by ExtendNode.__init__
   `usg` is never None below the top node: columns_used_implementation_ always passes `crec.copy()`; the
   `usg is None` branches of the per-node methods are therefore only reachable through SQL generation, which
   first replaces None by the node's column_names -- they are modelled by calling with `column_names n`. *)
From Coq Require Import List Bool Arith String.
Import ListNotations.
From DA Require Import Base.PyRT Base.Val Model.Sem.
Local Open Scope string_scope.
Local Open Scope list_scope.

(* ------------------------------------------------------------------ helpers *)
(* o.get_column_names(acc) for every o of a dict of expressions *)
Definition ops_cols (ops : list (string * expr)) : list string := flat_map (fun ke => cols_used (snd ke)) ops.
(* {k: op for (k, op) in self.ops.items() if k in usg} *)
Definition sub_ops (usg : list string) (ops : list (string * expr)) : list (string * expr) :=
  filter (fun ke => mem (fst ke) usg) ops.
(* (k if k not in remap.keys() else remap[k]) *)
Definition old_of (m : list (string * string)) (k : string) : string :=
  match dict_get m k with Some o => o | None => k end.
Definition is_nil {A} (l : list A) : bool := match l with [] => true | _ => false end.
Fixpoint nodupb (l : list string) : bool :=            (* len(x) == len(set(x)) *)
  match l with [] => true | x :: t => negb (mem x t) && nodupb t end.

(* ------------------------------------------------------------------ per node: columns_used_from_sources(usg) *)
Definition cols_from_sources (n : op) (usg : list string) : list (list string) :=
  match n with
  | OTable _ _ => []
  | OExtend s ops _ w =>
      (* subops = ops restricted to usg; none -> every source column;
         else (usg | partition_by | order_by | reverse) - subops.keys(), plus the columns of subops' expressions,
         listed in source order *)
      let subops := sub_ops usg ops in
      match subops with
      | [] => [column_names s]
      | _ => let take := set_diff (usg ++ w_part w ++ w_order w ++ w_rev w) (map fst subops) ++ ops_cols subops in
             [filter (fun v => mem v take) (column_names s)]
      end
  | OProject _ ops gb => [gb ++ ops_cols (sub_ops usg ops)]
  | OSelectRows s e => [set_union (set_inter (column_names s) usg) (cols_used e)]
  | OSelectCols _ cs => [set_inter cs usg]
  | ODropCols _ ds => [filter (fun c => negb (mem c ds)) usg]
  | ORename _ m => [map (old_of m) usg]
  | OMapCols _ m dels => [map (old_of (dict_of_list m)) usg ++ dels]   (* reverse_mapping is a dict: a later entry wins *)
  | OOrder _ cs _ _ => [set_inter (column_names n) usg ++ cs]
  | OJoin a b on_a on_b _ =>
      let u := usg ++ on_a ++ on_b in [set_inter (column_names a) u; set_inter (column_names b) u]
  | OConcat a b _ _ _ => [set_inter (column_names a) usg; set_inter (column_names b) usg]
  end.
Definition cfs1 (n : op) (usg : list string) : list string := nth 0 (cols_from_sources n usg) [].
Definition cfs2 (n : op) (usg : list string) : list string := nth 1 (cols_from_sources n usg) [].

Definition sources (n : op) : list op :=
  match n with
  | OTable _ _ => []
  | OExtend s _ _ _ | OProject s _ _ | OSelectRows s _ | OSelectCols s _ | ODropCols s _ | ORename s _
  | OMapCols s _ _ | OOrder s _ _ _ => [s]
  | OJoin a b _ _ _ | OConcat a b _ _ _ => [a; b]
  end.

(* ------------------------------------------------------------------ get_tables *)
(* every table description of the DAG; None when two descriptions of one key differ (ValueError) *)
Fixpoint table_descrs (p : op) : list (string * list string) :=
  match p with
  | OTable n cs => [(n, cs)]
  | OExtend s _ _ _ | OProject s _ _ | OSelectRows s _ | OSelectCols s _ | ODropCols s _ | ORename s _
  | OMapCols s _ _ | OOrder s _ _ _ => table_descrs s
  | OJoin a b _ _ _ | OConcat a b _ _ _ => table_descrs a ++ table_descrs b
  end.
Definition get_tables (p : op) : option (list (string * list string)) :=
  fold_left (fun acc nc => match acc with
                           | None => None
                           | Some tb => match dict_get tb (fst nc) with
                                        | Some cs => if eqb cs (snd nc) then Some tb else None
                                        | None => Some (tb ++ [nc])
                                        end
                           end) (table_descrs p) (Some []).

(* ------------------------------------------------------------------ columns_used_implementation_ *)
(* Node identity.  The Python recursion walks the tree unfolding of the DAG and keys its records by
   merged_rep_id: "table_" + key for a table description, id(self) for every other node.  A shared node is the
   same id met several times; `idt` gives the id of every node of the unfolding. *)
Inductive idt := IdT (id : nat) (kids : list idt).
Record cu_state := mkst { st_nodes : list (nat * list string); st_tabs : list (string * list string) }.
Definition rec_of {K} `{EqDec K} (d : list (K * list string)) (k : K) : list string :=
  match dict_get d k with Some l => l | None => [] end.

Fixpoint cu_impl (p : op) (i : idt) (usg : list string) (st : cu_state) : option cu_state :=
  let 'IdT id kids := i in
  match p with
  | OTable n cs =>
      if subset usg cs                                   (* "asked for unknown columns" *)
      then Some (mkst (st_nodes st) (dict_set (st_tabs st) n (set_union (rec_of (st_tabs st) n) usg)))
      else None
  | OExtend s _ _ _ | OProject s _ _ | OSelectRows s _ | OSelectCols s _ | ODropCols s _ | ORename s _
  | OMapCols s _ _ | OOrder s _ _ _ =>
      if subset usg (column_names p) then
        let crec := set_union (rec_of (st_nodes st) id) usg in
        let st1 := mkst (dict_set (st_nodes st) id crec) (st_tabs st) in
        match kids with
        | [k] => cu_impl s k (cfs1 p crec) st1
        | _ => None
        end
      else None
  | OJoin a b _ _ _ | OConcat a b _ _ _ =>
      if subset usg (column_names p) then
        let crec := set_union (rec_of (st_nodes st) id) usg in
        let st1 := mkst (dict_set (st_nodes st) id crec) (st_tabs st) in
        match kids with
        | [ka; kb] => match cu_impl a ka (cfs1 p crec) st1 with
                      | Some st2 => cu_impl b kb (cfs2 p crec) st2
                      | None => None
                      end
        | _ => None
        end
      else None
  end.

(* columns_used(usg=None | usg): table key -> columns *)
Definition columns_used_using (p : op) (i : idt) (usg : option (list string)) : option (list (string * list string)) :=
  match get_tables p with
  | None => None
  | Some tb =>
      let st0 := mkst [] (map (fun nc => (fst nc, @nil string)) tb) in
      option_map st_tabs (cu_impl p i (match usg with Some u => u | None => column_names p end) st0)
  end.
Definition columns_used (p : op) (i : idt) : option (list (string * list string)) := columns_used_using p i None.

(* tree-shaped pipelines (no node object is shared): every node record starts empty, only tables accumulate *)
Fixpoint cu_tree (p : op) (usg : list string) (tabs : list (string * list string)) : option (list (string * list string)) :=
  match p with
  | OTable n cs => if subset usg cs then Some (dict_set tabs n (set_union (rec_of tabs n) usg)) else None
  | OExtend s _ _ _ | OProject s _ _ | OSelectRows s _ | OSelectCols s _ | ODropCols s _ | ORename s _
  | OMapCols s _ _ | OOrder s _ _ _ =>
      if subset usg (column_names p) then cu_tree s (cfs1 p usg) tabs else None
  | OJoin a b _ _ _ | OConcat a b _ _ _ =>
      if subset usg (column_names p) then
        match cu_tree a (cfs1 p usg) tabs with Some t2 => cu_tree b (cfs2 p usg) t2 | None => None end
      else None
  end.
Definition columns_used_tree (p : op) : option (list (string * list string)) :=
  match get_tables p with
  | None => None
  | Some tb => cu_tree p (column_names p) (map (fun nc => (fst nc, @nil string)) tb)
  end.

(* the ids handed in are usable: one id always names nodes with one column list (in Python: one object) *)
Fixpoint ids_ok (cn : nat -> list string) (p : op) (i : idt) : Prop :=
  let 'IdT id kids := i in
  match p with
  | OTable _ _ => True
  | OExtend s _ _ _ | OProject s _ _ | OSelectRows s _ | OSelectCols s _ | ODropCols s _ | ORename s _
  | OMapCols s _ _ | OOrder s _ _ _ =>
      cn id = column_names p /\ match kids with [k] => ids_ok cn s k | _ => False end
  | OJoin a b _ _ _ | OConcat a b _ _ _ =>
      cn id = column_names p /\ match kids with [ka; kb] => ids_ok cn a ka /\ ids_ok cn b kb | _ => False end
  end.
Fixpoint ids_okb (cn : nat -> list string) (p : op) (i : idt) : bool :=
  let 'IdT id kids := i in
  match p with
  | OTable _ _ => true
  | OExtend s _ _ _ | OProject s _ _ | OSelectRows s _ | OSelectCols s _ | ODropCols s _ | ORename s _
  | OMapCols s _ _ | OOrder s _ _ _ =>
      eqb (cn id) (column_names p) && match kids with [k] => ids_okb cn s k | _ => false end
  | OJoin a b _ _ _ | OConcat a b _ _ _ =>
      eqb (cn id) (column_names p) && match kids with [ka; kb] => ids_okb cn a ka && ids_okb cn b kb | _ => false end
  end.
(* (id, column list) of every inner node, to build `cn` from a concrete case *)
Fixpoint id_cols (p : op) (i : idt) : list (nat * list string) :=
  let 'IdT id kids := i in
  match p with
  | OTable _ _ => []
  | OExtend s _ _ _ | OProject s _ _ | OSelectRows s _ | OSelectCols s _ | ODropCols s _ | ORename s _
  | OMapCols s _ _ | OOrder s _ _ _ =>
      (id, column_names p) :: match kids with [k] => id_cols s k | _ => [] end
  | OJoin a b _ _ _ | OConcat a b _ _ _ =>
      (id, column_names p) :: match kids with [ka; kb] => id_cols a ka ++ id_cols b kb | _ => [] end
  end.
Definition cn_of (p : op) (i : idt) : nat -> list string := rec_of (id_cols p i).

(* ------------------------------------------------------------------ the builders' column checks *)
(* RenameColumnsNode / MapColumnsNode: dict keys are distinct, one new name per old name, "Tried to rename unknown
   columns", and no collision with a remaining column (= the resulting column_names are duplicate free, the
   assertion of ViewRepresentation.__init__) *)
Definition rename_okb (m : list (string * string)) (cs : list string) : bool :=
  nodupb (map fst m) && nodupb (map snd m) && subset (map snd m) cs && nodupb (map (rename_col m) cs).

Fixpoint builder_ok (p : op) : bool :=
  match p with
  | OTable _ cs => negb (is_nil cs) && nodupb cs
  | OExtend s ops _ w =>
      builder_ok s
      && subset (ops_cols ops) (column_names s)                                  (* referred to unknown columns *)
      && nodupb (map fst ops)                                                    (* dict keys *)
      && nodupb (w_part w) && nodupb (w_order w) && nodupb (w_rev w)             (* Duplicate name(s) in ... *)
      && subset (w_part w) (column_names s) && subset (w_order w) (column_names s) && subset (w_rev w) (w_order w)
      && disjointb (map fst ops) (w_part w ++ w_order w ++ w_rev w)             (* "tried to change" *)
  | OProject s ops gb =>
      builder_ok s && subset (gb ++ ops_cols ops) (column_names s) && nodupb (gb ++ map fst ops)
  | OSelectRows s e => builder_ok s && subset (cols_used e) (column_names s)
  | OSelectCols s cs => builder_ok s && negb (is_nil cs) && subset cs (column_names s) && nodupb cs
  | ODropCols s ds => builder_ok s && subset ds (column_names s) && negb (is_nil (column_names p))
  | ORename s m => builder_ok s && rename_okb m (column_names s)
  | OMapCols s m dels => builder_ok s && rename_okb m (column_names s) && subset dels (column_names s)
                         && negb (is_nil (column_names p))
  | OOrder s cs rev _ => builder_ok s && subset cs (column_names s) && subset rev cs
  | OJoin a b on_a on_b _ =>
      builder_ok a && builder_ok b && subset on_a (column_names a) && subset on_b (column_names b)
      && Nat.eqb (List.length on_a) (List.length on_b)
  | OConcat a b idc _ _ =>
      builder_ok a && builder_ok b && set_eqb (column_names a) (column_names b)
      && match idc with Some c => negb (mem c (column_names a)) | None => true end
  end.

(* ------------------------------------------------------------------ narrowing *)
(* every table description keeps the columns `keep name` accepts, in their original order *)
Fixpoint narrow (keep : string -> string -> bool) (p : op) : op :=
  match p with
  | OTable n cs => OTable n (filter (keep n) cs)
  | OExtend s ops wd w => OExtend (narrow keep s) ops wd w
  | OProject s ops gb => OProject (narrow keep s) ops gb
  | OSelectRows s e => OSelectRows (narrow keep s) e
  | OSelectCols s cs => OSelectCols (narrow keep s) cs
  | ODropCols s ds => ODropCols (narrow keep s) ds
  | ORename s m => ORename (narrow keep s) m
  | OMapCols s m dels => OMapCols (narrow keep s) m dels
  | OOrder s cs rev lim => OOrder (narrow keep s) cs rev lim
  | OJoin a b on_a on_b jt => OJoin (narrow keep a) (narrow keep b) on_a on_b jt
  | OConcat a b idc an bn => OConcat (narrow keep a) (narrow keep b) idc an bn
  end.
Definition keep_of (cu : list (string * list string)) (n c : string) : bool := mem c (rec_of cu n).
Definition narrow_to (cu : list (string * list string)) (p : op) : op := narrow (keep_of cu) p.
(* an input restricted to the reported columns *)
Definition restrict_table (u : list string) (t : table) : table :=
  sem_select_cols (filter (fun c => mem c u) (cols t)) t.
Definition restrict_env (cu : list (string * list string)) (e : env) : env :=
  map (fun nt => (fst nt, restrict_table (rec_of cu (fst nt)) (snd nt))) e.
