(* case driver for C01 / C02: classify a generated pipeline + tables with Model/SemStrict.v inside Coq.
   For every case the driver returns a list of numbers:
     1..10      the causes met by the strict walk along the Pandas conventions or along the SQLite conventions (cause_code)
     21..30     20 + the causes met by the multiset walk (causes_bag)
     100        the models of Pandas and SQLite return different multisets of rows (or different columns)
     101        (only for cases compared in row order) the two models return the rows in a different order
     102        the models of Pandas and PostgreSQL return different multisets of rows
     201..209   200 + the conventions of SQLite that change the Pandas model's result when adopted ALONE (field_code);
                computed only when 100 / 101 is reported
   check_cases: the instance of the agreement theorem on every case (insensitive => the two models agree); it can only fail if
   the development is inconsistent with the theorem, and is run as a sanity check of the driver itself. *)
From Coq Require Import List Bool Arith ZArith QArith String.
Import ListNotations.
From DA Require Import Base.PyRT Base.Cases Base.Val Model.Sem Model.SemStrict.

Record ccase := mkccase { c_pipeline : op; c_tables : env; c_ordered : bool }.

Fixpoint nat_mem (n : nat) (l : list nat) : bool := match l with [] => false | x :: t => Nat.eqb n x || nat_mem n t end.
Fixpoint nat_dedup (l : list nat) : list nat :=
  match l with [] => [] | x :: t => if nat_mem x t then nat_dedup t else x :: nat_dedup t end.

Definition classify (c : ccase) : list nat :=
  let p := c_pipeline c in
  let e := c_tables c in
  let tp := sem_gen fl_pandas p e in
  let ts := sem_gen fl_sqlite p e in
  let strict := nat_dedup (map cause_code (causes fl_pandas p e ++ causes fl_sqlite p e)) in
  let bag := nat_dedup (map (fun x => 20 + cause_code x)%nat (causes_bag fl_pandas p e ++ causes_bag fl_sqlite p e)) in
  let dbag := negb (tables_agree false tp ts) in
  let dord := c_ordered c && negb (tables_agree true tp ts) in
  strict ++ bag ++ (if dbag then [100%nat] else []) ++ (if dord then [101%nat] else [])
  ++ (if tables_agree false tp (sem_gen fl_postgres p e) then [] else [102%nat])
  ++ (if dbag || dord then map (fun f => 200 + field_code f)%nat (effective_fields (c_ordered c) fl_pandas fl_sqlite p e) else []).

Definition classify_all (cs : list ccase) : list (list nat) := map classify cs.

Definition case_ok (c : ccase) : bool :=
  let p := c_pipeline c in
  let e := c_tables c in
  (if insensitive p e then tables_agree true (sem_gen fl_pandas p e) (sem_gen fl_sqlite p e)
                           && tables_agree true (sem_gen fl_pandas p e) (sem_gen fl_postgres p e) else true)
  && (if insensitive_bag p e then tables_agree false (sem_gen fl_pandas p e) (sem_gen fl_sqlite p e) else true).
Definition check_cases cs : list nat := failing_idx case_ok cs.

(* helpers for writing literals (same as Model/SemCases.v) *)
Definition Q2 (n : Z) (d : positive) : val := VNum (Qred (n # d)).
Definition S (s : string) : val := VStr s.
