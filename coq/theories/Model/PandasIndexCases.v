(* correspondence driver for Model/PandasIndex.v: the labels of the frame returned by every node of the real Pandas executor
   (recorded by wrapping the executor's step table, harness/props/C18.py) against px_trace, on inputs with non-default labels *)
From Coq Require Import List Bool Arith ZArith QArith String.
Import ListNotations.
From DA Require Import Base.PyRT Base.Cases Base.Val Model.Sem Model.SemCases Model.PandasIndex.

Record icase := mkicase { ipipe : op; itables : ienv; iobserved : list (list label) }.
Definition icase_ok (c : icase) : bool := eqb (px_trace fl_pandas (ipipe c) (itables c)) (map Some (iobserved c)).
Definition check_icases (cs : list icase) : list nat := failing_idx icase_ok cs.

(* literals *)
Definition LI (z : Z) : label := [AInt z].
Definition LS (s : string) : label := [AStr s].
Definition LV (v : val) : label := [AVal v].
Definition RNG (n : nat) : list label := default_ix n.
