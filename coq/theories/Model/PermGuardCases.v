(* case driver for Model/PermGuard.v: the premise of C18's row-order theorem evaluated on the pipelines and tables the harness ran.
   `guard_fails` lists the cases OUTSIDE the premise under the given flavour (an order-sensitive window with ties, a limit under a
   non-total order, a group-key column mixing representations); on all other cases Props/C18.v applies. *)
From Coq Require Import List Bool Arith ZArith QArith String.
Import ListNotations.
From DA Require Import Base.PyRT Base.Cases Base.Val Model.Sem Model.SemCases Model.PermGuard.

Record gcase := mkgcase { gfl : flavor; gpipe : op; genv : env }.
Definition guard_fails (cs : list gcase) : list nat := failing_idx (fun c => perm_guard_b (gfl c) (gpipe c) (genv c)) cs.
