(* C05 case driver: every observation of the real backends is compared INSIDE Coq
   (a) with the documented meaning spec_method (oracle) and (b) with the backend model (correspondence). *)
From Coq Require Import List Bool ZArith QArith Qabs String Ascii.
Import ListNotations.
From DA Require Import Base.Cases Model.Scalar Model.SqlTemplates Model.ScalarBackends Model.ScalarCatalog Model.AggModels.
Local Open Scope string_scope.

(* tables of reference values for the transcendental symbols, computed by the harness with Python's math module *)
Definition mtab := list (string * Q * Q).
Definition mtab2 := list (string * Q * Q * Q).
Fixpoint mf_of (t : mtab) (name : string) (x : Q) : option Q :=
  match t with
  | [] => None
  | (n, a, v) :: r => if String.eqb n name && Qeq_bool a x then Some v else mf_of r name x end.
Fixpoint mf2_of (t : mtab2) (name : string) (x y : Q) : option Q :=
  match t with
  | [] => None
  | (n, a, b, v) :: r => if String.eqb n name && Qeq_bool a x && Qeq_bool b y then Some v else mf2_of r name x y end.

(* the suite's tolerance rule |a-b| <= 1e-8 * max(|a|,|b|,1), evaluated in Q *)
Definition q_close (p q : Q) : bool :=
  let m := Qabs p in let n := Qabs q in
  let mx := if Qle_bool m n then n else m in
  let mx1 := if Qle_bool mx 1 then 1%Q else mx in
  Qle_bool (Qabs (p - q)) ((1 # 100000000) * mx1)%Q.
Definition cv_close (a b : cval) : bool :=
  match a, b with
  | CMiss, CMiss | CPInf, CPInf | CNInf, CNInf => true
  | CFin p, CFin q => q_close p q
  | CStr s, CStr t => String.eqb s t
  | _, _ => false end.
Definition sv_close (a b : sval) : bool := cv_close (canon a) (canon b).

Inductive bk := BPandas | BSqlite | BPgtext | BPolars.
(* method, literal flags, argument values, observed value (None = the backend raised) *)
Record scase := mk_scase { c_bk : bk; c_m : string; c_lits : list bool; c_args : list sval; c_obs : option sval }.

Fixpoint svl_close (a b : list sval) : bool :=
  match a, b with [], [] => true | x :: t, y :: u => sv_close x y && svl_close t u | _, _ => false end.
Record acase := mk_acase { a_bk : bk; a_cls : acls; a_m : string; a_vals : list sval; a_obs : option (list sval) }.

Section Check.
  Variable mt : mtab.
  Variable mt2 : mtab2.
  Variable vr : variant.
  Let mf := mf_of mt.
  Let mf2 := mf2_of mt2.

  Definition model_of (c : scase) : option sval :=
    match c_bk c with
    | BPandas => np_eval mf mf2 (c_m c) (c_args c)
    | BSqlite => sql_eval mf mf2 vr DSqlite (c_m c) (c_lits c) (c_args c)
    | BPgtext => sql_eval_on mf mf2 vr DPg DSqlite (c_m c) (c_lits c) (c_args c)
    | BPolars => pl_eval mf mf2 (c_m c) (c_args c)
    end.
  Definition in_domain (c : scase) : bool :=
    match spec_method mf mf2 (c_m c) (c_args c) with Some _ => true | None => false end.
  (* oracle: the backend's value is the documented value; a raising Polars is not a disagreement *)
  Definition oracle_ok (c : scase) : bool :=
    match spec_method mf mf2 (c_m c) (c_args c), c_obs c with
    | Some r, Some o => sv_close o r
    | Some _, None => match c_bk c with BPolars => true | _ => false end
    | None, _ => true end.
  Definition model_ok (c : scase) : bool :=
    match model_of c, c_obs c with
    | Some r, Some o => sv_close o r
    | None, None => true
    | _, _ => false end.

  (* one pass: for every case that fails something, 8 * index + (1 if the oracle fails) + (2 if the model disagrees)
     + (4 if the tuple is outside the documented domain) *)
  Definition case_code (c : scase) : nat :=
    let s := spec_method mf mf2 (c_m c) (c_args c) in
    let o := match s, c_obs c with
             | Some r, Some v => sv_close v r
             | Some _, None => match c_bk c with BPolars => true | _ => false end
             | None, _ => true end in
    ((if o then 0 else 1) + (if model_ok c then 0 else 2) + (match s with Some _ => 0 | None => 4 end))%nat.
  Fixpoint codes_from (i : nat) (cs : list scase) : list nat :=
    match cs with
    | [] => []
    | c :: t => match case_code c with O => codes_from (S i) t | k => (8 * i + k)%nat :: codes_from (S i) t end
    end.
  Definition check_all (cs : list scase) : list nat := codes_from 0 cs.
  Definition check_oracle (cs : list scase) : list nat := failing_idx oracle_ok cs.
  Definition check_model (cs : list scase) : list nat := failing_idx model_ok cs.
  Definition check_domain (cs : list scase) : list nat := failing_idx in_domain cs.

  (* ---- aggregates / window functions: one case = one group (or ordered partition) on one backend *)
  Definition agg_model_of (c : acase) : option (list sval) :=
    match a_bk c with
    | BPandas => agg_pd mf (a_cls c) (a_m c) (a_vals c)
    | BSqlite => agg_sql mf mf2 vr DSqlite (a_cls c) (a_m c) (a_vals c)
    | BPgtext => agg_sql_on mf mf2 vr DPg DSqlite (a_cls c) (a_m c) (a_vals c)
    | BPolars => agg_pl mf (a_cls c) (a_m c) (a_vals c)
    end.
  Definition acase_code (c : acase) : nat :=
    let s := spec_cls mf (a_cls c) (a_m c) (a_vals c) in
    let o := match s, a_obs c with
             | Some r, Some v => svl_close v r
             | Some _, None => match a_bk c with BPolars => true | _ => false end
             | None, _ => true end in
    let mo := match agg_model_of c, a_obs c with
              | Some r, Some v => svl_close v r
              | None, None => true
              | _, _ => false end in
    ((if o then 0 else 1) + (if mo then 0 else 2) + (match s with Some _ => 0 | None => 4 end))%nat.
  Fixpoint acodes_from (i : nat) (cs : list acase) : list nat :=
    match cs with
    | [] => []
    | c :: t => match acase_code c with O => acodes_from (S i) t | k => (8 * i + k)%nat :: acodes_from (S i) t end
    end.
  Definition check_agg (cs : list acase) : list nat := acodes_from 0 cs.
End Check.

(* domain filter (phase 0): indices of the candidate tuples INSIDE the documented domain; the transcendental symbols are
   total here because only the domain matters (failing_idx lists the entries on which the test is false) *)
Definition not_in_dom (c : string * list sval) : bool :=
  match spec_method (fun _ _ => Some 0%Q) (fun _ _ _ => Some 0%Q) (fst c) (snd c) with Some _ => false | None => true end.
Definition inside_domain (cs : list (string * list sval)) : list nat := failing_idx not_in_dom cs.
Definition not_in_agg_dom (c : acls * string * list sval) : bool :=
  match spec_cls (fun _ _ => Some 0%Q) (fst (fst c)) (snd (fst c)) (snd c) with Some _ => false | None => true end.
Definition inside_agg_domain (cs : list (acls * string * list sval)) : list nat := failing_idx not_in_agg_dom cs.
(* structural tie for aggregates: AGG(row-expression) part of the emitted term *)
Record arcase := mk_arcase { ar_d : dialect; ar_m : string; ar_col : string; ar_text : string }.
(* the function part of the ordered-window terms: cumulative aggregates are the plain aggregate (op_replacements),
   _row_number is ROW_NUMBER(), shift is LAG(x, 1) (_db_lag_expr) *)
Definition render_win (m : string) (col : string) : option string :=
  if String.eqb m "cumsum" then Some ("SUM(" ++ col ++ ")")
  else if String.eqb m "cummax" then Some ("MAX(" ++ col ++ ")")
  else if String.eqb m "cummin" then Some ("MIN(" ++ col ++ ")")
  else if String.eqb m "cumprod" then Some ("PROD(" ++ col ++ ")")
  else if String.eqb m "cumcount" then Some ("SUM(CASE WHEN " ++ col ++ " IS NOT NULL THEN 1 ELSE 0 END)")
  else if String.eqb m "_row_number" then Some "ROW_NUMBER()"
  else if String.eqb m "shift" then Some ("LAG(" ++ col ++ ", 1)")
  else None.
Definition arender_ok (c : arcase) : bool :=
  match render_win (ar_m c) (ar_col c) with
  | Some t => String.eqb t (ar_text c)
  | None =>
      match fmt_agg (ar_d c) (ar_m c) with
      | Some t => String.eqb (render_agg t (QAtom false (ar_col c) SNull)) (ar_text c)
      | None => false end
  end.
Definition check_agg_render (cs : list arcase) : list nat := failing_idx arender_ok cs.

(* structural tie: template rendered to text = text emitted by the real code (whitespace canonicalised by the harness) *)
Record rcase := mk_rcase { r_v : variant; r_d : dialect; r_m : string; r_atoms : list (bool * string * sval); r_text : string }.
Definition render_ok (c : rcase) : bool :=
  match fmt (r_v c) (r_d c) (r_m c) (map (fun a => QAtom (fst (fst a)) (snd (fst a)) (snd a)) (r_atoms c)) with
  | Some e => String.eqb (render e) (r_text c)
  | None => false end.
Definition check_render (cs : list rcase) : list nat := failing_idx render_ok cs.

(* the tables read from /repo at run time against the frozen Model/ScalarCatalog.v *)
Fixpoint list_eqb {A} (eqb : A -> A -> bool) (l1 l2 : list A) : bool :=
  match l1, l2 with [], [] => true | x :: t, y :: u => eqb x y && list_eqb eqb t u | _, _ => false end.
Definition row_eqb (a b : catrow) : bool :=
  let '(a1, a2, a3, a4, a5, a6) := a in let '(b1, b2, b3, b4, b5, b6) := b in
  String.eqb a1 b1 && String.eqb a2 b2 && String.eqb a3 b3 && String.eqb a4 b4 && String.eqb a5 b5 && String.eqb a6 b6.
Definition catalog_eqb := list_eqb row_eqb.
Definition keys_eqb := list_eqb String.eqb.
Definition pairs_eqb := list_eqb (fun a b : string * string => String.eqb (fst a) (fst b) && String.eqb (snd a) (snd b)).
Definition expr_keys_eqb := list_eqb (fun a b : string * (string * list bool) =>
  String.eqb (fst a) (fst b) && String.eqb (fst (snd a)) (fst (snd b)) && list_eqb Bool.eqb (snd (snd a)) (snd (snd b))).
