(* C15, part B: renaming the user's column names in a step description and in frames (Model/ScratchNames.v).
   Frame contents are untouched.  No proofs in this file (Proofs/ScratchP5.v). *)
From Coq Require Import List Bool String.
Import ListNotations.
From DA Require Import Base.PyRT Model.ScratchNames.
Local Open Scope list_scope.

Definition rename_arg (r : string -> string) (a : arg) : arg := match a with ArgCol c => ArgCol (r c) | _ => a end.
Definition rename_sop (r : string -> string) (o : sop) : sop := mksop (r (so_key o)) (so_fn o) (rename_arg r (so_arg o)) (so_extra o).
Definition rename_step (r : string -> string) (s : pstep) : pstep :=
  match s with
  | PProject ops gb => PProject (map (rename_sop r) ops) (map r gb)
  | PWExtend ops part order rev => PWExtend (map (rename_sop r) ops) (map r part) (map r order) (map r rev)
  | PJoin how on nk => PJoin how (map r on) nk
  end.
Definition rename_frame {A} (r : string -> string) (f : frame A) : frame A := map (fun na => (r (fst na), snd na)) f.
