(* C17 -- correspondence cases: what cdata.py / pandas_base.py were OBSERVED to do, compared inside Coq with Model/CData.v *)
From Coq Require Import List Bool Arith ZArith QArith String.
Import ListNotations.
From DA Require Import Base.PyRT Base.Cases Base.Val Model.CData.

(* arguments of RecordSpecification(...): control table (columns, rows), record_keys, control_table_keys, strict *)
Definition sarg := (list string * list (list val) * list string * option (list string) * bool)%type.
(* a specification as read back from the Python object: record_keys, control table, control_table_keys, strict *)
Definition ospec := (list string * list string * list (list val) * list string * bool)%type.
Definition omap := (option ospec * option ospec * bool)%type.

Inductive otable := OTab (cs : list string) (rs : list (list val)) (exact_rows : bool) | ORaise | OJunk.
Inductive ocompose := OCRaise | OCNone | OCMap (m : omap).

Inductive case :=
| KSpec (a : sarg) (o : option (list string * list string * list string * list string))
      (* accepted: control_table_keys, content_keys, row_columns, block_columns *)
| KMap (bin bout : option sarg) (strict : bool) (accepted : bool)
| KTransform (bin bout : option sarg) (strict : bool) (t : table) (o : otable)
| KInverse (bin bout : option sarg) (strict : bool) (o : option omap)
| KExample (sfx : string) (bin bout : option sarg) (strict : bool) (o : table)
| KCompose (sfx : string) (bin1 bout1 : option sarg) (strict1 : bool) (bin2 bout2 : option sarg) (strict2 : bool)
      (o : ocompose)           (* map1.compose(map2) *)
| KComposeOk (sfx : string) (bin1 bout1 : option sarg) (strict1 : bool) (bin2 bout2 : option sarg) (strict2 : bool).
      (* when map1.compose(map2) is a map it has map2's input side and the layout of map1's output side (composite_ok):
         the hypothesis of the C17_compose_sound_partial theorems, checked on every sampled composite *)

Definition build_spec (a : sarg) : option recspec :=
  let '(cs, rs, rk, ctk, strict) := a in mk_spec (mktable cs rs) rk ctk strict.

(* Some None: no spec given; None: the constructor raised *)
Definition build_opt (a : option sarg) : option (option recspec) :=
  match a with None => Some None | Some x => match build_spec x with Some s => Some (Some s) | None => None end end.

Definition build_map (bin bout : option sarg) (strict : bool) : option recmap :=
  match build_opt bin, build_opt bout with
  | Some i, Some o => mk_map i o strict
  | _, _ => None
  end.

Definition spec_matches (s : recspec) (o : ospec) : bool :=
  let '(rk, cs, rs, ctk, strict) := o in
  eqb (rs_keys s) rk && eqb (cols (rs_ct s)) cs && eqb (rows (rs_ct s)) rs && eqb (rs_ctkeys s) ctk
  && Bool.eqb (rs_strict s) strict.
Definition ospec_matches (s : option recspec) (o : option ospec) : bool :=
  match s, o with Some s, Some o => spec_matches s o | None, None => true | _, _ => false end.
Definition map_matches (m : recmap) (o : omap) : bool :=
  let '(i, ou, strict) := o in
  ospec_matches (rm_in m) i && ospec_matches (rm_out m) ou && Bool.eqb (rm_strict m) strict.

Definition table_matches (r : res table) (o : otable) : bool :=
  match r, o with
  | Ok t, OTab cs rs exact => eqb (cols t) cs && (if exact then eqb (rows t) rs else perm_eqb (rows t) rs)
  | Reject, ORaise => true
  | Junk, OJunk => true
  | _, _ => false
  end.

Definition case_ok (c : case) : bool :=
  match c with
  | KSpec a o =>
    match build_spec a, o with
    | Some s, Some (ctk, ck, rc, bc) =>
      eqb (rs_ctkeys s) ctk && eqb (content_keys s) ck && eqb (row_columns s) rc && eqb (block_columns s) bc
    | None, None => true
    | _, _ => false
    end
  | KMap bin bout strict acc =>
    match build_map bin bout strict with Some _ => acc | None => negb acc end
  | KTransform bin bout strict t o =>
    match build_map bin bout strict with Some m => table_matches (transform m t) o | None => false end
  | KInverse bin bout strict o =>
    match build_map bin bout strict with
    | Some m => match inverse m, o with
                | Some m', Some o' => map_matches m' o'
                | None, None => true
                | _, _ => false
                end
    | None => false
    end
  | KExample sfx bin bout strict o =>
    match build_map bin bout strict with
    | Some m => match example_input sfx m with
                | Some t => eqb (cols t) (cols o) && eqb (rows t) (rows o)
                | None => false
                end
    | None => false
    end
  | KCompose sfx bin1 bout1 strict1 bin2 bout2 strict2 o =>
    match build_map bin1 bout1 strict1, build_map bin2 bout2 strict2 with
    | Some m1, Some m2 =>
      match compose sfx m1 m2, o with
      | CRaise, OCRaise => true
      | CNone, OCNone => true
      | CMap m, OCMap o' => map_matches m o'
      | _, _ => false
      end
    | _, _ => false
    end
  | KComposeOk sfx bin1 bout1 strict1 bin2 bout2 strict2 =>
    match build_map bin1 bout1 strict1, build_map bin2 bout2 strict2 with
    | Some m1, Some m2 =>
      match compose sfx m1 m2 with
      | CMap c => composite_ok (rm_in m2) (rm_out m1) c
      | _ => true
      end
    | _, _ => false
    end
  end.

Definition check_cases (cs : list case) : list nat := failing_idx case_ok cs.
