(* C05 -- the variant of the SQL templates / SQLite user functions that /repo carries since the three repairs found by this
   check were committed (9699787 maximum/minimum vs fmax/fmin, 83ba58a trimstr length, 9a23bcc abs/sign at +-infinity).
   The harness still determines the variant from the code on every run; `current` is what the plain theorems are about. *)
From Coq Require Import List Bool QArith String.
Import ListNotations.
From DA Require Import Model.Scalar Model.SqlTemplates Model.ScalarIndex.
Local Open Scope string_scope.

Definition current : variant := mkvariant true true true.
(* the only argument class left outside the SQL theorem: is_nan of a distinguishable NaN on PostgreSQL (an uploaded NaN is NULL,
   and the generic template answers FALSE on NULL); model-level only, no PostgreSQL server *)
Definition pg_is_nan_guard (d : dialect) (m : string) (args : list sval) : bool :=
  if String.eqb m "is_nan" then match d with DPg => no_nan args | DSqlite => true end else true.
