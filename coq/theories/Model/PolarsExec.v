(* C03 -- hand model of the Polars executor data_algebra/polars_model.py (PolarsModel._*_step), step by step, over the
   tables of Base/Val.v.  The data_algebra GLUE is transcribed (which temporary `_da_*` columns are added, when `.over`
   is applied, what is sorted, which columns are selected at the end, how a right join is simulated, how shared columns
   are coalesced); the POLARS PRIMITIVES it calls (select, with_columns, sort, filter, group_by().agg, join, concat, the
   expression methods) are modelled by hand from their observed behaviour in Polars 1.44.2 -- "modelled, not verified";
   every run compares `plexec` with the real executor (eager and lazy) inside Coq (Model/PolarsExecCases.v).

   Outcomes: Ok t (a frame), Raise (the implementation raises: e.g. `Expr.cumsum` no longer exists in Polars 1.44.2),
   Unmodelled (a method outside this model: nothing is predicted).

   The join step is the step of /repo ad5b72b (after the repairs c106ad7 / 5c7bd4d, whose defect was found by this check and
   by C16): every join keeps the key columns of both sides and coalesces every shared column itself. *)
From Coq Require Import List Bool Arith ZArith QArith String DecimalString.
Import ListNotations.
From DA Require Import Base.PyRT Base.PyStr Base.Val Model.Sem.
Local Open Scope string_scope.
Local Open Scope list_scope.

Inductive res (A : Type) := Ok (a : A) | Raise | Unmodelled.
Arguments Ok {A} a.
Arguments Raise {A}.
Arguments Unmodelled {A}.
Definition rbind {A B} (x : res A) (f : A -> res B) : res B :=
  match x with Ok a => f a | Raise => Raise | Unmodelled => Unmodelled end.

(* ------------------------------------------------------------------ Polars expressions (the fragment polars_model.py builds) *)
Inductive aggk := ASum | AMean | AMin | AMax.
Inductive plx :=
  | PCol (c : string)                 (* pl.col(c) *)
  | PLit (v : val)                    (* pl.lit(v) *)
  | PAdd (a b : plx) | PSub (a b : plx) | PMul (a b : plx)
  | PCmp (c : cmp) (a b : plx)        (* == != < <= > >= : null when an operand is null *)
  | PAnd (a b : plx) | POr (a b : plx)   (* & | : Kleene *)
  | PAbs (a : plx)
  | PIsNull (a : plx) | PIsNan (a : plx) | PIsInf (a : plx)
  | PMaxH (a b : plx) | PMinH (a b : plx)   (* pl.max_horizontal / min_horizontal: nulls are ignored *)
  | PCoalesce (a b : plx)
  | PWhen (c a b : plx)               (* pl.when(c).then(a).otherwise(b): a null condition takes the otherwise branch *)
  | PAgg (k : aggk) (a : plx)         (* a.sum() a.mean() a.min() a.max(): nulls are skipped; sum of nothing is 0 *)
  | PShift (n : Z) (a : plx)          (* a.shift(n) *)
  | PFirst (a : plx) | PLast (a : plx)   (* a.drop_nulls().first() / .last(): first / last non-null value of the group *)
  | PFill (forward : bool) (a : plx). (* a.fill_null(strategy="forward" | "backward") *)

Definition pl_cmp (c : cmp) (a b : val) : val :=
  match a, b with VNull, _ | _, VNull => VNull | _, _ => compare_vals fl_pandas c a b end.
Definition pl_nan_like (a : val) : val := match a with VNull => VNull | _ => VBool false end.   (* is_nan / is_infinite: no NaN or infinity exists at this level *)
Definition pl_when (c a b : val) : val := if truth c then a else b.
Definition pl_abs (a : val) : val := match num_of a with Some x => qn (qabs x) | None => VNull end.
Definition pl_agg (k : aggk) (vs : list val) : val :=
  match k with
  | ASum => qn (qsum (nums vs))
  | AMean => match nums vs with [] => VNull | l => qn (Qdiv (qsum l) (inject_Z (Z.of_nat (List.length l)))) end
  | AMin => opt_num (qfold1 qmin (nums vs))
  | AMax => opt_num (qfold1 qmax (nums vs))
  end.

(* value of expression x at row i of the rows rs (the frame, or the rows of one group / partition in frame order) *)
Fixpoint plx_at (cs : list string) (rs : list (list val)) (i : nat) (x : plx) : val :=
  match x with
  | PCol c => get cs (nth i rs []) c
  | PLit v => v
  | PAdd a b => num2 Qplus (plx_at cs rs i a) (plx_at cs rs i b)
  | PSub a b => num2 Qminus (plx_at cs rs i a) (plx_at cs rs i b)
  | PMul a b => num2 Qmult (plx_at cs rs i a) (plx_at cs rs i b)
  | PCmp c a b => pl_cmp c (plx_at cs rs i a) (plx_at cs rs i b)
  | PAnd a b => and3 (plx_at cs rs i a) (plx_at cs rs i b)
  | POr a b => or3 (plx_at cs rs i a) (plx_at cs rs i b)
  | PAbs a => pl_abs (plx_at cs rs i a)
  | PIsNull a => VBool (is_null (plx_at cs rs i a))
  | PIsNan a => pl_nan_like (plx_at cs rs i a)
  | PIsInf a => pl_nan_like (plx_at cs rs i a)
  | PMaxH a b => ignore_null2 qmax (plx_at cs rs i a) (plx_at cs rs i b)
  | PMinH a b => ignore_null2 qmin (plx_at cs rs i a) (plx_at cs rs i b)
  | PCoalesce a b => let va := plx_at cs rs i a in if is_null va then plx_at cs rs i b else va
  | PWhen c a b => pl_when (plx_at cs rs i c) (plx_at cs rs i a) (plx_at cs rs i b)
  | PAgg k a => pl_agg k (map (fun j => plx_at cs rs j a) (seq 0 (List.length rs)))
  | PShift n a => let j := (Z.of_nat i - n)%Z in
                  if (Z.leb 0 j && Z.ltb j (Z.of_nat (List.length rs)))%bool then plx_at cs rs (Z.to_nat j) a else VNull
  | PFirst a => hd VNull (filter (fun v => negb (is_null v)) (map (fun j => plx_at cs rs j a) (seq 0 (List.length rs))))
  | PLast a => List.last (filter (fun v => negb (is_null v)) (map (fun j => plx_at cs rs j a) (seq 0 (List.length rs)))) VNull
  | PFill fwd a =>
      let vs := map (fun j => plx_at cs rs j a) (seq 0 (List.length rs)) in
      if fwd then List.last (filter (fun v => negb (is_null v)) (firstn (S i) vs)) VNull
      else hd VNull (filter (fun v => negb (is_null v)) (skipn i vs))
  end.

(* ------------------------------------------------------------------ _populate_expr_impl_map / impl_map_arbitrary_arity *)
Definition one_base := "_da_temp_one_column".
Definition zero_base := "_da_temp_zero_column".
Definition lit_int (z : Z) : plx := PLit (qn (inject_Z z)).       (* _build_lit(int) *)

Definition fold1 (f : plx -> plx -> plx) (xs : list plx) : res plx :=
  match xs with [] => Unmodelled | x :: t => Ok (fold_left f t x) end.
(* _missing_if_any_missing(args, res) = pl.when(pl.any_horizontal([a.is_null() for a in args])).then(None).otherwise(res):
   maximum / minimum propagate a missing operand (repair 73dee51; max_horizontal / min_horizontal alone skip nulls) *)
Definition any_null (xs : list plx) : plx :=
  match xs with [] => PLit (VBool false) | x :: t => fold_left POr (map PIsNull t) (PIsNull x) end.
Definition missing_if_any_missing (xs : list plx) (r : plx) : plx := PWhen (any_null xs) (PLit VNull) r.
Definition count_expr (x : plx) : plx := PAgg ASum (PWhen (POr (PIsNull x) (PIsNan x)) (lit_int 0) (lit_int 1)).
Definition int_lit_of (x : plx) : option Z :=
  match x with PLit (VNum q) => if Pos.eqb (Qden q) 1 then Some (Qnum q) else None | PLit (VInt z) => Some z | _ => None end.

(* ext = extend_context (also used by select_rows); false = project_context.  First the map of the exact arity, then
   impl_map_arbitrary_arity (arity > 0).  `cumsum`, `cummax`, `cummin`, `cumprod` are not attributes of polars.Expr any
   more: calling the lambda raises AttributeError. *)
(* one = the name this step chose for its scratch column of ones (_populate_expr_impl_map(one_column_name=...)) *)
Definition impl (one : string) (ext : bool) (op : string) (xs : list plx) : res plx :=
  match xs with
  | [] =>
      if mem op ["size"; "_size"] then Ok (PAgg ASum (PCol one))
      else if mem op ["count"; "_count"; "cumcount"; "_cumcount"; "row_number"; "_row_number"]
           then (if ext then Raise else Ok (PAgg ASum (PCol one)))
      else Unmodelled
  | [x] =>
      match op with
      | "+" => Ok x
      | "-" => Ok (PSub (lit_int 0) x)
      | "abs" => Ok (PAbs x)
      | "is_null" => Ok (PIsNull x)
      | "is_nan" => Ok (PIsNan x)
      | "is_inf" => Ok (PCoalesce (PIsInf x) (PLit (VBool false)))        (* x.is_infinite().fill_null(False) *)
      | "is_bad" => Ok (POr (POr (PIsNull x) (PIsInf x)) (PIsNan x))
      | "coalesce0" => Ok (PCoalesce x (lit_int 0))
      | "sum" => Ok (PAgg ASum x) | "mean" => Ok (PAgg AMean x) | "min" => Ok (PAgg AMin x) | "max" => Ok (PAgg AMax x)
      | "count" => Ok (count_expr x)
      | "size" => Ok (PAgg ASum (PCol one))
      | "shift" => Ok (PShift 1 x)
      | "first" => Ok (PFirst x) | "last" => Ok (PLast x)
      | "ffill" => Ok (PFill true x) | "bfill" => Ok (PFill false x)
      | "cumsum" | "cummax" | "cummin" | "cumprod" | "cumcount" => Raise
      | "maximum" | "minimum" => Ok (missing_if_any_missing [x] x)
      | "*" | "and" | "&" | "or" | "|" | "fmax" | "fmin" | "coalesce" => Ok x
      | _ => Unmodelled
      end
  | a :: b :: rest =>
      match op, rest with
      | "-", [] => Ok (PSub a b)
      | "==", [] => Ok (PCmp CEq a b) | "!=", [] => Ok (PCmp CNe a b)
      | "<", [] => Ok (PCmp CLt a b) | "<=", [] => Ok (PCmp CLe a b)
      | ">", [] => Ok (PCmp CGt a b) | ">=", [] => Ok (PCmp CGe a b)
      | "shift", [] => match int_lit_of b with Some n => Ok (PShift n a) | None => Unmodelled end
      | "if_else", [c] => Ok (PWhen (PIsNull a) (PLit VNull) (PWhen a b c))
      | "where", [c] => Ok (PWhen (PIsNull a) c (PWhen a b c))
      | "+", _ => fold1 PAdd xs
      | "*", _ => fold1 PMul xs
      | "and", _ | "&", _ => fold1 PAnd xs
      | "or", _ | "|", _ => fold1 POr xs
      | "fmax", _ => fold1 PMaxH xs
      | "fmin", _ => fold1 PMinH xs
      | "maximum", _ => rbind (fold1 PMaxH xs) (fun r => Ok (missing_if_any_missing xs r))
      | "minimum", _ => rbind (fold1 PMinH xs) (fun r => Ok (missing_if_any_missing xs r))
      | "coalesce", _ => fold1 PCoalesce xs
      | _, _ => Unmodelled
      end
  end.

(* PolarsExpressionActor: children first, then the method lookup *)
Fixpoint tr_expr (one : string) (ext : bool) (e : expr) : res plx :=
  match e with
  | ECol c => Ok (PCol c)
  | EConst v => Ok (PLit v)
  | EOp op args =>
      rbind ((fix go (l : list expr) : res (list plx) :=
                match l with [] => Ok [] | a :: t => rbind (tr_expr one ext a) (fun x => rbind (go t) (fun xs => Ok (x :: xs))) end) args)
            (impl one ext op)
  end.

(* ExpressionRequirementsCollector: visits every Expression node *)
Fixpoint expr_nodes (e : expr) : list (string * nat) :=
  match e with
  | ECol _ | EConst _ => []
  | EOp op args => (op, List.length args) :: (fix go (l : list expr) := match l with [] => [] | a :: t => expr_nodes a ++ go t end) args
  end.
Definition needs_one (e : expr) : bool :=
  existsb (fun on => Nat.eqb (snd on) 0 || mem (fst on) ["size"; "_size"; "count"; "_count"; "cumcount"; "_cumcount"]) (expr_nodes e).
Definition needs_zero (e : expr) : bool := existsb (fun on => eqb (fst on) "coalesce0") (expr_nodes e).

(* ------------------------------------------------------------------ frame primitives *)
(* a column expression of with_columns: plain, or `.over(partition_by)` *)
Inductive colx := CPlain (x : plx) | COver (x : plx) (part : list string).

Fixpoint pos_of (i : nat) (l : list nat) : nat :=
  match l with [] => 0 | j :: t => if Nat.eqb i j then 0 else S (pos_of i t) end.
Definition col_at (t : table) (cx : colx) (i : nat) : val :=
  match cx with
  | CPlain x => plx_at (cols t) (rows t) i x
  | COver x part =>
      let cs := cols t in let rs := rows t in
      let k := key_of cs part (nth i rs []) in
      let members := filter (fun j => keys_eqv k (key_of cs part (nth j rs []))) (seq 0 (List.length rs)) in
      plx_at cs (map (fun j => nth j rs []) members) (pos_of i members) x
  end.

(* DataFrame.with_columns: every expression sees the frame as it was; names are assigned left to right *)
Definition pl_with_columns (t : table) (xs : list (string * colx)) : table :=
  mktable (ext_cols (cols t) (map fst xs))
          (map (fun ir => fst (fold_left (fun acc kx => let '(row, ccs) := acc in
                                                        (set_cell ccs row (fst kx) (col_at t (snd kx) (fst ir)), add_end ccs (fst kx)))
                                         xs (snd ir, cols t)))
               (tag_from 0 (rows t))).

Fixpoint nodupb (l : list string) : bool := match l with [] => true | x :: t => negb (mem x t) && nodupb t end.
(* DataFrame.select(names): ColumnNotFoundError / DuplicateError otherwise *)
Definition pl_select (cs : list string) (t : table) : res table :=
  if forallb (fun c => mem c (cols t)) cs && nodupb cs then Ok (sem_select_cols cs t) else Raise.

(* DataFrame.sort(by, descending=...): nulls come first whatever the direction (nulls_last=False) *)
Definition fl_plsort : flavor := mkfl false false false false false false true true false.
Definition pl_sort (keys : list (string * bool)) (t : table) : table :=
  mktable (cols t) (stable_sort (row_le fl_plsort (cols t) keys) (rows t)).

(* DataFrame.filter: rows whose predicate is true (a null predicate drops the row) *)
Definition pl_filter (x : plx) (t : table) : table :=
  mktable (cols t) (map snd (filter (fun ir => truth (plx_at (cols t) (rows t) (fst ir) x)) (tag_from 0 (rows t)))).

(* DataFrame.rename(old -> new), given as (new, old) pairs; every old name must exist (ColumnNotFoundError) and the new
   names must not collide (DuplicateError) *)
Definition pl_rename (m : list (string * string)) (t : table) : res table :=
  if forallb (fun no => mem (snd no) (cols t)) m && nodupb (map (rename_col m) (cols t)) then Ok (sem_rename m t) else Raise.

(* group_by(keys).agg(exprs): one row per distinct key combination (null is a key value), in an unspecified order *)
Definition pl_group_agg (gb : list string) (aggs : list (string * plx)) (t : table) : res table :=
  let cs := cols t in
  if negb (nodupb (gb ++ map fst aggs)) then Raise else
  Ok (mktable (gb ++ map fst aggs)
        (map (fun k => let grp := filter (fun r => keys_eqv k (key_of cs gb r)) (rows t) in
                       k ++ map (fun kx => plx_at cs grp 0 (snd kx)) aggs)
             (distinct_keys (map (key_of cs gb) (rows t))))).

(* DataFrame.join(other, left_on, right_on, how, coalesce=False, suffix): every right column is kept, key columns included
   (suffixed when the name is taken); null keys never match; how="left" / "outer": rows without a partner are kept with nulls
   in all the columns of the other side *)
Inductive plhow := HInner | HLeft | HFull.
Definition suffixed (taken : list string) (suffix c : string) : string := if mem c taken then (c ++ suffix)%string else c.
Definition pl_join (how : plhow) (left_on right_on : list string) (suffix : string) (a b : table) : res table :=
  let ca := cols a in let cb := cols b in
  let out := ca ++ map (suffixed ca suffix) cb in
  if negb (nodupb out && Nat.eqb (List.length left_on) (List.length right_on)
           && forallb (fun c => mem c ca) left_on && forallb (fun c => mem c cb) right_on) then Raise else
  let matchp ra rb := keys_match false (key_of ca left_on ra) (key_of cb right_on rb) in
  let matched := flat_map (fun ra => flat_map (fun rb => if matchp ra rb then [ra ++ rb] else []) (rows b)) (rows a) in
  let left_only := flat_map (fun ra => if existsb (matchp ra) (rows b) then [] else [ra ++ map (fun _ => VNull) cb]) (rows a) in
  let right_only := flat_map (fun rb => if existsb (fun ra => matchp ra rb) (rows a) then [] else [map (fun _ => VNull) ca ++ rb]) (rows b) in
  Ok (mktable out (matched ++ (match how with HInner => [] | _ => left_only end) ++ (match how with HFull => right_only | _ => [] end))).

(* ------------------------------------------------------------------ the steps of PolarsModel *)
Definition nat_str (n : nat) : string := NilZero.string_of_uint (Nat.to_uint n).

(* _unused_column_name(base, taken): "name = base; while name in taken: name = '_' + name" (repair 85ef226: scratch columns are
   named away from the frame's columns and the step's outputs).  At most |taken| prefixes are ever needed. *)
Fixpoint unused_name (fuel : nat) (base : string) (taken : list string) : string :=
  if mem base taken then match fuel with O => base | S f => unused_name f ("_" ++ base)%string taken end else base.
Definition fresh (base : string) (taken : list string) : string := unused_name (S (List.length taken)) base taken.
(* _unused_column_suffix(base, columns, taken): extended by '_' until no suffixed column name is in use *)
Fixpoint unused_suffix (fuel : nat) (suffix : string) (columns taken : list string) : string :=
  if existsb (fun c => mem (c ++ suffix)%string taken) columns
  then match fuel with O => suffix | S f => unused_suffix f (suffix ++ "_")%string columns taken end else suffix.
Definition fresh_suffix (base : string) (names : list string) : string := unused_suffix (S (List.length names)) base names names.

(* ExpressionRequirementsCollector.add_in_temp_columns: the two names are always chosen (zero first), the columns only added when needed *)
Definition req_temps (z o : string) (es : list expr) : list (string * colx) :=
  (if existsb needs_zero es then [(z, CPlain (lit_int 0))] else []) ++
  (if existsb needs_one es then [(o, CPlain (lit_int 1))] else []).

(* "promote value to column for uniformity of API": fn(<constant>) becomes fn(<temporary column holding the constant>) *)
Definition promote (prefix : string) (ntemps : nat) (names : list string) (e : expr) : option (string * val * expr) :=
  match e with
  | EOp op [EConst v] => let nm := fresh (prefix ++ nat_str ntemps)%string names in Some (nm, v, EOp op [ECol nm])
  | _ => None
  end.
Definition with_columns_if (t : table) (xs : list (string * colx)) : table :=
  match xs with [] => t | _ => pl_with_columns t xs end.
Definition select_if {A} (temps : list A) (declared : list string) (t : table) : res table :=
  match temps with [] => Ok t | _ => pl_select declared t end.

Definition extend_part_base := "_da_extend_temp_partition_column".
Definition project_group_base := "_da_project_temp_group_by_column".

(* one iteration of "for k, opk in op.ops.items()" of _extend_step: state = (temp_v_columns, produced_columns, names_in_use) *)
Definition extend_fold_step (one : string) (wd : bool) (partition_by : list string)
    (st : res (list (string * colx) * list (string * colx) * list string)) (ke : string * expr)
    : res (list (string * colx) * list (string * colx) * list string) :=
  rbind st (fun tpn =>
    let '(temps, produced, names) := tpn in
    let '(temps', opk, names') :=
       if wd then match promote "_da_extend_temp_v_column_" (List.length temps) names (snd ke) with
                  | Some (nm, v, e') => (temps ++ [(nm, CPlain (PLit v))], e', nm :: names)
                  | None => (temps, snd ke, names)
                  end
       else (temps, snd ke, names) in
    rbind (tr_expr one true opk) (fun x =>
      let plain := match opk with EOp _ _ => false | _ => true end in      (* is_literal / is_column terms get no .over *)
      Ok (temps', produced ++ [(fst ke, if wd && negb plain then COver x partition_by else CPlain x)], names'))).

(* _extend_step.  declared = op.columns_produced() = names_in_use at the start *)
Definition pl_extend_step (declared : list string) (ops : list (string * expr)) (wd : bool) (w : window) (t : table) : res table :=
  let P := fresh extend_part_base declared in
  let partition_by := match w_part w with [] => [P] | p => p end in
  let temps0 := match w_part w with [] => [(P, CPlain (lit_int 1))] | _ => [] end in
  let names1 := match w_part w with [] => P :: declared | _ => declared end in
  let z := fresh zero_base names1 in
  let o := fresh one_base (z :: names1) in
  let temps1 := temps0 ++ req_temps z o (map snd ops) in
  rbind (fold_left (extend_fold_step o wd partition_by) ops (Ok (temps1, [], o :: z :: names1))) (fun tpn =>
    let '(temps, produced, _) := tpn in
    let r1 := with_columns_if t temps in
    let r2 := match w_order w with [] => r1 | ob => pl_sort (map (fun c => (c, mem c (w_rev w))) ob) r1 end in
    let r3 := pl_with_columns r2 produced in
    select_if temps declared r3).

(* one iteration of the loop of _project_step *)
Definition project_fold_step (one : string) (st : res (list (string * colx) * list (string * plx) * list string)) (ke : string * expr)
    : res (list (string * colx) * list (string * plx) * list string) :=
  rbind st (fun tpn =>
    let '(temps, produced, names) := tpn in
    let '(temps', opk, names') :=
       match promote "_da_project_temp_v_column_" (List.length temps) names (snd ke) with
       | Some (nm, v, e') => (temps ++ [(nm, CPlain (PLit v))], e', nm :: names)
       | None => (temps, snd ke, names)
       end in
    rbind (tr_expr one false opk) (fun x => Ok (temps', produced ++ [(fst ke, x)], names'))).

(* _project_step.  src = op.sources[0].columns_produced(); names_in_use starts as src + the output names *)
Definition pl_project_step (declared src : list string) (ops : list (string * expr)) (gb : list string) (t : table) : res table :=
  let names0 := src ++ map fst ops in
  let G := fresh project_group_base names0 in
  let group_by := match gb with [] => [G] | g => g end in
  let temps0 := match gb with [] => [(G, CPlain (lit_int 1))] | _ => [] end in
  let names1 := match gb with [] => G :: names0 | _ => names0 end in
  let z := fresh zero_base names1 in
  let o := fresh one_base (z :: names1) in
  let temps1 := temps0 ++ req_temps z o (map snd ops) in
  rbind (fold_left (project_fold_step o) ops (Ok (temps1, [], o :: z :: names1))) (fun tpn =>
    let '(temps, produced, _) := tpn in
    let r1 := with_columns_if t temps in
    rbind (pl_group_agg group_by produced r1) (fun r2 =>
    rbind (select_if temps declared r2) (fun r3 =>
      match gb, rows r3 with
      | [], [] => Ok (mktable (cols r3) [map (fun _ => VNull) (cols r3)])      (* "make an all None frame" *)
      | _, _ => Ok r3
      end))).

(* _select_rows_step (the expression is translated in extend context) *)
Definition pl_select_rows_step (declared : list string) (e : expr) (t : table) : res table :=
  let z := fresh zero_base declared in
  let o := fresh one_base (z :: declared) in
  let temps := req_temps z o [e] in
  let r1 := with_columns_if t temps in
  rbind (tr_expr o true e) (fun x => select_if temps declared (pl_filter x r1)).

(* _order_rows_step *)
Definition pl_order_step (cs rev : list string) (limit : option nat) (t : table) : res table :=
  let r := pl_sort (map (fun c => (c, mem c rev)) cs) t in
  Ok (match limit with Some n => mktable (cols r) (firstn n (rows r)) | None => r end).

(* _rename_columns_step / _map_columns_step: rename, then select(columns_produced) *)
Definition pl_rename_step (declared : list string) (m : list (string * string)) (t : table) : res table :=
  rbind (pl_rename m t) (pl_select declared).

(* _natural_join_step after ad5b72b (ca, cb = columns_produced of the two sources): polars keeps the key columns of both
   sides (coalesce=False), every column both sources produce -- keys included -- is coalesced left table first, for all join
   types; without keys both inputs get a constant scratch column to join on (and "cross" becomes "inner") *)
Definition sfx (c s : string) : string := (c ++ s)%string.
Definition coalesce_left_first (c other : string) : plx := PWhen (PIsNull (PCol c)) (PCol other) (PCol c).
Definition pl_join_step (declared ca cb on_a on_b : list string) (jt : jointype) (a b : table) : res table :=
  let coalesce_columns := filter (fun c => mem c cb) ca in
  let keyless := match on_a with [] => true | _ => false end in
  let names0 := ca ++ cb in
  let s := fresh "_da_join_scratch_key" names0 in
  let names := if keyless then s :: names0 else names0 in
  let a' := if keyless then pl_with_columns a [(s, CPlain (lit_int 1))] else a in
  let b' := if keyless then pl_with_columns b [(s, CPlain (lit_int 1))] else b in
  let on_a' := if keyless then [s] else on_a in
  let on_b' := if keyless then [s] else on_b in
  match jt with
  | JRight =>
      (* "simulate right join with left join" *)
      let L := fresh_suffix "_da_left_tmp" names in
      rbind (pl_join HLeft on_b' on_a' L b' a') (fun r =>
      pl_select declared
        (with_columns_if r (map (fun c => (c, CPlain (PWhen (PIsNull (PCol (sfx c L))) (PCol c) (PCol (sfx c L))))) coalesce_columns)))
  | _ =>
      let how := match jt with JInner => HInner | JLeft => HLeft | _ => HFull end in
      let R := fresh_suffix "_da_right_tmp" names in
      rbind (pl_join how on_a' on_b' R a' b') (fun r =>
      pl_select declared
        (with_columns_if r (map (fun c => (c, CPlain (coalesce_left_first c (sfx c R)))) coalesce_columns)))
  end.

(* _concat_rows_step.  ca = columns_produced of the first source = [c for c in op.columns_produced() if c != op.id_column];
   a ConcatRowsNode whose id column is one of those does not exist (its __init__ raises ValueError) *)
Definition pl_concat_step (ca : list string) (idc : option string) (an bn : string) (a b : table) : res table :=
  if match idc with Some c => mem c ca | None => false end then Raise else
  rbind (pl_select ca a) (fun a1 =>
  rbind (pl_select ca b) (fun b1 =>
    let a2 := match idc with Some c => pl_with_columns a1 [(c, CPlain (PLit (VStr an)))] | None => a1 end in
    let b2 := match idc with Some c => pl_with_columns b1 [(c, CPlain (PLit (VStr bn)))] | None => b1 end in
    Ok (mktable (cols a2) (rows a2 ++ rows b2)))).       (* pl.concat(how="vertical") *)

(* _compose_polars_ops: the dispatch over node kinds *)
Fixpoint plexec (p : op) (e : env) : res table :=
  match p with
  | OTable n cs => match dict_get e n with Some t => pl_select cs t | None => Raise end
  | OExtend s ops wd w => rbind (plexec s e) (pl_extend_step (column_names p) ops wd w)
  | OProject s ops gb => rbind (plexec s e) (pl_project_step (column_names p) (column_names s) ops gb)
  | OSelectRows s x => rbind (plexec s e) (pl_select_rows_step (column_names p) x)
  | OSelectCols s cs => rbind (plexec s e) (pl_select (column_names p))
  | ODropCols s cs => rbind (plexec s e) (pl_select (column_names p))
  | ORename s m => rbind (plexec s e) (pl_rename_step (column_names p) m)
  | OMapCols s m dels => rbind (plexec s e) (pl_rename_step (column_names p) m)
  | OOrder s cs rev lim => rbind (plexec s e) (pl_order_step cs rev lim)
  | OJoin a b on_a on_b jt =>
      rbind (plexec a e) (fun ta => rbind (plexec b e) (fun tb =>
        pl_join_step (column_names p) (column_names a) (column_names b) on_a on_b jt ta tb))
  | OConcat a b idc an bn =>
      rbind (plexec a e) (fun ta => rbind (plexec b e) (fun tb => pl_concat_step (column_names a) idc an bn ta tb))
  end.

(* ================================================================== the guard of the agreement theorem *)
(* Where the Polars executor is KNOWN to differ silently from the Pandas executor (known_findings.d/C03.json), and the
   two conventions the property accepts.  Every component is a boolean, evaluated on the tables the Pandas-flavoured
   reference semantics produces for the sub-pipelines, so that the check classifies real differences with the very
   predicate the theorem carries. *)

(* the vocabulary of Model/Sem.v (method, arity) *)
Definition scalar_vocab (op : string) (n : nat) : bool :=
  match n with
  | 1%nat => mem op ["-"; "abs"; "is_null"; "is_bad"]
  | 2%nat => mem op ["+"; "-"; "*"; "=="; "!="; "<"; "<="; ">"; ">="; "and"; "or"; "coalesce"; "maximum"; "minimum"; "fmax"; "fmin"]
  | 3%nat => mem op ["if_else"]
  | _ => false
  end.
Fixpoint expr_vocab (e : expr) : bool :=
  match e with
  | ECol _ | EConst _ => true
  | EOp op args => scalar_vocab op (List.length args) && (fix go (l : list expr) := match l with [] => true | a :: t => expr_vocab a && go t end) args
  end.
Definition simple_arg (a : expr) : bool := match a with ECol _ => true | _ => false end.   (* fn(<constant>) is outside the theorem *)
Definition agg_vocab (e : expr) : bool :=
  match e with
  | EOp op [] => mem op ["size"; "_size"]
  | EOp op [a] => mem op ["sum"; "mean"; "min"; "max"; "count"; "size"] && simple_arg a
  | _ => false
  end.

(* null-sensitive methods: the two families of known findings *)
Definition is_cmp_op (op : string) : bool := mem op ["=="; "!="; "<"; "<="; ">"; ">="].
Definition is_logic_op (op : string) : bool := mem op ["and"; "or"].
(* no operand of a method selected by `sens` evaluates to null on row r (Pandas-flavoured evaluation) *)
Fixpoint expr_nulls_ok (sens : string -> bool) (cs : list string) (r : list val) (e : expr) : bool :=
  match e with
  | ECol _ | EConst _ => true
  | EOp op args =>
      (fix go (l : list expr) := match l with [] => true | a :: t => expr_nulls_ok sens cs r a && go t end) args
      && (if sens op then forallb (fun a => negb (is_null (eval_expr fl_pandas cs r a))) args else true)
  end.
Definition rows_nulls_ok (sens : string -> bool) (t : table) (es : list expr) : bool :=
  forallb (fun r => forallb (expr_nulls_ok sens (cols t) r) es) (rows t).
(* the predicate of a row filter: a null predicate and a False predicate both drop the row, so under and / or a comparison
   other than != may see a null operand (its operands themselves are checked in full) *)
Fixpoint filter_nulls_ok (sens : string -> bool) (cs : list string) (r : list val) (e : expr) : bool :=
  match e with
  | EOp op [a; b] =>
      if is_logic_op op then filter_nulls_ok sens cs r a && filter_nulls_ok sens cs r b
      else if is_cmp_op op && negb (eqb op "!=") then expr_nulls_ok sens cs r a && expr_nulls_ok sens cs r b
      else expr_nulls_ok sens cs r e
  | _ => expr_nulls_ok sens cs r e
  end.
Definition filter_rows_ok (sens : string -> bool) (t : table) (e : expr) : bool :=
  forallb (fun r => filter_nulls_ok sens (cols t) r e) (rows t).

Fixpoint expr_cols (e : expr) : list string :=
  match e with
  | ECol c => [c] | EConst _ => []
  | EOp _ args => (fix go (l : list expr) := match l with [] => [] | a :: t => expr_cols a ++ go t end) args
  end.

(* the sort keys are non-null (so the null placement -- Polars: first, Pandas: last -- cannot matter) / pairwise different
   (so the order is total and the tie-breaking of the two sort routines cannot matter) on the data *)
Definition keys_nonnull (cs : list string) (ks : list string) (rs : list (list val)) : bool :=
  forallb (fun r => negb (existsb is_null (key_of cs ks r))) rs.
Fixpoint keys_distinct (cs : list string) (ks : list string) (rs : list (list val)) : bool :=
  match rs with
  | [] => true
  | r :: t => negb (existsb (fun r2 => keys_eqv (key_of cs ks r) (key_of cs ks r2)) t) && keys_distinct cs ks t
  end.

Definition agg_of (e : expr) : string := match e with EOp op _ => op | _ => "" end.
(* window functions whose value depends on the order inside the partition (and that Polars 1.44.2 still has) *)
Definition order_sensitive_fns : list string := ["shift"; "first"; "last"; "ffill"; "bfill"].

(* one guard component per cause; each returns true when the pipeline is outside that cause *)
Inductive cause := CVocab | CColumnsExist | CCmpNull | CLogicNull | CJoinKeyed
                 | CSortNulls | CSortTies | CEmptyProject | CGroupKeyRepr.

(* the columns a step reads (a pipeline made by the builder only reads columns its source has) *)
Definition step_cols_needed (p : op) : list string :=
  match p with
  | OExtend _ ops _ w => flat_map (fun ke => expr_cols (snd ke)) ops ++ w_part w ++ w_order w
  | OProject _ ops gb => flat_map (fun ke => expr_cols (snd ke)) ops ++ gb
  | OSelectRows _ x => expr_cols x
  | _ => []
  end.
Definition step_source_cols (p : op) : list string :=
  match p with
  | OExtend s _ _ _ | OProject s _ _ | OSelectRows s _ => column_names s
  | _ => []
  end.

(* guard of ONE step, given the Pandas-flavoured results of its sources *)
Definition step_guard (c : cause) (p : op) (srcs : list table) : bool :=
  match c, p, srcs with
  | CVocab, OExtend _ ops wd w, _ =>
      if wd then forallb (fun ke => agg_vocab (snd ke)) ops            (* ordered window functions (shift) are outside the theorem *)
      else forallb (fun ke => expr_vocab (snd ke)) ops && match w_part w, w_order w with [], [] => true | _, _ => false end
  | CVocab, OProject _ ops _, _ => forallb (fun ke => agg_vocab (snd ke)) ops
  | CVocab, OSelectRows _ x, _ => expr_vocab x
  | CColumnsExist, _, _ => forallb (fun c => mem c (step_source_cols p)) (step_cols_needed p)
  | CCmpNull, OExtend _ ops false _, [t] => rows_nulls_ok is_cmp_op t (map snd ops)
  | CLogicNull, OExtend _ ops false _, [t] => rows_nulls_ok is_logic_op t (map snd ops)
  | CCmpNull, OSelectRows _ x, [t] => filter_rows_ok is_cmp_op t x
  | CLogicNull, OSelectRows _ x, [t] => filter_rows_ok is_logic_op t x
  | CJoinKeyed, OJoin _ _ on_a _ _, _ => match on_a with [] => false | _ => true end     (* joins without keys (CROSS) are outside the theorem *)
  | CSortNulls, OOrder _ cs _ (Some _), [t] => keys_nonnull (cols t) cs (rows t)
  | CSortTies, OOrder _ cs _ (Some _), [t] => keys_distinct (cols t) cs (rows t)
  | CSortNulls, OExtend _ ops true w, [t] =>
      negb (existsb (fun ke => mem (agg_of (snd ke)) order_sensitive_fns) ops) || keys_nonnull (cols t) (w_order w) (rows t)
  | CSortTies, OExtend _ ops true w, [t] =>
      negb (existsb (fun ke => mem (agg_of (snd ke)) order_sensitive_fns) ops) || keys_distinct (cols t) (w_part w ++ w_order w) (rows t)
  | CGroupKeyRepr, OProject _ _ gb, [t] =>
      (* equivalent group keys are written the same way (no 1 next to 1.0 or True): the key an output row shows does not depend on which row came first *)
      forallb (fun r1 => forallb (fun r2 => negb (keys_eqv (key_of (cols t) gb r1) (key_of (cols t) gb r2))
                                            || eqb (key_of (cols t) gb r1) (key_of (cols t) gb r2)) (rows t)) (rows t)
  | CEmptyProject, OProject _ ops [], [t] =>
      match rows t with [] => negb (existsb (fun ke => mem (agg_of (snd ke)) ["sum"; "count"; "size"; "_size"]) ops) | _ => true end
  | _, _, _ => true
  end.

Definition all_causes : list cause :=
  [CVocab; CColumnsExist; CCmpNull; CLogicNull; CJoinKeyed; CSortNulls; CSortTies; CEmptyProject; CGroupKeyRepr].

Definition sources_of (p : op) : list op :=
  match p with
  | OTable _ _ => []
  | OExtend s _ _ _ | OProject s _ _ | OSelectRows s _ | OSelectCols s _ | ODropCols s _ | ORename s _ | OMapCols s _ _ | OOrder s _ _ _ => [s]
  | OJoin a b _ _ _ | OConcat a b _ _ _ => [a; b]
  end.

(* the guard of a pipeline for one cause: every step is outside the cause, on the Pandas-flavoured tables of its sources *)
Fixpoint guard_for (c : cause) (p : op) (e : env) : bool :=
  let here (srcs : list op) :=
    let ts := map (fun s => sem_gen fl_pandas s e) srcs in
    if forallb (fun o => match o with Some _ => true | None => false end) ts
    then step_guard c p (flat_map (fun o => match o with Some t => [t] | None => [] end) ts) else true in
  match p with
  | OTable _ _ => step_guard c p []
  | OExtend s _ _ _ | OProject s _ _ | OSelectRows s _ | OSelectCols s _ | ODropCols s _ | ORename s _ | OMapCols s _ _ | OOrder s _ _ _ =>
      guard_for c s e && here [s]
  | OJoin a b _ _ _ | OConcat a b _ _ _ => guard_for c a e && guard_for c b e && here [a; b]
  end.

Definition agree_guardb (p : op) (e : env) : bool := forallb (fun c => guard_for c p e) all_causes.
Definition failed_causes (p : op) (e : env) : list cause := filter (fun c => negb (guard_for c p e)) all_causes.
