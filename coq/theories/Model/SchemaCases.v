(* correspondence driver for C22: universe of 4 types (0 int, 1 float, 2 str, 3 bool; bool is a subclass of int);
   an atom is represented by the id of its own type *)
From Coq Require Import List Bool Arith String.
Import ListNotations.
From DA Require Import Base.PyRT Base.Cases Model.Schema.

Definition isinst (a t : nat) : bool := Nat.eqb a t || (Nat.eqb a 3 && Nat.eqb t 0).
Definition type_of (a : nat) : nat := a.
Definition names : list string := ["a"; "b"; "c"; "r"]%string.
(* the wrapped function returns its parameter r (default None) *)
Definition fn (args : list (@value nat)) (kwargs : list (string * @value nat)) : @value nat :=
  match nth_error args 3 with
  | Some v => v
  | None => match dict_get kwargs "r"%string with Some v => v | None => VNone end
  end.
Record scase := mkcase { sw : bool; specs : option (list (string * @rspec nat nat)); ret : option (@rspec nat nat);
                         args : list (@value nat); kwargs : list (string * @value nat); observed : nat }.
Definition case_ok (c : scase) : bool :=
  let sp := option_map (map (fun ks => (fst ks, prep type_of (snd ks)))) (specs c) in
  let r := wrapped isinst (sw c) sp (option_map (prep type_of) (ret c)) (fun v => v) names fn (args c) (kwargs c) in
  match r, observed c with
  | Returned _, 0 => true
  | TypeErr, 1 => true
  | OtherErr, 2 => true
  | _, _ => false
  end.
Definition check_cases cs : list nat := failing_idx case_ok cs.
