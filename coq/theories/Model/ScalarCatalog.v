(* C05 -- FROZEN copy of data_algebra/op_catalog.py methods_table (expression, op, op_class, Pandas, SQLiteModel,
   PostgreSQLModel) and of the key sets of the formatter tables.  The harness reads the same tables from /repo on every
   run and compares them with these lists inside Coq: a new, removed or re-marked row is a correspondence break. *)
From Coq Require Import List String.
Import ListNotations.
Local Open Scope string_scope.

Definition catrow := (string * string * string * string * string * string)%type.
Definition catalog_rows : list catrow := [
  ("x != y", "!=", "e", "y", "y", "y");
  ("row_id % q", "%", "e", "y", "y", "y");
  ("x %/% y", "%/%", "e", "y", "y", "y");
  ("x * y", "*", "e", "y", "y", "y");
  ("x ** y", "**", "e", "y", "y", "y");
  ("x + y", "+", "e", "y", "y", "y");
  ("-x", "-", "e", "y", "y", "y");
  ("x - y", "-", "e", "y", "y", "y");
  ("x / y", "/", "e", "y", "y", "y");
  ("row_id // q", "//", "e", "y", "y", "y");
  ("x < y", "<", "e", "y", "y", "y");
  ("x <= y", "<=", "e", "y", "y", "y");
  ("not a", "==", "e", "y", "y", "y");
  ("x == y", "==", "e", "y", "y", "y");
  ("x > y", ">", "e", "y", "y", "y");
  ("x >= y", ">=", "e", "y", "y", "y");
  ("z.abs()", "abs", "e", "y", "y", "y");
  ("a and b", "and", "e", "y", "y", "y");
  ("x.arccos()", "arccos", "e", "y", "y", "n");
  ("x.arccosh()", "arccosh", "e", "y", "y", "n");
  ("x.arcsin()", "arcsin", "e", "y", "y", "n");
  ("x.arcsinh()", "arcsinh", "e", "y", "y", "n");
  ("x.arctan()", "arctan", "e", "y", "y", "n");
  ("x.arctan2(y)", "arctan2", "e", "y", "n", "n");
  ("x.arctanh()", "arctanh", "e", "y", "y", "n");
  ("y.around(2)", "around", "e", "y", "y", "y");
  ("y.as_int64()", "as_int64", "e", "y", "y", "y");
  ("y.as_str()", "as_str", "e", "y", "y", "y");
  ("date_col_1.base_Sunday()", "base_Sunday", "e", "y", "n", "n");
  ("y.ceil()", "ceil", "e", "y", "y", "y");
  ("z.ceil()", "ceil", "e", "y", "y", "y");
  ("z %?% 2", "coalesce", "e", "y", "y", "y");
  ("z.coalesce(2)", "coalesce", "e", "y", "y", "y");
  ("z.coalesce_0()", "coalesce", "e", "y", "y", "y");
  ("g %+% ""_"" %+% s2", "concat", "e", "y", "y", "y");
  ("g.concat(s2)", "concat", "e", "y", "y", "y");
  ("x.cos()", "cos", "e", "y", "y", "y");
  ("x.cosh()", "cosh", "e", "y", "y", "y");
  ("date_col_0.date_diff(date_col_1)", "date_diff", "e", "y", "n", "n");
  ("datetime_col_0.datetime_to_date()", "datetime_to_date", "e", "y", "w", "y");
  ("date_col_0.dayofmonth()", "dayofmonth", "e", "y", "n", "y");
  ("date_col_0.dayofweek()", "dayofweek", "e", "y", "n", "n");
  ("date_col_0.dayofyear()", "dayofyear", "e", "y", "n", "n");
  ("x.exp()", "exp", "e", "y", "y", "y");
  ("y.expm1()", "expm1", "e", "y", "y", "n");
  ("y.floor()", "floor", "e", "y", "y", "y");
  ("z.floor()", "floor", "e", "y", "y", "y");
  ("row_id.fmax(x)", "fmax", "e", "y", "y", "y");
  ("row_id.fmin(x)", "fmin", "e", "y", "y", "y");
  ("date_col_0.format_date()", "format_date", "e", "y", "n", "n");
  ("datetime_col_0.format_datetime()", "format_datetime", "e", "y", "n", "n");
  ("a.if_else(x, y)", "if_else", "e", "y", "y", "y");
  ("z.is_bad()", "is_bad", "e", "y", "y", "y");
  ("row_id.is_in({1, 3})", "is_in", "e", "y", "y", "y");
  ("y.is_inf()", "is_inf", "e", "y", "y", "y");
  ("y.is_nan()", "is_nan", "e", "y", "y", "y");
  ("z.is_null()", "is_null", "e", "y", "y", "y");
  ("x.log()", "log", "e", "y", "y", "y");
  ("x.log10()", "log10", "e", "y", "y", "y");
  ("x.log1p()", "log1p", "e", "y", "y", "n");
  ("g.mapv({""a"": 1, ""b"": 2, ""z"": 26}, 0)", "mapv", "e", "y", "y", "y");
  ("row_id.maximum(x)", "maximum", "e", "y", "y", "y");
  ("row_id.minimum(x)", "minimum", "e", "y", "y", "y");
  ("row_id.mod(2)", "mod", "e", "y", "y", "y");
  ("date_col_0.month()", "month", "e", "y", "n", "y");
  ("a or b", "or", "e", "y", "y", "y");
  ("str_date_col.parse_date()", "parse_date", "e", "y", "n", "n");
  ("str_datetime_col.parse_datetime()", "parse_datetime", "e", "y", "n", "n");
  ("date_col_0.quarter()", "quarter", "e", "y", "n", "y");
  ("row_id.remainder(2)", "remainder", "e", "y", "y", "y");
  ("y.round()", "round", "e", "y", "y", "y");
  ("z.sign()", "sign", "e", "y", "y", "y");
  ("x.sin()", "sin", "e", "y", "y", "y");
  ("x.sinh()", "sinh", "e", "y", "y", "y");
  ("x.sqrt()", "sqrt", "e", "y", "y", "y");
  ("x.sum()", "sum", "e", "y", "y", "y");
  ("x.tanh()", "tanh", "e", "y", "y", "y");
  ("datetime_col_0.timestamp_diff(datetime_col_1)", "timestamp_diff", "e", "y", "n", "n");
  ("g.trimstr(0, 2)", "trimstr", "e", "y", "y", "y");
  ("date_col_0.weekofyear()", "weekofyear", "e", "y", "n", "w");
  ("a.where(x, y)", "where", "e", "y", "y", "y");
  ("date_col_0.year()", "year", "e", "y", "n", "y");
  ("_count()", "_count", "g", "y", "w", "w");
  ("_ngroup()", "_ngroup", "g", "y", "n", "n");
  ("_size()", "_size", "g", "y", "y", "y");
  ("z.count()", "count", "g", "y", "y", "y");
  ("x.max()", "max", "g", "y", "y", "y");
  ("x.mean()", "mean", "g", "y", "y", "y");
  ("x.median()", "median", "g", "y", "n", "n");
  ("x.min()", "min", "g", "y", "y", "y");
  ("x.nunique()", "nunique", "g", "y", "n", "n");
  ("x.size()", "size", "g", "y", "y", "y");
  ("x.std()", "std", "g", "y", "n", "y");
  ("(1).sum()", "sum", "g", "y", "y", "y");
  ("x.sum()", "sum", "g", "y", "y", "y");
  ("x.var()", "var", "g", "y", "n", "y");
  ("_size()", "_size", "p", "y", "y", "y");
  ("a.all()", "all", "p", "y", "y", "y");
  ("a.any()", "any", "p", "y", "y", "y");
  ("z.count()", "count", "p", "y", "y", "y");
  ("x.max()", "max", "p", "y", "y", "y");
  ("x.mean()", "mean", "p", "y", "y", "y");
  ("x.median()", "median", "p", "y", "y", "n");
  ("x.min()", "min", "p", "y", "y", "y");
  ("x.nunique()", "nunique", "p", "y", "y", "y");
  ("x.size()", "size", "p", "y", "y", "y");
  ("x.std()", "std", "p", "y", "y", "y");
  ("(1).sum()", "sum", "p", "y", "y", "y");
  ("x.sum()", "sum", "p", "y", "y", "y");
  ("x.var()", "var", "p", "y", "y", "y");
  ("_uniform()", "_uniform", "u", "y", "y", "y");
  ("x.any_value()", "any_value", "up", "y", "y", "y");
  ("_row_number()", "_row_number", "w", "y", "y", "y");
  ("z.bfill()", "bfill", "w", "y", "n", "n");
  ("z.cumcount()", "cumcount", "w", "y", "w", "w");
  ("x.cummax()", "cummax", "w", "y", "y", "y");
  ("x.cummin()", "cummin", "w", "y", "y", "y");
  ("x.cumprod()", "cumprod", "w", "y", "n", "n");
  ("x.cumsum()", "cumsum", "w", "y", "y", "y");
  ("z.ffill()", "ffill", "w", "y", "n", "n");
  ("x.first()", "first", "w", "y", "n", "n");
  ("x.last()", "last", "w", "y", "n", "n");
  ("x.rank()", "rank", "w", "y", "n", "n");
  ("x.shift()", "shift", "w", "y", "y", "y")
].

Definition keys_db_expr_formatters : list string := ["%"; "%/%"; "**"; "//"; "all"; "any"; "any_value"; "around"; "as_int64"; "as_str"; "base_Sunday"; "ceil"; "coalesce"; "concat"; "count"; "date_diff"; "datetime_to_date"; "dayofmonth"; "dayofweek"; "dayofyear"; "floor"; "fmax"; "fmin"; "format_date"; "format_datetime"; "if_else"; "is_bad"; "is_in"; "is_inf"; "is_nan"; "is_null"; "mapv"; "maximum"; "mean"; "minimum"; "mod"; "month"; "nunique"; "parse_date"; "parse_datetime"; "quarter"; "remainder"; "round"; "shift"; "size"; "timestamp_diff"; "trimstr"; "weekofyear"; "where"; "year"].

Definition keys_SQLite_formatters : list string := ["%"; "is_bad"; "is_inf"; "is_nan"; "logical_and"; "logical_or"; "mod"; "rand"; "remainder"].

Definition keys_PostgreSQL_formatters : list string := ["%/%"; "___"; "as_int64"].

Definition db_default_op_replacements : list (string * string) := [("==", "="); ("_connected_components", "CONNECTED_COMPONENTS"); ("_count", "COUNT"); ("_ngroup", "NGROUP"); ("_row_number", "ROW_NUMBER"); ("_size", "SIZE"); ("_uniform", "RAND"); ("and", "AND"); ("cumcount", "COUNT"); ("cummax", "MAX"); ("cummean", "AVG"); ("cummin", "MIN"); ("cumprod", "PROD"); ("cumsum", "SUM"); ("or", "OR")].

Definition pg_op_replacements : list (string * string) := [("==", "="); ("_connected_components", "CONNECTED_COMPONENTS"); ("_count", "COUNT"); ("_ngroup", "NGROUP"); ("_row_number", "ROW_NUMBER"); ("_size", "SIZE"); ("_uniform", "RANDOM"); ("and", "AND"); ("cumcount", "COUNT"); ("cummax", "MAX"); ("cummean", "AVG"); ("cummin", "MIN"); ("cumprod", "PROD"); ("cumsum", "SUM"); ("log", "LN"); ("or", "OR"); ("std", "STDDEV_SAMP"); ("var", "VAR_SAMP")].

Definition keys_pandas_impl_map : list string := ["!="; "%"; "%/%"; "&"; "*"; "**"; "+"; "-"; "/"; "//"; "<"; "<="; "<>"; "="; "=="; ">"; ">="; "^"; "and"; "as_int64"; "as_str"; "base_Sunday"; "co_equalizer"; "coalesce"; "concat"; "connected_components"; "date_diff"; "datetime_to_date"; "dayofmonth"; "dayofweek"; "dayofyear"; "format_date"; "format_datetime"; "if_else"; "is_bad"; "is_in"; "is_inf"; "is_nan"; "is_null"; "mapv"; "month"; "neg"; "not"; "or"; "parse_date"; "parse_datetime"; "quarter"; "timestamp_diff"; "trimstr"; "weekofyear"; "where"; "xor"; "year"; "|"].

Definition keys_polars_extend_0 : list string := ["_count"; "_cumcount"; "_row_number"; "_size"; "count"; "cumcount"; "row_number"; "size"].

Definition keys_polars_extend_1 : list string := ["+"; "-"; "abs"; "all"; "any"; "any_value"; "arccos"; "arccosh"; "arcsin"; "arcsinh"; "arctan"; "arctan2"; "arctanh"; "as_int64"; "as_str"; "base_Sunday"; "bfill"; "ceil"; "coalesce0"; "cos"; "cosh"; "count"; "cumcount"; "cummax"; "cummin"; "cumprod"; "cumsum"; "datetime_to_date"; "dayofmonth"; "dayofweek"; "dayofyear"; "exp"; "expm1"; "ffill"; "first"; "floor"; "format_date"; "format_datetime"; "is_bad"; "is_inf"; "is_nan"; "is_null"; "last"; "log"; "log10"; "log1p"; "max"; "mean"; "median"; "min"; "month"; "nunique"; "quarter"; "rank"; "round"; "shift"; "sign"; "sin"; "sinh"; "size"; "sqrt"; "std"; "sum"; "tanh"; "var"; "weekofyear"].

Definition keys_polars_extend_2 : list string := ["!"; "!="; "%"; "%/%"; "**"; "-"; "/"; "//"; "<"; "<="; "=="; ">"; ">="; "around"; "date_diff"; "is_in"; "mod"; "not"; "parse_date"; "parse_datetime"; "remainder"; "shift"; "timestamp_diff"; "~"].

Definition keys_polars_extend_3 : list string := ["if_else"; "mapv"; "trimstr"; "where"].

Definition keys_polars_arbitrary_arity : list string := ["&"; "*"; "+"; "and"; "coalesce"; "concat"; "fmax"; "fmin"; "maximum"; "minimum"; "or"; "|"].

Definition keys_polars_literals_unpacked : list string := ["around"; "is_in"; "mapv"; "parse_date"; "parse_datetime"; "shift"].

(* one-method class-e expressions (date/time family and the nested concat example excluded): expression -> (method, literal flags) *)
Definition expr_keys : list (string * (string * list bool)) := [
  ("x != y", ("!=", [false; false]));
  ("row_id % q", ("%", [false; false]));
  ("x %/% y", ("%/%", [false; false]));
  ("x * y", ("*", [false; false]));
  ("x ** y", ("**", [false; false]));
  ("x + y", ("+", [false; false]));
  ("-x", ("-", [false]));
  ("x - y", ("-", [false; false]));
  ("x / y", ("/", [false; false]));
  ("row_id // q", ("//", [false; false]));
  ("x < y", ("<", [false; false]));
  ("x <= y", ("<=", [false; false]));
  ("not a", ("==", [false; true]));
  ("x == y", ("==", [false; false]));
  ("x > y", (">", [false; false]));
  ("x >= y", (">=", [false; false]));
  ("z.abs()", ("abs", [false]));
  ("a and b", ("and", [false; false]));
  ("x.arccos()", ("arccos", [false]));
  ("x.arccosh()", ("arccosh", [false]));
  ("x.arcsin()", ("arcsin", [false]));
  ("x.arcsinh()", ("arcsinh", [false]));
  ("x.arctan()", ("arctan", [false]));
  ("x.arctan2(y)", ("arctan2", [false; false]));
  ("x.arctanh()", ("arctanh", [false]));
  ("y.around(2)", ("around", [false; true]));
  ("y.as_int64()", ("as_int64", [false]));
  ("y.as_str()", ("as_str", [false]));
  ("y.ceil()", ("ceil", [false]));
  ("z.ceil()", ("ceil", [false]));
  ("z %?% 2", ("coalesce", [false; true]));
  ("z.coalesce(2)", ("coalesce", [false; true]));
  ("z.coalesce_0()", ("coalesce", [false; true]));
  ("g.concat(s2)", ("concat", [false; false]));
  ("x.cos()", ("cos", [false]));
  ("x.cosh()", ("cosh", [false]));
  ("x.exp()", ("exp", [false]));
  ("y.expm1()", ("expm1", [false]));
  ("y.floor()", ("floor", [false]));
  ("z.floor()", ("floor", [false]));
  ("row_id.fmax(x)", ("fmax", [false; false]));
  ("row_id.fmin(x)", ("fmin", [false; false]));
  ("a.if_else(x, y)", ("if_else", [false; false; false]));
  ("z.is_bad()", ("is_bad", [false]));
  ("row_id.is_in({1, 3})", ("is_in", [false; true; true]));
  ("y.is_inf()", ("is_inf", [false]));
  ("y.is_nan()", ("is_nan", [false]));
  ("z.is_null()", ("is_null", [false]));
  ("x.log()", ("log", [false]));
  ("x.log10()", ("log10", [false]));
  ("x.log1p()", ("log1p", [false]));
  ("g.mapv({""a"": 1, ""b"": 2, ""z"": 26}, 0)", ("mapv", [false; true; true; true; true; true; true; true]));
  ("row_id.maximum(x)", ("maximum", [false; false]));
  ("row_id.minimum(x)", ("minimum", [false; false]));
  ("row_id.mod(2)", ("mod", [false; true]));
  ("a or b", ("or", [false; false]));
  ("row_id.remainder(2)", ("remainder", [false; true]));
  ("y.round()", ("round", [false]));
  ("z.sign()", ("sign", [false]));
  ("x.sin()", ("sin", [false]));
  ("x.sinh()", ("sinh", [false]));
  ("x.sqrt()", ("sqrt", [false]));
  ("x.tanh()", ("tanh", [false]));
  ("g.trimstr(0, 2)", ("trimstr", [false; true; true]));
  ("a.where(x, y)", ("where", [false; false; false]))
].
