(* Hand-written model of the Python VALUES that reach SQLModel.value_to_sql and of the CPython builtins it calls on them
   (str(int), str(float) = float.__repr__, math.isnan, ", ".join).  These builtins are library code, not repo code:
   modelled, not verified; the harness compares them with CPython on every run (correspondence kind VStrFloat / VStrInt).

   A float is nan, +/-inf, or finite.  A finite float is given by what CPython's shortest-round-trip conversion
   (_Py_dg_dtoa mode 0) returns for it: sign, decimal digits d1..dn (no trailing zero; "0" for zero) and the position
   `decpt` of the decimal point, value = 0.d1..dn * 10^decpt.  `float_repr` is format_float_short(.., 'r', Py_DTSF_ADD_DOT_0):
   exponent form iff decpt <= -4 or decpt > 16. *)
From Coq Require Import List Bool Arith ZArith Ascii String.
From Coq Require DecimalString.
Import ListNotations.
From DA Require Import Model.Lex.

Inductive pyfloat := FNan | FInf (neg : bool) | FFin (neg : bool) (ds : list digit) (decpt : Z).

Inductive pyval :=
  | PNone
  | PStr (s : string)
  | PBool (b : bool)
  | PInt (z : Z)
  | PFloat (f : pyfloat)
  | PList (l : list pyval)
  | PTuple (l : list pyval)
  | PListTerm (l : list pyval)          (* expr_rep.ListTerm: .value is the list *)
  | PValue (x : pyval)                  (* expr_rep.Value: .value is the wrapped value *)
  | POther (text : string).             (* any other object; text = str(object) *)

(* decimal digits of a stdlib Decimal.uint *)
Fixpoint digits_of_uint (u : Decimal.uint) : list digit :=
  match u with
  | Decimal.Nil => []
  | Decimal.D0 u => d0 :: digits_of_uint u | Decimal.D1 u => d1 :: digits_of_uint u
  | Decimal.D2 u => d2 :: digits_of_uint u | Decimal.D3 u => d3 :: digits_of_uint u
  | Decimal.D4 u => d4 :: digits_of_uint u | Decimal.D5 u => d5 :: digits_of_uint u
  | Decimal.D6 u => d6 :: digits_of_uint u | Decimal.D7 u => d7 :: digits_of_uint u
  | Decimal.D8 u => d8 :: digits_of_uint u | Decimal.D9 u => d9 :: digits_of_uint u
  end.
Definition digits_of_N (n : N) : list digit := digits_of_uint (N.to_uint n).      (* "0" for 0, no leading zero otherwise *)

(* str(int) *)
Definition py_str_int (z : Z) : string :=
  match z with
  | Zneg p => String "-" (dstr (digits_of_N (Npos p)))
  | _ => dstr (digits_of_N (Z.to_N z))
  end.

(* exponent part of float repr: sign and at least two digits *)
Definition exp_str (e : Z) : string :=
  let ds := digits_of_N (Z.to_N (Z.abs e)) in
  String (if (e <? 0)%Z then "-" else "+")%char (dstr (match ds with [_] => d0 :: ds | _ => ds end)).

Definition float_repr_fin (neg : bool) (ds : list digit) (decpt : Z) : string :=
  let n := Z.of_nat (List.length ds) in
  String.append (if neg then "-" else "")%string
  (if ((decpt <=? -4) || (16 <? decpt))%Z then
     match ds with
     | [] => EmptyString
     | d :: tl => String (digit_char d)
                    (String.append (match tl with [] => EmptyString | _ => String "." (dstr tl) end)
                                   (String "e" (exp_str (decpt - 1))))
     end
   else if (decpt <=? 0)%Z then String "0" (String "." (dstr (repeat d0 (Z.to_nat (- decpt)) ++ ds)))
   else if (n <=? decpt)%Z then String.append (dstr (ds ++ repeat d0 (Z.to_nat (decpt - n)))) ".0"
   else String.append (dstr (firstn (Z.to_nat decpt) ds)) (String "." (dstr (skipn (Z.to_nat decpt) ds)))).

(* str(float) *)
Definition py_str_float (f : pyfloat) : string :=
  match f with
  | FNan => "nan"
  | FInf false => "inf"
  | FInf true => "-inf"
  | FFin neg ds decpt => float_repr_fin neg ds decpt
  end.
Definition py_isnan (f : pyfloat) : bool := match f with FNan => true | _ => false end.
Definition py_str_other (text : string) : string := text.

(* sep.join(parts) *)
Fixpoint str_join (sep : string) (parts : list string) : string :=
  match parts with
  | [] => EmptyString
  | [p] => p
  | p :: rest => String.append p (String.append sep (str_join sep rest))
  end.

(* what a finite float denotes: (+/-) dval ds * 10^(decpt - n) *)
Definition float_mant (ds : list digit) : Z := dval ds.
Definition float_exp10 (ds : list digit) (decpt : Z) : Z := (decpt - Z.of_nat (List.length ds))%Z.
