(* Model/PyExpr.v -- the expression objects of data_algebra/expr_rep.py and the source tokens they are
   printed to / parsed from.  (Used by C13; C12 builds on the same AST and on Model/ExprPrint.v.)

   expr_rep.py                                   here
   ---------------------------------------------------------------------------------------------
   Value(value)            value: None/bool/int/float/str      EVal (v : pval)
   ColumnReference(name)                                        ECol name
   ListTerm([Value, ...])  (what the parser builds)             EList (list pval)
   DictTerm({k: v, ...})   raw Python keys/values               EDict (list (pval * pval)), insertion order
   Expression(op, args, params, inline, method)                 EOp op inline method params args

   Floats are sign + exact magnitude (so that -0.0 exists, as it does for `Value.__neg__` and `repr`);
   `float('inf')` (the value of literals such as 1e400) is PInf.  NaN cannot be written as a literal. *)
From Coq Require Import List Bool String Ascii ZArith NArith QArith.
Import ListNotations.
Local Close Scope Q_scope.
Local Open Scope bool_scope.

Inductive pval :=
| PNone
| PBool (b : bool)
| PInt (z : Z)
| PFloat (neg : bool) (mag : Q)       (* finite float; mag >= 0 *)
| PInf (neg : bool)
| PStr (s : string).

Definition Qeqb_s (a b : Q) : bool := Z.eqb (Qnum a) (Qnum b) && Pos.eqb (Qden a) (Qden b).

(* structural equality *)
Definition pval_eqb (a b : pval) : bool :=
  match a, b with
  | PNone, PNone => true
  | PBool x, PBool y => Bool.eqb x y
  | PInt x, PInt y => Z.eqb x y
  | PFloat n x, PFloat m y => Bool.eqb n m && Qeqb_s x y
  | PInf n, PInf m => Bool.eqb n m
  | PStr x, PStr y => String.eqb x y
  | _, _ => false
  end.

(* the number a numeric Python value stands for: Some (inl q) finite, Some (inr neg) infinite *)
Definition num_of (v : pval) : option (Q + bool) :=
  match v with
  | PBool b => Some (inl (if b then 1%Q else 0%Q))
  | PInt z => Some (inl (inject_Z z))
  | PFloat neg m => Some (inl (if neg then Qopp m else m))
  | PInf neg => Some (inr neg)
  | _ => None
  end.

(* Python `a == b` on the values a Value can hold (1 == 1.0 == True, -0.0 == 0.0) *)
Definition py_eq (a b : pval) : bool :=
  match a, b with
  | PNone, PNone => true
  | PStr x, PStr y => String.eqb x y
  | _, _ =>
    match num_of a, num_of b with
    | Some (inl x), Some (inl y) => Qeq_bool x y
    | Some (inr n), Some (inr m) => Bool.eqb n m
    | _, _ => false
    end
  end.

(* `value < 0` for int/float (used by Value.to_python) *)
Definition num_is_neg (v : pval) : bool :=
  match v with
  | PInt z => Z.ltb z 0%Z
  | PFloat neg m => neg && negb (Qeq_bool m 0%Q)
  | PInf neg => neg
  | _ => false
  end.

(* `repr(value).startswith("-")` for int/float: a6af5a7 parenthesises exactly these constants when they are operands
   (value < 0 missed -0.0) *)
Definition prints_with_sign (v : pval) : bool :=
  match v with
  | PInt z => Z.ltb z 0%Z
  | PFloat neg _ => neg
  | PInf neg => neg
  | _ => false
  end.

(* `-value`; None for str / None (TypeError) *)
Definition py_neg (v : pval) : option pval :=
  match v with
  | PBool b => Some (PInt (if b then (-1)%Z else 0%Z))
  | PInt z => Some (PInt (- z))
  | PFloat neg m => Some (PFloat (negb neg) m)
  | PInf neg => Some (PInf (negb neg))
  | _ => None
  end.

(* type(value), as far as data_algebra.util.compatible_types distinguishes *)
Inductive pty := TyNone | TyBool | TyInt | TyFloat | TyStr.
Definition pty_eqb (a b : pty) : bool :=
  match a, b with TyNone, TyNone | TyBool, TyBool | TyInt, TyInt | TyFloat, TyFloat | TyStr, TyStr => true | _, _ => false end.
Definition type_of (v : pval) : pty :=
  match v with PNone => TyNone | PBool _ => TyBool | PInt _ => TyInt | PFloat _ _ | PInf _ => TyFloat | PStr _ => TyStr end.

(* util.compatible_types: drop NoneType; more than one type left is only fine for {int, float} *)
Definition compatible_types (ts : list pty) : bool :=
  let ts' := filter (fun t => negb (pty_eqb t TyNone)) ts in
  let has t := existsb (pty_eqb t) ts' in
  let n := ((if has TyBool then 1 else 0) + (if has TyInt then 1 else 0) + (if has TyFloat then 1 else 0)
            + (if has TyStr then 1 else 0))%nat in
  Nat.leb n 1 || (Nat.eqb n 2 && has TyInt && has TyFloat).

(* ---------------------------------------------------------------- source tokens *)
(* What the lark lexer (terminals of python3_lark.py) delivers.  Literal tokens carry the VALUE the walker
   computes from the token text with int() / float() / ast.literal_eval(); that conversion and Python's repr()
   are trusted (see harness/props/C13.py), they are not modelled character by character. *)
Inductive tok :=
| TName (s : string)               (* NAME *)
| TInt (n : N)                     (* DEC_NUMBER *)
| TFloat (m : option Q)            (* FLOAT_NUMBER: Some magnitude, or None when float(text) overflows to inf *)
| TStr (s : string)                (* STRING whose literal_eval is a str *)
| TSym (s : string)                (* operator, punctuation or keyword terminal, by its text *)
| TOther (isnum : bool) (ty : string).   (* HEX/OCT/BIN/IMAG numbers, LONG_STRING, bytes literals: accepted by the grammar *)

Definition optQ_eqb (a b : option Q) : bool :=
  match a, b with Some x, Some y => Qeqb_s x y | None, None => true | _, _ => false end.
Definition tok_eqb (a b : tok) : bool :=
  match a, b with
  | TName x, TName y => String.eqb x y
  | TInt x, TInt y => N.eqb x y
  | TFloat x, TFloat y => optQ_eqb x y
  | TStr x, TStr y => String.eqb x y
  | TSym x, TSym y => String.eqb x y
  | TOther n x, TOther m y => Bool.eqb n m && String.eqb x y
  | _, _ => false
  end.

(* ---------------------------------------------------------------- expressions *)
Inductive expr :=
| ECol (name : string)
| EVal (v : pval)
| EList (vs : list pval)
| EDict (kvs : list (pval * pval))
| EOp (op : string) (inline method : bool) (params : option (list (string * pval))) (args : list expr).

(* isinstance(e, Term): ListTerm / DictTerm are PreTerms only *)
Definition is_term (e : expr) : bool := match e with EList _ | EDict _ => false | _ => true end.
(* _is_none_value *)
Definition is_none_value (e : expr) : bool := match e with EVal PNone => true | _ => false end.

Definition list_eqb {A} (f : A -> A -> bool) : list A -> list A -> bool :=
  fix go (a b : list A) {struct a} : bool :=
    match a, b with
    | [], [] => true
    | x :: a', y :: b' => f x y && go a' b'
    | _, _ => false
    end.

Definition params_eqb_s (a b : option (list (string * pval))) : bool :=
  match a, b with
  | None, None => true
  | Some x, Some y => list_eqb (fun p q => String.eqb (fst p) (fst q) && pval_eqb (snd p) (snd q)) x y
  | _, _ => false
  end.

(* structural equality of expression objects (field by field) *)
Fixpoint expr_eqb (a b : expr) : bool :=
  match a, b with
  | ECol x, ECol y => String.eqb x y
  | EVal x, EVal y => pval_eqb x y
  | EList x, EList y => list_eqb pval_eqb x y
  | EDict x, EDict y => list_eqb (fun p q => pval_eqb (fst p) (fst q) && pval_eqb (snd p) (snd q)) x y
  | EOp o i m p xs, EOp o' i' m' p' ys =>
      String.eqb o o' && Bool.eqb i i' && Bool.eqb m m' && params_eqb_s p p' && list_eqb expr_eqb xs ys
  | _, _ => false
  end.

(* dict lookup with Python key equality *)
Fixpoint pdict_get (d : list (pval * pval)) (k : pval) : option pval :=
  match d with [] => None | (k', v) :: t => if py_eq k k' then Some v else pdict_get t k end.
(* d[k] = v : keep the position (and the first key object) of an existing equal key *)
Fixpoint pdict_set (d : list (pval * pval)) (k v : pval) : list (pval * pval) :=
  match d with
  | [] => [(k, v)]
  | (k', v') :: t => if py_eq k k' then (k', v) :: t else (k', v') :: pdict_set t k v
  end.
Definition pdict_sub (a b : list (pval * pval)) : bool :=
  forallb (fun kv => match pdict_get b (fst kv) with Some v => py_eq (snd kv) v | None => false end) a.

(* string-keyed params: set(keys) equal and values `!=`-free *)
Fixpoint sdict_get (d : list (string * pval)) (k : string) : option pval :=
  match d with [] => None | (k', v) :: t => if String.eqb k k' then Some v else sdict_get t k end.
Definition params_equal (a b : option (list (string * pval))) : bool :=
  match a, b with
  | None, None => true
  | Some x, Some y =>
      forallb (fun kv => match sdict_get y (fst kv) with Some v => py_eq (snd kv) v | None => false end) x
      && forallb (fun kv => match sdict_get x (fst kv) with Some _ => true | None => false end) y
  | _, _ => false
  end.

(* _same_constant (a4bd890): same canonical type and equal value -- 1, 1.0 and True are different constants *)
Definition same_constant (a b : pval) : bool := pty_eqb (type_of a) (type_of b) && py_eq a b.

(* the entry of d whose key Python's dict lookup finds for k *)
Fixpoint pdict_find (d : list (pval * pval)) (k : pval) : option (pval * pval) :=
  match d with [] => None | (k', v) :: t => if py_eq k k' then Some (k', v) else pdict_find t k end.

(* PreTerm.is_equal, class by class.
   Value: _same_constant.  ListTerm: same length and element by element _same_constant.  DictTerm: same length and
   every key of self found in other with the same key constant and the same value constant.
   Expression.is_equal compares op, inline, params and the arguments; it does not look at `method`. *)
Fixpoint is_equal (a b : expr) : bool :=
  match a, b with
  | ECol x, ECol y => String.eqb x y
  | EVal x, EVal y => same_constant x y
  | EList x, EList y => list_eqb same_constant x y
  | EDict x, EDict y =>
      Nat.eqb (List.length x) (List.length y)
      && forallb (fun kv => match pdict_find y (fst kv) with
                            | Some (k', v') => same_constant (fst kv) k' && same_constant (snd kv) v'
                            | None => false
                            end) x
  | EOp o i _ p xs, EOp o' i' _ p' ys =>
      String.eqb o o' && Bool.eqb i i' && params_equal p p' && list_eqb is_equal xs ys
  | _, _ => false
  end.

(* get_column_names / get_method_names (insertion into a set: duplicates allowed here) *)
Fixpoint cols_used (e : expr) : list string :=
  match e with
  | ECol n => [n]
  | EOp _ _ _ _ args => flat_map cols_used args
  | _ => []
  end.
