(* Model/PipePrintCases.v -- C12 case driver: what the implementation was OBSERVED to do, compared with the models
   Model/PipePrintStr.v (repr of str, string literal values, expression text, lexer), Model/PipePrintSyn.v and
   Model/PipePrint.v (printed token stream, rebuilt operator tree) by decidable comparison inside Coq. *)
From Coq Require Import List Bool String Ascii ZArith NArith QArith Arith.
Import ListNotations.
From DA Require Import Base.Cases Base.PyRT Model.Equiv.
From DA Require Import Model.PyExpr Model.ExprPrint Model.ExprParse Model.PipePrintStr Model.PipePrintSyn Model.PipePrint.
Local Close Scope Q_scope.
Local Open Scope string_scope.
Local Open Scope bool_scope.
Local Open Scope list_scope.

(* the non-printable code points above 127 that occur in the case's strings (str.isprintable, read from Python) *)
Definition np_of (l : list N) : N -> bool := fun cp => existsb (N.eqb cp) l.
(* repr(x) / float(text) for the floats of the case (read from Python) *)
Definition F_of (tab : list (Q * string)) : ffmt :=
  mkF (fun q => match find (fun e => Qeqb_s (fst e) q) tab with Some e => snd e | None => "?" end)
      (fun s => match find (fun e => String.eqb (snd e) s) tab with Some e => Some (fst e) | None => None end).
Definition mkenv (known win : list string) (ftab : list (Q * string)) (npl : list N) : penv :=
  mkE (mkcfg known) (F_of ftab) (np_of npl) win.

(* ---- structural equality of operator trees *)
Definition const_seqb (a b : pyconst) : bool :=
  match a, b with
  | KNone, KNone | KNaN, KNaN => true
  | KBool x, KBool y => Bool.eqb x y
  | KInt x, KInt y => Z.eqb x y
  | KFloat x, KFloat y => Qeqb_s x y
  | KStr x, KStr y => String.eqb x y
  | _, _ => false
  end.
Definition sl_eqb (a b : list string) : bool := PyExpr.list_eqb String.eqb a b.
Definition pairs_eqb (a b : list (string * string)) : bool :=
  PyExpr.list_eqb (fun x y => String.eqb (fst x) (fst y) && String.eqb (snd x) (snd y)) a b.
Fixpoint pexpr_seqb (a b : pexpr) {struct a} : bool :=
  match a, b with
  | PCol x, PCol y => String.eqb x y
  | PVal x, PVal y => const_seqb x y
  | PList w xs, PList w' ys => Bool.eqb w w' && PyExpr.list_eqb const_seqb xs ys
  | POp o i m xs, POp o' i' m' ys =>
      String.eqb o o' && Bool.eqb i i' && Bool.eqb m m' && PyExpr.list_eqb pexpr_seqb xs ys
  | _, _ => false
  end.
Definition ops_seqb (a b : list (string * pexpr)) : bool :=
  PyExpr.list_eqb (fun x y => String.eqb (fst x) (fst y) && pexpr_seqb (snd x) (snd y)) a b.
Definition spec_seqb (a b : recspec) : bool :=
  sl_eqb (rs_record_keys a) (rs_record_keys b)
  && PyExpr.list_eqb (fun x y => String.eqb (fst x) (fst y) && PyExpr.list_eqb const_seqb (snd x) (snd y)) (rs_control a) (rs_control b)
  && sl_eqb (rs_control_keys a) (rs_control_keys b) && Bool.eqb (rs_strict a) (rs_strict b).
Definition ospec_seqb (a b : option recspec) : bool :=
  match a, b with None, None => true | Some x, Some y => spec_seqb x y | _, _ => false end.
Definition onat_eqb (a b : option nat) : bool :=
  match a, b with None, None => true | Some x, Some y => Nat.eqb x y | _, _ => false end.
Definition ostr_eqb (a b : option string) : bool :=
  match a, b with None, None => true | Some x, Some y => String.eqb x y | _, _ => false end.
Fixpoint eop_seqb (a b : eop) {struct a} : bool :=
  match a, b with
  | ETable n cs ql, ETable n' cs' ql' => String.eqb n n' && sl_eqb cs cs' && pairs_eqb ql ql'
  | EExtend s ops p o r w, EExtend s' ops' p' o' r' w' =>
      eop_seqb s s' && ops_seqb ops ops' && sl_eqb p p' && sl_eqb o o' && sl_eqb r r' && Bool.eqb w w'
  | EProject s ops gb, EProject s' ops' gb' => eop_seqb s s' && ops_seqb ops ops' && sl_eqb gb gb'
  | ESelectRows s e, ESelectRows s' e' => eop_seqb s s' && pexpr_seqb e e'
  | ESelectCols s cs, ESelectCols s' cs' | EDropCols s cs, EDropCols s' cs' => eop_seqb s s' && sl_eqb cs cs'
  | ERename s m, ERename s' m' => eop_seqb s s' && pairs_eqb m m'
  | EMapCols s m d, EMapCols s' m' d' => eop_seqb s s' && pairs_eqb m m' && sl_eqb d d'
  | EOrder s cs r l, EOrder s' cs' r' l' => eop_seqb s s' && sl_eqb cs cs' && sl_eqb r r' && onat_eqb l l'
  | EJoin x y oa ob jt, EJoin x' y' oa' ob' jt' =>
      eop_seqb x x' && eop_seqb y y' && sl_eqb oa oa' && sl_eqb ob ob' && String.eqb jt jt'
  | EConcat x y ic an bn, EConcat x' y' ic' an' bn' =>
      eop_seqb x x' && eop_seqb y y' && ostr_eqb ic ic' && String.eqb an an' && String.eqb bn bn'
  | EConvert s rm, EConvert s' rm' =>
      eop_seqb s s' && ospec_seqb (rm_in rm) (rm_in rm') && ospec_seqb (rm_out rm) (rm_out rm') && Bool.eqb (rm_strict rm) (rm_strict rm')
  | _, _ => false
  end.
Definition oeop_seqb (a b : option eop) : bool :=
  match a, b with None, None => true | Some x, Some y => eop_seqb x y | _, _ => false end.

Definition ostring_eqb (a b : option string) : bool := ostr_eqb a b.
Definition otoks_eqb (a b : option (list tok)) : bool :=
  match a, b with None, None => true | Some x, Some y => PyExpr.list_eqb tok_eqb x y | _, _ => false end.
Definition optoks_eqb (a : option (list ptok)) (b : list ptok) : bool :=
  match a with Some x => PyExpr.list_eqb ptok_eqb x b | None => false end.

Definition KF (n : Z) (d : positive) : pyconst := KFloat (Qmake n d).

Inductive case :=
| CRepr (npl : list N) (s lit : string)                          (* repr(s) is lit; the literal lit evaluates to s *)
| CUnq (lit : string) (v : option string)                        (* ast.literal_eval of a literal text (None: not a str / error) *)
| CText (ftab : list (Q * string)) (npl : list N) (e : expr) (text : string)   (* e.to_python() *)
| CLex (ftab : list (Q * string)) (text : string) (toks : option (list tok))   (* the lark lexer on text *)
| CParse (ftab : list (Q * string)) (known dd : list string) (text : string) (r : res expr)   (* parse_by_lark(text) *)
| CPrint (E : penv) (p : eop) (toks : list ptok)                 (* tokens of p.to_python() *)
| CRebuild (E : penv) (toks : list ptok) (r : option eop)        (* eval_da_ops of a text with these tokens *)
| CRound (E : penv) (p : eop)                                    (* model only: print, rebuild, the same tree *)
| CNormal (E : penv) (p : eop) (b : bool).                       (* model only: is p in builder-normal form *)

Definition res_eqb (a b : res expr) : bool :=
  match a, b with Ok x, Ok y => expr_eqb x y | Err, Err => true | _, _ => false end.

Definition case_ok (c : case) : bool :=
  match c with
  | CRepr npl s lit => String.eqb (py_repr (np_of npl) s) lit && ostring_eqb (py_unquote lit) (Some s)
  | CUnq lit v => ostring_eqb (py_unquote lit) v
  | CText ftab npl e text => String.eqb (expr_text (F_of ftab) (np_of npl) e) text
  | CLex ftab text toks => otoks_eqb (lexg (F_of ftab) text) toks
  | CParse ftab known dd text r => res_eqb (parse_text (F_of ftab) (mkcfg known) dd text) r
  | CPrint E p toks => optoks_eqb (print_op E p) toks
  | CRebuild E toks r => oeop_seqb (rebuild E toks) r
  | CRound E p => match print_op E p with Some ts => oeop_seqb (rebuild E ts) (Some p) | None => false end
  | CNormal E p b => Bool.eqb (normal E p) b
  end.

Definition check_cases (cs : list case) : list nat := failing_idx case_ok cs.
