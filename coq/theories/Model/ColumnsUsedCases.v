(* C10 correspondence driver: Model/ColumnsUsed.v against what the implementation reported.  Comparison inside Coq;
   column sets are compared as sets. *)
From Coq Require Import List Bool Arith String.
Import ListNotations.
From DA Require Import Base.PyRT Base.Cases Base.Val Model.Sem Model.ColumnsUsed.
Local Open Scope list_scope.

Definition report := list (string * list string).
Definition same_report (a b : report) : bool :=
  set_eqb (map fst a) (map fst b) && forallb (fun k => set_eqb (rec_of a k) (rec_of b k)) (map fst a).
Fixpoint same_sets (a b : list (list string)) : bool :=
  match a, b with [], [] => true | x :: t, y :: u => set_eqb x y && same_sets t u | _, _ => false end.

Inductive case :=
  (* ops.columns_used() of the real DAG (ids = identity of the node objects along the tree unfolding); None = it raised *)
  | CCu (p : op) (ids : idt) (obs : option report)
  (* ops.columns_used(using=u) *)
  | CCuUsing (p : op) (ids : idt) (u : list string) (obs : option report)
  (* the real pipeline was accepted by the builders and its node ids are consistent (hypotheses of the theorems) *)
  | CWf (p : op) (ids : idt)
  (* rebuilding the DAG on table descriptions narrowed to the report cu: column_names of the rebuilt DAG, None = a builder raised *)
  | CRebuild (p : op) (cu : report) (obs : option (list string))
  (* node.columns_used_from_sources(using) for one node (sources replaced by table stubs with the same columns) *)
  | CNode (n : op) (u : list string) (obs : list (list string)).

Definition case_ok (c : case) : bool :=
  match c with
  | CCu p ids obs =>
      match columns_used p ids, obs with Some m, Some o => same_report m o | None, None => true | _, _ => false end
  | CCuUsing p ids u obs =>
      match columns_used_using p ids (Some u), obs with Some m, Some o => same_report m o | None, None => true | _, _ => false end
  | CWf p ids => builder_ok p && ids_okb (cn_of p ids) p ids
  | CRebuild p cu obs =>
      match obs with
      (* the column SET: Sem.column_names lists a join's columns left-then-right, NaturalJoinNode re-uses b's order when the
         joined set equals b's; the order is not part of C10 *)
      | Some cs => builder_ok (narrow_to cu p) && set_eqb (column_names (narrow_to cu p)) cs
                   && Nat.eqb (List.length (column_names (narrow_to cu p))) (List.length cs)
      | None => negb (builder_ok (narrow_to cu p))
      end
  | CNode n u obs => same_sets (cols_from_sources n u) obs
  end.
Definition check_cases (cs : list case) : list nat := failing_idx case_ok cs.
