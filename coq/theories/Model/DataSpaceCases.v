(* correspondence driver for C20: tables are single integer columns, pipelines are "read table k, x := x + c" *)
From Coq Require Import List Bool ZArith String Ascii.
From Coq Require Import DecimalString.
Import ListNotations.
From DA Require Import Base.PyRT Base.Cases Model.DataSpace.

Definition tval := list Z.
Definition pipe := (string * Z)%type.
Definition evalp (d : pydict string tval) (p : pipe) : option tval := option_map (map (Z.add (snd p))) (dict_get d (fst p)).
Definition name_of (n : nat) : string := ("da_temp_" ++ NilEmpty.string_of_uint (Nat.to_uint n))%string.

Definition out_eqb (a b : @dout tval) : bool :=
  match a, b with
  | OKey x, OKey y => eqb x y
  | OVal x, OVal y => eqb x y
  | OKeys x, OKeys y => set_eqb x y
  | OUnit, OUnit => true
  | OFail, OFail => true
  | _, _ => false
  end.

Fixpoint run_m (s : mstate) (ops : list (@dop tval pipe)) : list dout :=
  match ops with [] => [] | o :: t => let '(s', r) := m_step evalp name_of s o in r :: run_m s' t end.
Fixpoint run_d (s : dstate) (ops : list (@dop tval pipe)) : list dout :=
  match ops with [] => [] | o :: t => let '(s', r) := d_step evalp name_of s o in r :: run_d s' t end.
Fixpoint outs_eqb (a b : list (@dout tval)) : bool :=
  match a, b with [], [] => true | x :: t, y :: u => out_eqb x y && outs_eqb t u | _, _ => false end.

(* case: (is_db, ops, observed outputs) *)
Definition case_ok (c : bool * list (@dop tval pipe) * list (@dout tval)) : bool :=
  let '(isdb, ops, e) := c in
  outs_eqb (if isdb then run_d d_init ops else run_m m_init ops) e.
Definition check_cases cs : list nat := failing_idx case_ok cs.
