(* Model/PipePrintSyn.v -- C12, the TOKEN level of printed pipelines: the Python subset that
   ViewRepresentation.to_python / *.to_python_src_ / RecordMap.__repr__ / RecordSpecification.__repr__ emit, and that
   expr_parse_fn.eval_da_ops hands to Python's `eval`.

     ptok     : what Python's tokenizer delivers (layout dropped).  A STRING token carries its SOURCE TEXT (quotes and
                escapes included); its value is Model/PipePrintStr.py_unquote of that text.
     syn      : syntax trees of the subset: literals, lists, tuples, dicts, parenthesised expressions, calls of dotted global
                names with positional / keyword arguments, method calls.
     flatten  : syn -> tokens (how the printers lay a tree out, commas and all).
     parse_py : tokens -> syn, a total shift-reduce parser (bracket stack; a piece between commas is reduced to a tree
                when the comma / closing bracket arrives).  CPython's parser is NOT modelled; on the printed subset the
                two agree (correspondence on every run; `parse_py (flatten s) = Some s` is a theorem).
   No proofs here. *)
From Coq Require Import List Bool String Ascii NArith Arith.
Import ListNotations.
From DA Require Import Model.PipePrintStr.
Local Open Scope string_scope.
Local Open Scope bool_scope.
Local Open Scope list_scope.

Inductive ptok :=
| TkName (s : string)
| TkInt (n : N)
| TkStr (lit : string)
| TkSym (s : string).

Definition ptok_eqb (a b : ptok) : bool :=
  match a, b with
  | TkName x, TkName y | TkStr x, TkStr y | TkSym x, TkSym y => String.eqb x y
  | TkInt x, TkInt y => N.eqb x y
  | _, _ => false
  end.

Definition sarg (S : Type) : Type := (option string * S)%type.

Inductive syn :=
| SAtom (t : ptok)                                        (* a string / integer literal, None, True, False *)
| SList (xs : list syn)
| STuple (xs : list syn)
| SDict (trailing : bool) (kvs : list (syn * syn))        (* trailing: a comma before the closing brace *)
| SPar (x : syn)
| SCall (path : list string) (args : list (option string * syn))      (* NAME ("." NAME)* "(" args ")" *)
| SMeth (recv : syn) (m : string) (args : list (option string * syn)).   (* recv "." NAME "(" args ")" *)

Definition const_names : list string := ["None"; "True"; "False"].
Definition is_const_name (s : string) : bool := smem s const_names.

(* ------------------------------------------------------------------ layout *)
Fixpoint tjoin (sep : list ptok) (parts : list (list ptok)) : list ptok :=
  match parts with
  | [] => []
  | [p] => p
  | p :: more => p ++ sep ++ tjoin sep more
  end.

Fixpoint path_toks (path : list string) : list ptok :=
  match path with
  | [] => []
  | [n] => [TkName n]
  | n :: more => TkName n :: TkSym "." :: path_toks more
  end.

Fixpoint flatten (s : syn) : list ptok :=
  let fargs (args : list (option string * syn)) : list ptok :=
    TkSym "(" :: tjoin [TkSym ","] (map (fun a => match fst a with
                                             | Some k => TkName k :: TkSym "=" :: flatten (snd a)
                                             | None => flatten (snd a)
                                             end) args) ++ [TkSym ")"] in
  match s with
  | SAtom t => [t]
  | SList xs => TkSym "[" :: tjoin [TkSym ","] (map flatten xs) ++ [TkSym "]"]
  | STuple xs => TkSym "(" :: tjoin [TkSym ","] (map flatten xs) ++ [TkSym ")"]
  | SDict tr kvs =>
      TkSym "{" :: tjoin [TkSym ","] (map (fun kv => flatten (fst kv) ++ TkSym ":" :: flatten (snd kv)) kvs)
        ++ (if tr && negb (match kvs with [] => true | _ => false end) then [TkSym ","] else []) ++ [TkSym "}"]
  | SPar x => TkSym "(" :: flatten x ++ [TkSym ")"]
  | SCall path args => path_toks path ++ fargs args
  | SMeth recv m args => flatten recv ++ TkSym "." :: TkName m :: fargs args
  end.

(* ------------------------------------------------------------------ parser *)
(* the elements of one piece (the text between two commas of a bracket, or the whole text) *)
Inductive el :=
| ETok (t : ptok)
| ESyn (s : syn)                                   (* a reduced bracket: list, tuple, dict, parenthesised expression *)
| EArgs (args : list (option string * syn)).       (* a reduced argument list *)

Definition ksym_is (t : ptok) (s : string) : bool := match t with TkSym x => String.eqb x s | _ => false end.

(* method-call trailers:  "." NAME "(" args ")" ... *)
Fixpoint trailers (acc : syn) (es : list el) : option syn :=
  match es with
  | [] => Some acc
  | ETok d :: ETok (TkName m) :: EArgs a :: r => if ksym_is d "." then trailers (SMeth acc m a) r else None
  | _ => None
  end.

(* NAME ("." NAME)* "(" args ")" trailers *)
Fixpoint path_go (acc : list string) (es : list el) : option syn :=
  match es with
  | EArgs a :: r => trailers (SCall (rev acc) a) r
  | ETok d :: ETok (TkName m) :: r => if ksym_is d "." then path_go (m :: acc) r else None
  | _ => None
  end.

Definition mk_chain (es : list el) : option syn :=
  match es with
  | [ETok (TkStr l)] => Some (SAtom (TkStr l))
  | [ETok (TkInt n)] => Some (SAtom (TkInt n))
  | ETok (TkName n) :: r =>
      if is_const_name n then match r with [] => Some (SAtom (TkName n)) | _ => None end
      else path_go [n] r
  | ESyn s :: r => trailers s r
  | _ => None
  end.

Inductive bk := BCall | BParen | BList | BDict.
Inductive pend := PNo | PKw (k : string) | PKey (k : syn).
Inductive item := IPos (x : syn) | IKw (k : string) (x : syn) | IKV (k v : syn).

Record frame := mkfr {
  fk : bk;
  fitems : list item;        (* finished items, last first *)
  fcomma : bool;             (* a comma has been seen in this bracket *)
  fpend : pend;              (* `name =` or `key :` waiting for its value *)
  fpiece : list el           (* the current piece, last element first *)
}.

Definition new_frame (k : bk) : frame := mkfr k [] false PNo [].
Definition push_el (e : el) (f : frame) : frame := mkfr (fk f) (fitems f) (fcomma f) (fpend f) (e :: fpiece f).

(* the current piece becomes an item *)
Definition add_item (f : frame) : option frame :=
  match mk_chain (rev (fpiece f)) with
  | None => None
  | Some x =>
      let it :=
        match fk f, fpend f with
        | BCall, PNo => Some (IPos x)
        | BCall, PKw k => Some (IKw k x)
        | BParen, PNo | BList, PNo => Some (IPos x)
        | BDict, PKey k => Some (IKV k x)
        | _, _ => None
        end in
      match it with
      | Some i => Some (mkfr (fk f) (i :: fitems f) (fcomma f) PNo [])
      | None => None
      end
  end.

Definition piece_empty (f : frame) : bool :=
  match fpiece f, fpend f with [], PNo => true | _, _ => false end.

Fixpoint pos_items (l : list item) : option (list syn) :=
  match l with
  | [] => Some []
  | IPos x :: t => option_map (cons x) (pos_items t)
  | _ :: _ => None
  end.
Fixpoint kv_items (l : list item) : option (list (syn * syn)) :=
  match l with
  | [] => Some []
  | IKV k v :: t => option_map (cons (k, v)) (kv_items t)
  | _ :: _ => None
  end.
Fixpoint arg_items (l : list item) : option (list (option string * syn)) :=
  match l with
  | [] => Some []
  | IPos x :: t => option_map (cons (None, x)) (arg_items t)
  | IKw k x :: t => option_map (cons (Some k, x)) (arg_items t)
  | IKV _ _ :: _ => None
  end.

(* the closing bracket: the value of the bracket as an element of the enclosing piece *)
Definition close_frame (f : frame) : option el :=
  let f' := if piece_empty f then (if fcomma f || match fitems f with [] => true | _ => false end then Some f else None)
            else add_item f in
  match f' with
  | None => None
  | Some g =>
      let items := rev (fitems g) in
      let trailing := piece_empty f && fcomma f in
      match fk g with
      | BCall => option_map EArgs (arg_items items)
      | BParen =>
          match pos_items items with
          | Some [x] => if fcomma g then Some (ESyn (STuple [x])) else Some (ESyn (SPar x))
          | Some xs => Some (ESyn (STuple xs))
          | None => None
          end
      | BList => option_map (fun xs => ESyn (SList xs)) (pos_items items)
      | BDict => option_map (fun kvs => ESyn (SDict trailing kvs)) (kv_items items)
      end
  end.

Definition closes (k : bk) (s : string) : bool :=
  match k with
  | BCall | BParen => String.eqb s ")"
  | BList => String.eqb s "]"
  | BDict => String.eqb s "}"
  end.

Definition head_is_callee (f : frame) : bool :=
  match fpiece f with
  | ETok (TkName n) :: _ => negb (is_const_name n)
  | _ => false
  end.

Fixpoint pscan (ts : list ptok) (cur : frame) (stack : list frame) : option syn :=
  match ts with
  | [] => match stack with
          | [] => if match fitems cur, fpend cur with [], PNo => negb (fcomma cur) | _, _ => false end
                  then mk_chain (rev (fpiece cur)) else None
          | _ => None
          end
  | t :: ts' =>
      match t with
      | TkSym s =>
          if String.eqb s "(" then pscan ts' (new_frame (if head_is_callee cur then BCall else BParen)) (cur :: stack)
          else if String.eqb s "[" then pscan ts' (new_frame BList) (cur :: stack)
          else if String.eqb s "{" then pscan ts' (new_frame BDict) (cur :: stack)
          else if String.eqb s "," then
            match stack with
            | [] => None                                     (* a bare tuple at top level: not in the subset *)
            | _ => match add_item cur with
                   | Some f => pscan ts' (mkfr (fk f) (fitems f) true PNo []) stack
                   | None => None
                   end
            end
          else if String.eqb s ":" then
            match fk cur, fpend cur, mk_chain (rev (fpiece cur)) with
            | BDict, PNo, Some k => pscan ts' (mkfr BDict (fitems cur) (fcomma cur) (PKey k) []) stack
            | _, _, _ => None
            end
          else if String.eqb s "=" then
            match fk cur, fpend cur, fpiece cur with
            | BCall, PNo, [ETok (TkName k)] => pscan ts' (mkfr BCall (fitems cur) (fcomma cur) (PKw k) []) stack
            | _, _, _ => None
            end
          else if String.eqb s ")" || String.eqb s "]" || String.eqb s "}" then
            match stack with
            | parent :: st =>
                if closes (fk cur) s then
                  match close_frame cur with
                  | Some e => pscan ts' (push_el e parent) st
                  | None => None
                  end
                else None
            | [] => None
            end
          else pscan ts' (push_el (ETok t) cur) stack
      | _ => pscan ts' (push_el (ETok t) cur) stack
      end
  end.

Definition parse_py (ts : list ptok) : option syn := pscan ts (new_frame BParen) [].

(* ------------------------------------------------------------------ vocabulary of the parser theorem *)
(* trees that the layout represents faithfully: atoms are literals, tuples have two or more items, paths are non-empty
   and method names are not None / True / False, the receiver of a method call is itself a
   call, a method call or a bracket *)
Definition atom_ok (t : ptok) : bool :=
  match t with TkStr _ | TkInt _ => true | TkName n => is_const_name n | TkSym _ => false end.
Definition recv_ok (s : syn) : bool := match s with SAtom _ => false | _ => true end.
Definition nonempty_path (p : list string) : bool := match p with [] => false | _ => true end.

Fixpoint wf_syn (s : syn) : bool :=
  let wargs (args : list (option string * syn)) : bool := forallb (fun a => wf_syn (snd a)) args in
  match s with
  | SAtom t => atom_ok t
  | SList xs => forallb wf_syn xs
  | STuple xs => Nat.leb 2 (List.length xs) && forallb wf_syn xs
  | SDict tr kvs => forallb (fun kv => wf_syn (fst kv) && wf_syn (snd kv)) kvs
                    && (negb tr || negb (match kvs with [] => true | _ => false end))
  | SPar x => wf_syn x
  | SCall path args =>
      nonempty_path path && forallb (fun n => negb (is_const_name n)) path && wargs args
  | SMeth recv m args => recv_ok recv && negb (is_const_name m) && wf_syn recv && wargs args
  end.
