(* Hand model of the WITH-form conversion of data_algebra/near_sql.py:
     NearSQLContainer.to_with_form_stub, NearSQL*.to_with_form, SQLWithList,
   and of the common-table-expression cache `cte_cache` that SQLModel.to_sql passes in when
   use_cte_elim is on and the dialect supports it.  Transcribed branch by branch.

   cache : the Python dict  key -> NearSQLCommonTableExpression, in insertion order (dict_set appends an absent key).
   key   : what to_with_form_stub builds:  f"{near_sql.ops_key}"  and, when the container narrows columns,
           f"{ops_key}_{list(columns)}".   NOTE the f-string turns an ops_key of None into the text "None", so the
           following tests `ops_key is not None` never fail (flag f_none_key_uncached = the repaired behaviour).
   py_list_repr is Python's repr of a list of str for names without quotes, backslashes or non-printable characters
   (modelled for those; the generated pipelines use such names). *)
From Coq Require Import List Bool Arith String Ascii.
Import ListNotations.
From DA Require Import Base.PyRT Model.NearSql.
Local Open Scope string_scope.
Local Open Scope list_scope.
Infix "+++" := String.append (right associativity, at level 60).

Definition cache := list (string * nearsql).
Definition wseq := list (string * container).

Fixpoint str_join (sep : string) (l : list string) : string :=
  match l with [] => "" | [x] => x | x :: t => x +++ sep +++ str_join sep t end.
Definition py_repr_str (s : string) : string := "'" +++ s +++ "'".
Definition py_list_repr (l : list string) : string := "[" +++ str_join ", " (map py_repr_str l) +++ "]".

Definition mk_key (fl : flags) (ok : option string) (cols : option (list string)) : option string :=
  let withcols s := match cols with Some c => s +++ "_" +++ py_list_repr c | None => s end in
  match ok with
  | Some k => Some (withcols k)
  | None => if f_none_key_uncached fl then None else Some (withcols "None")
  end.

Definition oc_lookup (oc : option cache) (k : option string) : option nearsql :=
  match oc, k with Some c, Some k => dict_get c k | _, _ => None end.
Definition oc_insert (oc : option cache) (k : option string) (v : nearsql) : option cache :=
  match oc, k with Some c, Some k => Some (dict_set c k v) | _, _ => oc end.

(* to_with_form_stub, after `self.near_sql.to_with_form(cte_cache=...)` returned r = (previous_steps, last_step, cache) *)
Definition stub_step (fl : flags) (s : nearsql) (ci : cinfo) (r : wseq * nearsql * option cache)
  : container * wseq * option cache :=
  let '(sq, last, oc) := r in
  if is_table last then ((last, mk_ci (ccols ci) true (cpub ci)), sq, oc)      (* the code asserts sq = [] here *)
  else
    let key := mk_key fl (ops_key s) (ccols ci) in
    match oc_lookup oc key with
    | Some cte => ((cte, ci), [], oc)                                          (* reuse: the steps just computed are dropped *)
    | None =>
        let sq' := if mem (qname last) (map fst sq) then sq
                   else sq ++ [(qname last, (last, mk_ci (ccols ci) (cforce ci) None))] in
        let cte := NCte (qname last) key in
        ((cte, ci), sq', oc_insert oc key cte)
    end.

(* NearSQLBinaryStep.to_with_form: second sequence appended, skipping names already seen *)
Fixpoint merge_seq (seen : list string) (sq : wseq) : wseq :=
  match sq with
  | [] => []
  | (n, c) :: t => if mem n seen then merge_seq seen t else (n, c) :: merge_seq (n :: seen) t
  end.

Fixpoint twf (fl : flags) (oc : option cache) (q : nearsql) : wseq * nearsql * option cache :=
  match q with
  | NTable _ _ | NCte _ _ | NRaw0 _ _ _ _ _ _ => ([], q, oc)
  | NUnary n t s ci sfx an mg dp k =>
      if is_table s then ([], q, oc) else
      let '(st, sq, oc') := stub_step fl s ci (twf fl oc s) in
      (sq, NUnary n (norm_terms t) (fst st) (snd st) sfx an false None k, oc')
  | NBinary n t s1 c1 j s2 c2 sfx an k =>
      if is_table s1 && is_table s2 then ([], q, oc) else
      let '(st1, sq1, oc1) := if is_table s1 then ((s1, c1), [], oc) else stub_step fl s1 c1 (twf fl oc s1) in
      let '(st2, sq2, oc2) := if is_table s2 then ((s2, c2), [], oc1) else stub_step fl s2 c2 (twf fl oc1 s2) in
      (sq1 ++ merge_seq (map fst sq1) sq2,
       NBinary n (norm_terms t) (fst st1) (snd st1) j (fst st2) (snd st2) sfx an k, oc2)
  | NRaw1 n p s ci sfx an a k =>
      if is_table s then ([], q, oc) else
      let '(st, sq, oc') := stub_step fl s ci (twf fl oc s) in
      (sq, NRaw1 n p (fst st) (snd st) sfx an a k, oc')
  end.

Record withlist := mk_wl { w_prev : wseq; w_last : nearsql }.

Definition to_with_form (fl : flags) (oc : option cache) (q : nearsql) : withlist * option cache :=
  let '(sq, last, oc') := twf fl oc q in (mk_wl sq last, oc').

(* the assertions of SQLWithList.__init__ *)
Definition withlist_ok (w : withlist) : bool :=
  forallb (fun nc => negb (is_table (fst (snd nc)))) (w_prev w)
  && nodupb (map fst (w_prev w))
  && (is_table (w_last w) || negb (mem (qname (w_last w)) (map fst (w_prev w)))).

(* ------------------------------------------------------------------ inlining the common table expressions again *)
Fixpoint subst (m : list (string * nearsql)) (q : nearsql) : nearsql :=
  match q with
  | NTable _ _ | NCte _ _ | NRaw0 _ _ _ _ _ _ => q
  | NUnary n t s ci sfx an mg dp k =>
      NUnary n t (match s with NCte c _ => match dict_get m c with Some d => d | None => s end | _ => subst m s end)
             ci sfx an mg dp k
  | NBinary n t s1 c1 j s2 c2 sfx an k =>
      NBinary n t (match s1 with NCte c _ => match dict_get m c with Some d => d | None => s1 end | _ => subst m s1 end) c1 j
                  (match s2 with NCte c _ => match dict_get m c with Some d => d | None => s2 end | _ => subst m s2 end) c2
              sfx an k
  | NRaw1 n p s ci sfx an a k =>
      NRaw1 n p (match s with NCte c _ => match dict_get m c with Some d => d | None => s end | _ => subst m s end)
            ci sfx an a k
  end.
Definition inline_defs (sq : wseq) : list (string * nearsql) :=
  fold_left (fun m nc => (fst nc, subst m (fst (snd nc))) :: m) sq [].
Definition inline_ctes (w : withlist) : nearsql := subst (inline_defs (w_prev w)) (w_last w).

(* ------------------------------------------------------------------ meaning of a WITH list *)
Section WSem.
Variable T : Type.
Variable E : engine T.

(* `name AS ( step.convert_subsql() )`, left to right: each step sees the earlier ones *)
Definition run_steps (r : env T) (sq : wseq) : env T :=
  fold_left (fun r nc => bind (fst nc) (nsem E r (fst (snd nc)) (ccols (snd (snd nc)))) r) sq r.
Definition nsem_with (r : env T) (w : withlist) : T := nsem E (run_steps r (w_prev w)) (w_last w) None.
End WSem.
Arguments run_steps {T}. Arguments nsem_with {T}.

(* ------------------------------------------------------------------ what the cache compares *)
(* the non-table sub-query containers of a query (the only things to_with_form_stub caches), anywhere in it *)
Fixpoint conts (q : nearsql) : list container :=
  match q with
  | NTable _ _ | NCte _ _ | NRaw0 _ _ _ _ _ _ => []
  | NUnary _ _ s ci _ _ _ _ _ | NRaw1 _ _ s ci _ _ _ _ => (if is_table s then [] else [(s, ci)]) ++ conts s
  | NBinary _ _ s1 c1 _ s2 c2 _ _ _ =>
      ((if is_table s1 then [] else [(s1, c1)]) ++ conts s1) ++ ((if is_table s2 then [] else [(s2, c2)]) ++ conts s2)
  end.
Definition ckey (fl : flags) (c : container) : option string := mk_key fl (ops_key (fst c)) (ccols (snd c)).

(* the cache keys (those that are not None) of the sub-query containers of q, anywhere below it *)
Definition okeys (o : option string) : list string := match o with Some k => [k] | None => [] end.
Definition desc_keys (fl : flags) (q : nearsql) : list string := flat_map (fun c => okeys (ckey fl c)) (conts q).

(* THE invariant CTE elimination relies on.  Within one query, two sub-queries with the same cache key
   (1) denote the same table, for every binding of the names they mention,
   (2) have the same set of cache keys below them, and
   (3) the key does not occur again below them. *)
Definition cache_sound {T} (E : engine T) (fl : flags) (q : nearsql) : Prop :=
  forall c1 c2 k, In c1 (conts q) -> In c2 (conts q) -> ckey fl c1 = Some k -> ckey fl c2 = Some k ->
    (forall r, csem E r c1 = csem E r c2)
    /\ (forall k', In k' (desc_keys fl (fst c1)) <-> In k' (desc_keys fl (fst c2)))
    /\ ~ In k (desc_keys fl (fst c1)).
