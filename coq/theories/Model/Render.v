(* Hand model of the text generation of data_algebra/sql_model.py:
     SQLModel.to_sql, nearsql{table,cte,unary,binary,rawq}_to_sql_str_list_, NearSQLContainer.convert_subsql,
     _indent_and_sep_terms, enc_term_, and the use of _clean_annotation (REGENERATED, Gen/G_Quote.v) for annotation comments.

   The code builds a list of lines.  The model builds, independently of the layout options, a list of BLOCKS
   (a line with an indentation depth, or a whole SELECT list), and only `block_lines` looks at the layout options
   (annotate, initial_commas, sql_indent): it expands a block to lines made of ITEMS -- tokens, white space, comments.
   The text is the concatenation of the items (then, as in to_sql: rstrip every line, drop empty lines, join with newlines);
   the token stream is the items that are tokens.  Opaque SQL text (an expression, a suffix line, a name) is ONE token.

   quote_identifier is the regenerated one; an identifier containing the quote character makes the code raise: `qid` then
   yields the empty string and the case is outside the model (C14 is about that). *)
From Coq Require Import List Bool Arith String Ascii.
Import ListNotations.
From DA Require Import Base.PyRT Base.PyStr Model.NearSql Model.WithForm Gen.G_Quote.
Local Open Scope string_scope.
Local Open Scope list_scope.
Infix "+++" := String.append (right associativity, at level 60).

Record opts := mk_opts { use_with : bool; use_cte_elim : bool; annotate : bool; initial_commas : bool; sql_indent : string }.
Record dialect := mk_dialect { d_iq : string; d_sq : string; d_descr : string; supports_with : bool; supports_cte_elim : bool }.

Definition qid (d : dialect) (k : string) : string := match quote_identifier (d_iq d) k with Some s => s | None => "" end.
Definition clean (a : string) : string := match _clean_annotation (Some a) with Some c => c | None => "" end.

(* ------------------------------------------------------------------ blocks (independent of the layout options) *)
Inductive bcontent :=
| BText (s : string)                 (* a line of verbatim text: keyword, name, suffix line, parenthesis *)
| BSelect (anno : option string)     (* SELECT, with the step's annotation (shown as a comment under `annotate`) *)
| BComment (anno : string)           (* a comment line that is written whatever `annotate` says (raw query steps) *)
| BHeader (s : string)               (* a comment line of to_sql's preamble (only under `annotate`) *)
| BTerms (ts : list string).         (* a SELECT list: _indent_and_sep_terms *)
Record block := mk_b { b_ind : nat; b_c : bcontent }.

Definition txt (s : string) : block := mk_b 0 (BText s).
Definition add_ind (n : nat) (bs : list block) : list block := map (fun b => mk_b (n + b_ind b) (b_c b)) bs.

(* enc_term_ *)
Definition enc_term (d : dialect) (tms : terms) (k : string) : string :=
  match dict_get tms k with
  | Some (Some v) => if String.eqb v k then qid d k else v +++ " AS " +++ qid d k
  | _ => qid d k
  end.

Definition lower_char (c : ascii) : ascii :=
  let n := nat_of_ascii c in if (Nat.leb 65 n && Nat.leb n 90) then ascii_of_nat (n + 32) else c.
Fixpoint lower (s : string) : string := match s with EmptyString => EmptyString | String c r => String (lower_char c) (lower r) end.
Definition is_union (joiner : string) : bool := str_contains "union" (lower joiner).

Definition is_nil {A} (l : list A) : bool := match l with [] => true | _ => false end.
Definition nonempty_str (s : string) : bool := match s with EmptyString => false | _ => true end.
Definition anno_of (a : option string) : option string :=
  match a with Some s => if nonempty_str s then Some s else None | None => None end.

(* NearSQLContainer.convert_subsql, given `rec` = near_sql.to_sql_str_list of the contained step *)
Definition conv (rec : option (list string) -> bool -> list block) (s : nearsql) (ci : cinfo) (alias : option string) : list block :=
  let non_trivial := match alias with Some a => negb (String.eqb a (qname s)) | None => false end in
  if is_table s && negb (cforce ci) then
    [txt (match alias with Some a => if non_trivial then qname s +++ " " +++ a else qname s | None => qname s end)]
  else
    let sql := rec (ccols ci) (cforce ci || non_trivial) in
    match alias with Some a => [txt "("] ++ sql ++ [txt (") " +++ a)] | None => sql end.

(* the repaired nearsqlbinary_to_sql_str_list_: does the operand's own text end in ORDER BY / LIMIT?
   (a suffix line si with si.strip().upper().startswith(("ORDER BY", "LIMIT"))) *)
Definition upper_char (c : ascii) : ascii :=
  let n := nat_of_ascii c in if (Nat.leb 97 n && Nat.leb n 122) then ascii_of_nat (n - 32) else c.
Fixpoint upper (s : string) : string := match s with EmptyString => EmptyString | String c r => String (upper_char c) (upper r) end.
Definition starts_with (p s : string) : bool := match strip_prefix p s with Some _ => true | None => false end.
Definition ordered_line (s : string) : bool :=
  let u := upper (lstrip s) in starts_with "ORDER BY" u || starts_with "LIMIT" u.
Definition node_sfx (q : nearsql) : list string :=
  match q with
  | NUnary _ _ _ _ sfx _ _ _ _ | NBinary _ _ _ _ _ _ _ sfx _ _ | NRaw0 _ _ sfx _ _ _ | NRaw1 _ _ _ _ sfx _ _ _ => sfx
  | _ => []
  end.
Definition wrap_operand (fl : flags) (is_u : bool) (s : nearsql) (bs : list block) : list block :=
  if f_union_wraps_ordered fl && is_u && negb (is_table s) && existsb ordered_line (node_sfx s)
  then [txt "SELECT"; mk_b 1 (BText "*"); txt "FROM"; txt "("] ++ add_ind 1 bs ++ [txt (") " +++ qname s)]
  else bs.

Definition star_if_empty (l : list string) : list string := match l with [] => ["*"] | _ => l end.

(* q.to_sql_str_list(columns=cols, force_sql=force) *)
Fixpoint to_blocks (fl : flags) (d : dialect) (q : nearsql) (cols : option (list string)) (force : bool) : list block :=
  match q with
  | NTable n tms =>
      let columns := match cols with Some c => c | None => match tms with Some t => map fst t | None => [] end end in
      if force then [mk_b 0 (BSelect None); mk_b 1 (BTerms (star_if_empty (map (qid d) columns))); txt "FROM"; mk_b 1 (BText n)]
      else [txt n]
  | NCte n _ =>
      if force then [txt "SELECT"; mk_b 1 (BText "*"); txt "FROM "; mk_b 1 (BText n)] else [txt n]
  | NUnary _ tms s ci sfx an _ _ _ =>
      let strs := match tms with
                  | None => ["*"]
                  | Some t =>
                      let columns := match cols with Some c => c | None => map fst t end in
                      let s1 := map (enc_term d t) columns in
                      let s2 := if is_nil s1 && negb (is_nil t) then map (enc_term d t) (map fst t) else s1 in
                      star_if_empty s2
                  end in
      [mk_b 0 (BSelect (anno_of an)); mk_b 1 (BTerms strs); txt "FROM"]
      ++ add_ind 1 (conv (to_blocks fl d s) s ci (Some (qname s)))
      ++ map txt sfx
  | NBinary n tms s1 c1 j s2 c2 sfx an _ =>
      let t := match tms with Some t => t | None => [] end in
      let columns := match cols with Some c => c | None => map fst t end in
      let strs := star_if_empty (map (enc_term d t) columns) in
      let u := is_union j in
      [mk_b 0 (BSelect (anno_of an)); mk_b 1 (BTerms strs); txt "FROM"; txt "("]
      ++ add_ind 1 (wrap_operand fl u s1 (conv (to_blocks fl d s1) s1 c1 (if u then None else cpub c1)))
      ++ [txt j]
      ++ add_ind 1 (wrap_operand fl u s2 (conv (to_blocks fl d s2) s2 c2 (if u then None else cpub c2)))
      ++ map txt sfx
      ++ [txt (if u && nonempty_str n then ") " +++ n else ")")]
  | NRaw0 _ p sfx an a _ =>
      (match an with Some x => [mk_b 0 (BComment x)] | None => [] end)
      ++ (if a then [txt "SELECT"] else [])
      ++ map (fun v => txt (" " +++ v)) p
      ++ map (fun v => txt (" " +++ v)) sfx
  | NRaw1 _ p s ci sfx an a _ =>
      (match an with Some x => [mk_b 0 (BComment x)] | None => [] end)
      ++ (if a then [txt "SELECT"] else [])
      ++ map (fun v => txt (" " +++ v)) p
      ++ add_ind 1 (conv (to_blocks fl d s) s ci (Some (qname s)))
      ++ map (fun v => txt (" " +++ v)) sfx
  end.

(* the WITH list as to_sql writes it *)
Fixpoint with_steps (fl : flags) (d : dialect) (sq : wseq) : list block :=
  match sq with
  | [] => []
  | (nm, (s, ci)) :: rest =>
      [mk_b 1 (BText (nm +++ " AS ("))]
      ++ add_ind 2 (conv (to_blocks fl d s) s ci None)
      ++ [mk_b 1 (BText (if is_nil rest then ")" else ") ,"))]
      ++ with_steps fl d rest
  end.

Definition header (d : dialect) : list block :=
  [mk_b 0 (BHeader "-- data_algebra SQL https://github.com/WinVector/data_algebra");
   mk_b 0 (BHeader ("--  dialect: " +++ d_descr d));
   mk_b 0 (BHeader ("--       string quote: " +++ d_sq d));
   mk_b 0 (BHeader ("--   identifier quote: " +++ d_iq d))].

(* SQLModel.to_sql: which blocks; only use_with / use_cte_elim (and the dialect) matter here *)
Definition to_sql_blocks (d : dialect) (fl : flags) (o : opts) (q : nearsql) : list block :=
  let body :=
    if use_with o && supports_with d then
      let oc := if use_cte_elim o && supports_with d && supports_cte_elim d then Some [] else None in
      let w := fst (to_with_form fl oc q) in
      match w_prev w with
      | [] => to_blocks fl d q None true
      | _ :: _ => [txt "WITH"] ++ with_steps fl d (w_prev w) ++ to_blocks fl d (w_last w) None true
      end
    else to_blocks fl d q None true in
  header d ++ body.

(* ------------------------------------------------------------------ lines of items (the layout options act here) *)
Inductive item := ITok (s : string) | IWs (s : string) | IComment (s : string).
Definition item_text (i : item) : string := match i with ITok s | IWs s | IComment s => s end.

Fixpoint repeat_str (s : string) (n : nat) : string := match n with O => "" | S m => s +++ repeat_str s m end.

Fixpoint terms_lines (o : opts) (ind : string) (first : bool) (ts : list string) : list (list item) :=
  match ts with
  | [] => []
  | t :: rest =>
      (if initial_commas o
       then [IWs ind; (if first then IWs " " else ITok ","); IWs " "; ITok t]
       else [IWs ind; ITok t] ++ (if is_nil rest then [] else [IWs " "; ITok ","]))
      :: terms_lines o ind false rest
  end.

Definition block_lines (o : opts) (b : block) : list (list item) :=
  let ind := repeat_str (sql_indent o) (b_ind b) in
  match b_c b with
  | BText s => [[IWs ind; ITok s]]
  | BSelect None => [[IWs ind; ITok "SELECT"]]
  | BSelect (Some a) => if annotate o then [[IWs ind; ITok "SELECT"; IWs "  "; IComment ("-- " +++ clean a)]]
                        else [[IWs ind; ITok "SELECT"]]
  | BComment a => [[IWs ind; IComment ("-- " +++ clean a)]]
  | BHeader s => if annotate o then [[IWs ind; IComment s]] else []
  | BTerms ts => terms_lines o ind true ts
  end.

Definition sql_lines (o : opts) (bs : list block) : list (list item) := flat_map (block_lines o) bs.

Fixpoint concat_str (l : list string) : string := match l with [] => "" | x :: t => x +++ concat_str t end.
Definition line_text (l : list item) : string := concat_str (map item_text l).

(* to_sql's last lines: rstrip, drop empty lines, join with newlines, final newline *)
Definition finish (ls : list string) : string :=
  str_join (String "010"%char EmptyString) (filter nonempty_str (map rstrip ls)) +++ String "010"%char EmptyString.

Definition sql_text (o : opts) (bs : list block) : string := finish (map line_text (sql_lines o bs)).
Definition to_sql (d : dialect) (fl : flags) (o : opts) (q : nearsql) : string := sql_text o (to_sql_blocks d fl o q).

(* the token stream of the text: the items that are tokens, in order *)
Definition tok_of (i : item) : list string := match i with ITok s => [s] | _ => [] end.
Definition toks (o : opts) (bs : list block) : list string := flat_map (flat_map tok_of) (sql_lines o bs).
