(* correspondence for try_to_merge_ops: expressions are abstracted to (id, columns used) *)
From Coq Require Import List Bool String ZArith.
Import ListNotations.
From DA Require Import Base.PyRT Base.Cases Base.Val Model.Extend Gen.G_MergeOps.
Definition mexpr := (Z * list string)%type.
Definition mdeps (e : mexpr) : list string := snd e.
(* case: ops1, ops2, observed result (None | Some of key -> expression id) *)
Definition mcase := (pydict string mexpr * pydict string mexpr * option (list (string * Z)))%type.
Definition mcase_ok (c : mcase) : bool :=
  let '(o1, o2, e) := c in
  match try_to_merge_ops (get_columns_used mdeps) o1 o2, e with
  | None, None => true
  | Some m, Some l => eqb (map (fun kv => (fst kv, fst (snd kv))) m) l
  | _, _ => false
  end.
Definition check_cases (cs : list mcase) : list nat := failing_idx mcase_ok cs.
