(* C01 / C02 -- where can two backends disagree?
   Model/Sem.v gives every backend the same evaluator `sem_gen fl`, parameterised by the record `flavor` of the conventions
   in which the backends differ.  This file INSTRUMENTS that evaluator: `causes fl p e` walks the pipeline exactly as
   `sem_gen fl p e` does and lists every place where the data reaches a case in which some convention could matter:

     CCmpNull      a comparison with a null operand whose VALUE is used (stored in a column, argument of another function)
     CNeNull       `!=` with a null operand deciding a row filter (all other comparisons drop such a row on every backend)
     CLogicNull    and / or with a null operand whose value is used (in a row filter only the truth of the result counts)
     CMinMaxNull   maximum / minimum with a null operand          CFMinMaxNull   fmax / fmin with a null operand
     CEmptyAgg     sum over a group / partition with no non-null value, count / size over no rows at all
                   (the property's own accepted destination convention)
     CRunningNull  cumsum / cummax / cummin meeting a null value
     CSortNull     a null among the keys of an order_rows or of an ordered window
     CSortTies     a limit, or an order-sensitive window function, over keys that do not determine the order
     CJoinNullKey  null join keys on both sides of a join
   (Until /repo aad03d8 the SQLite dialect emulated FULL JOIN and lost null-key rows; those inputs were excluded here by a cause
    CFullJoinNullKey.  SQLite now uses its native FULL JOIN and the exclusion is gone.)

   `insensitive p e` = no cause is hit; `sem_strict p e` = the result, or None as soon as one is hit.
   Proofs/AgreeP*.v: on insensitive inputs `sem_gen fl p e` is the same table for EVERY flavour (Props/C01.v, Props/C02.v).
   No proofs in this file. *)
From Coq Require Import List Bool Arith ZArith QArith String.
Import ListNotations.
From DA Require Import Base.PyRT Base.Val Model.Sem.
Local Open Scope string_scope.
Local Open Scope list_scope.

Inductive cause :=
  | CCmpNull | CNeNull | CLogicNull | CMinMaxNull | CFMinMaxNull | CEmptyAgg | CRunningNull
  | CSortNull | CSortTies | CJoinNullKey.

Definition cause_code (c : cause) : nat :=
  match c with
  | CCmpNull => 1 | CNeNull => 2 | CLogicNull => 3 | CMinMaxNull => 4 | CFMinMaxNull => 5 | CEmptyAgg => 6
  | CRunningNull => 7 | CSortNull => 8 | CSortTies => 9 | CJoinNullKey => 10
  end.

Definition smem (s : string) (l : list string) : bool := existsb (String.eqb s) l.

Definition cmp_ops : list string := ["=="; "!="; "<"; "<="; ">"; ">="].
Definition logic_ops : list string := ["and"; "or"].
Definition minmax_ops : list string := ["maximum"; "minimum"].
Definition fminmax_ops : list string := ["fmax"; "fmin"].
Definition sens_ops : list string := cmp_ops ++ logic_ops ++ minmax_ops ++ fminmax_ops.

(* ------------------------------------------------------------------ scalar expressions *)
(* one application of a scalar function to already evaluated arguments *)
Definition scalar_causes (op : string) (args : list val) : list cause :=
  if existsb is_null args then
    if smem op cmp_ops then [CCmpNull]
    else if smem op logic_ops then [CLogicNull]
    else if smem op minmax_ops then [CMinMaxNull]
    else if smem op fminmax_ops then [CFMinMaxNull]
    else []
  else [].

(* the VALUE of e on row r: every application inside e is inspected (both branches of if_else are: conservative) *)
Fixpoint expr_causes (fl : flavor) (cs : list string) (r : list val) (e : expr) : list cause :=
  match e with
  | ECol _ => []
  | EConst _ => []
  | EOp op args =>
      (fix go (l : list expr) : list cause := match l with [] => [] | a :: t => expr_causes fl cs r a ++ go t end) args
      ++ scalar_causes op ((fix go (l : list expr) : list val := match l with [] => [] | a :: t => eval_expr fl cs r a :: go t end) args)
  end.

(* the TRUTH of e on row r (what select_rows looks at).  A comparison other than != with a null operand is False on
   Pandas and NULL in SQL: the row is dropped either way.  and / or of two conditions are true exactly when the
   Python connective of the operands' truths is, under both conventions. *)
Fixpoint truth_causes (fl : flavor) (cs : list string) (r : list val) (e : expr) : list cause :=
  match e with
  | EOp op [a; b] =>
      if smem op logic_ops then truth_causes fl cs r a ++ truth_causes fl cs r b
      else if smem op cmp_ops then
        expr_causes fl cs r a ++ expr_causes fl cs r b ++
        (if String.eqb op "!=" && (is_null (eval_expr fl cs r a) || is_null (eval_expr fl cs r b)) then [CNeNull] else [])
      else expr_causes fl cs r e
  | _ => expr_causes fl cs r e
  end.

(* ------------------------------------------------------------------ aggregates and window functions *)
Definition agg_causes (op : string) (vs : list val) : list cause :=
  if String.eqb op "sum" then match nums vs with [] => [CEmptyAgg] | _ => [] end
  else if smem op ["count"; "size"; "_size"] then match vs with [] => [CEmptyAgg] | _ => [] end
  else [].

Definition running_ops : list string := ["cumsum"; "cummax"; "cummin"].
Definition positional_ops : list string := ["_row_number"; "row_number"; "shift"].
Definition no_num (v : val) : bool := match num_of v with None => true | Some _ => false end.
Definition win_causes (op : string) (vs : list val) : list cause :=
  if smem op running_ops then (if existsb no_num vs then [CRunningNull] else [])
  else if smem op positional_ops then []
  else agg_causes op vs.
(* every window function except the plain group aggregates depends on the order of the partition *)
Definition plain_aggs : list string := ["sum"; "mean"; "min"; "max"; "count"; "size"; "_size"].
Definition order_sensitive (op : string) : bool := negb (smem op plain_aggs).

(* ------------------------------------------------------------------ sorting *)
Definition null_key (cs ks : list string) (r : list val) : bool := existsb (fun c => is_null (get cs r c)) ks.
(* two rows carry equivalent keys: the keys do not determine the order of the rows *)
Definition has_ties (ks : list (list val)) : bool := negb (Nat.eqb (List.length (distinct_keys ks)) (List.length ks)).

(* ------------------------------------------------------------------ one step, given its materialised input *)
Definition arg_causes (fl : flavor) (cs : list string) (arg : option expr) (r : list val) : list cause :=
  match arg with Some a => expr_causes fl cs r a | None => [] end.
Definition arg_value (fl : flavor) (cs : list string) (arg : option expr) (r : list val) : val :=
  match arg with Some a => eval_expr fl cs r a | None => VBool true end.

Definition extend_causes (fl : flavor) (ops : list (string * expr)) (t : table) : list cause :=
  flat_map (fun r => flat_map (fun ke => expr_causes fl (cols t) r (snd ke)) ops) (rows t).

Definition window_causes (fl : flavor) (w : window) (t : table) (e : expr) : list cause :=
  let cs := cols t in
  let tagged := tag_from 0 (rows t) in
  let okeys := map (fun c => (c, mem c (w_rev w))) (w_order w) in
  let groups := distinct_keys (map (fun r => key_of cs (w_part w) r) (rows t)) in
  (if existsb (null_key cs (w_order w)) (rows t) then [CSortNull] else []) ++
  match win_parts e with
  | Some (op, arg, extra) =>
      flat_map (arg_causes fl cs arg) (rows t) ++
      flat_map (fun k =>
                  let part := filter (fun ir => keys_eqv k (key_of cs (w_part w) (snd ir))) tagged in
                  let sorted := stable_sort (fun a b => row_le fl cs okeys (snd a) (snd b)) part in
                  win_causes op (map (fun ir => arg_value fl cs arg (snd ir)) sorted) ++
                  (if order_sensitive op && has_ties (map (fun ir => key_of cs (w_order w) (snd ir)) part) then [CSortTies] else []))
               groups
  | None => []
  end.
Definition wextend_causes (fl : flavor) (ops : list (string * expr)) (w : window) (t : table) : list cause :=
  flat_map (fun ke => window_causes fl w t (snd ke)) ops.

Definition agg_value_causes (fl : flavor) (cs : list string) (grp : list (list val)) (e : expr) : list cause :=
  match agg_parts e with
  | Some (op, arg) => flat_map (arg_causes fl cs arg) grp ++ agg_causes op (map (arg_value fl cs arg) grp)
  | None => []
  end.
Definition project_causes (fl : flavor) (ops : list (string * expr)) (gb : list string) (t : table) : list cause :=
  let cs := cols t in
  let groups := match gb with [] => [[]] | _ => distinct_keys (map (key_of cs gb) (rows t)) end in
  flat_map (fun k => let grp := filter (fun r => keys_eqv k (key_of cs gb r)) (rows t) in
                     flat_map (fun ke => agg_value_causes fl cs grp (snd ke)) ops) groups.

Definition select_causes (fl : flavor) (x : expr) (t : table) : list cause :=
  flat_map (fun r => truth_causes fl (cols t) r x) (rows t).

Definition order_causes (cs : list string) (lim : option nat) (t : table) : list cause :=
  (if existsb (null_key (cols t) cs) (rows t) then [CSortNull] else []) ++
  match lim with
  | Some n => if Nat.ltb n (List.length (rows t)) && has_ties (map (key_of (cols t) cs) (rows t)) then [CSortTies] else []
  | None => []
  end.

Definition join_causes (on_a on_b : list string) (jt : jointype) (a b : table) : list cause :=
  let na := existsb (null_key (cols a) on_a) (rows a) in
  let nb := existsb (null_key (cols b) on_b) (rows b) in
  if na && nb then [CJoinNullKey] else [].

(* ------------------------------------------------------------------ pipelines *)
Definition on_table {A : Type} (o : option table) (f : table -> list A) : list A := match o with Some t => f t | None => [] end.

(* every cause met while evaluating p under the conventions fl *)
Fixpoint causes (fl : flavor) (p : op) (e : env) : list cause :=
  match p with
  | OTable _ _ => []
  | OExtend s ops wd w =>
      causes fl s e ++ on_table (sem_gen fl s e) (fun t => if wd then wextend_causes fl ops w t else extend_causes fl ops t)
  | OProject s ops gb => causes fl s e ++ on_table (sem_gen fl s e) (project_causes fl ops gb)
  | OSelectRows s x => causes fl s e ++ on_table (sem_gen fl s e) (select_causes fl x)
  | OSelectCols s _ => causes fl s e
  | ODropCols s _ => causes fl s e
  | ORename s _ => causes fl s e
  | OMapCols s _ _ => causes fl s e
  | OOrder s cs _ lim => causes fl s e ++ on_table (sem_gen fl s e) (order_causes cs lim)
  | OJoin a b on_a on_b jt =>
      causes fl a e ++ causes fl b e ++
      match sem_gen fl a e, sem_gen fl b e with Some ta, Some tb => join_causes on_a on_b jt ta tb | _, _ => [] end
  | OConcat a b _ _ _ => causes fl a e ++ causes fl b e
  end.

(* the same walk when only the MULTISET of result rows is asked for: an order_rows without limit, and a null among its keys,
   cannot matter as long as only row-wise steps, joins and concatenations sit above it.  Below a project, a window or a
   limit the walk falls back to `causes`. *)
Fixpoint causes_bag (fl : flavor) (p : op) (e : env) : list cause :=
  match p with
  | OOrder s _ _ None => causes_bag fl s e
  | OExtend s ops false w => causes_bag fl s e ++ on_table (sem_gen fl s e) (extend_causes fl ops)
  | OSelectRows s x => causes_bag fl s e ++ on_table (sem_gen fl s e) (select_causes fl x)
  | OSelectCols s _ => causes_bag fl s e
  | ODropCols s _ => causes_bag fl s e
  | ORename s _ => causes_bag fl s e
  | OMapCols s _ _ => causes_bag fl s e
  | OJoin a b on_a on_b jt =>
      causes_bag fl a e ++ causes_bag fl b e ++
      match sem_gen fl a e, sem_gen fl b e with Some ta, Some tb => join_causes on_a on_b jt ta tb | _, _ => [] end
  | OConcat a b _ _ _ => causes_bag fl a e ++ causes_bag fl b e
  | _ => causes fl p e
  end.

Definition is_nil {A : Type} (l : list A) : bool := match l with [] => true | _ => false end.

(* Pandas is the reference executor of C01: the predicate is evaluated along its conventions (the theorems hold along any) *)
Definition insensitive (p : op) (e : env) : bool := is_nil (causes fl_pandas p e).
Definition insensitive_bag (p : op) (e : env) : bool := is_nil (causes_bag fl_pandas p e).
Definition sem_strict (p : op) (e : env) : option table := if insensitive p e then sem_gen fl_pandas p e else None.

(* ------------------------------------------------------------------ comparing two model tables (exact values) *)
Fixpoint row_eqv (a b : list val) : bool :=
  match a, b with [], [] => true | x :: t, y :: u => v_eqv x y && row_eqv t u | _, _ => false end.
Fixpoint remove_row (r : list val) (l : list (list val)) : option (list (list val)) :=
  match l with [] => None | x :: t => if row_eqv r x then Some t else option_map (cons x) (remove_row r t) end.
Fixpoint bag_eqv (a b : list (list val)) : bool :=
  match a with
  | [] => is_nil b
  | r :: t => match remove_row r b with Some b' => bag_eqv t b' | None => false end
  end.
Fixpoint rows_eqv (a b : list (list val)) : bool :=
  match a, b with [], [] => true | x :: t, y :: u => row_eqv x y && rows_eqv t u | _, _ => false end.
(* same columns in the same order; same multiset of rows, or the same list of rows when `ordered` *)
Definition tables_agree (ordered : bool) (a b : option table) : bool :=
  match a, b with
  | Some x, Some y => eqb (cols x) (cols y) && (if ordered then rows_eqv (rows x) (rows y) else bag_eqv (rows x) (rows y))
  | None, None => true
  | _, _ => false
  end.

(* ------------------------------------------------------------------ conventions one at a time (attribution, witnesses) *)
Inductive field := FCmp3 | FLogic3 | FMinMax | FFMinMax | FEmptyAgg | FRunning | FNullsAsc | FNullsDesc | FJoinNull.
Definition all_fields : list field := [FCmp3; FLogic3; FMinMax; FFMinMax; FEmptyAgg; FRunning; FNullsAsc; FNullsDesc; FJoinNull].
Definition field_code (f : field) : nat :=
  match f with FCmp3 => 1 | FLogic3 => 2 | FMinMax => 3 | FFMinMax => 4 | FEmptyAgg => 5 | FRunning => 6
             | FNullsAsc => 7 | FNullsDesc => 8 | FJoinNull => 9 end.
Definition get_field (f : field) (fl : flavor) : bool :=
  match f with
  | FCmp3 => f_cmp3 fl | FLogic3 => f_logic3 fl | FMinMax => f_minmax_ignore_null fl | FFMinMax => f_fminmax_propagate fl
  | FEmptyAgg => f_empty_agg_null fl | FRunning => f_running_carry fl | FNullsAsc => f_nulls_first_asc fl
  | FNullsDesc => f_nulls_first_desc fl | FJoinNull => f_join_null_match fl
  end.
Definition set_field (f : field) (b : bool) (fl : flavor) : flavor :=
  match fl with
  | mkfl c l m fm ea rc na nd jn =>
      match f with
      | FCmp3 => mkfl b l m fm ea rc na nd jn | FLogic3 => mkfl c b m fm ea rc na nd jn | FMinMax => mkfl c l b fm ea rc na nd jn
      | FFMinMax => mkfl c l m b ea rc na nd jn | FEmptyAgg => mkfl c l m fm b rc na nd jn | FRunning => mkfl c l m fm ea b na nd jn
      | FNullsAsc => mkfl c l m fm ea rc b nd jn | FNullsDesc => mkfl c l m fm ea rc na b jn | FJoinNull => mkfl c l m fm ea rc na nd b
      end
  end.
(* fl1 with the single convention f taken from fl2 *)
Definition with_field_of (f : field) (fl1 fl2 : flavor) : flavor := set_field f (get_field f fl2) fl1.
(* the conventions of fl2 that, adopted ALONE by fl1, change the result of p on e *)
Definition effective_fields (ordered : bool) (fl1 fl2 : flavor) (p : op) (e : env) : list field :=
  filter (fun f => negb (tables_agree ordered (sem_gen fl1 p e) (sem_gen (with_field_of f fl1 fl2) p e))) all_fields.
