(* C05 -- frame executors: hand models of the numpy / pandas primitive each catalogued method reaches through
   pandas_base.PandasModelBase.act_on_expression (impl_map of _populate_impl_map, then a Series method of that name,
   then numpy.<name>) and of the Polars expression each method reaches through polars_model._populate_expr_impl_map /
   impl_map_arbitrary_arity.  "Modelled, not verified": the correspondence grid of harness/props/C05.py runs every
   entry against the real libraries.  `None` = the executor raises, or the corner is not modelled (said where).

   Pandas: a missing cell of a float64 column IS NaN, so numeric primitives read SNull and SNaN alike (to_nan);
   object columns (strings, booleans with None) keep None.  Polars keeps null and NaN apart. *)
From Coq Require Import List Bool ZArith QArith Qround Qabs String Ascii.
Import ListNotations.
From DA Require Import Model.Scalar Model.SqlTemplates.
Local Open Scope string_scope.

(* numeric view with a missing cell read as NaN *)
Definition to_nan (v : sval) : option xnum :=
  match v with SNull | SNaN => Some XNaN | _ => as_x v end.
Definition xfloor_div (p q : Q) : Q := qfloor (p / q)%Q.
Definition qpymod (p q : Q) : Q := (p - qfloor (p / q) * q)%Q.      (* sign of the divisor: numpy.mod, Python %, Polars % *)

Section Frames.
  Variable mf : string -> Q -> option Q.
  Variable mf2 : string -> Q -> Q -> option Q.

  (* ================================================================ numpy / pandas *)
  Definition np2 (f : xnum -> xnum -> option xnum) (l : list sval) : option sval :=
    match l with
    | [a; b] => match to_nan a, to_nan b with
                | Some x, Some y => option_map of_x (f x y)
                | _, _ => None end
    | _ => None end.
  Definition np1 (f : xnum -> option xnum) (l : list sval) : option sval :=
    match l with [a] => match to_nan a with Some x => option_map of_x (f x) | None => None end | _ => None end.
  Definition nanprop2 (f : xnum -> xnum -> option xnum) (x y : xnum) : option xnum :=
    match x, y with XNaN, _ | _, XNaN => Some XNaN | _, _ => f x y end.
  Definition finfin (f : Q -> Q -> option xnum) (x y : xnum) : option xnum :=
    match x, y with XFin p, XFin q => f p q | _, _ => None end.        (* infinite operands: not modelled *)

  (* numpy.maximum / numpy.minimum propagate NaN; numpy.fmax / numpy.fmin ignore it (numpy reference) *)
  Definition np_prop (f : xnum -> xnum -> xnum) (x y : xnum) : option xnum :=
    match x, y with XNaN, _ | _, XNaN => Some XNaN | _, _ => Some (f x y) end.
  Definition np_ignore (f : xnum -> xnum -> xnum) (x y : xnum) : option xnum :=
    match x, y with XNaN, _ => Some y | _, XNaN => Some x | _, _ => Some (f x y) end.

  (* numpy comparison ufuncs on float arrays: False when an operand is NaN (True for not_equal); on object arrays
     (strings) elementwise Python comparison, modelled for present values only *)
  Definition np_cmp (test : comparison -> bool) (nan_result : bool) (l : list sval) : option sval :=
    match l with
    | [a; b] =>
        if (numish a && numish b) && (missing a || missing b) then Some (SBool nan_result)
        else option_map (fun c => SBool (test c)) (cmp3 a b)
    | _ => None end.

  Definition np_math (name : string) (l : list sval) : option sval :=
    np1 (fun x => match x with
                  | XNaN => Some XNaN
                  | XFin q => if math_dom name q then option_map XFin (mf name q) else None      (* NaN with a warning: not needed *)
                  | _ => None end) l.

  (* pandas_base._map_v: Series.map(dict, na_action="ignore"), then every "bad" position (missing, or infinite in a
     numeric result) is overwritten with the default *)
  Definition np_mapv (l : list sval) : option sval :=
    match l with
    | x :: dflt :: kv =>
        let r := if missing x then Some SNull else map_lookup x kv SNull in
        match r with
        | Some v => if bad_py v then Some dflt else Some v
        | None => None end
    | _ => None end.

  Definition np_table : list (string * (list sval -> option sval)) :=
    [ ("+", np2 (nanprop2 (fun x y => Some (xadd x y))));                 (* _k_add -> numpy.add *)
      ("-", fun l => match l with
                     | [_] => np1 (fun x => Some (xneg x)) l              (* _negate_or_subtract -> numpy.negative *)
                     | _ => np2 (nanprop2 (fun x y => Some (xsub x y))) l end);
      ("*", np2 (nanprop2 (fun x y => Some (xmul x y))));                 (* _k_mul -> numpy.multiply *)
      ("/", np2 (nanprop2 (fun x y => Some (xdiv x y))));                 (* numpy.divide: x/0 = +-inf, 0/0 = NaN *)
      ("%/%", np2 (nanprop2 (fun x y => Some (xdiv x y))));
      ("//", np2 (nanprop2 (finfin (fun p q => if Qeq_bool q 0 then Some (xdiv (XFin p) (XFin q)) else Some (XFin (xfloor_div p q))))));
      ("%", np2 (nanprop2 (finfin (fun p q => if Qeq_bool q 0 then Some XNaN else Some (XFin (qpymod p q))))));      (* numpy.mod *)
      ("mod", np2 (nanprop2 (finfin (fun p q => if Qeq_bool q 0 then Some XNaN else Some (XFin (qpymod p q))))));    (* Series.mod *)
      ("remainder", np2 (nanprop2 (finfin (fun p q => if Qeq_bool q 0 then Some XNaN else Some (XFin (qpymod p q))))));
      (* numpy.power: power(NaN, 0) = 1 and power(1, NaN) = 1 (C99 pow) *)
      ("**", np2 (fun x y => match x, y with
                             | XFin p, XFin q => if pow_defined p q then option_map XFin (qpow mf2 p q) else None
                             | _, XFin q => if Qeq_bool q 0 then Some (XFin 1) else match x with XNaN => Some XNaN | _ => None end
                             | XFin p, XNaN => if Qeq_bool p 1 then Some (XFin 1) else Some XNaN
                             | XNaN, _ | _, XNaN => Some XNaN
                             | _, _ => None end));
      ("==", np_cmp is_Eq false); ("!=", np_cmp (fun c => negb (is_Eq c)) true);      (* _type_safe_equal / _type_safe_not_equal *)
      ("<", np_cmp is_Lt false); ("<=", np_cmp (fun c => negb (is_Gt c)) false);
      (">", np_cmp is_Gt false); (">=", np_cmp (fun c => negb (is_Lt c)) false);
      ("and", fun l => match l with [SBool a; SBool b] => Some (SBool (a && b)) | _ => None end);    (* numpy.logical_and on booleans *)
      ("or", fun l => match l with [SBool a; SBool b] => Some (SBool (a || b)) | _ => None end);
      ("not", fun l => match l with [SBool a] => Some (SBool (Bool.eqb a false)) | _ => None end);  (* parsed as a == False *)
      ("abs", np1 (fun x => Some (xabs x)));                                (* Series.abs *)
      ("sign", np1 (fun x => match x with XFin q => Some (XFin (Qsgn q)) | XPInf => Some (XFin 1) | XNInf => Some (XFin (-1)) | XNaN => Some XNaN end));
      ("floor", np1 (fun x => match x with XFin q => Some (XFin (qfloor q)) | _ => Some x end));
      ("ceil", np1 (fun x => match x with XFin q => Some (XFin (qceil q)) | _ => Some x end));
      ("round", np1 (fun x => match x with XFin q => Some (XFin (round_half_even q)) | _ => Some x end));      (* Series.round(): rint *)
      (* numpy.around(x, d): rint(x * 10**d) / 10**d *)
      ("around", fun l => match l with
                          | [a; SNum dg] => match Qnat dg with
                                            | Some n => np1 (fun x => match x with
                                                                      | XFin q => let s := pow10 (Z.of_nat n) in Some (XFin (round_half_even (q * s) / s)%Q)
                                                                      | _ => Some x end) [a]
                                            | None => None end
                          | _ => None end);
      ("maximum", np2 (np_prop xmax)); ("minimum", np2 (np_prop xmin));
      ("fmax", np2 (np_ignore xmax)); ("fmin", np2 (np_ignore xmin));
      (* _where_expr: numpy.where(cond, a, b); None of an object column is falsy *)
      ("where", fun l => match l with [SBool true; x; _] => Some x | [SBool false; _; y] | [SNull; _; y] => Some y | _ => None end);
      (* _if_else_expr: numpy.where, then positions where cond is bad are set to None *)
      ("if_else", fun l => match l with [SBool true; x; _] => Some x | [SBool false; _; y] => Some y | [SNull; _; _] => Some SNull | _ => None end);
      ("coalesce", fun l => match l with [a; b] => if missing a then Some b else Some a | _ => None end);   (* Series.combine_first *)
      ("is_null", fun l => match l with [a] => Some (SBool (missing a)) | _ => None end);                    (* pandas.isnull *)
      ("is_nan", fun l => match l with [a] => if numish a then Some (SBool (missing a)) else None | _ => None end);   (* numpy.isnan(x + 0.0) *)
      ("is_inf", fun l => match l with [a] => if numish a then Some (SBool (match a with SPInf | SNInf => true | _ => false end)) else None | _ => None end);
      ("is_bad", fun l => match l with [a] => if numish a then Some (SBool (bad_py a)) else Some (SBool (missing a)) | _ => None end);  (* bad_column_positions *)
      (* _type_safe_is_in -> numpy.isin: a missing cell is in no set *)
      ("is_in", fun l => match l with x :: elems => if missing x then Some (SBool false) else option_map SBool (mem_cmp x elems) | _ => None end);
      ("mapv", np_mapv);
      (* numpy.char.add(asarray(a, dtype=str), asarray(b, dtype=str)): None becomes the text "None" *)
      ("concat", fun l => let txt v := match v with SStr s => Some s | SNull => Some "None" | _ => None end in
                          match l with [a; b] => match txt a, txt b with Some s, Some t => Some (SStr (String.append s t)) | _, _ => None end | _ => None end);
      ("trimstr", fun l => match l with
                           | [s; SNum a; SNum b] => match Qnat a, Qnat b, s with
                                                    | Some i, Some j, SStr t => Some (SStr (str_slice i j t))         (* Series.str.slice *)
                                                    | Some _, Some _, SNull => Some SNull
                                                    | _, _, _ => None end
                           | _ => None end);
      ("as_int64", fun l => match l with [SNum q] => Some (SNum (inject_Z (qtrunc q))) | _ => None end);      (* astype("int64"); NaN / inf raise *)
      ("as_str", fun l => match l with [SStr s] => Some (SStr s) | [SNull] => Some SNull | _ => None end);     (* astype("str") *)
      ("arctan2", np2 (nanprop2 (finfin (fun p q => option_map XFin (mf2 "arctan2" p q))))) ]
    ++ map (fun n => (n, np_math n)) math_names.

  Definition np_eval (m : string) (args : list sval) : option sval :=
    match lookup m np_table with Some f => f args | None => None end.

  (* ================================================================ Polars *)
  (* null propagates through every arithmetic expression; NaN is an ordinary IEEE value *)
  Definition pl2 (f : xnum -> xnum -> option xnum) (l : list sval) : option sval :=
    match l with
    | [a; b] => if negb (numish a && numish b) then None
                else match a, b with
                     | SNull, _ | _, SNull => Some SNull
                     | _, _ => match to_xn a, to_xn b with Some x, Some y => option_map of_x (f x y) | _, _ => None end
                     end
    | _ => None end.
  Definition pl1 (f : xnum -> option sval) (l : list sval) : option sval :=
    match l with [SNull] => Some SNull | [a] => match to_xn a with Some x => f x | None => None end | _ => None end.
  (* comparisons: null when an operand is null; NaN ordering (total order) not modelled *)
  Definition pl_cmp (test : comparison -> bool) (l : list sval) : option sval :=
    match l with
    | [SNull; b] => Some SNull | [a; SNull] => Some SNull
    | [a; b] => option_map (fun c => SBool (test c)) (cmp3 a b)
    | _ => None end.
  Definition pl_b3 (v : sval) : option (option bool) :=
    match v with SBool b => Some (Some b) | SNull => Some None | _ => None end.
  Definition pl_of3 (t : option bool) : sval := match t with Some b => SBool b | None => SNull end.
  (* pl.max_horizontal / pl.min_horizontal: nulls are skipped, and NaN is skipped when another number is present *)
  Definition pl_horizontal (f : xnum -> xnum -> xnum) (l : list sval) : option sval :=
    match l with
    | [a; b] => if negb (numish a && numish b) then None
                else match a, b with
                     | SNull, _ => Some b
                     | _, SNull => Some a
                     | SNaN, _ => Some b
                     | _, SNaN => Some a
                     | _, _ => match as_x a, as_x b with Some x, Some y => Some (of_x (f x y)) | _, _ => None end
                     end
    | _ => None end.
  (* maximum / minimum since /repo 73dee51: when(any_horizontal(is_null)).then(None).otherwise(max_horizontal ...): a null operand
     gives null; a NaN operand is still skipped by max_horizontal when another number is present *)
  Definition pl_propagate_null (f : xnum -> xnum -> xnum) (l : list sval) : option sval :=
    match l with
    | [a; b] => if negb (numish a && numish b) then None
                else match a, b with
                     | SNull, _ | _, SNull => Some SNull
                     | _, _ => pl_horizontal f l
                     end
    | _ => None end.
  Definition pl_math (name : string) (l : list sval) : option sval :=
    if String.eqb name "expm1" then None                               (* Expr has no attribute expm1: raises *)
    else pl1 (fun x => match x with
                       | XNaN => Some SNaN
                       | XFin q => if math_dom name q then option_map SNum (mf name q) else None
                       | _ => None end) l.
  Definition pl_when_chain (x : sval) (kv : list sval) (dflt : sval) : option sval :=
    if missing x then Some dflt else map_lookup x kv dflt.       (* NaN == k is false for every key *)

  Definition pl_table : list (string * (list sval -> option sval)) :=
    [ ("+", pl2 (fun x y => Some (xadd x y)));                              (* _reduce_plus *)
      ("-", fun l => match l with
                     | [_] => pl1 (fun x => Some (of_x (xneg x))) l           (* 0 - x *)
                     | _ => pl2 (fun x y => Some (xsub x y)) l end);
      ("*", pl2 (fun x y => Some (xmul x y)));
      ("/", pl2 (fun x y => Some (xdiv x y))); ("%/%", pl2 (fun x y => Some (xdiv x y)));
      ("//", pl2 (nanprop2 (finfin (fun p q => if Qeq_bool q 0 then None else Some (XFin (xfloor_div p q))))));
      ("%", pl2 (nanprop2 (finfin (fun p q => if Qeq_bool q 0 then Some XNaN else Some (XFin (qpymod p q))))));
      ("mod", pl2 (nanprop2 (finfin (fun p q => if Qeq_bool q 0 then Some XNaN else Some (XFin (qpymod p q))))));
      ("remainder", pl2 (nanprop2 (finfin (fun p q => if Qeq_bool q 0 then Some XNaN else Some (XFin (qpymod p q))))));
      ("**", pl2 (nanprop2 (finfin (fun p q => if pow_defined p q then option_map XFin (qpow mf2 p q) else None))));
      ("==", pl_cmp is_Eq); ("!=", pl_cmp (fun c => negb (is_Eq c))); ("<", pl_cmp is_Lt);
      ("<=", pl_cmp (fun c => negb (is_Gt c))); (">", pl_cmp is_Gt); (">=", pl_cmp (fun c => negb (is_Lt c)));
      (* _reduce_and / _reduce_or: Kleene logic of & and | *)
      ("and", fun l => match l with [a; b] => match pl_b3 a, pl_b3 b with Some x, Some y => Some (pl_of3 (and3 x y)) | _, _ => None end | _ => None end);
      ("or", fun l => match l with [a; b] => match pl_b3 a, pl_b3 b with Some x, Some y => Some (pl_of3 (or3 x y)) | _, _ => None end | _ => None end);
      ("not", fun l => match l with [a] => match pl_b3 a with Some x => Some (pl_of3 (not3 x)) | None => None end | _ => None end);
      ("abs", pl1 (fun x => Some (of_x (xabs x))));
      ("sign", pl1 (fun x => match x with XFin q => Some (SNum (Qsgn q)) | XPInf => Some (SNum 1) | XNInf => Some (SNum (-1)) | XNaN => Some SNaN end));
      ("floor", pl1 (fun x => match x with XFin q => Some (SNum (qfloor q)) | _ => Some (of_x x) end));
      ("ceil", pl1 (fun x => match x with XFin q => Some (SNum (qceil q)) | _ => Some (of_x x) end));
      ("round", pl1 (fun x => match x with XFin q => Some (SNum (round_half_even q)) | _ => Some (of_x x) end));    (* x.round(decimals=0) *)
      ("around", fun l => match l with
                          | [a; SNum dg] => match Qnat dg with
                                            | Some n => pl1 (fun x => match x with
                                                                      | XFin q => let s := pow10 (Z.of_nat n) in Some (SNum (round_half_even (q * s) / s)%Q)
                                                                      | _ => Some (of_x x) end) [a]
                                            | None => None end
                          | _ => None end);
      ("maximum", pl_propagate_null xmax); ("fmax", pl_horizontal xmax);   (* fmax / fmin are max_horizontal / min_horizontal *)
      ("minimum", pl_propagate_null xmin); ("fmin", pl_horizontal xmin);
      (* when(a.is_null()).then(None).otherwise(when(a).then(b).otherwise(c)) *)
      ("if_else", fun l => match l with [SBool true; x; _] => Some x | [SBool false; _; y] => Some y | [SNull; _; _] => Some SNull | _ => None end);
      ("where", fun l => match l with [SBool true; x; _] => Some x | [SBool false; _; y] | [SNull; _; y] => Some y | _ => None end);
      ("coalesce", fun l => match l with [SNull; b] => Some b | [a; _] => Some a | _ => None end);                   (* pl.coalesce: first non-null *)
      ("is_null", fun l => match l with [a] => Some (SBool (match a with SNull => true | _ => false end)) | _ => None end);
      ("is_nan", pl1 (fun x => Some (SBool (match x with XNaN => true | _ => false end))));        (* null stays null *)
      ("is_inf", fun l => match l with                                      (* x.is_infinite().fill_null(False) since 73dee51 *)
                          | [SNull] => Some (SBool false)
                          | _ => pl1 (fun x => Some (SBool (match x with XPInf | XNInf => true | _ => false end))) l end);
      ("is_bad", fun l => match l with [a] => if numish a then Some (SBool (bad_py a)) else None | _ => None end);  (* is_null | is_infinite | is_nan, Kleene *)
      ("is_in", fun l => match l with SNull :: _ => Some SNull | x :: elems => if missing x then Some (SBool false) else option_map SBool (mem_cmp x elems) | _ => None end);
      ("mapv", fun l => match l with x :: dflt :: kv => pl_when_chain x kv dflt | _ => None end);                    (* _mapv: chain of when(a == k) *)
      ("concat", fun l => match l with                                                                                  (* pl.concat_str: null when an operand is null *)
                          | [SStr s; SStr t] => Some (SStr (String.append s t))
                          | [a; b] => if strish a && strish b then Some SNull else None
                          | _ => None end);
      ("trimstr", fun _ => None);                                         (* Expr has no attribute trimstr: raises *)
      ("as_int64", fun l => match l with [SNull] => Some SNull | [SNum q] => Some (SNum (inject_Z (qtrunc q))) | _ => None end);
      ("as_str", fun l => match l with [SStr s] => Some (SStr s) | [SNull] => Some SNull | _ => None end);
      ("arctan2", fun _ => None) ]                                        (* registered with one argument: lookup fails, raises *)
    ++ map (fun n => (n, pl_math n)) math_names.

  Definition pl_eval (m : string) (args : list sval) : option sval :=
    match lookup m pl_table with Some f => f args | None => None end.
End Frames.
