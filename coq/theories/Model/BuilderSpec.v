(* C26 -- the construction rules, written from the PROPERTY TEXT over the declared columns of the prefix only
   (no reference to how the builder is organised).  `violates T cols s r`: step s, added to a pipeline whose declared
   columns are cols, breaks rule r.

   Rules named in the property text:
     R_unknown_column        "referring to an unknown column" (in an expression, partition_by, order_by, reverse, group_by,
                             on, or a column list)
     R_change_window_column  "changing a partition or ordering column"
     R_use_and_produce       "using a column in the same extend that produces it" (an assignment may read the column it
                             assigns itself: "can use a column to update itself")
     R_not_aggregating       "a non-aggregating ... window or project expression": the expression is not the application of
                             a function the operator catalogue documents as a window (classes g, w, up) resp. aggregation
                             (classes p, up) function
     R_too_complex           "a ... too-complex window or project expression": the aggregated argument is neither a column
                             nor a constant, or a further argument is not a constant (project: more than one argument)
     R_join_missing_key      "joining with missing keys"
     R_join_common_nonkey    "... or with non-key common columns when that check is requested"
     R_concat_columns        "concatenating tables with different columns"
   Documented rejections that the property text does not list (the builder raises for them too; they are kept apart, as
   X_ rules, so that the theorem says exactly which rejections are outside the listed rules):
     X_window_kind     a function that needs an ordered window used without order_by (or in project), a function that an
                       ordered window forbids used with order_by, a function not allowed in project
     X_duplicate_name  a repeated name in a list of names that must be distinct
     X_window_spec     a reverse column that is not an order column; a column both partitioned and ordered by
     X_alter_group     project assigns one of its grouping columns
     X_name_collision  a new name equals an existing column / two columns would get the same name / id_column exists
     X_empty_result    the step would leave no column
     X_empty_step      project without assignments and without grouping columns
     X_join_type       unsupported join type; CROSS join with keys *)
From Coq Require Import List Bool Arith String.
Import ListNotations.
From DA Require Import Base.PyRT Model.Builder.

Inductive rule :=
| R_unknown_column | R_change_window_column | R_use_and_produce | R_not_aggregating | R_too_complex
| R_join_missing_key | R_join_common_nonkey | R_concat_columns
| X_window_kind | X_duplicate_name | X_window_spec | X_alter_group | X_name_collision | X_empty_result | X_empty_step | X_join_type.

Definition listed_in_property (r : rule) : bool :=
  match r with
  | R_unknown_column | R_change_window_column | R_use_and_produce | R_not_aggregating | R_too_complex
  | R_join_missing_key | R_join_common_nonkey | R_concat_columns => true
  | _ => false
  end.

Definition unknown_in (cols l : list string) : Prop := exists c, In c l /\ ~ In c cols.

Definition aggregating (cat : list string) (e : expr) : Prop := exists op args, e = EOp op args /\ In op cat.
Definition simple_arg (e : expr) : Prop := (exists c, e = ECol c) \/ e = EVal.
Definition too_complex_window (e : expr) : Prop :=
  exists op args, e = EOp op args /\
    ((exists a t, args = a :: t /\ ~ simple_arg a) \/ (exists a, In a (tl args) /\ a <> EVal)).
Definition too_complex_project (e : expr) : Prop :=
  exists op args, e = EOp op args /\
    (1 < List.length args \/ (exists a t, args = a :: t /\ ~ simple_arg a)).

(* an extend is windowed when a window is asked for (partition_by / order_by) or an assignment applies a function that
   only exists over a window *)
Definition windowed_spec (T : tables) (ops : assignments) (part : pspec) (order : list string) : Prop :=
  part = POne \/ plist part <> [] \/ order <> [] \/ (exists k op args, In (k, EOp op args) ops /\ In op (t_w T)).

Definition used_by_other (ops : assignments) : Prop :=
  exists k e k', In (k, e) ops /\ In k' (keys ops) /\ k' <> k /\ In k' (cols_used e).

(* the names a rename (new -> old) / a map (old -> new | delete) gives the columns *)
Definition renamed (cols : list string) (m : list (string * string)) : list string :=
  map (fun c => match rev_lookup m c with Some k => k | None => c end) cols.
Definition mapped (cols : list string) (m : list (string * option string)) : list string :=
  map (fun c => match map_lookup m c with Some v => v | None => c end) (filter (notin (map_deleted m)) cols).

Definition violates (T : tables) (cols : list string) (s : step) (r : rule) : Prop :=
  match s with
  | SExtend ops part order rev =>
      match r with
      | R_unknown_column => unknown_in cols (ops_used ops) \/ unknown_in cols (plist part) \/ unknown_in cols order \/ unknown_in cols rev
      | R_change_window_column => exists k, In k (keys ops) /\ In k (plist part ++ order ++ rev)
      | R_use_and_produce => used_by_other ops
      | R_not_aggregating => windowed_spec T ops part order /\ exists k e, In (k, e) ops /\ ~ aggregating (t_catw T) e
      | R_too_complex => windowed_spec T ops part order /\ exists k e, In (k, e) ops /\ too_complex_window e
      | X_window_kind => windowed_spec T ops part order /\ exists k op args, In (k, EOp op args) ops /\
                           (In op (t_cw T) \/ (order <> [] /\ In op (t_co T)) \/ (order = [] /\ In op (t_ow T)))
      | X_duplicate_name => ~ NoDup (keys ops) \/ ~ NoDup (plist part) \/ ~ NoDup order \/ ~ NoDup rev
      | X_window_spec => (exists c, In c rev /\ ~ In c order) \/ (exists c, In c (plist part) /\ In c order)
      | _ => False
      end
  | SProject ops group =>
      match r with
      | R_unknown_column => unknown_in cols (ops_used ops) \/ unknown_in cols group
      | R_use_and_produce => used_by_other ops
      | R_not_aggregating => exists k e, In (k, e) ops /\ ~ aggregating (t_catp T) e
      | R_too_complex => exists k e, In (k, e) ops /\ too_complex_project e
      | X_window_kind => exists k op args, In (k, EOp op args) ops /\ (In op (t_ow T) \/ In op (t_np T))
      | X_duplicate_name => ~ NoDup (keys ops) \/ ~ NoDup group
      | X_alter_group => exists k, In k (keys ops) /\ In k group
      | X_empty_step => ops = [] /\ group = []
      | _ => False
      end
  | SSelectRows e =>
      match r with R_unknown_column => unknown_in cols (cols_used e) | _ => False end
  | SSelectCols cs =>
      match r with
      | R_unknown_column => unknown_in cols cs
      | X_duplicate_name => ~ NoDup cs
      | X_empty_result => cs = []
      | _ => False
      end
  | SDropCols cs =>
      match r with
      | R_unknown_column => unknown_in cols cs
      | X_empty_result => cs <> [] /\ forall c, In c cols -> In c cs
      | _ => False
      end
  | SRename m =>
      match r with
      | R_unknown_column => unknown_in cols (map snd m)
      | X_name_collision => (exists n, In n (map fst m) /\ In n cols /\ ~ In n (map snd m)) \/ ~ NoDup (renamed cols m)
      | _ => False
      end
  | SMap m =>
      match r with
      | R_unknown_column => unknown_in cols (map fst m)
      | X_name_collision => (exists n, In n (map_new m) /\ In n cols /\ ~ In n (map fst m)) \/ ~ NoDup (mapped cols m)
      | X_empty_result => m <> [] /\ forall c, In c cols -> In c (map_deleted m)
      | _ => False
      end
  | SOrder cs rev limit =>
      match r with
      | R_unknown_column => (cs <> [] \/ limit <> None) /\ (unknown_in cols cs \/ unknown_in cols rev)
      | X_window_spec => (cs <> [] \/ limit <> None) /\ exists c, In c rev /\ ~ In c cs
      | _ => False
      end
  | SJoin b on jt check =>
      match r with
      | R_join_missing_key => unknown_in cols (map fst on) \/ unknown_in b (map snd on)
      | R_join_common_nonkey => check = true /\ exists c, In c cols /\ In c b /\ ~ (In c (map fst on) /\ In c (map snd on))
      | X_join_type => ~ In jt join_types \/ (jt = "CROSS"%string /\ on <> [])
      | _ => False
      end
  | SConcat b idc =>
      match r with
      | R_concat_columns => (exists c, In c cols /\ ~ In c b) \/ (exists c, In c b /\ ~ In c cols)
      | X_name_collision => exists c, idc = Some c /\ In c cols
      | _ => False
      end
  end.

Definition violates_rule (T : tables) (cols : list string) (s : step) : Prop := exists r, violates T cols s r.

(* well-formedness of the step's ARGUMENTS that Python itself guarantees or that makes the step a step at all *)
Definition step_wf (s : step) : Prop :=
  match s with
  | SExtend ops _ _ _ => ops <> []                        (* otherwise the builder returns the prefix unchanged *)
  | SRename m => NoDup (map fst m)                        (* a Python dict *)
  | SMap m => NoDup (map fst m)
  | SJoin b _ _ _ => NoDup b /\ b <> []                   (* the right operand is a pipeline: distinct, non-empty columns *)
  | SConcat b _ => NoDup b /\ b <> []
  | _ => True
  end.

(* The guard of the known finding C26-nonaggregating-operator: the builder has no table of aggregation functions, it only
   tests that the assignment is an operator application.  Inside the guard every such application names a function the
   catalogue documents for the step kind. *)
Definition catalogued (T : tables) (s : step) : Prop :=
  match s with
  | SExtend ops part order _ =>
      windowed_spec T ops part order -> forall k op args, In (k, EOp op args) ops -> In op (t_catw T)
  | SProject ops _ => forall k op args, In (k, EOp op args) ops -> In op (t_catp T)
  | _ => True
  end.

(* same verdict; when accepted, the same set of declared columns *)
Definition same_outcome (a b : result) : Prop :=
  match a, b with
  | Reject, Reject => True
  | Accept x, Accept y => forall c, In c x <-> In c y
  | _, _ => False
  end.

(* prefixes that the builder can have produced: every node in it passed its own validation *)
Fixpoint wf_prefix (T : tables) (p : prefix) : Prop :=
  match p with
  | PNode cols => NoDup cols /\ cols <> []
  | POrder src _ => wf_prefix T src
  | PSelect src cs => wf_prefix T src /\ NoDup cs /\ cs <> [] /\ (forall c, In c cs -> In c (declared src))
  | PDrop src cs => wf_prefix T src /\ filter (notin cs) (declared src) <> []
  | PExtend src ops npart nwind norder nrev =>
      wf_prefix T src /\ NoDup (keys ops) /\
      exists part, npart = plist part /\ nwind = windowed T ops part norder /\
                   extend_node T (declared src) ops part norder nrev <> Reject
  end.

(* the columns the documentation promises for an accepted step (natural_join: as a set; the builder may list them in the
   right operand's order when the right operand has them all) *)
Definition spec_cols (cols : list string) (s : step) : list string :=
  match s with
  | SExtend ops _ _ _ => cols ++ filter (notin cols) (keys ops)
  | SProject ops group => group ++ filter (notin group) (keys ops)
  | SSelectRows _ => cols
  | SSelectCols cs => cs
  | SDropCols cs => filter (notin cs) cols
  | SRename m => renamed cols m
  | SMap m => mapped cols m
  | SOrder _ _ _ => cols
  | SJoin b _ _ _ => cols ++ filter (notin cols) b
  | SConcat _ idc => match idc with None => cols | Some c => cols ++ [c] end
  end.
Definition order_fixed (s : step) : bool := match s with SJoin _ _ _ _ => false | _ => true end.
