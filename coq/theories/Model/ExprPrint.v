(* Model/ExprPrint.v -- hand model of the `to_python` methods of expr_rep.py (Value, ColumnReference, ListTerm,
   DictTerm, Expression), as token lists.  (C13 round trip; C12 builds on it.)

   A PythonText is (tokens, is_in_parens).  The text of the real `to_python()` is compared with these tokens
   after lexing it with the library's own lark lexer; literal tokens carry values (repr() of ints / floats /
   strings is trusted to lex back to one literal token with the same value, a leading `-` being its own token;
   `repr(float('inf'))` is the NAME `inf`).  No proofs here. *)
From Coq Require Import List Bool String Ascii ZArith NArith QArith.
Import ListNotations.
From DA Require Import Model.PyExpr.
Local Close Scope Q_scope.
Local Open Scope string_scope.
Local Open Scope bool_scope.
Local Open Scope list_scope.

Definition ptext := (list tok * bool)%type.

Definition paren (ts : list tok) : list tok := TSym "(" :: ts ++ [TSym ")"].

(* operator / keyword texts that lex as their own terminal; every other op text is printed as a NAME *)
Definition sym_texts : list string :=
  ["or"; "and"; "not"; "<"; ">"; "=="; ">="; "<="; "<>"; "!="; "|"; "^"; "&"; "<<"; ">>"; "+"; "-"; "*"; "/";
   "%+%"; "%?%"; "%"; "//"; "%/%"; "**"; "~"; "="; "in"; "is"].
Definition op_tok (op : string) : tok :=
  if existsb (String.eqb op) sym_texts then TSym op else TName op.

(* repr(value), lexed *)
Definition val_toks (v : pval) : list tok :=
  match v with
  | PNone => [TSym "None"]
  | PBool b => [TSym (if b then "True" else "False")]
  | PInt z => if Z.ltb z 0 then [TSym "-"; TInt (Z.to_N (- z))] else [TInt (Z.to_N z)]
  | PFloat neg m => (if neg then [TSym "-"] else []) ++ [TFloat (Some m)]
  | PInf neg => (if neg then [TSym "-"] else []) ++ [TName "inf"]
  | PStr s => [TStr s]
  end.

Fixpoint join_with (sep : list tok) (parts : list (list tok)) : list tok :=
  match parts with
  | [] => []
  | [p] => p
  | p :: more => p ++ sep ++ join_with sep more
  end.

Definition is_col (e : expr) : bool := match e with ECol _ => true | _ => false end.

(* X.to_python(want_inline_parens=want) *)
Fixpoint to_py (want : bool) (e : expr) : ptext :=
  match e with
  | ECol n => ([TName n], false)
  | EVal v =>
      (* a constant printed with a sign (negative numbers, -0.0) is a unary minus in source form *)
      if want && prints_with_sign v then (paren (val_toks v), true) else (val_toks v, false)
  | EList vs => (TSym "[" :: join_with [TSym ","] (map val_toks vs) ++ [TSym "]"], false)
  | EDict kvs =>
      (TSym "{" :: join_with [TSym ","] (map (fun kv => val_toks (fst kv) ++ TSym ":" :: val_toks (snd kv)) kvs)
         ++ [TSym "}"], false)
  | EOp op inline method _ args =>
      let generic :=
        if inline then
          let result := join_with [op_tok op] (map (fun a => fst (to_py true a)) args) in
          if want then (paren result, true) else (result, false)
        else
          let subs := map (to_py false) args in
          if method then
            match args, subs with
            | a0 :: _, (s0, p0) :: more =>
                ((if p0 || is_col a0 then s0 else paren s0)
                   ++ TSym "." :: op_tok op :: TSym "(" :: join_with [TSym ","] (map fst more) ++ [TSym ")"], false)
            | _, _ => ([], false)
            end
          else (op_tok op :: TSym "(" :: join_with [TSym ","] (map fst subs) ++ [TSym ")"], false) in
      match args with
      | [] => ([op_tok op; TSym "("; TSym ")"], false)
      | [a] =>
          let '(s0, p0) := to_py false a in
          if inline then
            let text := op_tok op :: (if p0 then s0 else paren s0) in
            (* a unary operator binds weaker than ** on its left *)
            if want then (paren text, true) else (text, false)
          else if method then
            ((if p0 || is_col a then s0 else paren s0) ++ [TSym "."; op_tok op; TSym "("; TSym ")"], false)
          else generic
      | _ => generic
      end
  end.

Definition to_python (e : expr) : list tok := fst (to_py false e).
