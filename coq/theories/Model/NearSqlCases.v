(* C04 -- correspondence driver: Model/WithForm.v, Model/SqlMerge.v and Model/Render.v against what
   harness/props/C04.py OBSERVED from the implementation.  Everything is decided inside Coq.
     CWith   the REAL NearSQL object graph returned by to_near_sql_implementation_ (serialised field by field) and the REAL
             result of near_sql.to_with_form(cte_cache=None | {}) : previous steps, last step, and the cache afterwards
             (key -> name of the common table expression, in insertion order) must be what the model computes; the real graph
             must satisfy the guard `hygienic` of the theorems and the model's WITH list the assertions of SQLWithList
     CText   the REAL text of SQLModel.to_sql(ops, sql_format_options=o) must be, character for character, Render.to_sql
     CMerge  the REAL graph generated with allow_extend_merges=False, put through merge_tree, must be the REAL graph generated
             with allow_extend_merges=True (generated names with their counters erased on both sides by the harness;
             None = the generation raised)
     CSound  (run separately, informational) Model/CacheSound.v cache_sound_dec on the real graph: the guard of the CTE
             elimination theorem established for this graph, for every engine *)
From Coq Require Import List Bool Arith String Ascii.
Import ListNotations.
From DA Require Import Base.PyRT Base.Cases Model.NearSql Model.WithForm Model.SqlMerge Model.Render Model.CacheSound.

Fixpoint nearsql_eqb (a b : nearsql) : bool :=
  match a, b with
  | NTable n t, NTable n' t' => seqb n n' && terms_eqb t t'
  | NCte n k, NCte n' k' => seqb n n' && oseqb k k'
  | NUnary n t s ci sfx an mg dp k, NUnary n' t' s' ci' sfx' an' mg' dp' k' =>
      seqb n n' && terms_eqb t t' && nearsql_eqb s s' && ci_eqb ci ci' && lseqb sfx sfx' && oseqb an an' && Bool.eqb mg mg'
      && deps_eqb dp dp' && oseqb k k'
  | NBinary n t s1 c1 j s2 c2 sfx an k, NBinary n' t' s1' c1' j' s2' c2' sfx' an' k' =>
      seqb n n' && terms_eqb t t' && nearsql_eqb s1 s1' && ci_eqb c1 c1' && seqb j j' && nearsql_eqb s2 s2' && ci_eqb c2 c2'
      && lseqb sfx sfx' && oseqb an an' && oseqb k k'
  | NRaw0 n p sfx an a k, NRaw0 n' p' sfx' an' a' k' =>
      seqb n n' && lseqb p p' && lseqb sfx sfx' && oseqb an an' && Bool.eqb a a' && oseqb k k'
  | NRaw1 n p s ci sfx an a k, NRaw1 n' p' s' ci' sfx' an' a' k' =>
      seqb n n' && lseqb p p' && nearsql_eqb s s' && ci_eqb ci ci' && lseqb sfx sfx' && oseqb an an' && Bool.eqb a a' && oseqb k k'
  | _, _ => false
  end.

Definition cont_eqb (a b : container) : bool := nearsql_eqb (fst a) (fst b) && ci_eqb (snd a) (snd b).
Fixpoint wseq_eqb (a b : wseq) : bool :=
  match a, b with
  | [], [] => true
  | (n, c) :: t, (n', c') :: t' => seqb n n' && cont_eqb c c' && wseq_eqb t t'
  | _, _ => false
  end.
Definition cache_names (c : cache) : list (string * string) := map (fun kv => (fst kv, qname (snd kv))) c.

Inductive case :=
| CWith (fl : flags) (q : nearsql) (use_cache : bool) (obs_prev : wseq) (obs_last : nearsql) (obs_cache : list (string * string))
| CText (d : dialect) (fl : flags) (o : opts) (q : nearsql) (obs : string)
| CMerge (fl : flags) (q_off : nearsql) (q_on : option nearsql)
| CSound (fl : flags) (q : nearsql)           (* does the decidable sufficient condition for cache_sound hold on this real graph? *)
| CSoundJ (fl : flags) (q : nearsql)
(* one real ExtendNode through the real extend_to_near_sql (merges off): the declared_term_dependencies of the step it builds
   must be SqlMerge.declared_deps of the node's demanded columns, assignments (with the columns each expression mentions),
   partition_by and order_by -- same keys in the same order, the same SET of columns for each key *)
| CDeps (demand : list string) (subops : list (string * list string)) (partition order : list string) (obs : depmap).         (* ... when pairs of sub-queries that both contain a join are not asked? *)

Definition case_ok (c : case) : bool :=
  match c with
  | CWith fl q uc op ol ocache =>
      let '(w, oc) := to_with_form fl (if uc then Some [] else None) q in
      hygienic q && withlist_ok w && wseq_eqb (w_prev w) op && nearsql_eqb (w_last w) ol
      && leqb (peqb seqb seqb) (match oc with Some c => cache_names c | None => [] end) ocache
  | CText d fl o q obs => String.eqb (to_sql d fl o q) obs
  | CMerge fl q_off q_on =>
      match merge_tree fl q_off, q_on with
      | Some a, Some b => nearsql_eqb a b
      | None, None => true
      | _, _ => false
      end
  | CSound fl q => cache_sound_dec fl q
  | CSoundJ fl q => cache_sound_dec_but_joins fl q
  | CDeps demand subops partition order obs =>
      leqb (fun a b => seqb (fst a) (fst b) && set_eqb (snd a) (snd b)) (declared_deps demand subops partition order) obs
  end.

Definition check_cases (cs : list case) : list nat := failing_idx case_ok cs.
