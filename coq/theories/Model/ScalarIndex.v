(* C05 -- the index sets of the theorems, DERIVED from the frozen catalogue (Model/ScalarCatalog.v, compared with /repo on
   every run): the (method, literal flags) pairs of the class-e rows each backend column marks "y", and the guards that
   carve out exactly the argument classes of the known findings. *)
From Coq Require Import List Bool QArith String.
Import ListNotations.
From DA Require Import Model.Scalar Model.SqlTemplates Model.ScalarBackends Model.ScalarCatalog.
Local Open Scope string_scope.

Definition row_expr (r : catrow) : string := let '(e, _, _, _, _, _) := r in e.
Definition row_pandas (r : catrow) : string := let '(_, _, _, p, _, _) := r in p.
Definition row_sqlite (r : catrow) : string := let '(_, _, _, _, s, _) := r in s.
Definition row_pg (r : catrow) : string := let '(_, _, _, _, _, p) := r in p.

(* class-e rows marked "y" in the given column, as (method, literal flags) *)
Definition supported (col : catrow -> string) : list (string * list bool) :=
  flat_map (fun r => if String.eqb (col r) "y"
                     then match lookup (row_expr r) expr_keys with Some k => [k] | None => [] end
                     else []) catalog_rows.
Definition supported_pandas := supported row_pandas.
Definition supported_sqlite := supported row_sqlite.
Definition supported_pg := supported row_pg.
(* Polars: every catalogued class-e method *)
Definition supported_polars : list (string * list bool) := map snd expr_keys.
Definition supported_sql (d : dialect) := match d with DSqlite => supported_sqlite | DPg => supported_pg end.

Definition str_in (s : string) (l : list string) : bool := existsb (String.eqb s) l.
Definition no_missing (l : list sval) : bool := forallb (fun v => negb (missing v)) l.
Definition no_inf (l : list sval) : bool := forallb (fun v => match v with SPInf | SNInf => false | _ => true end) l.
Definition no_nan (l : list sval) : bool := forallb (fun v => match v with SNaN => false | _ => true end) l.
Definition not_null (l : list sval) : bool := forallb (fun v => match v with SNull => false | _ => true end) l.
Definition start_zero (l : list sval) : bool := match l with [_; SNum a; _] => Qeq_bool a 0 | _ => false end.
Definition mapv_values_good (l : list sval) : bool :=
  match l with _ :: _ :: kv => forallb (fun v => negb (bad_py v)) kv | _ => true end.

(* SQL: true = the theorem claims the documented value on these arguments *)
Definition sql_guard (vr : variant) (d : dialect) (m : string) (args : list sval) : bool :=
  if str_in m ["maximum"; "minimum"; "fmax"; "fmin"] then fix_maxmin vr || no_missing args          (* finding C05-sql-maxmin-swapped *)
  else if String.eqb m "trimstr" then fix_trimstr vr || start_zero args                              (* finding C05-sql-trimstr-length *)
  else if str_in m ["abs"; "sign"] then match d with DSqlite => fix_abs_sign vr || no_inf args | DPg => true end   (* finding C05-sqlite-abs-sign-inf *)
  else if String.eqb m "is_nan" then match d with DPg => no_nan args | DSqlite => true end           (* a NaN stored in PostgreSQL is not modelled *)
  else true.
Definition np_guard (m : string) (args : list sval) : bool :=
  if String.eqb m "mapv" then mapv_values_good args else true.                                       (* infinite dictionary values: not expressible in expression text *)
Definition pl_guard (m : string) (args : list sval) : bool :=
  (* finding C05-polars-maxmin-skip-nan: max_horizontal skips a float NaN next to a present operand (null operands are
     propagated since /repo 73dee51, and is_inf of a null is False since then) *)
  if str_in m ["maximum"; "minimum"] then negb (existsb (fun v => match v with SNaN => true | _ => false end) args && existsb (fun v => negb (missing v)) args)
  else true.
