(* C07 -- correspondence driver: Model/Compose.v against what harness/props/C07.py OBSERVED from the implementation.
   Four kinds of cases, all decided inside Coq:
     CFw     one call of a real <Node>.replace_leaves whose sources were replaced by recording objects: the builder
             method it called and the arguments it passed (bound against the builder's signature, defaults filled in)
             must build the node that fw_code's arguments build
     CComp   a real composition (b.replace_leaves({k: a}) / b.eval({k: a}) / a >> b): the resulting real DAG must be
             replace_leaves' tree -- or, where the real builder simplified while re-running (extend merge, skipped
             order_rows, collapsed select_columns), mean the same on the sampled tables (counted by check_structural)
     CArrow  DataOpArrow(a) >> DataOpArrow(b): accepted/rejected, incoming and outgoing columns, free table key
     CNames  expr_rep.fn_names_that_imply_windowed_situation *)
From Coq Require Import List Bool Arith String.
Import ListNotations.
From DA Require Import Base.PyRT Base.Cases Base.Val Model.Sem Model.SemCases Model.Compose.
Local Open Scope string_scope.
Local Open Scope list_scope.

(* the two rebuilt sources of a binary node, as seen by the recording objects *)
Definition src0 : op := OTable "new_sources[0]" [].
Definition src1 : op := OTable "new_sources[1]" [].

Inductive fwcase :=
  | FwExtend (ops : list (string * expr)) (wd : bool) (w : window) (obs : option extend_args)
  | FwProject (ops : list (string * expr)) (gb : list string) (obs : option project_args)
  | FwSelectRows (e : expr) (obs : option select_rows_args)
  | FwSelectCols (cs : list string) (obs : option select_columns_args)
  | FwDropCols (ds : list string) (obs : option drop_columns_args)
  | FwOrder (cs rev : list string) (lim : option nat) (obs : option order_rows_args)
  | FwMap (m : list (string * string)) (dels : list string) (obs : option map_columns_args)
  | FwRename (m : list (string * string)) (obs : option rename_columns_args)
  (* observed: (index of the source that received the call, index of the source passed as b, on, jointype) *)
  | FwJoin (on_a on_b : list string) (jt : jointype) (obs : option (nat * nat * list (string * string) * jointype))
  | FwConcat (idc : option string) (an bn : string) (obs : option (nat * nat * option string * string * string)).

Definition src_of (i : nat) : op := match i with O => src0 | _ => src1 end.

(* None = the call raised, or another method was called *)
Definition fw_ok (c : fwcase) : bool :=
  match c with
  | FwExtend ops wd w (Some o) => op_eqb (b_extend_parsed src0 o) (b_extend_parsed src0 (fw_extend fw_code ops wd w))
                                  && op_eqb (b_extend_parsed src0 o) (OExtend src0 ops wd w)
  | FwProject ops gb (Some o) => op_eqb (b_project_parsed src0 o) (b_project_parsed src0 (fw_project fw_code ops gb))
  | FwSelectRows e (Some o) => op_eqb (b_select_rows_parsed src0 o) (b_select_rows_parsed src0 (fw_select_rows fw_code e))
  | FwSelectCols cs (Some o) => op_eqb (b_select_columns src0 o) (b_select_columns src0 (fw_select_columns fw_code cs))
  | FwDropCols ds (Some o) => op_eqb (b_drop_columns src0 o) (b_drop_columns src0 (fw_drop_columns fw_code ds))
  | FwOrder cs rev lim (Some o) => op_eqb (b_order_rows src0 o) (b_order_rows src0 (fw_order_rows fw_code cs rev lim))
  | FwMap m dels (Some o) => op_eqb (b_map_columns src0 o) (b_map_columns src0 (fw_map_columns fw_code m dels))
  | FwRename m (Some o) => op_eqb (b_rename_columns src0 o) (b_rename_columns src0 (fw_rename_columns fw_code m))
  | FwJoin on_a on_b jt (Some (r, b, on, j)) =>
      let '(recv, args) := fw_natural_join fw_code src0 src1 on_a on_b jt in
      op_eqb (b_natural_join (src_of r) (mk_natural_join_args (src_of b) on j)) (b_natural_join recv args)
  | FwConcat idc an bn (Some (r, b, i, x, y)) =>
      let '(recv, args) := fw_concat_rows fw_code src0 src1 idc an bn in
      op_eqb (b_concat_rows (src_of r) (mk_concat_rows_args (src_of b) i x y)) (b_concat_rows recv args)
  | _ => false
  end.

(* route 0: b.replace_leaves(m) (also b.eval(m) with a map of pipelines); route 1: a >> b = b.act_on(a), m = [(_, a)] *)
Record compcase := mk_compcase {
  cc_map : rmap; cc_b : op; cc_route : nat; cc_observed : option op; cc_env : env }.

Definition comp_model (c : compcase) : option op :=
  match cc_route c with
  | O => Some (replace_leaves (cc_map c) (cc_b c))
  | _ => match cc_map c with [(_, a)] => rshift a (cc_b c) | _ => None end
  end.

Definition sem_close (m o : op) (e : env) : bool :=
  match sem_gen fl_pandas m e, sem_gen fl_pandas o e with
  | Some x, Some y => table_close false x y
  | None, None => true
  | _, _ => false
  end.

(* the constructor invariants the theorems assume must hold of every real tree *)
Definition comp_invariants (c : compcase) : bool :=
  built_ok (cc_b c) && renames_okb (cc_b c) && forallb (fun kr => built_ok (snd kr) && renames_okb (snd kr)) (cc_map c)
  && match cc_observed c with Some o => built_ok o && renames_okb o | None => true end.

Definition comp_ok (c : compcase) : bool :=
  comp_invariants c &&
  match comp_model c, cc_observed c with
  | Some m, Some o => op_eqb m o || sem_close m o (cc_env c)
  | None, None => true
  | _, _ => false
  end.
Definition comp_structural (c : compcase) : bool :=
  match comp_model c, cc_observed c with
  | Some m, Some o => op_eqb m o
  | _, _ => true
  end.

Record arrowcase := mk_arrowcase {
  ac_pa : op; ac_fa : option string; ac_pb : op; ac_fb : option string;
  ac_observed : option (string * list string * list string) }.          (* free_table_key, incoming_columns, outgoing_columns *)

Definition arrow_ok (c : arrowcase) : bool :=
  let model := obind (data_op_arrow (ac_pa c) (ac_fa c)) (fun a =>
               obind (data_op_arrow (ac_pb c) (ac_fb c)) (fun b => arrow_rshift a b)) in
  match model, ac_observed c with
  | Some m, Some (f, i, o) => eqb (a_free m) f && eqb (a_incoming m) i && eqb (a_outgoing m) o
  | None, None => true
  | _, _ => false
  end.

Inductive c07case :=
  | CFw (c : fwcase)
  | CComp (c : compcase)
  | CArrow (c : arrowcase)
  | CNames (names : list string).

Definition case_ok (c : c07case) : bool :=
  match c with
  | CFw f => fw_ok f
  | CComp k => comp_ok k
  | CArrow a => arrow_ok a
  | CNames ns => set_eqb ns fn_names_that_imply_windowed_situation
                 && Nat.eqb (List.length ns) (List.length fn_names_that_imply_windowed_situation)
  end.
Definition check_cases (cs : list c07case) : list nat := failing_idx case_ok cs.

(* indices of the composition cases whose real tree is NOT replace_leaves' tree (the builder simplified) *)
Definition check_structural (cs : list c07case) : list nat :=
  failing_idx (fun c => match c with CComp k => comp_structural k | _ => true end) cs.
