(* Model/ExprParse.v -- hand model of data_algebra/parse_by_lark.py (C13).

   1. `ltree`    : lark.Tree / lark.Token / None, generically (data string + children), exactly the objects
                   `_walk_lark_tree` inspects.
   2. `lark_of`  : token list -> parse tree for the fragment of python3_lark.py that the walker can accept
                   (or_test and_test not comparison expr xor_expr and_expr shift_expr arith_expr term factor power
                   funccall getattr arguments var number string const_* list tuple set dict key_value).
                   lark's LALR tables are NOT modelled: this is a total, structurally recursive parser
                   (bracket matching with a stack, then splitting at the operators of each precedence level,
                   loosest level first).  Its agreement with the real parser is a correspondence check.
                   Texts whose real tree contains any other kind (ternary, lambda, subscripts, keyword
                   arguments, comprehensions, `in`/`is` comparisons, adjacent strings ...) are outside the
                   fragment: `lark_of` answers None for them, as it does for syntax errors.
   3. `walk`     : transcription of `_walk_lark_tree`, branch by branch, with `op_remap` / `factor_remap`
                   and the Term methods it reaches through `getattr(res, op_name)(...)`.
   4. `parse`    : parse_by_lark = walk + the final `isinstance(v, Term)` assertion.
   No proofs here. *)
From Coq Require Import List Bool String Ascii ZArith NArith QArith Arith.
Import ListNotations.
From DA Require Import Model.PyExpr.
Local Close Scope Q_scope.
Local Open Scope string_scope.
Local Open Scope bool_scope.
Local Open Scope list_scope.

Notation "a ==s b" := (String.eqb a b) (at level 70, no associativity).
Definition mem_str (s : string) (l : list string) : bool := existsb (String.eqb s) l.

(* ------------------------------------------------------------------ 1. lark trees *)
Inductive ltree :=
| LTok (t : tok)
| LNode (d : string) (cs : list ltree)
| LNone.                                   (* the None placeholder of an absent optional part *)

Fixpoint ltree_eqb (a b : ltree) : bool :=
  match a, b with
  | LTok x, LTok y => tok_eqb x y
  | LNone, LNone => true
  | LNode d cs, LNode d' cs' => (d ==s d') && list_eqb ltree_eqb cs cs'
  | _, _ => false
  end.

(* ------------------------------------------------------------------ 2. the parser model *)
Inductive bk := BParen | BBrack | BBrace.
Definition bk_eqb (a b : bk) : bool :=
  match a, b with BParen, BParen | BBrack, BBrack | BBrace, BBrace => true | _, _ => false end.

(* one comma-separated item of a bracketed group, already parsed *)
Inductive gitem := GTest (t : ltree) | GKV (k v : ltree).
(* the text at one nesting depth: tokens and already parsed bracketed groups *)
Inductive elem := ETok (t : tok) | EGrp (k : bk) (items : list gitem) (trailing : bool).

Definition sym_is (t : tok) (s : string) : bool := match t with TSym x => x ==s s | _ => false end.

(* can an operand end here?  (decides whether a following + or - is binary) *)
Definition is_operand_end (e : elem) : bool :=
  match e with
  | EGrp _ _ _ => true
  | ETok (TSym s) => mem_str s ["None"; "True"; "False"]
  | ETok _ => true
  end.

(* binary operators and the grammar level they belong to (larger = binds tighter):
   0 or_test, 1 and_test, (2 not), 3 comparison, 4 expr, 5 xor_expr, 6 and_expr, 7 shift_expr,
   8 arith_expr, 9 term, (10 factor), 11 power, (12 atom_expr) *)
Definition binlvl (s : string) : option nat :=
  if s ==s "or" then Some 0
  else if s ==s "and" then Some 1
  else if mem_str s ["<"; ">"; "=="; ">="; "<="; "<>"; "!="] then Some 3
  else if s ==s "|" then Some 4
  else if s ==s "^" then Some 5
  else if s ==s "&" then Some 6
  else if mem_str s ["<<"; ">>"] then Some 7
  else if mem_str s ["+"; "-"] then Some 8
  else if mem_str s ["*"; "/"; "%+%"; "%?%"; "%"; "//"; "%/%"] then Some 9
  else if s ==s "**" then Some 11
  else None.

Definition is_binop_at (L : nat) (s : string) : bool :=
  match binlvl s with Some l => Nat.eqb l L | None => false end.

(* split at the level-L operators standing in binary position: first piece, then (operator, piece) pairs *)
Fixpoint split_go (L : nat) (prev : bool) (es : list elem) : list elem * list (string * list elem) :=
  match es with
  | [] => ([], [])
  | e :: r =>
      match e with
      | ETok (TSym s) =>
          if prev && is_binop_at L s
          then let '(p, rest) := split_go L false r in ([], (s, p) :: rest)
          else let '(p, rest) := split_go L (is_operand_end e) r in (e :: p, rest)
      | _ => let '(p, rest) := split_go L (is_operand_end e) r in (e :: p, rest)
      end
  end.

(* split at every occurrence of a punctuation token (commas, colons) *)
Fixpoint split_sym (s : string) (es : list elem) : list elem * list (list elem) :=
  match es with
  | [] => ([], [])
  | e :: r =>
      let '(p, rest) := split_sym s r in
      match e with
      | ETok t => if sym_is t s then ([], p :: rest) else (e :: p, rest)
      | _ => (e :: p, rest)
      end
  end.

Fixpoint mapM {A B} (f : A -> option B) (l : list A) : option (list B) :=
  match l with
  | [] => Some []
  | x :: t => match f x, mapM f t with Some y, Some ys => Some (y :: ys) | _, _ => None end
  end.

Definition tests_of (items : list gitem) : option (list ltree) :=
  mapM (fun g => match g with GTest t => Some t | GKV _ _ => None end) items.
Definition kvs_of (items : list gitem) : option (list ltree) :=
  mapM (fun g => match g with GKV k v => Some (LNode "key_value" [k; v]) | GTest _ => None end) items.

(* ?atom *)
Definition atom (e : elem) : option ltree :=
  match e with
  | ETok (TName s) => Some (LNode "var" [LTok (TName s)])
  | ETok (TInt n) => Some (LNode "number" [LTok (TInt n)])
  | ETok (TFloat m) => Some (LNode "number" [LTok (TFloat m)])
  | ETok (TStr s) => Some (LNode "string" [LTok (TStr s)])
  | ETok (TOther isnum ty) => Some (LNode (if isnum then "number" else "string") [LTok (TOther isnum ty)])
  | ETok (TSym s) =>
      if s ==s "None" then Some (LNode "const_none" [])
      else if s ==s "True" then Some (LNode "const_true" [])
      else if s ==s "False" then Some (LNode "const_false" [])
      else None
  | EGrp BParen [] _ => Some (LNode "tuple" [LNone])
  | EGrp BParen [GTest t] false => Some t                                  (* "(" test ")" *)
  | EGrp BParen items _ => option_map (fun ts => LNode "tuple" [LNode "tuplelist_comp" ts]) (tests_of items)
  | EGrp BBrack [] _ => Some (LNode "list" [LNone])
  | EGrp BBrack [GTest t] false => Some (LNode "list" [t])                 (* ?testlist_comp: test *)
  | EGrp BBrack items _ => option_map (fun ts => LNode "list" [LNode "tuplelist_comp" ts]) (tests_of items)
  | EGrp BBrace [] _ => Some (LNode "dict" [LNone])
  | EGrp BBrace (GKV k v :: more) _ =>
      option_map (fun ts => LNode "dict" [LNode "dict_comp" ts]) (kvs_of (GKV k v :: more))
  | EGrp BBrace items _ => option_map (fun ts => LNode "set" [LNode "set_comp" ts]) (tests_of items)
  end.

(* ?atom_expr: trailers  "(" [arguments] ")" -> funccall,  "." NAME -> getattr   (subscripts: outside) *)
Fixpoint trailers (acc : ltree) (es : list elem) : option ltree :=
  match es with
  | [] => Some acc
  | EGrp BParen [] _ :: r => trailers (LNode "funccall" [acc; LNone]) r
  | EGrp BParen items _ :: r =>
      match tests_of items with
      | Some ts => trailers (LNode "funccall" [acc; LNode "arguments" ts]) r
      | None => None
      end
  | ETok (TSym d) :: ETok (TName n) :: r =>
      if d ==s "." then trailers (LNode "getattr" [acc; LTok (TName n)]) r else None
  | _ => None
  end.

Definition p_atom_expr (es : list elem) : option ltree :=
  match es with
  | [] => None
  | e :: r => match atom e with Some a => trailers a r | None => None end
  end.

(* ?factor: _factor_op factor | power        ?power: await_expr ("**" factor)? *)
Definition is_uop (s : string) : bool := mem_str s ["+"; "-"; "~"].
Fixpoint strip_uops (es : list elem) : list string * list elem :=
  match es with
  | ETok (TSym s) :: r => if is_uop s then let '(ops, b) := strip_uops r in (s :: ops, b) else ([], es)
  | _ => ([], es)
  end.
Definition wrap_uops (ops : list string) (t : ltree) : ltree :=
  fold_right (fun op x => LNode "factor" [LTok (TSym op); x]) t ops.

(* the pieces between ** tokens, right to left:  u* atom_expr ** u* atom_expr ** ... *)
Fixpoint p_factor_segs (s : list elem) (more : list (string * list elem)) : option ltree :=
  let '(ops, b) := strip_uops s in
  match p_atom_expr b with
  | None => None
  | Some bt =>
      match more with
      | [] => Some (wrap_uops ops bt)
      | (_, s') :: more' =>
          match p_factor_segs s' more' with
          | Some e => Some (wrap_uops ops (LNode "power" [bt; e]))
          | None => None
          end
      end
  end.
Definition p_factor (es : list elem) : option ltree :=
  let '(s, more) := split_go 11 false es in p_factor_segs s more.

(* a binary level:  ?name: sub (op sub)*   -- a single operand is returned as it is (the `?` of the grammar);
   `keep` says whether the operator tokens stay in the tree (rules written with a `!_op` sub-rule) *)
Definition mk_chain (name : string) (keep : bool) (t0 : ltree) (rest : list (string * ltree)) : ltree :=
  match rest with
  | [] => t0
  | _ => LNode name (t0 :: flat_map (fun p => if keep then [LTok (TSym (fst p)); snd p] else [snd p]) rest)
  end.

Definition p_level (name : string) (keep : bool) (L : nat) (sub : list elem -> option ltree) (es : list elem)
  : option ltree :=
  let '(p0, rest) := split_go L false es in
  match sub p0, mapM (fun p => match sub (snd p) with Some t => Some (fst p, t) | None => None end) rest with
  | Some t0, Some ts => Some (mk_chain name keep t0 ts)
  | _, _ => None
  end.

Definition p_term := p_level "term" true 9 p_factor.
Definition p_arith := p_level "arith_expr" true 8 p_term.
Definition p_shift := p_level "shift_expr" true 7 p_arith.
Definition p_and_expr := p_level "and_expr" false 6 p_shift.
Definition p_xor_expr := p_level "xor_expr" false 5 p_and_expr.
Definition p_expr := p_level "expr" false 4 p_xor_expr.
Definition p_comparison := p_level "comparison" true 3 p_expr.

(* ?not_test: "not" not_test -> not | comparison *)
Fixpoint strip_nots (es : list elem) : nat * list elem :=
  match es with
  | ETok (TSym s) :: r => if s ==s "not" then let '(n, b) := strip_nots r in (S n, b) else (O, es)
  | _ => (O, es)
  end.
Fixpoint wrap_nots (n : nat) (t : ltree) : ltree :=
  match n with O => t | S k => LNode "not" [wrap_nots k t] end.
Definition p_not_test (es : list elem) : option ltree :=
  let '(n, b) := strip_nots es in option_map (wrap_nots n) (p_comparison b).

Definition p_and_test := p_level "and_test" false 1 p_not_test.
Definition p_or_test := p_level "or_test" false 0 p_and_test.
Definition p_test := p_or_test.            (* ?test: or_test   (conditional expressions, lambda: outside) *)

(* the content of a bracketed group: comma separated tests or key: value pairs, optional trailing comma *)
Definition parse_piece (es : list elem) : option gitem :=
  match split_sym ":" es with
  | (a, []) => option_map GTest (p_test a)
  | (a, [b]) => match p_test a, p_test b with Some k, Some v => Some (GKV k v) | _, _ => None end
  | _ => None
  end.
Fixpoint strip_trailing (ps : list (list elem)) : list (list elem) * bool :=
  match ps with
  | [] => ([], false)
  | [p] => ([p], false)
  | p :: more =>
      match more with
      | [[]] => ([p], true)
      | _ => let '(x, t) := strip_trailing more in (p :: x, t)
      end
  end.
Definition parse_content (es : list elem) : option (list gitem * bool) :=
  match es with
  | [] => Some ([], false)
  | _ =>
      let '(a, rest) := split_sym "," es in
      let '(ps, tr) := strip_trailing (a :: rest) in
      match mapM parse_piece ps with Some items => Some (items, tr) | None => None end
  end.

Definition open_of (t : tok) : option bk :=
  if sym_is t "(" then Some BParen else if sym_is t "[" then Some BBrack else if sym_is t "{" then Some BBrace else None.
Definition close_of (t : tok) : option bk :=
  if sym_is t ")" then Some BParen else if sym_is t "]" then Some BBrack else if sym_is t "}" then Some BBrace else None.

(* bracket matching: `cur` is the current depth's elements, reversed; `stack` the enclosing depths *)
Fixpoint scan (ts : list tok) (cur : list elem) (stack : list (bk * list elem)) : option (list elem) :=
  match ts with
  | [] => match stack with [] => Some (rev cur) | _ => None end
  | t :: ts' =>
      match open_of t with
      | Some k => scan ts' [] ((k, cur) :: stack)
      | None =>
          match close_of t with
          | Some k =>
              match stack with
              | (k', parent) :: st =>
                  if bk_eqb k k'
                  then match parse_content (rev cur) with
                       | Some (items, tr) => scan ts' (EGrp k items tr :: parent) st
                       | None => None
                       end
                  else None
              | [] => None
              end
          | None => scan ts' (ETok t :: cur) stack
          end
      end
  end.

Definition lark_of (ts : list tok) : option ltree :=
  match scan ts [] [] with Some es => p_test es | None => None end.

(* ------------------------------------------------------------------ 3. the tree walker *)
Inductive res (A : Type) := Ok (a : A) | Err.       (* every exception class is the one token Err *)
Arguments Ok {A} a.
Arguments Err {A}.

(* what the walker's environment provides: which names `_can_find_method_by_name` accepts (read from the
   running library by the harness: specials, user_fun_map, impl_map, callable attributes of Value) *)
Record cfg := mkcfg { known : list string }.

Definition op_remap : list (string * string) :=
  [("==", "__eq__"); ("!=", "__ne__"); ("<>", "__ne__"); ("<", "__lt__"); ("<=", "__le__"); (">", "__gt__");
   (">=", "__ge__"); ("+", "__add__"); ("-", "__sub__"); ("*", "__mul__"); ("/", "__truediv__");
   ("//", "__floordiv__"); ("%", "__mod__"); ("**", "__pow__"); ("&", "__and__"); ("^", "__xor__");
   ("|", "__or__"); ("%+%", "concat"); ("%?%", "coalesce"); ("%/%", "float_divide")]%string.
Definition factor_remap : list (string * string) := [("-", "__neg__"); ("+", "__pos__"); ("not", "not")]%string.

Fixpoint assoc (k : string) (l : list (string * string)) : option string :=
  match l with [] => None | (k', v) :: t => if k ==s k' then Some v else assoc k t end.
Definition remap (tbl : list (string * string)) (k : string) : string :=
  match assoc k tbl with Some v => v | None => k end.

(* Expression.__init__ *)
Definition mk_expr (c : cfg) (op : string) (args : list expr) (inline method : bool) : res expr :=
  if negb (mem_str op (known c)) then Err                  (* KeyError: can't find implementation *)
  else if inline && method then Err                        (* ValueError *)
  else Ok (EOp op inline method None args).

(* _check_expr_incompatible_types: only two Values can be an obvious problem *)
Definition obvious_type_problem (a b : expr) : bool :=
  match a, b with
  | EVal x, EVal y => negb (compatible_types [type_of x; type_of y])
  | _, _ => false
  end.

(* Term.__op_expr__ / __rop_expr__ / __uop_expr__ / __triop_expr__ *)
Definition op_expr (c : cfg) (op : string) (self other : expr) (inline method check : bool) : res expr :=
  if is_none_value self || is_none_value other then Err
  else if check && obvious_type_problem self other then Err
  else mk_expr c op [self; other] inline method.
Definition rop_expr (c : cfg) (op : string) (self other : expr) : res expr :=
  if is_none_value self || is_none_value other then Err
  else if obvious_type_problem self other then Err
  else mk_expr c op [other; self] true false.
Definition uop_expr (c : cfg) (op : string) (self : expr) (inline : bool) : res expr :=
  if is_none_value self then Err else mk_expr c op [self] inline (negb inline).
Definition triop_expr (c : cfg) (op : string) (self x y : expr) (inline method : bool) : res expr :=
  if is_none_value self then Err else mk_expr c op [self; x; y] inline method.

(* the methods of Term reachable from expression text (generated from the class body of expr_rep.Term;
   the harness probes every entry, and every other public Term method, against the running class) *)
Inductive mspec :=
| MUop (op : string)                                   (* return self.__uop_expr__(op) *)
| MBin (op : string) (inline method check : bool)      (* return self.__op_expr__(op, other, ...) *)
| MRBin (op : string)                                  (* return self.__rop_expr__(op, other) *)
| MTri (op : string) (inline method : bool)            (* return self.__triop_expr__(op, x, y, ...) *)
| MNeg | MPos | MRPow | MShift | MAround | MMapv | MTrimstr | MCoalesce0
| MFmt (op : string) (default : string) (must_be_value : bool).

Definition method_table : list (string * mspec) := [
  ("__eq__", MBin "==" true false true);
  ("__ne__", MBin "!=" true false true);
  ("__lt__", MBin "<" true false true);
  ("__le__", MBin "<=" true false true);
  ("__gt__", MBin ">" true false true);
  ("__ge__", MBin ">=" true false true);
  ("__add__", MBin "+" true false true);
  ("__radd__", MRBin "+");
  ("__sub__", MBin "-" true false true);
  ("__rsub__", MRBin "-");
  ("__mul__", MBin "*" true false true);
  ("__rmul__", MRBin "*");
  ("__truediv__", MBin "/" true false true);
  ("__rtruediv__", MRBin "/");
  ("float_divide", MBin "%/%" true false true);
  ("__floordiv__", MBin "//" true false true);
  ("__rfloordiv__", MRBin "//");
  ("__mod__", MBin "%" true false true);
  ("__rmod__", MRBin "%");
  ("__pow__", MBin "**" true false true);
  ("__rpow__", MRPow);
  ("__neg__", MNeg);
  ("__pos__", MPos);
  ("__and__", MBin "&" true false true);
  ("__rand__", MRBin "&");
  ("__xor__", MBin "^" true false true);
  ("__rxor__", MRBin "^");
  ("__or__", MBin "|" true false true);
  ("__ror__", MRBin "|");
  ("sign", MUop "sign");
  ("sin", MUop "sin");
  ("cos", MUop "cos");
  ("arcsin", MUop "arcsin");
  ("arccos", MUop "arccos");
  ("arctan", MUop "arctan");
  ("arctan2", MBin "arctan2" false true true);
  ("sinh", MUop "sinh");
  ("cosh", MUop "cosh");
  ("tanh", MUop "tanh");
  ("arcsinh", MUop "arcsinh");
  ("arccosh", MUop "arccosh");
  ("arctanh", MUop "arctanh");
  ("floor", MUop "floor");
  ("ceil", MUop "ceil");
  ("sum", MUop "sum");
  ("cumprod", MUop "cumprod");
  ("cumsum", MUop "cumsum");
  ("exp", MUop "exp");
  ("expm1", MUop "expm1");
  ("log", MUop "log");
  ("log10", MUop "log10");
  ("log1p", MUop "log1p");
  ("mod", MBin "mod" false true true);
  ("remainder", MBin "remainder" false true true);
  ("sqrt", MUop "sqrt");
  ("abs", MUop "abs");
  ("maximum", MBin "maximum" false true true);
  ("minimum", MBin "minimum" false true true);
  ("fmax", MBin "fmax" false false true);
  ("fmin", MBin "fmin" false false true);
  ("round", MUop "round");
  ("around", MAround);
  ("all", MUop "all");
  ("any", MUop "any");
  ("bfill", MUop "bfill");
  ("count", MUop "count");
  ("cumcount", MUop "cumcount");
  ("cummax", MUop "cummax");
  ("cummin", MUop "cummin");
  ("ffill", MUop "ffill");
  ("is_monotonic_decreasing", MUop "is_monotonic_decreasing");
  ("is_monotonic_increasing", MUop "is_monotonic_increasing");
  ("any_value", MUop "any_value");
  ("first", MUop "first");
  ("last", MUop "last");
  ("max", MUop "max");
  ("mean", MUop "mean");
  ("median", MUop "median");
  ("min", MUop "min");
  ("nunique", MUop "nunique");
  ("rank", MUop "rank");
  ("size", MUop "size");
  ("std", MUop "std");
  ("var", MUop "var");
  ("shift", MShift);
  ("is_null", MUop "is_null");
  ("is_nan", MUop "is_nan");
  ("is_inf", MUop "is_inf");
  ("is_bad", MUop "is_bad");
  ("if_else", MTri "if_else" false true);
  ("where", MTri "where" false true);
  ("is_in", MBin "is_in" false true false);
  ("concat", MBin "concat" false true false);
  ("coalesce", MBin "coalesce" false true true);
  ("co_equalizer", MBin "co_equalizer" false true true);
  ("mapv", MMapv);
  ("as_int64", MUop "as_int64");
  ("as_str", MUop "as_str");
  ("trimstr", MTrimstr);
  ("coalesce_0", MCoalesce0);
  ("datetime_to_date", MUop "datetime_to_date");
  ("parse_datetime", MFmt "parse_datetime" "%Y-%m-%d %H:%M:%S" true);
  ("parse_date", MFmt "parse_date" "%Y-%m-%d" false);
  ("format_datetime", MFmt "format_datetime" "%Y-%m-%d %H:%M:%S" true);
  ("format_date", MFmt "format_date" "%Y-%m-%d" false);
  ("dayofweek", MUop "dayofweek");
  ("dayofyear", MUop "dayofyear");
  ("dayofmonth", MUop "dayofmonth");
  ("weekofyear", MUop "weekofyear");
  ("month", MUop "month");
  ("quarter", MUop "quarter");
  ("year", MUop "year");
  ("timestamp_diff", MBin "timestamp_diff" false true true);
  ("date_diff", MBin "date_diff" false true false);
  ("base_Sunday", MUop "base_Sunday")
]%string.

Fixpoint find_method (m : string) (l : list (string * mspec)) : option mspec :=
  match l with [] => None | (k, v) :: t => if m ==s k then Some v else find_method m t end.

(* `getattr(self, m)` applied to the walked arguments.  A wrong number of arguments is Python's TypeError; attributes that are not in the
   table (no such attribute, or housekeeping methods such as is_equal / to_python, which never return a Term to
   the walker) are Err.  ListTerm / DictTerm (PreTerm only) have none of these methods. *)
Definition call_method (c : cfg) (m : string) (self : expr) (args : list expr) : res expr :=
  if negb (is_term self) then Err else
  match find_method m method_table with
  | None => Err
  | Some sp =>
      match sp, args with
      | MUop op, [] => uop_expr c op self false
      | MBin op i me chk, [o] => op_expr c op self o i me chk
      | MRBin op, [o] => rop_expr c op self o
      | MTri op i me, [x; y] => triop_expr c op self x y i me
      | MNeg, [] =>
          match self with
          | EVal v => match py_neg v with Some v' => Ok (EVal v') | None => Err end     (* Value.__neg__ *)
          | _ => uop_expr c "-" self true
          end
      | MPos, [] => Ok self
      | MRPow, [o] => rop_expr c "**" self o
      | MRPow, [o; _] => rop_expr c "**" self o
      | MShift, [] => op_expr c "shift" self (EVal (PInt 1)) false true true
      | MShift, [EVal (PInt z)] => if Z.eqb z 0 then Err else op_expr c "shift" self (EVal (PInt z)) false true true
      | MShift, [EVal (PBool b)] => if b then op_expr c "shift" self (EVal (PBool b)) false true true else Err
      | MAround, [EVal v] => op_expr c "around" self (EVal v) false false true
      | MMapv, [EDict d] => triop_expr c "mapv" self (EDict d) (EVal PNone) false true
      | MMapv, [EDict d; EVal v] => triop_expr c "mapv" self (EDict d) (EVal v) false true
      | MTrimstr, [EVal a; EVal b] => triop_expr c "trimstr" self (EVal a) (EVal b) false true
      | MCoalesce0, [] => op_expr c "coalesce" self (EVal (PInt 0)) false true true
      | MFmt op dflt _, [] => op_expr c op self (EVal (PStr dflt)) false true false
      | MFmt op _ must, [o] =>
          if must && negb (match o with EVal _ => true | _ => false end) then Err
          else op_expr c op self o false true false
      | _, _ => Err
      end
  end.

(* str(child) for an operator child: the token text (number / string tokens never name a method) *)
Definition is_dunder (s : string) : bool := String.prefix "__" s.

Definition tok_text (t : ltree) : option string :=
  match t with LTok (TSym s) => Some s | LTok (TName s) => Some s | _ => None end.

Fixpoint evens {A} (l : list A) : list A :=
  match l with [] => [] | x :: t => x :: match t with [] => [] | _ :: t' => evens t' end end.
Fixpoint odds {A} (l : list A) : list A :=
  match l with [] => [] | _ :: t => match t with [] => [] | y :: t' => y :: odds t' end end.

Fixpoint all_ok {A} (l : list (res A)) : res (list A) :=
  match l with
  | [] => Ok []
  | Ok x :: t => match all_ok t with Ok r => Ok (x :: r) | Err => Err end
  | Err :: _ => Err
  end.
Fixpoint all_some {A} (l : list (option A)) : option (list A) :=
  match l with
  | [] => Some []
  | Some x :: t => match all_some t with Some r => Some (x :: r) | None => None end
  | None :: _ => None
  end.

Definition all_same (l : list string) : option string :=
  match l with [] => None | x :: t => if forallb (String.eqb x) t then Some x else None end.

(* res = walk(c0); for (op, ci): res = getattr(res, op_remap.get(op, op))(walk(ci)) *)
Fixpoint chain_fold (c : cfg) (acc : res expr) (ops : list (option string)) (rs : list (res expr)) : res expr :=
  match ops, rs with
  | [], _ => acc
  | o :: ops', r :: rs' =>
      match acc, o, r with
      | Ok a, Some op, Ok b => chain_fold c (call_method c (remap op_remap op) a [b]) ops' rs'
      | _, _, _ => Err
      end
  | _ :: _, [] => Err
  end.

Fixpoint pow_fold (c : cfg) (acc : res expr) (rs : list expr) : res expr :=
  match rs with
  | [] => acc
  | b :: rs' => match acc with Ok a => pow_fold c (call_method c "__pow__" a [b]) rs' | Err => Err end
  end.

(* combined[k] = v for the key/values of every walked child (each a one-entry DictTerm) *)
Fixpoint dict_combine (acc : list (pval * pval)) (ds : list expr) : option (list (pval * pval)) :=
  match ds with
  | [] => Some acc
  | EDict kvs :: t =>
      if existsb (fun kv => pval_eqb (fst kv) PNone) kvs then None
      else dict_combine (fold_left (fun a kv => pdict_set a (fst kv) (snd kv)) kvs acc) t
  | _ :: _ => None
  end.

(* the items of a list / tuple / set node (3753518): the children of a tuplelist_comp / set_comp (walked: `grs`),
   nothing for [] and (), else the lone item itself (walked: the first of `rs`) *)
Definition coll_items (cs : list ltree) (rs : list (res expr)) (grs : option (list (res expr)))
  : option (list (res expr)) :=
  match cs with
  | [LNone] => Some []
  | [LNode cd _] => if mem_str cd ["tuplelist_comp"; "set_comp"] then grs else Some [nth 0 rs Err]
  | [LTok _] => Some [nth 0 rs Err]
  | _ => None
  end.

(* one node, given the walked children `rs`, the walked children `grs` of the first child (collections walk
   `r_op.children[0].children`, a method call walks `method_carrier.children[0]`) and the walked children `ars`
   of the second child (`r_op.children[1].children`, the call arguments) *)
Definition walk_node (c : cfg) (d : string) (cs : list ltree) (rs : list (res expr))
    (grs ars : option (list (res expr))) : res expr :=
  if d ==s "const_true" then Ok (EVal (PBool true))
  else if d ==s "const_false" then Ok (EVal (PBool false))
  else if d ==s "const_none" then Ok (EVal PNone)
  else if mem_str d ["single_input"; "number"; "string"; "var"] then nth 0 rs Err
  else if mem_str d ["arith_expr"; "term"; "comparison"] then
    let nc := List.length cs in
    if Nat.ltb nc 3 || Nat.even nc then Err
    else if (d ==s "comparison") && Nat.ltb 3 nc then Err       (* chained comparisons are not supported (1b8c7b2) *)
    else
      let ops := map tok_text (odds cs) in
      let kop :=
        match all_some ops with
        | Some names =>
            match all_same names with
            | Some o => if mem_str d ["arith_expr"; "term"] && mem_str o ["+"; "*"] then Some o else None
            | None => None
            end
        | None => None
        end in
      match kop with
      | Some o => match all_ok (evens rs) with Ok args => mk_expr c o args true false | Err => Err end
      | None => chain_fold c (nth 0 rs Err) ops (match evens rs with [] => [] | _ :: t => t end)
      end
  else if mem_str d ["power"; "expr"; "and_expr"; "xor_expr"] then
    if Nat.ltb (List.length cs) 2 then Err
    else if negb (d ==s "power") then Err                   (* bitwise operation ..., not currently supported *)
    else match all_ok rs with
         | Ok (a :: more) => pow_fold c (Ok a) more
         | _ => Err
         end
  else if d ==s "factor" then
    match cs, rs with
    | [o; _], [_; r] =>
        match tok_text o, r with
        | Some op, Ok rgt => call_method c (remap factor_remap op) rgt []
        | _, _ => Err
        end
    | _, _ => Err
    end
  else if d ==s "funccall" then
    if Nat.ltb 2 (List.length cs) then Err
    else
      match cs with
      | [] => Err
      | carrier :: rest =>
          (* args = [walk(ai) for ai in children[1].children] when there is a second, non-None child *)
          let args : res (list expr) :=
            match rest, rs with
            | [], _ => Ok []
            | LNone :: _, _ => Ok []
            | LNode _ _ :: _, _ => match ars with Some l => all_ok l | None => Err end
            | LTok _ :: _, _ => Err
            end in
          match carrier with
          | LNode cd ccs =>
              if cd ==s "getattr" then
                (* method invoke: var = walk(carrier.children[0]); op_name = str(carrier.children[1]) *)
                match ccs, grs with
                | o :: nm :: _, Some (ro :: _) =>
                    match ro, tok_text nm, args with
                    | Ok self, Some m, Ok a =>
                        if is_dunder m then Err                (* special methods are not callable from text (181daac) *)
                        else call_method c m self a
                    | _, _, _ => Err
                    end
                | _, _ => Err
                end
              else if negb (cd ==s "var") then Err             (* only a function name can be called (181daac) *)
              else
                (* function invoke: op_name = str(carrier.children[0]) *)
                match ccs with
                | h :: _ =>
                    match tok_text h, args with
                    | Some f, Ok a => mk_expr c f a false false
                    | _, _ => Err
                    end
                | [] => Err
                end
          | LTok t =>
              match tok_text (LTok t), args with
              | Some f, Ok a => mk_expr c f a false false
              | _, _ => Err
              end
          | LNone => Err
          end
      end
  else if mem_str d ["or_test"; "or_test_sym"; "and_test"; "and_test_sym"] then
    if Nat.ltb (List.length cs) 2 then Err
    else match all_ok rs with
         | Ok args => mk_expr c (if mem_str d ["or_test"; "or_test_sym"] then "or" else "and") args true false
         | Err => Err
         end
  else if d ==s "not" then
    match rs with
    | [Ok lft] => call_method c "__eq__" lft [EVal (PBool false)]
    | _ => Err
    end
  else if mem_str d ["list"; "tuple"; "set"] then
    match coll_items cs rs grs with
    | Some l =>
        match all_ok l with
        | Ok vs =>
            match all_some (map (fun e => match e with EVal v => Some v | _ => None end) vs) with
            | Some vals =>
                if existsb (fun v => pval_eqb v PNone) vals then Err
                else if negb (compatible_types (map type_of vals)) then Err
                else Ok (EList vals)
            | None => Err
            end
        | Err => Err
        end
    | None => Err
    end
  else if d ==s "dict" then
    match cs, grs with
    | [_], Some l =>
        match all_ok l with
        | Ok ds =>
            match dict_combine [] ds with
            | Some comb =>
                if negb (compatible_types (map (fun kv => type_of (fst kv)) comb)) then Err
                else if negb (compatible_types (map (fun kv => type_of (snd kv)) comb)) then Err
                else Ok (EDict comb)
            | None => Err
            end
        | Err => Err
        end
    | _, _ => Err
    end
  else if d ==s "key_value" then
    match rs with
    | [Ok (EVal k); Ok (EVal v)] => Ok (EDict [(k, v)])
    | _ => Err
    end
  else Err.                       (* expr_stmt, and every other kind: ValueError *)

(* _r_walk_lark_tree.  `dd` = the keys of data_def (column names). *)
Fixpoint walk (c : cfg) (dd : list string) (t : ltree) {struct t} : res expr :=
  match t with
  | LNone => Err
  | LTok tk =>
      match tk with
      | TInt n => Ok (EVal (PInt (Z.of_N n)))
      | TFloat (Some m) => Ok (EVal (PFloat false m))
      | TFloat None => Err                        (* float literal out of range (e648ab6) *)
      | TStr s => Ok (EVal (PStr s))
      | TName s => if mem_str s dd then Ok (ECol s) else Err       (* lookup_symbol *)
      | _ => Err
      end
  | LNode d cs =>
      let rs := map (walk c dd) cs in
      let grs := match cs with LNode _ gcs :: _ => Some (map (walk c dd) gcs) | _ => None end in
      let ars := match cs with _ :: LNode _ acs :: _ => Some (map (walk c dd) acs) | _ => None end in
      walk_node c d cs rs grs ars
  end.

(* parse_by_lark: walk, then `assert isinstance(v, Term)` *)
Definition parse_tree (c : cfg) (dd : list string) (t : ltree) : res expr :=
  match walk c dd t with Ok e => if is_term e then Ok e else Err | Err => Err end.
Definition parse (c : cfg) (dd : list string) (ts : list tok) : res expr :=
  match lark_of ts with Some t => parse_tree c dd t | None => Err end.
