(* C21 -- the solution helpers of data_algebra/solutions.py as pipelines of Model/Sem.v, and their documented meaning.

   PIPELINES (hand transcription of solutions.py: same steps, same intermediate column names, same expressions):
     replicate_rows_pipeline, rank_to_average_pipeline, locf_pipeline   : Sem.op
     multi_map_pipeline                                                 : xop (Sem.op + convert_records, see below)
   SPECIFICATIONS written from the docstrings, over lists, independent of the pipelines:
     replicate_spec, rank_avg_spec, locf_spec, multimap_spec.

   LOCAL EXTENSIONS of the reference semantics (Model/Sem.v is shared and read-only) -- modelled, not verified, and
   compared with Pandas and SQLite on the helpers' pipelines on every run:
     * sem_x : sem_gen plus three scalar methods the helpers use and Sem.scalar_op does not have:
         where(c, a, b)        numpy.where / CASE WHEN          (only ever applied to an is_null() test here)
         ('p').concat(k)       string concatenation with the decimal numeral of a non-negative integer
         ((n.log() / (2).log()).ceil()).as_int64()
                               a FLOAT computation; its value on a positive integer n is `pw n`, an uninterpreted
                               function (Section variable of the theorems, whose hypothesis n <= 2^(pw n) /\ pw n <= P
                               appears in the statement and is swept against the real float code by the harness).
                               `norm_expr` recognises exactly this expression shape and nothing else.
     * sem_xop : convert_records for the two record maps def_multi_column_map builds (unpivot / pivot with one value
       column), by binding intermediate results to reserved table names. *)
From Coq Require Import List Bool Arith ZArith QArith String Decimal DecimalString Permutation.
Import ListNotations.
From DA Require Import Base.PyRT Base.Val Model.Sem.
Local Open Scope string_scope.
Local Open Scope list_scope.

(* ------------------------------------------------------------------ small values *)
Definition dec_of_nat (n : nat) : string := NilEmpty.string_of_uint (Nat.to_uint n).
Definition vnat (n : nat) : val := qn (inject_Z (Z.of_nat n)).
(* the non-negative integer a value denotes, if any *)
Definition nat_of_val (v : val) : option nat :=
  match num_of v with
  | Some q => let q' := Qred q in
              if Pos.eqb (Qden q') 1 && Z.leb 0 (Qnum q') then Some (Z.to_nat (Qnum q')) else None
  | None => None
  end.
Fixpoint nodupb (l : list string) : bool := match l with [] => true | x :: t => negb (mem x t) && nodupb t end.
Fixpoint pairwiseb {A} (f : A -> A -> bool) (l : list A) : bool :=
  match l with [] => true | x :: t => forallb (f x) t && pairwiseb f t end.
Definition widthb (t : table) : bool := forallb (fun r => Nat.eqb (List.length r) (List.length (cols t))) (rows t).

(* two tables are the same result: same columns, same rows as a multiset *)
Definition tbl_equiv (a b : table) : Prop := cols a = cols b /\ Permutation (rows a) (rows b).

(* ------------------------------------------------------------------ sem_x: sem_gen with the three extra scalar methods *)
Definition is_two (e : expr) : bool :=
  match e with EConst v => match num_of v with Some q => Qeq_bool q 2 | None => false end | _ => false end.
Definition ceil_log2_shape (op : string) (args : list expr) : option expr :=
  if String.eqb op "as_int64" then
    match args with
    | [EOp o1 [EOp o2 [EOp o3 [a]; EOp o4 [b]]]] =>
        if String.eqb o1 "ceil" && String.eqb o2 "/" && String.eqb o3 "log" && String.eqb o4 "log" && is_two b
        then Some a else None
    | _ => None
    end
  else None.
Fixpoint norm_expr (e : expr) : expr :=
  match e with
  | EOp op args =>
      let args' := (fix go (l : list expr) : list expr := match l with [] => [] | a :: t => norm_expr a :: go t end) args in
      match ceil_log2_shape op args' with Some a => EOp "ceil_log2" [a] | None => EOp op args' end
  | _ => e
  end.

Section X.
  Variable pw : nat -> nat.

  Definition xscalar (fl : flavor) (op : string) (args : list val) : val :=
    if String.eqb op "where" then
      match args with [c; a; b] => if is_null c then VNull else if truth c then a else b | _ => VNull end
    else if String.eqb op "concat" then
      match args with
      | [VStr a; b] => match nat_of_val b with Some n => VStr (String.append a (dec_of_nat n)) | None => VNull end
      | _ => VNull
      end
    else if String.eqb op "ceil_log2" then
      match args with
      | [a] => match nat_of_val a with Some n => if Nat.leb 1 n then vnat (pw n) else VNull | None => VNull end
      | _ => VNull
      end
    else scalar_op fl op args.

  Fixpoint eval_n (fl : flavor) (cs : list string) (r : list val) (e : expr) : val :=
    match e with
    | ECol c => get cs r c
    | EConst v => v
    | EOp op args => xscalar fl op ((fix go (l : list expr) : list val := match l with [] => [] | a :: t => eval_n fl cs r a :: go t end) args)
    end.
  Definition eval_x (fl : flavor) (cs : list string) (r : list val) (e : expr) : val := eval_n fl cs r (norm_expr e).

  Definition extend_row_x (fl : flavor) (cs : list string) (ops : list (string * expr)) (r : list val) : list val :=
    fst (fold_left (fun acc ke => let '(row, ccs) := acc in
                                   (set_cell ccs row (fst ke) (eval_x fl cs r (snd ke)), add_end ccs (fst ke)))
                   ops (r, cs)).
  Definition sem_extend_x (fl : flavor) (ops : list (string * expr)) (t : table) : table :=
    mktable (ext_cols (cols t) (map fst ops)) (map (extend_row_x fl (cols t) ops) (rows t)).
  Definition sem_select_rows_x (fl : flavor) (e : expr) (t : table) : table :=
    mktable (cols t) (filter (fun r => truth (eval_x fl (cols t) r e)) (rows t)).

  (* identical to Sem.sem_gen except for the scalar evaluator of row-wise extend and select_rows *)
  Fixpoint sem_x (fl : flavor) (p : op) (e : env) : option table :=
    let sem := sem_x fl in
    match p with
    | OTable n cs => match dict_get e n with Some t => Some (sem_select_cols cs t) | None => None end
    | OExtend s ops wd w => option_map (if wd then sem_wextend fl ops w else sem_extend_x fl ops) (sem s e)
    | OProject s ops gb => option_map (sem_project fl ops gb) (sem s e)
    | OSelectRows s x => option_map (sem_select_rows_x fl x) (sem s e)
    | OSelectCols s cs => option_map (sem_select_cols cs) (sem s e)
    | ODropCols s cs => option_map (sem_drop_cols cs) (sem s e)
    | ORename s m => option_map (sem_rename m) (sem s e)
    | OMapCols s m dels => option_map (fun t => sem_drop_cols dels (sem_rename m t)) (sem s e)
    | OOrder s cs rev lim => option_map (sem_order fl cs rev lim) (sem s e)
    | OJoin a b on_a on_b jt => match sem a e, sem b e with Some ta, Some tb => Some (sem_join (f_join_null_match fl) on_a on_b jt ta tb) | _, _ => None end
    | OConcat a b idc an bn => match sem a e, sem b e with Some ta, Some tb => Some (sem_concat idc an bn ta tb) | _, _ => None end
    end.
End X.

Definition no_win : window := mkwin [] [] [].

(* ------------------------------------------------------------------ orders shared by the specifications *)
Definition okeys (ob : list string) : list (string * bool) := map (fun c => (c, false)) ob.
Definition same_part (cs pb : list string) (r r' : list val) : bool := keys_eqv (key_of cs pb r) (key_of cs pb r').
(* r' comes strictly before r / is tied with r in the ascending order on the columns ob (null placement: the flavour's) *)
Definition before (fl : flavor) (cs ob : list string) (r' r : list val) : bool :=
  row_le fl cs (okeys ob) r' r && negb (row_le fl cs (okeys ob) r r').
Definition tied (fl : flavor) (cs ob : list string) (r' r : list val) : bool :=
  row_le fl cs (okeys ob) r' r && row_le fl cs (okeys ob) r r'.

(* ================================================================== replicate_rows_query *)
Definition power_col : string := "power".
(* f'"p" %+% ({count}.log() / (2).log()).ceil().as_int64()' as parsed *)
Definition power_expr (cnt : string) : expr :=
  EOp "concat" [EConst (VStr "p"); EOp "as_int64" [EOp "ceil" [EOp "/" [EOp "log" [ECol cnt]; EOp "log" [EConst (vnat 2)]]]]].
Definition replicate_rows_pipeline (d : op) (cnt seq jt : string) : op :=
  ODropCols
    (OSelectRows
       (OJoin (OExtend d [(power_col, power_expr cnt)] false no_win)
              (OTable jt [power_col; seq]) [power_col] [power_col] JInner)
       (EOp "<" [ECol seq; ECol cnt]))
    [power_col].
(* the frame the helper returns next to the pipeline: for p = 0..P the rows ("p<p>", 0) .. ("p<p>", 2^p - 1) *)
Definition count_frame_rows (P : nat) : list (list val) :=
  flat_map (fun p => map (fun i => [VStr (String.append "p" (dec_of_nat p)); vnat i]) (seq 0 (2 ^ p))) (seq 0 (S P)).
Definition count_frame (seqc : string) (P : nat) : table := mktable [power_col; seqc] (count_frame_rows P).

(* documentation: "replicate each row by count_column_name copies", sequence numbers 0..count-1 in seq_column_name *)
Definition replicate_spec (cnt seqc : string) (t : table) : table :=
  mktable (cols t ++ [seqc])
    (flat_map (fun r => match nat_of_val (get (cols t) r cnt) with
                        | Some c => map (fun i => r ++ [vnat i]) (seq 0 c)
                        | None => []
                        end) (rows t)).
(* valid input: the helper's own assertions on names (plus seq <> "power", which it forgets to assert and the builder
   rejects), unique column names, and every count an integer in 1..max_count *)
Definition replicate_valid (cnt seqc : string) (maxc : nat) (t : table) : bool :=
  mem cnt (cols t) && negb (mem seqc (cols t)) && negb (mem power_col (cols t)) && negb (String.eqb seqc power_col)
  && nodupb (cols t) && widthb t
  && forallb (fun r => match nat_of_val (get (cols t) r cnt) with Some c => Nat.leb 1 c && Nat.leb c maxc | None => false end) (rows t).

(* ================================================================== rank_to_average *)
Definition rank_to_average_pipeline (d : op) (ob pb : list string) (rank tb : string) : op :=
  ODropCols
    (OExtend
       (OExtend
          (OExtend d [(tb, EOp "_row_number" [])] true (mkwin [] ob []))
          [(rank, EOp "cumsum" [EConst (vnat 1)])] true (mkwin pb (ob ++ [tb]) []))
       [(rank, EOp "mean" [ECol rank])] true (mkwin (pb ++ ob) [] []))
    [tb].

(* documentation: "the rank of each item is the average of all items with same order position", per partition:
   the rows of r's partition strictly before r occupy positions 1..L, r's tie group the positions L+1..L+T *)
Definition qmean (l : list Q) : val := match l with [] => VNull | _ => qn (Qdiv (qsum l) (inject_Z (Z.of_nat (List.length l)))) end.
Definition rank_avg_value (fl : flavor) (cs pb ob : list string) (rs : list (list val)) (r : list val) : val :=
  let part := filter (same_part cs pb r) rs in
  let L := List.length (filter (fun r' => before fl cs ob r' r) part) in
  let T := List.length (filter (fun r' => tied fl cs ob r' r) part) in
  qmean (map (fun p => inject_Z (Z.of_nat p)) (seq (S L) T)).
Definition rank_avg_spec (fl : flavor) (ob pb : list string) (rank : string) (t : table) : table :=
  mktable (cols t ++ [rank]) (map (fun r => r ++ [rank_avg_value fl (cols t) pb ob (rows t) r]) (rows t)).
Definition rank_valid (ob pb : list string) (rank tb : string) (t : table) : bool :=
  negb (mem rank (cols t)) && negb (mem tb (cols t)) && negb (String.eqb rank tb)
  && subset ob (cols t) && subset pb (cols t) && nodupb (cols t) && widthb t.

(* ================================================================== last_observed_carried_forward *)
(* selection_predicate is the default "is_null()" *)
Definition locf_marked (d : op) (ob pb : list string) (vcol use rk tb : string) : op :=
  OExtend
    (OExtend
       (OExtend d [(use, EOp "where" [EOp "is_null" [ECol vcol]; EConst (vnat 0); EConst (vnat 1)])] false no_win)
       [(tb, EOp "_row_number" [])] true (mkwin [] (pb ++ ob) []))
    [(rk, EOp "cumsum" [ECol use])] true (mkwin pb (ob ++ [tb]) []).
Definition locf_pipeline (d : op) (ob pb : list string) (vcol use rk tb : string) : op :=
  let m := locf_marked d ob pb vcol use rk tb in
  ODropCols
    (OJoin m (OSelectCols (OSelectRows m (EOp "==" [ECol use; EConst (vnat 1)])) (pb ++ [rk; vcol]))
           (pb ++ [rk]) (pb ++ [rk]) JLeft)
    [use; rk; tb].

(* the last element of a list in the order le (the later of two tied elements wins; ties are excluded by validity) *)
Definition latest {A} (le : A -> A -> bool) (l : list A) : option A :=
  fold_left (fun best c => match best with None => Some c | Some b => if le b c then Some c else Some b end) l None.
(* documentation: "copy last observed non-null value in column value_column_name forward using order order_by and
   optional partition_by partition" *)
Definition locf_value (fl : flavor) (cs pb ob : list string) (vcol : string) (rs : list (list val)) (r : list val) : val :=
  if negb (is_null (get cs r vcol)) then get cs r vcol
  else match latest (row_le fl cs (okeys ob))
               (filter (fun r' => same_part cs pb r r' && before fl cs ob r' r && negb (is_null (get cs r' vcol))) rs) with
       | Some c => get cs c vcol
       | None => VNull
       end.
Definition locf_spec (fl : flavor) (ob pb : list string) (vcol : string) (t : table) : table :=
  mktable (cols t) (map (fun r => set_cell (cols t) r vcol (locf_value fl (cols t) pb ob vcol (rows t) r)) (rows t)).
(* valid input: the helper's assertions on the temporary names, the builder's on the used columns, partition keys are not
   null (a null key is a partition for the window and a non-matching key for a SQL join), and the order is total inside
   every partition (otherwise "latest earlier" is not defined) *)
Definition locf_valid (fl : flavor) (ob pb : list string) (vcol use rk tb : string) (t : table) : bool :=
  let cs := cols t in
  negb (mem use cs) && negb (mem rk cs) && negb (mem tb cs) && nodupb [use; rk; tb]
  && mem vcol cs && negb (mem vcol pb) && subset ob cs && subset pb cs && nodupb pb && nodupb cs && widthb t
  && forallb (fun r => forallb (fun c => negb (is_null (get cs r c))) pb) (rows t)
  && pairwiseb (fun r r' => negb (same_part cs pb r r' && tied fl cs ob r r')) (rows t).

(* ================================================================== def_multi_column_map *)
(* Sem.op has no convert_records node.  xop = Sem pipelines + the two record maps the helper builds
   (unpivot_specification / pivot_specification with a single value column), glued by binding intermediate results to
   table names: XLet n b body evaluates body with table n bound to the result of b. *)
Inductive xop :=
  | XSem (p : op)
  | XLet (n : string) (b : xop) (body : xop)
  | XUnpivot (src : xop) (keys : list string) (namec valc : string) (vcols : list string)   (* blocks_out: rows -> blocks *)
  | XPivot (src : xop) (keys : list string) (namec valc : string) (vcols : list string).    (* blocks_in: blocks -> rows *)

(* rows -> blocks: each row becomes one row per value column: keys, the column's NAME, the column's value *)
Definition sem_unpivot (keys : list string) (namec valc : string) (vcols : list string) (t : table) : table :=
  mktable (keys ++ [namec; valc])
    (flat_map (fun r => map (fun c => key_of (cols t) keys r ++ [VStr c; get (cols t) r c]) vcols) (rows t)).
(* blocks -> rows: one row per distinct record key; column c holds the value of the block row named c (null if absent) *)
Definition sem_pivot (keys : list string) (namec valc : string) (vcols : list string) (t : table) : table :=
  let cs := cols t in
  mktable (keys ++ vcols)
    (map (fun k => k ++ map (fun c => match find (fun r => keys_eqv k (key_of cs keys r) && v_eqv (get cs r namec) (VStr c)) (rows t) with
                                      | Some r => get cs r valc
                                      | None => VNull
                                      end) vcols)
         (distinct_keys (map (key_of cs keys) (rows t)))).

Section XO.
  Variable pw : nat -> nat.
  Fixpoint sem_xop (fl : flavor) (p : xop) (e : env) : option table :=
    match p with
    | XSem q => sem_x pw fl q e
    | XLet n b body => match sem_xop fl b e with Some t => sem_xop fl body ((n, t) :: e) | None => None end
    | XUnpivot s keys namec valc vcols => option_map (sem_unpivot keys namec valc vcols) (sem_xop fl s e)
    | XPivot s keys namec valc vcols => option_map (sem_pivot keys namec valc vcols) (sem_xop fl s e)
    end.
End XO.

Definition mm_tmp1 : string := "@unpivoted".
Definition mm_tmp2 : string := "@pivoted".
(* coalesce : the literal of coalesce_value (None = no coalesce step); back : cols_to_map_back (None = keep the names) *)
Definition multi_map_pipeline (d m : op) (keys : list string) (namec valc mapc : string) (vcols : list string)
           (coalesce : option val) (back : option (list string)) : xop :=
  let joined := OJoin (OTable mm_tmp1 (keys ++ [namec; valc])) (OSelectCols m [namec; valc; mapc]) [namec; valc] [namec; valc] JLeft in
  let co := match coalesce with
            | Some v => OExtend joined [(mapc, EOp "coalesce" [ECol mapc; EConst v])] false no_win
            | None => joined
            end in
  let piv := XPivot (XLet mm_tmp1 (XUnpivot (XSem (OSelectCols d (keys ++ vcols))) keys namec valc vcols) (XSem co)) keys namec mapc vcols in
  match back with
  | Some bs => XLet mm_tmp2 piv (XSem (ORename (OTable mm_tmp2 (keys ++ vcols)) (combine bs vcols)))
  | None => piv
  end.

(* what the helper returns.  RecordMap.__init__ (cdata.py) treats a control table with at most one row as a row record
   ("if blocks_out.control_table.shape[0] <= 1: blocks_out = None") and then raises ValueError("At least one of blocks_in or
   blocks_out should not be None or a non-row record"): with ONE column to map the helper raises instead of returning a
   pipeline, although its own assertion is only len(cols_to_map) > 0. *)
Definition multi_map_build (d m : op) (keys : list string) (namec valc mapc : string) (vcols : list string)
           (coalesce : option val) (back : option (list string)) : option xop :=
  if Nat.leb (List.length vcols) 1 then None else Some (multi_map_pipeline d m keys namec valc mapc vcols coalesce back).

(* documentation: "map all columns in list cols_to_map through the mapping in mapping table (key by column name and
   value)"; unmapped values become null (then coalesce_value, when given) *)
Definition map_lookup (mcs : list string) (namec valc mapc : string) (mrows : list (list val)) (c : string) (v : val) : val :=
  if is_null v then VNull
  else match find (fun mr => v_eqv (get mcs mr namec) (VStr c) && v_eqv (get mcs mr valc) v) mrows with
       | Some mr => get mcs mr mapc
       | None => VNull
       end.
Definition multimap_spec (keys : list string) (namec valc mapc : string) (vcols : list string)
           (coalesce : option val) (back : option (list string)) (t m : table) : table :=
  mktable (keys ++ match back with Some bs => bs | None => vcols end)
    (map (fun r => key_of (cols t) keys r ++
                   map (fun c => let v := map_lookup (cols m) namec valc mapc (rows m) c (get (cols t) r c) in
                                 match coalesce with Some d => if is_null v then d else v | None => v end) vcols)
         (rows t)).
(* valid input (docstring): d uniquely keyed by row_keys, the mapping table uniquely keyed by (column name, value);
   keys are not null; names as the helper asserts them *)
Definition multimap_valid (keys : list string) (namec valc mapc : string) (vcols : list string) (back : option (list string))
           (t m : table) : bool :=
  let cs := cols t in let mcs := cols m in
  negb (Nat.eqb (List.length keys) 0) && negb (Nat.eqb (List.length vcols) 0)
  && nodupb (keys ++ vcols) && nodupb (keys ++ [namec; valc; mapc])
  && (match back with Some bs => nodupb (keys ++ bs) && Nat.eqb (List.length bs) (List.length vcols) | None => true end)
  && subset (keys ++ vcols) cs && subset [namec; valc; mapc] mcs && nodupb cs && nodupb mcs && widthb t && widthb m
  && forallb (fun r => forallb (fun c => negb (is_null (get cs r c))) keys) (rows t)
  && pairwiseb (fun r r' => negb (keys_eqv (key_of cs keys r) (key_of cs keys r'))) (rows t)
  && forallb (fun mr => negb (is_null (get mcs mr namec)) && negb (is_null (get mcs mr valc))) (rows m)
  && pairwiseb (fun a b => negb (v_eqv (get mcs a namec) (get mcs b namec) && v_eqv (get mcs a valc) (get mcs b valc))) (rows m).
