(* C27 correspondence driver at the level of ONE ordered partition: the values a real backend wrote for the rows of a
   partition, read in the declared order, against Model/Sem.v's win_fn (or, for the listed deviations, against the hand
   models of Model/WindowSpec.v).  The whole-pipeline correspondence (partitioning, sorting, writing back) is Model/SemCases.v. *)
From Coq Require Import List Bool Arith ZArith QArith String.
Import ListNotations.
From DA Require Import Base.PyRT Base.Cases Base.Val Model.Sem Model.SemCases Model.WindowSpec.

Inductive wvariant := WSem | WSqlOrderedAgg | WPolarsFirst | WPolarsLast | WPolarsNunique.
Record wcase := mkw { wc_fl : flavor; wc_var : wvariant; wc_op : string; wc_extra : list val; wc_vs : list val; wc_obs : list val }.

Definition model_vals (c : wcase) : list val :=
  match wc_var c with
  | WSem => win_fn (wc_fl c) (wc_op c) (wc_extra c) (wc_vs c)
  | WSqlOrderedAgg => sql_ordered_agg (wc_fl c) (wc_op c) (wc_vs c)
  | WPolarsFirst => polars_first (wc_vs c)
  | WPolarsLast => polars_last (wc_vs c)
  | WPolarsNunique => polars_nunique (wc_vs c)
  end.
(* sem_wextend pairs the function's values with the rows of the partition by `combine`, which ignores anything beyond the
   partition's length (shift_right n applied to fewer than n values is longer than its input); a list that is too SHORT fails *)
Definition wcase_ok (c : wcase) : bool := row_close (firstn (List.length (wc_obs c)) (model_vals c)) (wc_obs c).
Definition check_wcases cs : list nat := failing_idx wcase_ok cs.
