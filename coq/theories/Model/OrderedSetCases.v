(* correspondence driver for C24: run the generated OrderedSet code on the operation sequences the
   implementation ran, compare the iteration order *)
From Coq Require Import List Bool ZArith.
Import ListNotations.
From DA Require Import Base.PyRT Base.Cases Gen.G_OrderedSet.

Inductive cop := CAdd (z : Z) | CDiscard (z : Z) | CUpdate (ls : list (list Z)) | CUnion (ls : list (list Z)) | CCopy.
Definition cstep (s : @OrderedSet_t Z) (c : cop) : OrderedSet_t :=
  match c with
  | CAdd z => OrderedSet_add s z
  | CDiscard z => OrderedSet_discard s z
  | CUpdate ls => OrderedSet_update s ls
  | CUnion ls => OrderedSet_union s ls
  | CCopy => OrderedSet_copy s
  end.
Inductive ccase :=
  | KHist (init : option (list Z)) (ops : list cop) (probe : list Z) (expected_iter : list Z) (expected_len : nat)
          (expected_contains : list bool) (le ge lt gt : bool)     (* comparisons against the probe list *)
  | KUnion (a b expected : list Z) | KInter (a b expected : list Z) | KDiff (a b expected : list Z).
Definition lZ_eqb (a b : list Z) : bool := eqb a b.
Definition case_ok (c : ccase) : bool :=
  match c with
  | KHist i ops probe ei el ec le ge lt gt =>
      let s := fold_left cstep ops (OrderedSet___init__ i) in
      lZ_eqb (OrderedSet___iter__ s) ei && Nat.eqb (OrderedSet___len__ s) el
      && eqb (map (OrderedSet___contains__ s) probe) ec
      && Bool.eqb (OrderedSet___le__ s probe) le && Bool.eqb (OrderedSet___ge__ s probe) ge
      && Bool.eqb (OrderedSet___lt__ s probe) lt && Bool.eqb (OrderedSet___gt__ s probe) gt
  | KUnion a b e => lZ_eqb (OrderedSet___iter__ (ordered_union a b)) e
  | KInter a b e => lZ_eqb (OrderedSet___iter__ (ordered_intersect a b)) e
  | KDiff a b e => lZ_eqb (OrderedSet___iter__ (ordered_diff a b)) e
  end.
Definition check_cases (cs : list ccase) : list nat := failing_idx case_ok cs.
