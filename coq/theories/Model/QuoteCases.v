(* correspondence driver for C14: the regenerated quoting functions and value_to_sql on the inputs the implementation was given;
   the concat_rows label model and the record-map token model (Model/RecMapSql.v) against the text the implementation built *)
From Coq Require Import List Bool Arith NArith ZArith String Ascii.
Import ListNotations.
From DA Require Import Base.PyRT Base.Cases Base.PyStr Model.Lex Model.PyVal Gen.G_Quote Gen.G_QuoteMySQL Gen.G_ValueToSql Model.RecMapSql.

Inductive qcase :=
  | QString (q s : string) (observed : string)
  | QIdent (mysql : bool) (q s : string) (observed : option string)
  | QAnno (s : option string) (observed : option string)
  | VSql (q : string) (v : pyval) (observed : string)                         (* value_to_sql(v) *)
  | VLabel (d : dialect) (name : string) (observed : string)                  (* text value_to_sql returned for the concat_rows label *)
  | VRecMap (d : dialect) (rs : recspec) (to_blocks : bool) (observed : option (list string * list string)).
Definition qcase_ok (c : qcase) : bool :=
  match c with
  | QString q s o => eqb (quote_string q s) o
  | QIdent my q s o => eqb (if my then mysql_quote_identifier q s else quote_identifier q s) o
  | QAnno s o => eqb (_clean_annotation s) o
  | VSql q v o => eqb (value_to_sql q v) o
  | VLabel d n o => eqb (concat_label_sql d n) o
  | VRecMap d rs tb o =>
      let p := if tb then emit_r2b rs else emit_b2r rs in
      eqb (match render_lines d (fst p), render_lines d (snd p) with Some a, Some b => Some (a, b) | _, _ => None end) o
  end.
Definition check_cases cs : list nat := failing_idx qcase_ok cs.
