(* correspondence driver for C14: the regenerated quoting functions on the strings the implementation was given *)
From Coq Require Import List Bool Arith NArith String Ascii.
Import ListNotations.
From DA Require Import Base.PyRT Base.Cases Base.PyStr Gen.G_Quote Gen.G_QuoteMySQL.

Inductive qcase :=
  | QString (q s : string) (observed : string)
  | QIdent (mysql : bool) (q s : string) (observed : option string)
  | QAnno (s : option string) (observed : option string).
Definition qcase_ok (c : qcase) : bool :=
  match c with
  | QString q s o => eqb (quote_string q s) o
  | QIdent my q s o => eqb (if my then mysql_quote_identifier q s else quote_identifier q s) o
  | QAnno s o => eqb (_clean_annotation s) o
  end.
Definition check_cases cs : list nat := failing_idx qcase_ok cs.
